#!/bin/bash
# Builds both harness flavours (plain and -race) offline from files on disk.
set -u
cd "$(dirname "$0")"
./run.sh SELFTEST quick || exit 1
VERIF_RACE=1 ./run.sh SELFTEST quick || exit 1
echo setup ok
