#!/bin/bash
# usage: eval_all.sh <slot> "<ID/mK>:<check> <check>..." ...
SLOT=$1; shift
for spec in "$@"; do
  m=${spec%%:*}; checks=${spec#*:}
  id=${m%%/*}; k=${m##*/}
  SEEDS="${SEEDS:-1 2}" /verif/tools/mutant_eval.sh $SLOT /tmp/mut/$id/out/$k/patch.diff quick $checks >> /var/tmp/mev/results/$id-$k.eval.txt 2>&1
  grep -E "^EVAL" /var/tmp/mev/results/$id-$k.eval.txt | tail -n 12 | sed "s#patch=#patch=$id/#" | cut -c1-160
done
