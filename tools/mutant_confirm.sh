#!/bin/bash
# Confirms that a seeded change compiles and that the repository's pinned suite still passes with it
# (guard off), in the scratch worktree of an evaluation slot:   tools/mutant_confirm.sh <slot> <patch.diff>
# Stable tests that do not pass in the full (parallel, loaded-machine) run are re-run package by package
# with -p 1 before being counted as failures. Prints CONFIRM ... suite=pass|FAIL.
set -u
SLOT=$1; PATCH=$2
B=/var/tmp/mev/$SLOT
mkdir -p "$B"
exec 8>"$B/.lock"; flock 8
HEAD=$(git -C /repo rev-parse HEAD)
if [ ! -d "$B/wt" ]; then git -C /repo worktree add --detach "$B/wt" "$HEAD" >/dev/null 2>&1 || exit 2; fi
git -C "$B/wt" checkout -q --detach "$HEAD" && git -C "$B/wt" checkout -q -- . && git -C "$B/wt" clean -fdq
git -C "$B/wt" apply "$PATCH" || { echo "CONFIRM patch=$PATCH apply=FAIL"; exit 2; }
GO=$(cd "$B/wt" && env -u GOTOOLCHAIN -u GOFLAGS go env GOROOT)/bin/go
export GOTOOLCHAIN=local GOFLAGS=-mod=mod GOPROXY=off GOSUMDB=off
if ! (cd "$B/wt" && $GO build ./... > "$B/build.log" 2>&1); then
  echo "CONFIRM patch=$PATCH build=FAIL"; tail -5 "$B/build.log"; git -C "$B/wt" checkout -q -- .; exit 1
fi
BASELINE_REPO=$B/wt BASELINE_OUT=$B/suite.json /verif/tools/baseline.sh > "$B/suite.txt" 2>&1
rc=$?
if [ $rc -ne 0 ]; then
  PK=$(grep NOT-PASS "$B/suite.txt" | awk '{print $2}' | sed 's/::.*//' | sort -u | sed "s#github.com/openfga/openfga#.#")
  head -1 "$B/suite.txt"
  echo "re-running serially: $PK"
  (cd "$B/wt" && $GO test -json -vet=off -count=1 -p 1 -timeout 25m $PK > "$B/suite2.json" 2>/dev/null)
  python3 - "$B/suite.txt" "$B/suite2.json" <<'PY'
import json,sys
want=[l.split()[1] for l in open(sys.argv[1]) if 'NOT-PASS' in l]
res={}
for line in open(sys.argv[2]):
    try: e=json.loads(line)
    except Exception: continue
    if e.get('Test') and e.get('Action') in('pass','fail','skip'): res[e['Package']+'::'+e['Test']]=e['Action']
bad=[t for t in want if res.get(t)!='pass']
for t in bad[:20]: print('  STILL-NOT-PASS',t,res.get(t))
sys.exit(1 if bad else 0)
PY
  rc=$?
fi
git -C "$B/wt" checkout -q -- . && git -C "$B/wt" clean -fdq
if [ $rc -eq 0 ]; then echo "CONFIRM patch=$PATCH build=ok suite=pass"; else echo "CONFIRM patch=$PATCH build=ok suite=FAIL"; fi
exit $rc
