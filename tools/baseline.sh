#!/bin/bash
# Runs the repository's suite with the verif guard OFF and compares with /root/.vp/BASELINE.json:
# prints the stable-pass tests that did not pass. Usage: [BASELINE_REPO=<worktree>] tools/baseline.sh [pkg pattern ...]
set -u
cd "${BASELINE_REPO:-/repo}"
GO=$(env -u GOTOOLCHAIN -u GOFLAGS go env GOROOT)/bin/go
export GOTOOLCHAIN=local GOFLAGS=-mod=mod GOPROXY=off GOSUMDB=off
OUT=${BASELINE_OUT:-/var/tmp/baseline.$$.json}
PKGS=${@:-./...}
$GO test -json -vet=off -count=1 -timeout 25m $PKGS > "$OUT" 2>/var/tmp/baseline.$$.err
python3 - "$OUT" <<'PY'
import json,sys
base=json.load(open('/root/.vp/BASELINE.json'))
stable=set(base['stable_pass'])
res={}
pk=set()
for line in open(sys.argv[1]):
    try: e=json.loads(line)
    except Exception: continue
    if e.get('Test') and e.get('Action') in('pass','fail','skip'):
        res[e['Package']+'::'+e['Test']]=e['Action']
    if e.get('Package'): pk.add(e['Package'])
ran=[t for t in stable if t.split('::')[0] in pk]
bad=[t for t in ran if res.get(t)!='pass']
print(f"stable tests in the packages run: {len(ran)}; passed: {len(ran)-len(bad)}; NOT passed: {len(bad)}")
for t in sorted(bad)[:60]: print("  NOT-PASS", t, res.get(t))
sys.exit(1 if bad else 0)
PY
rc=$?
[ -z "${BASELINE_OUT:-}" ] && rm -f "$OUT" /var/tmp/baseline.$$.err
exit $rc
