#!/usr/bin/env python3
"""Copies confirmed seeded changes from the mutation sandboxes (/tmp/mut/<ID>/out/<mK>) into
/verif/seeded/<ID>-<mK>/ (patch.diff, README.md, demo/) and writes meta.json from the recorded
confirmation (tools/mutant_confirm.sh), demonstration re-runs and evaluation logs
(tools/mutant_eval.sh). Also regenerates seeded/SUMMARY.md (the table quoted in DESIGN.md §11).
Usage: tools/seed_store.py [ID/mK ...]   (default: every sandbox that has a confirmation log)"""
import glob, json, os, re, shutil, sys

RES = '/var/tmp/mev/results'
NOTES = json.load(open('/verif/tools/seeded_notes.json')) if os.path.exists('/verif/tools/seeded_notes.json') else {}
demos = {}
for f in glob.glob('/var/tmp/mev/demo*/results.json'):
    try:
        for r in json.load(open(f)):
            demos[(r['id'], r['m'])] = r
    except Exception:
        pass


def first_para(readme):
    txt = open(readme).read() if os.path.exists(readme) else ''
    lines = [l.strip() for l in txt.splitlines() if l.strip() and not l.startswith('#')]
    return ' '.join(lines[:3])[:600]


def evals(pid, m):
    out = {}
    # later logs override earlier ones: final evaluations are appended to the same file name
    for f in sorted(glob.glob(f'{RES}/{pid}-{m}.eval*.txt'), key=os.path.getmtime):
        for line in open(f, errors='replace'):
            mm = re.match(r'EVAL patch=\S+ check=(C\d+) seed=(\d+) tier=(\w+) exit=(\d+) violations=(\d+)', line)
            if mm:
                out.setdefault(mm.group(1), {})[f'{mm.group(3)}:{mm.group(2)}'] = {'exit': int(mm.group(4)), 'violations': int(mm.group(5))}
    return out


targets = sys.argv[1:]
if not targets:
    for f in sorted(glob.glob(f'{RES}/C*-m*.confirm.txt')):
        b = os.path.basename(f).split('.')[0]
        targets.append(b.replace('-', '/'))
rows = []
for t in targets:
    pid, m = t.split('/')
    src = f'/tmp/mut/{pid}/out/{m}'
    dst = f'/verif/seeded/{pid}-{m}'
    conf = f'{RES}/{pid}-{m}.confirm.txt'
    ctext = open(conf).read() if os.path.exists(conf) else ''
    suite_ok = 'suite=pass' in ctext
    if os.path.isdir(src):
        os.makedirs(dst, exist_ok=True)
        shutil.copy(f'{src}/patch.diff', f'{dst}/patch.diff')
        if os.path.exists(f'{src}/README.md'):
            shutil.copy(f'{src}/README.md', f'{dst}/README.md')
        if os.path.isdir(f'{src}/demo'):
            shutil.rmtree(f'{dst}/demo', ignore_errors=True)
            shutil.copytree(f'{src}/demo', f'{dst}/demo')
    if not os.path.exists(f'{dst}/patch.diff'):
        continue
    files = sorted(set(re.findall(r'^\+\+\+ b/(\S+)', open(f'{dst}/patch.diff').read(), re.M)))
    ev = evals(pid, m)
    caught = sorted(c for c, r in ev.items() if any(x['exit'] == 1 for x in r.values()))
    missed = sorted(c for c, r in ev.items() if not any(x['exit'] == 1 for x in r.values()))
    d = demos.get((pid, m), {})
    note = NOTES.get(f'{pid}/{m}', {})
    meta = {
        'id': f'{pid}-{m}', 'property': pid,
        'source': 'independent sub-agent given only the property record and a scratch worktree of the repository',
        'files_changed': files, 'summary': note.get('summary') or first_para(f'{dst}/README.md'),
        'confirmed': {
            'builds': 'build=ok' in ctext,
            'existing_suite_passes': suite_ok,
            'suite_method': 'tools/mutant_confirm.sh: full pinned suite (guard off) in a scratch worktree vs BASELINE.json; tests not passing in the loaded parallel run re-run serially',
            'demonstration': {'without_patch': d.get('without', 'not re-run'), 'with_patch': d.get('with', 'not re-run'), 'note': d.get('note', '')},
        },
        'evaluation': ev, 'caught_by': caught, 'missed_by': missed,
        'kept': bool(suite_ok and 'build=ok' in ctext),
        'strengthening': note.get('strengthening', ''),
    }
    json.dump(meta, open(f'{dst}/meta.json', 'w'), indent=1)
    rows.append(meta)

# summary over everything stored
allmeta = [json.load(open(f)) for f in sorted(glob.glob('/verif/seeded/*/meta.json'))]
with open('/verif/seeded/SUMMARY.md', 'w') as out:
    out.write('| seeded change | files | caught by (quick tier, seeds caught/run) | not caught by | strengthening done |\n|---|---|---|---|---|\n')
    for mt in allmeta:
        def frac(c):
            r = mt['evaluation'][c]
            return f"{c} {sum(1 for x in r.values() if x['exit'] == 1)}/{len(r)}"
        out.write(f"| {mt['id']}{'' if mt['kept'] else ' (not kept)'} | {', '.join(os.path.basename(f) for f in mt['files_changed'])} | {', '.join(frac(c) for c in mt['caught_by']) or '—'} | {', '.join(mt['missed_by']) or '—'} | {mt['strengthening'] or ''} |\n")
print(f'{len(rows)} stored; {len(allmeta)} in seeded/')
