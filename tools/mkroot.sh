#!/bin/bash
# Creates a private development root (copy of the harness skeleton) for work in isolation:
#   tools/mkroot.sh <dir>   then   VERIF_ROOT=<dir> <dir>/run.sh <ID> quick
set -eu
D=$1
mkdir -p "$D/harness/cmd/vcheck" "$D/harness/checks" "$D/evidence" "$D/replay"
cp /verif/run.sh /verif/known_findings.json "$D/"
cp -r /verif/harness/vk "$D/harness/"
cp -r /verif/harness/gen /verif/harness/ref /verif/harness/drive "$D/harness/"
cp /verif/harness/go.mod "$D/harness/"
cp /verif/harness/cmd/vcheck/main.go "$D/harness/cmd/vcheck/"
echo "$D ready"
