#!/bin/bash
# Runs checks against a seeded change without touching /repo or /verif's evidence:
#   tools/mutant_eval.sh <slot> <patch.diff|-> <tier> <ID> [<ID> ...]     (env SEEDS="1 2", default "1")
# A persistent scratch worktree /var/tmp/mev/<slot>/wt (detached at /repo's HEAD, with /repo's uncommitted
# state NOT copied) gets the patch applied, a private copy of /verif's committed HEAD at /var/tmp/mev/<slot>/root runs the
# checks with VERIF_REPO pointing at the worktree, then the patch is reverted. "-" as patch = unchanged tree.
# Equivalent to `git -C /repo apply`, run, `git -C /repo checkout -- .`, but safe while other jobs build
# against /repo. Remove /var/tmp/mev/<slot> when the campaign is over (tools/mutant_eval.sh <slot> --clean).
set -u
SLOT=$1; PATCH=$2
B=/var/tmp/mev/$SLOT
if [ "$PATCH" = "--clean" ]; then
  git -C /repo worktree remove --force "$B/wt" 2>/dev/null; rm -rf "$B"; git -C /repo worktree prune; exit 0
fi
TIER=$3; shift 3
mkdir -p "$B"
exec 8>"$B/.lock"; flock 8
HEAD=$(git -C /repo rev-parse HEAD)
if [ ! -d "$B/wt" ]; then git -C /repo worktree add --detach "$B/wt" "$HEAD" >/dev/null 2>&1 || exit 2; fi
git -C "$B/wt" checkout -q --detach "$HEAD" && git -C "$B/wt" checkout -q -- . && git -C "$B/wt" clean -fdq
mkdir -p "$B/root"
# the COMMITTED state of /verif (an edit in progress in the working tree must not break a running campaign)
rm -rf "$B/root.new"; mkdir -p "$B/root.new"
git -C /verif archive HEAD | tar -x -C "$B/root.new" --exclude=evidence --exclude=replay --exclude=seeded
rsync -a --delete --exclude /bin --exclude /evidence --exclude /replay "$B/root.new/" "$B/root/"
rm -rf "$B/root.new"
mkdir -p "$B/root/evidence" "$B/root/replay"
if [ "$PATCH" != "-" ]; then
  git -C "$B/wt" apply "$PATCH" || { echo "EVAL-ERROR patch does not apply: $PATCH"; exit 2; }
fi
for ID in "$@"; do
  for S in ${SEEDS:-1}; do
    LOG=$B/$ID-$S.log
    /usr/bin/time -f %e -o "$B/time" env VERIF_ROOT=$B/root VERIF_REPO=$B/wt VERIF_SEED=$S "$B/root/run.sh" "$ID" "$TIER" > "$LOG" 2>&1
    rc=$?
    v=$(grep -c '^VIOLATION property=' "$LOG"); k=$(grep -c '^KNOWN-FINDING' "$LOG")
    echo "EVAL patch=$(basename "$(dirname "$PATCH")")/$(basename "$PATCH") check=$ID seed=$S tier=$TIER exit=$rc violations=$v known=$k secs=$(cat "$B/time")"
    grep -m3 -E '^(VIOLATION|HARNESS-ERROR)' "$LOG" | cut -c1-400
    if [ $rc -eq 1 ]; then
      grep -m1 -A3 -E '^  (what|key)|violation' "$LOG" | cut -c1-600 | head -6
    fi
  done
done
git -C "$B/wt" checkout -q -- . && git -C "$B/wt" clean -fdq
