#!/bin/bash
# Prepares the sandbox of one mutation sub-agent: a scratch worktree of /repo under /tmp/mut/<id>/wt and
# the text of the property in /tmp/mut/<id>/PROPERTY.json. Nothing from /verif besides that text is given.
set -eu
ID=$1
D=/tmp/mut/$ID
mkdir -p "$D/out"
[ -d "$D/wt" ] || git -C /repo worktree add --detach "$D/wt" HEAD >/dev/null 2>&1
python3 - "$ID" "$D/PROPERTY.json" <<'PY'
import json,sys
for l in open('/verif/properties.jsonl'):
    r=json.loads(l)
    if r['id']==sys.argv[1]:
        json.dump(r,open(sys.argv[2],'w'),indent=1)
PY
echo "$D"
