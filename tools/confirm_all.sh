#!/bin/bash
# usage: confirm_all.sh <slot> <ID/mK> ...
SLOT=$1; shift
for m in "$@"; do
  id=${m%%/*}; k=${m##*/}
  /verif/tools/mutant_confirm.sh $SLOT /tmp/mut/$id/out/$k/patch.diff > /var/tmp/mev/results/$id-$k.confirm.txt 2>&1
  tail -1 /var/tmp/mev/results/$id-$k.confirm.txt
done
