# check(id, level, technique, text, note, design)
check("C01", "exploration", "reference-model monitor (independent three-valued least-fixpoint evaluator) over Server.Check answers, every request under forced strategy modes",
      "Every Check answer on seeded models/tuples/contexts over a bounded vocabulary is compared with an independent reference semantics that is first calibrated against the repository's own 1146 YAML expectations; each request runs under the default-only and the fast-strategy planner modes (hook H1). Held on the cases listed in the evidence — not a proof over all models.",
      "Trusted: harness/ref (3-valued Kleene lfp, own tuple validator, template condition evaluator), generator reach (4 types, depth<=3, 3 ids/type), memory backend in quick (sqlite added in thorough). Known findings are matched by executable deviation models, see known_findings.json.",
      "DESIGN.md §5 C01, §3.2")
check("C05", "exploration", "reference-model monitor on ListObjects / StreamedListObjects result sets (soundness, duplicates, completeness, exact count under limit) across three engines",
      "Every sampled ListObjects / StreamedListObjects answer of the classic, weighted (optimizations flag) and pipeline engines (pipeline tuning variants, result limits 1/2/3/none, forced strategy modes, 1ns-deadline truncation) is compared with the reference set computed by the calibrated reference semantics. Held on the explored cases only.",
      "Trusted: harness/ref; generous server deadlines so answers are not deadline-truncated; memory backend. Deviations are attributed to known findings only through executable deviation models.",
      "DESIGN.md §5 C05")
check("C13", "exploration", "differential monitor memory vs sqlite against documentation-derived filter predicates, deviation-model attribution",
      "For ~58k (quick) / 1.4M (thorough) reads over random write histories in small adversarial universes, every answer of both backends must lie in the documented filter band, the backends must agree as multisets, conditions round-trip and sorted results are ordered. Sampled, not exhaustive.",
      "Trusted: storagefilter predicates written from pkg/storage/storage.go doc comments; the store model for ds.Write; sqlite only (postgres/mysql not runnable).",
      "DESIGN.md §5 C13")
check("C14", "exploration", "exactly-once / ordering history checker over paged API walks + token-grammar misuse oracle",
      "Every walk of Read, ReadChanges, ListStores and ReadAuthorizationModels on memory and sqlite (plain and AES-GCM tokens, page sizes 1..100, n up to ~130 quick / 301 thorough) is judged against the driver's own write record: exactly once, documented order, termination; forged / mutated / cross-filter tokens must be rejected and never panic.",
      "Sequential writers except the busy-neighbour scenario; Read order not judged (undocumented); postgres/mysql not run.",
      "DESIGN.md §5 C14")
check("C23", "exploration", "executable slice-level specifications as oracles over the real iterator adapters with single fault/cancel injection at every position; concurrent history checking of shared-iterator clones; -race",
      "Each adapter of pkg/storage and internal/iterator must yield exactly the sequence its documentation defines, surface injected errors/cancellations at the specified place, keep Head non-consuming and stop its inputs; every clone of a shared iterator must see the full underlying sequence (or documented prefix + error) under concurrent, late-joining, stopping and cancelling clones. ~25k cases quick / ~414k thorough.",
      "Inner iterators are contract-abiding fakes; undocumented behaviour (after error, after Stop, unsorted input) not judged; asynchronous stops awaited with a bound (timeout = inconclusive).",
      "DESIGN.md §5 C23")
check("C24", "exploration", "pair oracle (canonical semantic forms) over hook-exposed pre-hash key encodings of the real key builders, plus datastore-answer differential",
      "Across ~1.2M (quick) / 18M (thorough) real key-builder calls on adversarial inputs: equal strict canonical form implies equal encoding, and equal encoding implies equal loose canonical form, for sub-problem, invariant, iterator, edge, invalidation and batch de-dup keys; digest collisions are counted separately.",
      "Trusted: harness canonical forms (from storage docs); hook H4 re-verified with an independent xxhash on every observation; generateCacheKeyFromCheck replicated (unexported).",
      "DESIGN.md §5 C24")
check("C25", "exploration", "differential monitor against an independent template-CEL reference evaluator and type converter, at EvaluateTupleCondition and through Write/Check on both engines",
      "Generated conditions over every parameter type and template crossed with every request/stored context shape (66k quick / 1.6M thorough) must agree with an oracle written without cel-go: merge order (stored wins), missing needed parameter fails, conversion failures fail, CEL semantics.",
      "Oracle covers the template family only; undocumented wire forms and unneeded missing parameters are counted, not judged.",
      "DESIGN.md §5 C25")
check("C27", "exploration", "independent specification oracle over the real authenticators; complete product enumeration of OIDC token dimensions, derived-token fuzzing for pre-shared keys",
      "All 56,700 combinations of signature kind x exp x iat x nbf x aud x iss x sub per configuration (2 quick / 6 thorough configurations + 4 config-boundary runs) are presented to the real RemoteOidcAuthenticator (directly and through middleware/interceptor) and compared with the statement's conjunction; pre-shared keys: 400/20,000 key sets with ~150 derived tokens each, accepted iff byte-equal.",
      "Trusted: Go stdlib crypto/JSON/HTTP, loopback issuer; clock-skew leeway below 1h not observable by construction; nbf and kid-less tokens not judged on the accept side.",
      "DESIGN.md §5 C27")
check("C28", "exploration", "round-trip + systematic single-token mutation of issued tokens against the real encoders and in-process servers (memory, sqlite)",
      "Every generated (position, type) round-trips through both serializers and all encoders; for 10k/40k tokens issued under a key every bit-flip / truncation / extension / alphabet swap / splice / foreign-key / forged variant must be rejected or decode to the identical bytes; same end to end through Read and ReadChanges.",
      "Same-bytes re-encodings (base64 newlines, trailing bits) are counted as malleable-equal, not violations; cross-API tokens under the same key out of scope.",
      "DESIGN.md §5 C28")
check("C29", "exploration", "structured round-trip generation + differential validity check against a documentation-derived three-valued recogniser, with complete enumeration of short strings",
      "All renderer/parser pairs of pkg/tuple must be the identity on 300k/2M generated valid values; validity predicates must agree with the recogniser on every string over a 10-symbol alphabet up to length 5 and a 5-symbol alphabet up to length 7 (complete blocks) and on 1.5M/8M random near-valid strings.",
      "The recogniser judges only where doc comments and property text are unambiguous (silent classes listed in evidence).",
      "DESIGN.md §5 C29")
check("C31", "exploration", "sequential last-writer register model + porcupine linearizability check per (store, model); -race",
      "Every ReadAssertions result is compared verbatim (proto.Equal + wire bytes) with the last list written for that (store, model) over 3x3 pairs on memory and sqlite, including rejected writes changing nothing; 47 (quick) / 444 (thorough) concurrent histories are checked with porcupine against a register model.",
      "Client-boundary observation; failed concurrent writes modelled as pending; porcupine Unknown = inconclusive.",
      "DESIGN.md §5 C31")
check("C22", "exploration", "schedule-steered random and directed concurrent histories over the real queues; porcupine linearizability + conservation + goroutine-dump stuck-state oracle; -race",
      "For ~5.4k (quick) / ~131k (thorough) short programs per seed over mpmc.Queue and mpsc.Accumulator (1-4 producers, 1-3 consumers, capacities 2-8, growth, Close, cancellation, scripted holds at all 10 hook yield points): no history may be non-linearizable against a FIFO-with-close model (per-producer FIFO for mpsc), no item lost or duplicated after close+drain, and no goroutine may stay parked with an item, slot, close or cancel pending (logical stuck-state criterion from goroutine dumps, not wall-clock). Schedules are sampled, not enumerated.",
      "Trusts porcupine, runtime.Stack status reporting and the verifhook yield points; mpsc judged only under its documented Close precondition; Size/Capacity values not judged; watchdog expiry = inconclusive.",
      "DESIGN.md §5 C22")
check("C02", "exploration", "differential monitor: same request under forced strategy modes x tuning lattice x repetition x concurrency, reference model arbitrating; -race",
      "Each sampled Check request of each seeded case is answered under every (server tuning x forced planner strategy mode) combination, repeated and issued from 12-32 concurrent goroutines; all decisions must be equal and ListObjects sets must be equal across the three engines, tuning variants and strategy modes. The evidence counts how often each strategy was actually forced. Held on the explored configurations only.",
      "Strategies are forced through the verif planner hook (H1); generous deadlines so no answer is deadline-truncated; the reference semantics names the wrong side and known findings are matched by deviation models.",
      "DESIGN.md §5 C02")
check("C03", "exploration", "reference-model monitor (object subjects) + differential monitor v1 vs weighted-graph engine with the breaking-change detector's log as required explanation (userset / wildcard subjects)",
      "Every request of the C01 request space is sent to a weighted_graph_check server (v2 strategies forced in turn, fallback observed through the captured server log) and to a v1 server on the same datastore. Object subjects must satisfy the C01 acceptance relation; for wildcard/userset subjects a decision differing from v1 must come with the detector's warning. Several genuine defects of the weighted-graph engine are listed as known findings with firing conditions.",
      "Observed at the server path (v2 + fallback); raw v2 errors seen through the fallback warning; reference semantics harness/ref.",
      "DESIGN.md §5 C03")
check("C04", "exploration", "differential monitor (tuple set split stored/contextual vs fully stored) + cache-leak history monitor + datastore persistence monitor, reference model arbitrating",
      "For each seeded case the model-valid tuple set X is split X = S + C; answers of Check, BatchCheck, ListObjects (3 engines), ListUsers and Expand with S stored and C contextual must equal those with all of X stored; on servers with every cache enabled (v1+pipeline, and weighted_graph_check) a history interleaving requests with contextual sets C, halves of C and none must match the reference for its own set; afterwards the store must hold exactly S.",
      "Reference semantics harness/ref; Expand trees compared modulo order of leaf users and tuple-to-userset computed entries; memory backend.",
      "DESIGN.md §5 C04")
check("C06", "exploration", "reference-model monitor on ListUsers result sets (filter match, duplicates, per-entry Check value, completeness)",
      "For every object, relation and user filter (object types and every userset type#relation) of each seeded case the ListUsers answer is compared with the reference: entries match the filter, appear once, hold the relation as individual Check subjects; without limit every concrete K=T user is returned or covered by a returned wildcard; with a result limit only soundness and the bound.",
      "Reference semantics harness/ref; answers that took >=80% of the (1.5 s) ListUsers deadline are judged for soundness only; memory backend.",
      "DESIGN.md §5 C06")
check("C12", "fault_enumeration", "sequential-model differential over Write histories; driver-level error / lost-connection / SIGKILL injection at every statement boundary of the sqlite write transaction; concurrent group and marker conservation monitor under -race",
      "For every enumerated transaction shape (6 quick / 40 thorough, incl. a multi-batch shape) a statement error, a lost connection or a process kill at every driver call leaves the reopened sqlite file in exactly the pre-state or the post-state; on_duplicate / on_missing semantics match a sequential model on thousands of random histories on memory and sqlite; no torn group or request is visible to single-statement reads under concurrent writers.",
      "sqlite's own transactional correctness trusted; lost connection modelled as connection close, failed COMMIT as abort; SQLITE_BUSY on COMMIT, OS I/O errors, power loss and postgres/mysql not covered; shapes are a sample.",
      "DESIGN.md §5 C12")
check("C15", "exploration", "conservation / replay oracle over recorded write histories; paginated, type-filtered and descending ReadChanges walks against a sequential model; bracketed horizon judgement; one forced two-writer schedule",
      "On random sequential histories (120 quick / 3000 thorough) on memory and sqlite every ReadChanges walk replays to the current store, has exactly one entry per effective write or delete, its descending walk is the reverse of the ascending one, and the horizon withholds exactly the entries certainly younger than it.",
      "100 ms horizon margin and a clock that is not stepped; histories sequential except the forced schedule.",
      "DESIGN.md §5 C15")
check("C07", "exploration", "differential monitor BatchCheck item vs standalone Check per correlation id, with engineered near-duplicate items; -race",
      "Batches of up to 50 items from each seeded case's request space, padded with near-duplicates differing only in a context value, context key order, contextual tuple order / membership, or a contextual tuple's condition context, are sent to servers with batch concurrency 1 and 50, query cache on, and the weighted-graph engine; every correlation id must get exactly one outcome, equal to a standalone Check with the same inputs.",
      "Standalone Check on the same server is the comparison; the reference semantics arbitrates and classifies differences.",
      "DESIGN.md §5 C07")
check("C30", "exploration", "reference-tree monitor: Expand output vs a tree built independently from the model's rewrite and the valid tuples",
      "For every object#relation of every seeded case (contextual tuples, left-over invalid tuples) the Expand tree must have the rewrite's operator skeleton in operand order, node names object#relation, computed and tuple-to-userset leaves naming the right usersets, and direct-assignment leaves listing exactly the users of the valid stored and contextual tuples, sorted and duplicate-free.",
      "Tuple validity by harness/ref's validator; tuple-to-userset computed entries compared as a set (their order follows tuple read order).",
      "DESIGN.md §5 C30")
check("C32", "exploration", "differential monitor AuthZEN endpoint vs native API on the same server",
      "Evaluation vs Check, Evaluations (execute_all / deny_on_first_deny / permit_on_first_permit, including where short-circuiting must stop) vs Checks item by item, SubjectSearch vs ListUsers and ResourceSearch vs StreamedListObjects, over each seeded case's request space with object and typed-wildcard subjects and merged subject properties.",
      "The native API of the same server is the oracle (C01/C05/C06 judge the native API itself).",
      "DESIGN.md §5 C32")
check("C08", "exploration", "history monitor: request histories on query-cache servers vs reference model and uncached twin, with an observing cache proving hits",
      "For each seeded case a history (every sampled request 3 times, shuffled differently per server; Check, BatchCheck, ListObjects; contexts, contextual tuples, explicit/implicit model ids, forced strategy modes) runs against an unchanged store on four query-cache servers (v1, v1 breadth 1, weighted-graph, v1+pipeline); every answer must satisfy the C01 acceptance relation and equal the uncached twin; the run is inconclusive unless the counting cache wrapper saw check_response hits.",
      "Reference semantics harness/ref; the injected cache is the real theine cache behind a counting wrapper.",
      "DESIGN.md §5 C08")
check("C10", "exploration", "history monitor: write / cache-warming / HIGHER_CONSISTENCY request histories on all 32 cache-flag combinations x 2 engines, reference model on the state at call time",
      "On each of the 64 configurations histories alternate default-consistency requests (warming every cache), one Write/Delete, and HIGHER_CONSISTENCY Check / BatchCheck / ListObjects / ListUsers; each higher-consistency answer must equal the reference on the driver-known state at call time. An uncached twin of the same engine separates engine deviations from staleness.",
      "Writes and requests serialised by the driver; reference semantics harness/ref.",
      "DESIGN.md §5 C10")
check("C16", "exploration", "interleaved multi-store history monitor with per-store reference models on all-cache servers (memory v1+pipeline, memory weighted-graph, sqlite); -race",
      "Groups of 4 stores filled from different seeded cases that share every name are queried store by store (Check, ListObjects, Read, ReadChanges, models, assertions, foreign model ids) before and after writes to single stores and after deleting one store; every answer must match the reference / the driver's record for that store alone, deleted stores must vanish from GetStore and ListStores.",
      "After a store is written its default-consistency cached answers are not judged (staleness is C10/C11's subject); changelog multiplicity is C14/C15's subject.",
      "DESIGN.md §5 C16")
check("C20", "exploration", "termination watchdog (deadline + slack, confirmed in isolation) + goroutine census by stack signature and iterator open/stop balance at quiescence over an observing datastore; -race",
      "Check, BatchCheck, ListObjects, StreamedListObjects, ListUsers and Expand run on tuple cycles of length 50, fan-out 300/1000 and seeded generated cases with client deadlines 5-200 ms, client cancellation, and injected datastore latency, on v1 / weighted-graph / classic / pipeline / optimized engines with and without iterator caches; every call must return before deadline + 5 s (an overrun must reproduce 3x), and at quiescence after each batch no goroutine with openfga frames beyond the pre-batch census may remain and every opened tuple iterator must have been stopped.",
      "Wall-clock only in watchdogs; goroutine identity = first three openfga frames; bounded restatement of 'no hang' (finite runs).",
      "DESIGN.md §5 C20")
check("C21", "exploration", "online trace monitor over cycle-group hook events with seeded yield injection at the group's suspension points; termination watchdog confirmed by goroutine dump; output vs reference set; -race",
      "ListObjects runs on the streaming pipeline (4 tunings) over directed models with cycle groups of 1-4 members (recursive userset / TTU chains of length 3-14 closed into tuple cycles, mutual recursion, mixed cycles) and generated cases, repeated under seeded yields; per status pool the monitor checks: in-flight count never negative, reaches zero at most once, never incremented from zero after the first join, quiescence latch only after every member signalled ready, no cleanup before quiescence, every member cleans up exactly once; the request must return and its output must equal the reference set. Evidence reports distinct event-order signatures observed; interleavings are sampled, not enumerated.",
      "Invariants chosen to be sound under the hooks' emission points; hang = no return 25 s after the 5 s deadline AND goroutines parked in the cycle wait / DrainSender in the dump.",
      "DESIGN.md §5 C21")
check("C09", "exploration", "fault-injection history monitor: client deadlines / cancellations landing inside delayed datastore reads on iterator-cache servers, then reference-model judgement of every completed answer; counting cache and datastore wrappers; -race",
      "Per seeded case and server (v1 iterator caches + shared iterators, max cached result size 3, weighted-graph cached reader, sqlite with context propagation) a fault phase issues the sampled Check / ListObjects requests concurrently with 1-8 ms client deadlines while the observing datastore delays every iterator step; afterwards every request is issued twice without faults and must satisfy the C01 acceptance relation, so a partially read result served later as complete is visible as a wrong answer.",
      "Faults are injected at the datastore boundary, not at arbitrary instructions; reference semantics harness/ref.",
      "DESIGN.md §5 C09")
check("C11", "exploration", "offline/online history checker over cache-controller hook events on a logical clock + reference model on the state after the write",
      "On servers with the cache controller plus exactly one of {query cache, check iterator cache}: warm requests, a write (1-2 deletes, sometimes 60 extra changes = more than one changelog page), a second group of requests sharing sub-problems issued while invalidation is pending, then — once a run that STARTED after the write's acknowledgement has ENDED (hook H5) — every request again; after that point answers must equal the reference on the current state.",
      "5 ms pacing sleeps keep datastore timestamps ordered like logical events (the oracle uses event order only); reference semantics harness/ref.",
      "DESIGN.md §5 C11")
