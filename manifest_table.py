# check(id, level, technique, text, note, design)
check("C01", "exploration", "reference-model monitor (independent three-valued least-fixpoint evaluator) over Server.Check answers, every request under forced strategy modes",
      "Every Check answer on seeded models/tuples/contexts over a bounded vocabulary is compared with an independent reference semantics that is first calibrated against the repository's own 1146 YAML expectations; each request runs under the default-only and the fast-strategy planner modes (hook H1). Held on the cases listed in the evidence — not a proof over all models.",
      "Trusted: harness/ref (3-valued Kleene lfp, own tuple validator, template condition evaluator), generator reach (4 types, depth<=3, 3 ids/type), memory backend in quick (sqlite added in thorough). Known findings are matched by executable deviation models, see known_findings.json.",
      "DESIGN.md §5 C01, §3.2")
