# check(id, level, technique, text, note, design)
