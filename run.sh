#!/bin/bash
# Entry point of every quick_cmd / thorough_cmd:  ./run.sh <Cxx> <quick|thorough> [--replay file]
# Rebuilds the harness against /repo's current working tree (build tag "verif"), runs the check in a
# child process under a watchdog, post-processes race-detector logs, and relays the exit status:
#   0 = property held on everything explored, 1 = VIOLATION line printed, 2 = harness error.
set -u
VERIF=${VERIF_ROOT:-$(cd "$(dirname "$0")" && pwd)}
REPO=${VERIF_REPO:-/repo}
ID=${1:?usage: run.sh <Cxx> <quick|thorough> [--replay file]}
TIER=${2:-${VERIF_TIER:-quick}}
shift; [ $# -gt 0 ] && shift
if [ -z "${VERIF_GO:-}" ]; then
  # the repository's own toolchain (go.mod: toolchain / go directive), taken straight from the module
  # cache when it is there: asking the bootstrap `go` to switch fails under GOSUMDB=off
  want=$(awk '$1=="toolchain"{print $2}' "$REPO/go.mod" | head -1)
  [ -n "$want" ] || want=go$(awk '$1=="go"{print $2}' "$REPO/go.mod" | head -1)
  VERIF_GO=$(ls -d "$(env -u GOFLAGS go env GOMODCACHE 2>/dev/null || echo /root/go/pkg/mod)/golang.org/toolchain@v0.0.1-$want.linux-amd64/bin/go" 2>/dev/null | head -1)
  if [ ! -x "${VERIF_GO:-}" ]; then
    VERIF_GO=$(cd "$REPO" && env -u GOTOOLCHAIN -u GOFLAGS -u GOSUMDB -u GONOSUMDB -u GONOSUMCHECK GOFLAGS=-mod=mod go env GOROOT 2>/dev/null)/bin/go
  fi
  [ -x "$VERIF_GO" ] || VERIF_GO=$(ls -d /root/go/pkg/mod/golang.org/toolchain@v0.0.1-go1.26.5.linux-amd64/bin/go 2>/dev/null)
fi
export VERIF_GO
export GOTOOLCHAIN=local GOFLAGS=-mod=mod GOPROXY=off GOSUMDB=off GONOSUMDB='*' GONOSUMCHECK=1 GOFLAGS=-mod=mod
export VERIF_ROOT=$VERIF VERIF_REPO=$REPO VERIF_TIER=$TIER VERIF_SEED=${VERIF_SEED:-1}

RACE_IDS=" C02 C05 C07 C09 C12 C16 C17 C20 C21 C22 C23 C31 "
FLAVOUR=plain; RACEFLAG=""
case "$RACE_IDS" in *" $ID "*) FLAVOUR=race; RACEFLAG="-race";; esac
[ "${VERIF_NORACE:-}" = 1 ] && { FLAVOUR=plain; RACEFLAG=""; }
[ "${VERIF_RACE:-}" = 1 ] && { FLAVOUR=race; RACEFLAG="-race"; }

mkdir -p "$VERIF/bin" "$VERIF/evidence" "$VERIF/replay"
SCRATCH=$(mktemp -d /var/tmp/verif-$ID-XXXXXX) || exit 2
export VERIF_SCRATCH=$SCRATCH
trap 'rm -rf "$SCRATCH"' EXIT

BIN=$VERIF/bin/vcheck-$FLAVOUR
(
  flock 9
  cd "$VERIF/harness" || exit 2
  if ! grep -q "=> $REPO\$" go.mod; then
    sed -i "s#^replace github.com/openfga/openfga => .*#replace github.com/openfga/openfga => $REPO#" go.mod
  fi
  cp "$REPO/go.sum" go.sum
  cat "$VERIF/harness/go.sum.extra" >> go.sum 2>/dev/null
  "$VERIF_GO" build -tags verif $RACEFLAG -o "$BIN.$$" ./cmd/vcheck > "$SCRATCH/build.log" 2>&1
  rc=$?
  if [ $rc -ne 0 ]; then
    # seen rarely right after files of the repository changed while another build was running: retry once
    cp "$SCRATCH/build.log" "$VERIF/bin/last-failed-build.log" 2>/dev/null
    sleep 2
    "$VERIF_GO" build -tags verif $RACEFLAG -o "$BIN.$$" ./cmd/vcheck > "$SCRATCH/build.log" 2>&1
    rc=$?
  fi
  if [ $rc -ne 0 ]; then
    cat "$SCRATCH/build.log"
    echo "HARNESS-ERROR property=$ID build of harness against $REPO failed"
    rm -f "$BIN.$$"
    exit 2
  fi
  mv -f "$BIN.$$" "$BIN"
) 9>"$VERIF/bin/.build.lock" || exit 2

if [ "$TIER" = thorough ]; then WATCHDOG=${VERIF_WATCHDOG:-5400}; else WATCHDOG=${VERIF_WATCHDOG:-1500}; fi
export GORACE="halt_on_error=0 log_path=$SCRATCH/race history_size=4"
OUT=$SCRATCH/out.log
timeout -s QUIT -k 20 "$WATCHDOG" "$BIN" "$ID" "$TIER" "$@" > "$OUT" 2>&1
rc=$?
# relay output (bounded: goroutine dumps can be huge)
head -c 400000 "$OUT"
if [ $rc -eq 124 ] || [ $rc -eq 137 ]; then
  echo "HARNESS-ERROR property=$ID watchdog ($WATCHDOG s) fired: run is inconclusive"
  exit 2
fi
# race-detector reports: attributed by the check itself when it scans $SCRATCH/race.* (vk.RaceScan);
# if the process died before doing so, report here as harness error.
if [ $rc -ne 0 ] && [ $rc -ne 1 ]; then
  if ! grep -q '^VIOLATION property=' "$OUT"; then
    mkdir -p "$VERIF/replay"
    cp "$OUT" "$VERIF/replay/$ID-crash-seed$VERIF_SEED.log" 2>/dev/null
    echo "HARNESS-ERROR property=$ID check process exited with status $rc (log: $VERIF/replay/$ID-crash-seed$VERIF_SEED.log)"
    exit 2
  fi
  exit 1
fi
if grep -q '^VIOLATION property=' "$OUT"; then exit 1; fi
exit $rc
