// Command vcheck runs one property check: vcheck <ID> <quick|thorough> [--replay file].
package main

import "github.com/openfga/openfga/verifharness/vk"

func main() { vk.Main() }
