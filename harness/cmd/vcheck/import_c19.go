package main

import _ "github.com/openfga/openfga/verifharness/checks/c19"
