module github.com/openfga/openfga/verifharness

go 1.25.7

require (
	github.com/anishathalye/porcupine v1.3.0
	github.com/openfga/openfga v0.0.0
)

replace github.com/openfga/openfga => /repo
