package ref

import (
	"fmt"
	"math"
	"strconv"
	"strings"
	"unicode"

	openfgav1 "github.com/openfga/api/proto/openfga/v1"
	"google.golang.org/protobuf/types/known/structpb"
)

// TemplateCondEval is the reference evaluator for the generated condition family: boolean
// combinations (&&, ||, !, parentheses) of comparisons (== != < <= > >=) between parameters and
// int / string / bool literals, over parameters of declared type int, string or bool.
//
// A condition yields T/F exactly when every declared parameter is present in the merged context and
// has a value of its declared type (int: an integral JSON number; string: a JSON string; bool: a JSON
// bool); otherwise E (evaluation fails). The generator only produces values that are unambiguously
// well-typed or unambiguously ill-typed under this rule.
func TemplateCondEval(m *Model, name string, merged map[string]*structpb.Value) Tri {
	c := m.Conds[name]
	if c == nil {
		return E
	}
	env := map[string]any{}
	for p, pt := range c.GetParameters() {
		v, ok := merged[p]
		if !ok || v == nil {
			return E
		}
		switch pt.GetTypeName() {
		case openfgav1.ConditionParamTypeRef_TYPE_NAME_INT:
			n, ok := v.GetKind().(*structpb.Value_NumberValue)
			if !ok || n.NumberValue != math.Trunc(n.NumberValue) || math.Abs(n.NumberValue) > 1e9 {
				return E
			}
			env[p] = int64(n.NumberValue)
		case openfgav1.ConditionParamTypeRef_TYPE_NAME_STRING:
			s, ok := v.GetKind().(*structpb.Value_StringValue)
			if !ok {
				return E
			}
			env[p] = s.StringValue
		case openfgav1.ConditionParamTypeRef_TYPE_NAME_BOOL:
			b, ok := v.GetKind().(*structpb.Value_BoolValue)
			if !ok {
				return E
			}
			env[p] = b.BoolValue
		default:
			return E // outside the template family
		}
	}
	p := &condParser{src: c.GetExpression(), env: env}
	v, err := p.parseOr()
	p.skip()
	if err != nil || p.pos != len(p.src) {
		panic(fmt.Sprintf("ref: condition %q outside the template family: %q (%v)", name, c.GetExpression(), err))
	}
	b, ok := v.(bool)
	if !ok {
		panic(fmt.Sprintf("ref: condition %q is not boolean", name))
	}
	if b {
		return T
	}
	return F
}

type condParser struct {
	src string
	pos int
	env map[string]any
}

func (p *condParser) skip() {
	for p.pos < len(p.src) && (p.src[p.pos] == ' ' || p.src[p.pos] == '\n' || p.src[p.pos] == '\t') {
		p.pos++
	}
}

func (p *condParser) eat(tok string) bool {
	p.skip()
	if strings.HasPrefix(p.src[p.pos:], tok) {
		p.pos += len(tok)
		return true
	}
	return false
}

func (p *condParser) parseOr() (any, error) {
	l, err := p.parseAnd()
	if err != nil {
		return nil, err
	}
	for p.eat("||") {
		r, err := p.parseAnd()
		if err != nil {
			return nil, err
		}
		lb, ok1 := l.(bool)
		rb, ok2 := r.(bool)
		if !ok1 || !ok2 {
			return nil, fmt.Errorf("|| on non-bool")
		}
		l = lb || rb
	}
	return l, nil
}

func (p *condParser) parseAnd() (any, error) {
	l, err := p.parseCmp()
	if err != nil {
		return nil, err
	}
	for p.eat("&&") {
		r, err := p.parseCmp()
		if err != nil {
			return nil, err
		}
		lb, ok1 := l.(bool)
		rb, ok2 := r.(bool)
		if !ok1 || !ok2 {
			return nil, fmt.Errorf("&& on non-bool")
		}
		l = lb && rb
	}
	return l, nil
}

func (p *condParser) parseCmp() (any, error) {
	l, err := p.parseUnary()
	if err != nil {
		return nil, err
	}
	for _, op := range []string{"==", "!=", "<=", ">=", "<", ">"} {
		p.skip()
		if strings.HasPrefix(p.src[p.pos:], op) {
			p.pos += len(op)
			r, err := p.parseUnary()
			if err != nil {
				return nil, err
			}
			return compare(op, l, r)
		}
	}
	return l, nil
}

func compare(op string, l, r any) (any, error) {
	switch a := l.(type) {
	case int64:
		b, ok := r.(int64)
		if !ok {
			return nil, fmt.Errorf("type mismatch")
		}
		switch op {
		case "==":
			return a == b, nil
		case "!=":
			return a != b, nil
		case "<":
			return a < b, nil
		case "<=":
			return a <= b, nil
		case ">":
			return a > b, nil
		case ">=":
			return a >= b, nil
		}
	case string:
		b, ok := r.(string)
		if !ok {
			return nil, fmt.Errorf("type mismatch")
		}
		switch op {
		case "==":
			return a == b, nil
		case "!=":
			return a != b, nil
		case "<":
			return a < b, nil
		case "<=":
			return a <= b, nil
		case ">":
			return a > b, nil
		case ">=":
			return a >= b, nil
		}
	case bool:
		b, ok := r.(bool)
		if !ok {
			return nil, fmt.Errorf("type mismatch")
		}
		switch op {
		case "==":
			return a == b, nil
		case "!=":
			return a != b, nil
		}
	}
	return nil, fmt.Errorf("unsupported comparison")
}

func (p *condParser) parseUnary() (any, error) {
	p.skip()
	if p.pos < len(p.src) && p.src[p.pos] == '!' && !strings.HasPrefix(p.src[p.pos:], "!=") {
		p.pos++
		v, err := p.parseUnary()
		if err != nil {
			return nil, err
		}
		b, ok := v.(bool)
		if !ok {
			return nil, fmt.Errorf("! on non-bool")
		}
		return !b, nil
	}
	if p.eat("(") {
		v, err := p.parseOr()
		if err != nil {
			return nil, err
		}
		if !p.eat(")") {
			return nil, fmt.Errorf("missing )")
		}
		return v, nil
	}
	p.skip()
	if p.pos >= len(p.src) {
		return nil, fmt.Errorf("unexpected end")
	}
	ch := rune(p.src[p.pos])
	switch {
	case ch == '"' || ch == '\'':
		end := strings.IndexByte(p.src[p.pos+1:], byte(ch))
		if end < 0 {
			return nil, fmt.Errorf("unterminated string")
		}
		s := p.src[p.pos+1 : p.pos+1+end]
		p.pos += end + 2
		return s, nil
	case unicode.IsDigit(ch) || ch == '-':
		start := p.pos
		p.pos++
		for p.pos < len(p.src) && unicode.IsDigit(rune(p.src[p.pos])) {
			p.pos++
		}
		n, err := strconv.ParseInt(p.src[start:p.pos], 10, 64)
		return n, err
	case unicode.IsLetter(ch) || ch == '_':
		start := p.pos
		for p.pos < len(p.src) && (unicode.IsLetter(rune(p.src[p.pos])) || unicode.IsDigit(rune(p.src[p.pos])) || p.src[p.pos] == '_') {
			p.pos++
		}
		id := p.src[start:p.pos]
		switch id {
		case "true":
			return true, nil
		case "false":
			return false, nil
		}
		v, ok := p.env[id]
		if !ok {
			return nil, fmt.Errorf("unknown identifier %q", id)
		}
		return v, nil
	}
	return nil, fmt.Errorf("unexpected %q", ch)
}
