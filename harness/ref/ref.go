// Package ref is the independent reference semantics of OpenFGA relationship evaluation used as the
// oracle of the semantic checks. It imports only the generated protobuf types — never the code
// under test. For a model, a tuple set (stored ∪ contextual), a request context and a subject it
// computes the three-valued (True / False / Err) least-fixpoint membership K(object#relation, subject)
// with strong Kleene logic, relation-level stratification for exclusion, its own tuple validator
// and a pluggable condition evaluator.
package ref

import (
	"fmt"
	"sort"
	"strings"

	openfgav1 "github.com/openfga/api/proto/openfga/v1"
	"google.golang.org/protobuf/types/known/structpb"
)

// Tri is a strong-Kleene truth value.
type Tri int8

const (
	F Tri = iota // false
	E            // unknown: depends on a condition that cannot be evaluated
	T            // true
)

func (t Tri) String() string { return [...]string{"F", "E", "T"}[t] }

func and(a, b Tri) Tri {
	if a < b {
		return a
	}
	return b
}
func or(a, b Tri) Tri {
	if a > b {
		return a
	}
	return b
}
func not(a Tri) Tri { return T - a }

// CondEval evaluates condition `name` of the model over the merged context (request context
// overlaid by the tuple's stored context — stored wins).
type CondEval func(m *Model, name string, merged map[string]*structpb.Value) Tri

// Model is an indexed authorization model.
type Model struct {
	Proto      *openfgav1.AuthorizationModel
	Types      map[string]*openfgav1.TypeDefinition
	Conds      map[string]*openfgav1.Condition
	CondEval   CondEval
	order      [][]string     // SCCs of type#relation, dependencies first
	sccOf      map[string]int // type#relation -> index in order
	Stratified bool
	tuplesets  map[string]bool // type#relation used as a tupleset
	frozen     bool            // set once NewModel is done: no method writes to the model afterwards
}

// RelKey renders type#relation.
func RelKey(typ, rel string) string { return typ + "#" + rel }

// NewModel indexes a model and computes its stratification.
func NewModel(p *openfgav1.AuthorizationModel, ce CondEval) *Model {
	m := &Model{Proto: p, Types: map[string]*openfgav1.TypeDefinition{}, Conds: p.GetConditions(), CondEval: ce, tuplesets: map[string]bool{}}
	if m.Conds == nil {
		m.Conds = map[string]*openfgav1.Condition{}
	}
	for _, td := range p.GetTypeDefinitions() {
		m.Types[td.GetType()] = td
	}
	m.stratify()
	m.frozen = true
	return m
}

// Rewrite returns the rewrite of type#relation, or nil.
func (m *Model) Rewrite(typ, rel string) *openfgav1.Userset {
	td := m.Types[typ]
	if td == nil {
		return nil
	}
	return td.GetRelations()[rel]
}

// Restrictions returns the directly related user types of type#relation.
func (m *Model) Restrictions(typ, rel string) []*openfgav1.RelationReference {
	td := m.Types[typ]
	if td == nil {
		return nil
	}
	return td.GetMetadata().GetRelations()[rel].GetDirectlyRelatedUserTypes()
}

// ReachesRecursion reports whether the relation-level dependency graph, starting at typ#rel, reaches
// a relation that depends on itself (directly or through other relations).
func (m *Model) ReachesRecursion(typ, rel string) bool {
	seen := map[string]bool{}
	var walk func(k string) bool
	walk = func(k string) bool {
		if seen[k] {
			return false
		}
		seen[k] = true
		i := strings.Index(k, "#")
		t, r := k[:i], k[i+1:]
		us := m.Rewrite(t, r)
		if us == nil {
			return false
		}
		var es []depEdge
		m.deps(t, us, false, &es, r)
		for _, e := range es {
			if e.to == k {
				return true
			}
			if si, ok := m.sccOf[e.to]; ok && len(m.order[si]) > 1 {
				return true
			}
			if walk(e.to) {
				return true
			}
		}
		return false
	}
	if si, ok := m.sccOf[RelKey(typ, rel)]; ok && len(m.order[si]) > 1 {
		return true
	}
	return walk(RelKey(typ, rel))
}

// ReachesExclusion reports whether evaluating typ#rel can involve an exclusion: typ#rel or some
// relation reachable from it in the relation dependency graph has a difference in its rewrite.
func (m *Model) ReachesExclusion(typ, rel string) bool {
	seen := map[string]bool{}
	var hasDiff func(us *openfgav1.Userset) bool
	hasDiff = func(us *openfgav1.Userset) bool {
		switch u := us.GetUserset().(type) {
		case *openfgav1.Userset_Difference:
			return true
		case *openfgav1.Userset_Union:
			for _, c := range u.Union.GetChild() {
				if hasDiff(c) {
					return true
				}
			}
		case *openfgav1.Userset_Intersection:
			for _, c := range u.Intersection.GetChild() {
				if hasDiff(c) {
					return true
				}
			}
		}
		return false
	}
	var walk func(k string) bool
	walk = func(k string) bool {
		if seen[k] {
			return false
		}
		seen[k] = true
		i := strings.Index(k, "#")
		t, r := k[:i], k[i+1:]
		us := m.Rewrite(t, r)
		if us == nil {
			return false
		}
		if hasDiff(us) {
			return true
		}
		var es []depEdge
		m.deps(t, us, false, &es, r)
		for _, e := range es {
			if walk(e.to) {
				return true
			}
		}
		return false
	}
	return walk(RelKey(typ, rel))
}

// ReachesDirectAndComputedSame reports whether typ#rel, or a relation reachable from it, has both a
// computed userset x and a direct type restriction T#x on its own type T (two edges to one node).
func (m *Model) ReachesDirectAndComputedSame(typ, rel string) bool {
	seen := map[string]bool{}
	var computedOf func(us *openfgav1.Userset, out map[string]bool)
	computedOf = func(us *openfgav1.Userset, out map[string]bool) {
		switch u := us.GetUserset().(type) {
		case *openfgav1.Userset_ComputedUserset:
			out[u.ComputedUserset.GetRelation()] = true
		case *openfgav1.Userset_Union:
			for _, c := range u.Union.GetChild() {
				computedOf(c, out)
			}
		case *openfgav1.Userset_Intersection:
			for _, c := range u.Intersection.GetChild() {
				computedOf(c, out)
			}
		case *openfgav1.Userset_Difference:
			computedOf(u.Difference.GetBase(), out)
			computedOf(u.Difference.GetSubtract(), out)
		}
	}
	var walk func(k string) bool
	walk = func(k string) bool {
		if seen[k] {
			return false
		}
		seen[k] = true
		i := strings.Index(k, "#")
		t, r := k[:i], k[i+1:]
		us := m.Rewrite(t, r)
		if us == nil {
			return false
		}
		cs := map[string]bool{}
		computedOf(us, cs)
		for _, rr := range m.Restrictions(t, r) {
			if rr.GetType() == t && rr.GetRelation() != "" && cs[rr.GetRelation()] {
				return true
			}
		}
		var es []depEdge
		m.deps(t, us, false, &es, r)
		for _, e := range es {
			if walk(e.to) {
				return true
			}
		}
		return false
	}
	return walk(RelKey(typ, rel))
}

// IsTupleset reports whether type#relation is used as the tupleset of some tuple-to-userset rewrite.
func (m *Model) IsTupleset(typ, rel string) bool { return m.tuplesets[RelKey(typ, rel)] }

// RelationNames returns the sorted relation names of a type.
func (m *Model) RelationNames(typ string) []string {
	td := m.Types[typ]
	if td == nil {
		return nil
	}
	var out []string
	for r := range td.GetRelations() {
		out = append(out, r)
	}
	sort.Strings(out)
	return out
}

// TypeNames returns the sorted type names.
func (m *Model) TypeNames() []string {
	var out []string
	for t := range m.Types {
		out = append(out, t)
	}
	sort.Strings(out)
	return out
}

type depEdge struct {
	to  string
	neg bool
}

func (m *Model) deps(typ string, us *openfgav1.Userset, neg bool, out *[]depEdge, rel string) {
	switch u := us.GetUserset().(type) {
	case *openfgav1.Userset_This:
		for _, rr := range m.Restrictions(typ, rel) {
			if rr.GetRelation() != "" {
				*out = append(*out, depEdge{RelKey(rr.GetType(), rr.GetRelation()), neg})
			}
		}
	case *openfgav1.Userset_ComputedUserset:
		*out = append(*out, depEdge{RelKey(typ, u.ComputedUserset.GetRelation()), neg})
	case *openfgav1.Userset_TupleToUserset:
		ts := u.TupleToUserset.GetTupleset().GetRelation()
		cr := u.TupleToUserset.GetComputedUserset().GetRelation()
		if !m.frozen { // filled while NewModel stratifies; read-only afterwards (models are shared by goroutines)
			m.tuplesets[RelKey(typ, ts)] = true
		}
		for _, rr := range m.Restrictions(typ, ts) {
			if rr.GetRelation() == "" && rr.GetWildcard() == nil {
				if m.Rewrite(rr.GetType(), cr) != nil {
					*out = append(*out, depEdge{RelKey(rr.GetType(), cr), neg})
				}
			}
		}
	case *openfgav1.Userset_Union:
		for _, c := range u.Union.GetChild() {
			m.deps(typ, c, neg, out, rel)
		}
	case *openfgav1.Userset_Intersection:
		for _, c := range u.Intersection.GetChild() {
			m.deps(typ, c, neg, out, rel)
		}
	case *openfgav1.Userset_Difference:
		m.deps(typ, u.Difference.GetBase(), neg, out, rel)
		m.deps(typ, u.Difference.GetSubtract(), true, out, rel)
	}
}

// stratify computes the SCCs of the relation dependency graph (Tarjan) in dependency-first order
// and whether any negated edge stays inside an SCC (negation through recursion).
func (m *Model) stratify() {
	graph := map[string][]depEdge{}
	var nodes []string
	for _, t := range m.TypeNames() {
		for _, r := range m.RelationNames(t) {
			k := RelKey(t, r)
			nodes = append(nodes, k)
			var es []depEdge
			m.deps(t, m.Rewrite(t, r), false, &es, r)
			graph[k] = es
		}
	}
	index := map[string]int{}
	low := map[string]int{}
	onStack := map[string]bool{}
	var stack []string
	next := 0
	m.sccOf = map[string]int{}
	var strong func(v string)
	strong = func(v string) {
		index[v] = next
		low[v] = next
		next++
		stack = append(stack, v)
		onStack[v] = true
		for _, e := range graph[v] {
			if _, known := graph[e.to]; !known {
				continue
			}
			if _, seen := index[e.to]; !seen {
				strong(e.to)
				if low[e.to] < low[v] {
					low[v] = low[e.to]
				}
			} else if onStack[e.to] && index[e.to] < low[v] {
				low[v] = index[e.to]
			}
		}
		if low[v] == index[v] {
			var comp []string
			for {
				w := stack[len(stack)-1]
				stack = stack[:len(stack)-1]
				onStack[w] = false
				comp = append(comp, w)
				if w == v {
					break
				}
			}
			sort.Strings(comp)
			for _, w := range comp {
				m.sccOf[w] = len(m.order)
			}
			m.order = append(m.order, comp) // Tarjan emits dependencies first
		}
	}
	for _, v := range nodes {
		if _, seen := index[v]; !seen {
			strong(v)
		}
	}
	m.Stratified = true
	for v, es := range graph {
		for _, e := range es {
			if e.neg {
				if sv, ok := m.sccOf[e.to]; ok && sv == m.sccOf[v] {
					m.Stratified = false
				}
			}
		}
	}
}

// ---- user string helpers (independent of pkg/tuple) ----

// SplitObject splits "type:id".
func SplitObject(o string) (string, string) {
	i := strings.Index(o, ":")
	if i < 0 {
		return "", o
	}
	return o[:i], o[i+1:]
}

// UserParts splits a user string into object and relation ("" when none).
func UserParts(u string) (obj, rel string) {
	i := strings.Index(u, "#")
	if i < 0 {
		return u, ""
	}
	return u[:i], u[i+1:]
}

// IsWildcard reports "type:*".
func IsWildcard(u string) bool { return strings.HasSuffix(u, ":*") && !strings.Contains(u, "#") }

// IsUserset reports "type:id#rel".
func IsUserset(u string) bool { return strings.Contains(u, "#") }

// UserKind is "object", "wildcard" or "userset".
func UserKind(u string) string {
	switch {
	case IsUserset(u):
		return "userset"
	case IsWildcard(u):
		return "wildcard"
	}
	return "object"
}

// ---- tuple validity (also the oracle of C18's read-side half) ----

// matchRestriction returns the restrictions of object#relation whose type and shape match the user.
func (m *Model) matchRestriction(tk *openfgav1.TupleKey) []*openfgav1.RelationReference {
	ot, _ := SplitObject(tk.GetObject())
	uo, urel := UserParts(tk.GetUser())
	ut, uid := SplitObject(uo)
	var out []*openfgav1.RelationReference
	for _, rr := range m.Restrictions(ot, tk.GetRelation()) {
		if rr.GetType() != ut {
			continue
		}
		switch {
		case urel != "":
			if rr.GetRelation() == urel {
				out = append(out, rr)
			}
		case uid == "*":
			if rr.GetWildcard() != nil {
				out = append(out, rr)
			}
		default:
			if rr.GetRelation() == "" && rr.GetWildcard() == nil {
				out = append(out, rr)
			}
		}
	}
	return out
}

// ValidForRead reports whether a stored tuple is valid for the model: object type and relation exist,
// the user matches one of the relation's type restrictions (type, typed wildcard or userset),
// tupleset relations carry only concrete objects, and its condition (or absence of one) is allowed
// by a matching restriction.
func (m *Model) ValidForRead(tk *openfgav1.TupleKey) bool {
	ot, oid := SplitObject(tk.GetObject())
	if ot == "" || oid == "" || m.Rewrite(ot, tk.GetRelation()) == nil {
		return false
	}
	if m.tuplesets[RelKey(ot, tk.GetRelation())] && (IsUserset(tk.GetUser()) || IsWildcard(tk.GetUser())) {
		return false
	}
	cond := tk.GetCondition().GetName()
	for _, rr := range m.matchRestriction(tk) {
		if rr.GetCondition() == cond {
			if cond != "" {
				if _, ok := m.Conds[cond]; !ok {
					return false
				}
			}
			return true
		}
	}
	return false
}

// ---- evaluation ----

// Case is the data a request is evaluated against.
type Case struct {
	Model   *Model
	Tuples  []*openfgav1.TupleKey // stored ∪ contextual, duplicates allowed
	Context *structpb.Struct      // request context

	valid    []*openfgav1.TupleKey
	byObjRel map[string][]*openfgav1.TupleKey
	condVal  map[*openfgav1.TupleKey]Tri
	objects  map[string][]string // type -> sorted ids (universe)
	anyCondE bool
}

// NewCase prepares a case: filters invalid tuples, evaluates every tuple condition once.
func NewCase(m *Model, tuples []*openfgav1.TupleKey, ctx *structpb.Struct, extraObjects ...string) *Case {
	c := &Case{Model: m, Tuples: tuples, Context: ctx, byObjRel: map[string][]*openfgav1.TupleKey{},
		condVal: map[*openfgav1.TupleKey]Tri{}, objects: map[string][]string{}}
	objset := map[string]bool{}
	addObj := func(o string) {
		t, id := SplitObject(o)
		if t == "" || id == "" || id == "*" || m.Types[t] == nil {
			return
		}
		objset[o] = true
	}
	seen := map[string]bool{}
	for _, tk := range tuples {
		addObj(tk.GetObject())
		uo, _ := UserParts(tk.GetUser())
		addObj(uo)
		if !m.ValidForRead(tk) {
			continue
		}
		key := tk.GetObject() + "#" + tk.GetRelation() + "@" + tk.GetUser() + " " + tk.GetCondition().String()
		if seen[key] {
			continue
		}
		seen[key] = true
		c.valid = append(c.valid, tk)
		k := tk.GetObject() + "#" + tk.GetRelation()
		c.byObjRel[k] = append(c.byObjRel[k], tk)
		v := c.evalCond(tk)
		c.condVal[tk] = v
		if v == E {
			c.anyCondE = true
		}
	}
	for _, o := range extraObjects {
		uo, _ := UserParts(o)
		addObj(uo)
	}
	for o := range objset {
		t, id := SplitObject(o)
		c.objects[t] = append(c.objects[t], id)
	}
	for t := range c.objects {
		sort.Strings(c.objects[t])
	}
	return c
}

// Unevaluable returns the valid tuples whose condition cannot be evaluated under the request context.
func (c *Case) Unevaluable() []*openfgav1.TupleKey {
	var out []*openfgav1.TupleKey
	for _, tk := range c.valid {
		if c.condVal[tk] == E {
			out = append(out, tk)
		}
	}
	return out
}

// CondValue returns the evaluated condition of a valid tuple.
func (c *Case) CondValue(tk *openfgav1.TupleKey) Tri { return c.condVal[tk] }

// Dropping returns a copy of the case in which the given tuples count as not satisfying their
// condition (used by deviation models of known findings, never by the oracle itself).
func (c *Case) Dropping(drop []*openfgav1.TupleKey) *Case {
	d := *c
	d.condVal = map[*openfgav1.TupleKey]Tri{}
	for k, v := range c.condVal {
		d.condVal[k] = v
	}
	for _, tk := range drop {
		d.condVal[tk] = F
	}
	d.anyCondE = false
	for _, v := range d.condVal {
		if v == E {
			d.anyCondE = true
		}
	}
	return &d
}

// Weakening returns a copy of the case in which the given tuples, where they currently count as
// granting (condition value T), count as unknown (E): "this tuple may or may not be seen by a read".
// Used by deviation models of known findings, never by the oracle itself.
func (c *Case) Weakening(ts []*openfgav1.TupleKey) *Case {
	d := *c
	d.condVal = map[*openfgav1.TupleKey]Tri{}
	for k, v := range c.condVal {
		d.condVal[k] = v
	}
	for _, tk := range ts {
		if d.condVal[tk] == T {
			d.condVal[tk] = E
			d.anyCondE = true
		}
	}
	return &d
}

// AnyUnevaluable reports whether some valid tuple has a condition that cannot be evaluated under
// the request context.
func (c *Case) AnyUnevaluable() bool { return c.anyCondE }

// ValidTuples returns the tuples that survived validation (deduplicated).
func (c *Case) ValidTuples() []*openfgav1.TupleKey { return c.valid }

// Objects returns the ids of the universe for a type.
func (c *Case) Objects(typ string) []string { return c.objects[typ] }

func (c *Case) evalCond(tk *openfgav1.TupleKey) Tri {
	name := tk.GetCondition().GetName()
	if name == "" {
		return T
	}
	merged := map[string]*structpb.Value{}
	for k, v := range c.Context.GetFields() {
		merged[k] = v
	}
	for k, v := range tk.GetCondition().GetContext().GetFields() {
		merged[k] = v // stored context wins
	}
	return c.Model.CondEval(c.Model, name, merged)
}

// Result holds K(·, subject) for every node of the universe.
type Result struct {
	c       *Case
	Subject string
	cert    map[string]bool
	poss    map[string]bool
}

// K returns the three-valued membership of the subject in object#relation.
func (r *Result) K(object, relation string) Tri {
	k := object + "#" + relation
	if r.Subject == k {
		return T // a userset contains itself, whether or not the object occurs in the data
	}
	switch {
	case r.cert[k]:
		return T
	case r.poss[k]:
		return E
	}
	return F
}

// Eval computes K(node, subject) for all nodes of the universe (objects × their relations).
func (c *Case) Eval(subject string) *Result {
	r := &Result{c: c, Subject: subject, cert: map[string]bool{}, poss: map[string]bool{}}
	m := c.Model
	for _, comp := range m.order {
		// nodes of this stratum
		var nodes [][2]string
		for _, tr := range comp {
			i := strings.Index(tr, "#")
			typ, rel := tr[:i], tr[i+1:]
			for _, id := range c.objects[typ] {
				nodes = append(nodes, [2]string{typ + ":" + id, rel})
			}
		}
		for _, certain := range []bool{true, false} {
			for changed := true; changed; {
				changed = false
				for _, n := range nodes {
					k := n[0] + "#" + n[1]
					cur := r.cert[k]
					if !certain {
						cur = r.poss[k]
					}
					if cur {
						continue
					}
					if r.node(n[0], n[1], certain) {
						if certain {
							r.cert[k] = true
						} else {
							r.poss[k] = true
						}
						changed = true
					}
				}
			}
		}
	}
	return r
}

// get reads the current approximation of a node in the given mode.
func (r *Result) get(object, relation string, certain bool) bool {
	if r.Subject == object+"#"+relation {
		return true // a userset contains itself
	}
	k := object + "#" + relation
	if certain {
		return r.cert[k]
	}
	return r.poss[k]
}

func (r *Result) node(object, relation string, certain bool) bool {
	if r.Subject == object+"#"+relation {
		return true
	}
	typ, _ := SplitObject(object)
	us := r.c.Model.Rewrite(typ, relation)
	if us == nil {
		return false
	}
	return r.rewrite(object, relation, us, certain)
}

// condOK: in certain mode a tuple counts only when its condition is True; in possible mode also when unknown.
func condOK(v Tri, certain bool) bool {
	if certain {
		return v == T
	}
	return v != F
}

func (r *Result) rewrite(object, relation string, us *openfgav1.Userset, certain bool) bool {
	m := r.c.Model
	switch u := us.GetUserset().(type) {
	case *openfgav1.Userset_This:
		for _, tk := range r.c.byObjRel[object+"#"+relation] {
			if !condOK(r.c.condVal[tk], certain) {
				continue
			}
			user := tk.GetUser()
			if user == r.Subject {
				return true
			}
			if IsWildcard(user) {
				if !IsUserset(r.Subject) && !IsWildcard(r.Subject) {
					st, _ := SplitObject(r.Subject)
					wt, _ := SplitObject(user)
					if st == wt {
						return true
					}
				}
				continue
			}
			if IsUserset(user) {
				uo, ur := UserParts(user)
				if r.get(uo, ur, certain) {
					return true
				}
			}
		}
		return false
	case *openfgav1.Userset_ComputedUserset:
		return r.get(object, u.ComputedUserset.GetRelation(), certain)
	case *openfgav1.Userset_TupleToUserset:
		ts := u.TupleToUserset.GetTupleset().GetRelation()
		cr := u.TupleToUserset.GetComputedUserset().GetRelation()
		for _, tk := range r.c.byObjRel[object+"#"+ts] {
			if !condOK(r.c.condVal[tk], certain) {
				continue
			}
			user := tk.GetUser()
			if IsUserset(user) || IsWildcard(user) {
				continue
			}
			ut, _ := SplitObject(user)
			if m.Rewrite(ut, cr) == nil {
				continue
			}
			if r.get(user, cr, certain) {
				return true
			}
		}
		return false
	case *openfgav1.Userset_Union:
		for _, ch := range u.Union.GetChild() {
			if r.rewrite(object, relation, ch, certain) {
				return true
			}
		}
		return false
	case *openfgav1.Userset_Intersection:
		for _, ch := range u.Intersection.GetChild() {
			if !r.rewrite(object, relation, ch, certain) {
				return false
			}
		}
		return len(u.Intersection.GetChild()) > 0
	case *openfgav1.Userset_Difference:
		if !r.rewrite(object, relation, u.Difference.GetBase(), certain) {
			return false
		}
		// certainly in the difference iff certainly in base and not possibly in subtract (lower stratum: final)
		return !r.rewrite(object, relation, u.Difference.GetSubtract(), !certain)
	}
	return false
}

// Describe renders a short human-readable form of a userset rewrite (for samples and signatures).
func Describe(us *openfgav1.Userset, restr []*openfgav1.RelationReference) string {
	switch u := us.GetUserset().(type) {
	case *openfgav1.Userset_This:
		var parts []string
		for _, rr := range restr {
			s := rr.GetType()
			if rr.GetWildcard() != nil {
				s += ":*"
			}
			if rr.GetRelation() != "" {
				s += "#" + rr.GetRelation()
			}
			if rr.GetCondition() != "" {
				s += " with " + rr.GetCondition()
			}
			parts = append(parts, s)
		}
		return "[" + strings.Join(parts, ", ") + "]"
	case *openfgav1.Userset_ComputedUserset:
		return u.ComputedUserset.GetRelation()
	case *openfgav1.Userset_TupleToUserset:
		return u.TupleToUserset.GetComputedUserset().GetRelation() + " from " + u.TupleToUserset.GetTupleset().GetRelation()
	case *openfgav1.Userset_Union:
		return joinChildren(u.Union.GetChild(), " or ", restr)
	case *openfgav1.Userset_Intersection:
		return joinChildren(u.Intersection.GetChild(), " and ", restr)
	case *openfgav1.Userset_Difference:
		return "(" + Describe(u.Difference.GetBase(), restr) + " but not " + Describe(u.Difference.GetSubtract(), restr) + ")"
	}
	return "?"
}

func joinChildren(ch []*openfgav1.Userset, sep string, restr []*openfgav1.RelationReference) string {
	var parts []string
	for _, c := range ch {
		parts = append(parts, Describe(c, restr))
	}
	return "(" + strings.Join(parts, sep) + ")"
}

// DSL renders the whole model in a DSL-like form (for samples / replay files).
func (m *Model) DSL() string {
	var sb strings.Builder
	sb.WriteString("model\n  schema 1.1\n")
	for _, t := range m.TypeNames() {
		fmt.Fprintf(&sb, "type %s\n", t)
		rels := m.RelationNames(t)
		if len(rels) > 0 {
			sb.WriteString("  relations\n")
		}
		for _, r := range rels {
			fmt.Fprintf(&sb, "    define %s: %s\n", r, Describe(m.Rewrite(t, r), m.Restrictions(t, r)))
		}
	}
	var cn []string
	for n := range m.Conds {
		cn = append(cn, n)
	}
	sort.Strings(cn)
	for _, n := range cn {
		c := m.Conds[n]
		var ps []string
		for p, pt := range c.GetParameters() {
			ps = append(ps, p+": "+strings.ToLower(strings.TrimPrefix(pt.GetTypeName().String(), "TYPE_NAME_")))
		}
		sort.Strings(ps)
		fmt.Fprintf(&sb, "condition %s(%s) { %s }\n", n, strings.Join(ps, ", "), c.GetExpression())
	}
	return sb.String()
}

// Shape returns a structural hash-friendly description of a rewrite: operator skeleton without names.
func Shape(us *openfgav1.Userset) string {
	switch u := us.GetUserset().(type) {
	case *openfgav1.Userset_This:
		return "this"
	case *openfgav1.Userset_ComputedUserset:
		return "cu"
	case *openfgav1.Userset_TupleToUserset:
		return "ttu"
	case *openfgav1.Userset_Union:
		return "or(" + shapes(u.Union.GetChild()) + ")"
	case *openfgav1.Userset_Intersection:
		return "and(" + shapes(u.Intersection.GetChild()) + ")"
	case *openfgav1.Userset_Difference:
		return "diff(" + Shape(u.Difference.GetBase()) + "," + Shape(u.Difference.GetSubtract()) + ")"
	}
	return "?"
}

func shapes(ch []*openfgav1.Userset) string {
	var parts []string
	for _, c := range ch {
		parts = append(parts, Shape(c))
	}
	return strings.Join(parts, ",")
}

// HasAcyclicDirectEdgeTo reports whether some relation X#y reachable from typ#rel in the relation
// dependency graph (typ#rel included) lists subjType#subjRel as a directly related userset type while
// X#y and subjType#subjRel are not in one cycle of that graph (different SCCs, and not the same
// relation). Such an edge is where an engine that answers a userset subject by a direct lookup only
// would stop short.
func (m *Model) HasAcyclicDirectEdgeTo(typ, rel, subjType, subjRel string) bool {
	target := RelKey(subjType, subjRel)
	seen := map[string]bool{}
	var walk func(k string) bool
	walk = func(k string) bool {
		if seen[k] {
			return false
		}
		seen[k] = true
		i := strings.Index(k, "#")
		t, r := k[:i], k[i+1:]
		us := m.Rewrite(t, r)
		if us == nil {
			return false
		}
		for _, rr := range m.Restrictions(t, r) {
			if rr.GetType() == subjType && rr.GetRelation() == subjRel && k != target {
				sa, oka := m.sccOf[k]
				sb, okb := m.sccOf[target]
				if !oka || !okb || sa != sb {
					return true
				}
			}
		}
		var es []depEdge
		m.deps(t, us, false, &es, r)
		for _, e := range es {
			if walk(e.to) {
				return true
			}
		}
		return false
	}
	return walk(RelKey(typ, rel))
}

// ReachesByRewrite reports whether subjType#subjRel is reached from typ#rel in the relation dependency
// graph by an edge that is NOT a direct type restriction: a computed userset or the computed side of a
// tuple-to-userset (the subject's relation is then contained in the target by the rewrite rules alone).
func (m *Model) ReachesByRewrite(typ, rel, subjType, subjRel string) bool {
	target := RelKey(subjType, subjRel)
	seen := map[string]bool{}
	var viaRewrite func(t string, us *openfgav1.Userset) bool
	viaRewrite = func(t string, us *openfgav1.Userset) bool {
		switch u := us.GetUserset().(type) {
		case *openfgav1.Userset_ComputedUserset:
			return RelKey(t, u.ComputedUserset.GetRelation()) == target
		case *openfgav1.Userset_TupleToUserset:
			ts := u.TupleToUserset.GetTupleset().GetRelation()
			cr := u.TupleToUserset.GetComputedUserset().GetRelation()
			for _, rr := range m.Restrictions(t, ts) {
				if rr.GetRelation() == "" && rr.GetWildcard() == nil && RelKey(rr.GetType(), cr) == target {
					return true
				}
			}
		case *openfgav1.Userset_Union:
			for _, c := range u.Union.GetChild() {
				if viaRewrite(t, c) {
					return true
				}
			}
		case *openfgav1.Userset_Intersection:
			for _, c := range u.Intersection.GetChild() {
				if viaRewrite(t, c) {
					return true
				}
			}
		case *openfgav1.Userset_Difference:
			return viaRewrite(t, u.Difference.GetBase())
		}
		return false
	}
	var walk func(k string) bool
	walk = func(k string) bool {
		if seen[k] {
			return false
		}
		seen[k] = true
		i := strings.Index(k, "#")
		t, r := k[:i], k[i+1:]
		us := m.Rewrite(t, r)
		if us == nil {
			return false
		}
		if viaRewrite(t, us) {
			return true
		}
		var es []depEdge
		m.deps(t, us, false, &es, r)
		for _, e := range es {
			if walk(e.to) {
				return true
			}
		}
		return false
	}
	return walk(RelKey(typ, rel))
}
