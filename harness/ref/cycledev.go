package ref

import openfgav1 "github.com/openfga/api/proto/openfga/v1"

// CycleDeviation is the executable deviation model of the known finding "a resolution cycle inside
// the subtracted branch of an exclusion makes the exclusion false". It evaluates the request
// top-down along resolution paths the way a path-based cycle cut does (a node met again on the
// current path is false and flags "cycle"; the flag travels upwards through false results), with the
// single deviation that an exclusion whose base is true and whose subtracted branch is false BUT
// flagged is false. Conditions count only when True. It returns the deviating value, whether the
// deviation rule fired on the way to that value, and ok=false when the exploration budget ran out.
func (c *Case) CycleDeviation(subject, object, relation string) (value, fired, ok bool) {
	d := &cycDev{c: c, subject: subject, budget: 300000, path: map[string]bool{}}
	v, _ := d.node(object, relation)
	return v, d.fired, d.budget > 0
}

type cycDev struct {
	c       *Case
	subject string
	budget  int
	path    map[string]bool
	fired   bool
}

func (d *cycDev) node(object, relation string) (val, cyc bool) {
	d.budget--
	if d.budget <= 0 {
		return false, false
	}
	k := object + "#" + relation
	if d.path[k] {
		return false, true
	}
	if d.subject == k {
		return true, false
	}
	typ, _ := SplitObject(object)
	us := d.c.Model.Rewrite(typ, relation)
	if us == nil {
		return false, false
	}
	d.path[k] = true
	val, cyc = d.rewrite(object, relation, us)
	delete(d.path, k)
	return val, cyc
}

func (d *cycDev) rewrite(object, relation string, us *openfgav1.Userset) (bool, bool) {
	switch u := us.GetUserset().(type) {
	case *openfgav1.Userset_This:
		anyCyc := false
		for _, tk := range d.c.byObjRel[object+"#"+relation] {
			if d.c.condVal[tk] != T {
				continue
			}
			user := tk.GetUser()
			if user == d.subject {
				return true, false
			}
			if IsWildcard(user) {
				if !IsUserset(d.subject) && !IsWildcard(d.subject) {
					st, _ := SplitObject(d.subject)
					wt, _ := SplitObject(user)
					if st == wt {
						return true, false
					}
				}
				continue
			}
			if IsUserset(user) {
				uo, ur := UserParts(user)
				v, cy := d.node(uo, ur)
				if v {
					return true, false
				}
				anyCyc = anyCyc || cy
			}
		}
		return false, anyCyc
	case *openfgav1.Userset_ComputedUserset:
		return d.node(object, u.ComputedUserset.GetRelation())
	case *openfgav1.Userset_TupleToUserset:
		ts := u.TupleToUserset.GetTupleset().GetRelation()
		cr := u.TupleToUserset.GetComputedUserset().GetRelation()
		anyCyc := false
		for _, tk := range d.c.byObjRel[object+"#"+ts] {
			if d.c.condVal[tk] != T {
				continue
			}
			user := tk.GetUser()
			if IsUserset(user) || IsWildcard(user) {
				continue
			}
			ut, _ := SplitObject(user)
			if d.c.Model.Rewrite(ut, cr) == nil {
				continue
			}
			v, cy := d.node(user, cr)
			if v {
				return true, false
			}
			anyCyc = anyCyc || cy
		}
		return false, anyCyc
	case *openfgav1.Userset_Union:
		anyCyc := false
		for _, ch := range u.Union.GetChild() {
			v, cy := d.rewrite(object, relation, ch)
			if v {
				return true, false
			}
			anyCyc = anyCyc || cy
		}
		return false, anyCyc
	case *openfgav1.Userset_Intersection:
		allTrue := len(u.Intersection.GetChild()) > 0
		anyCyc := false
		for _, ch := range u.Intersection.GetChild() {
			v, cy := d.rewrite(object, relation, ch)
			if !v {
				allTrue = false
				anyCyc = anyCyc || cy
			}
		}
		return allTrue, !allTrue && anyCyc
	case *openfgav1.Userset_Difference:
		bv, bc := d.rewrite(object, relation, u.Difference.GetBase())
		sv, sc := d.rewrite(object, relation, u.Difference.GetSubtract())
		if !bv {
			// both operands run concurrently: a false-but-flagged subtract may be the one that answers
			return false, bc || (!sv && sc)
		}
		if sv {
			return false, false
		}
		if sc {
			d.fired = true // the deviation: lfp says the subtracted branch is simply false
			return false, true
		}
		return true, false
	}
	return false, false
}
