package c28

import (
	"bytes"
	"context"
	"fmt"
	"os"
	"path/filepath"
	"runtime/debug"
	"sort"
	"strings"
	"time"

	"github.com/pressly/goose/v3"
	"google.golang.org/grpc/status"
	"google.golang.org/protobuf/types/known/wrapperspb"

	openfgav1 "github.com/openfga/api/proto/openfga/v1"

	"github.com/openfga/openfga/assets"
	"github.com/openfga/openfga/pkg/encoder"
	"github.com/openfga/openfga/pkg/server"
	"github.com/openfga/openfga/pkg/storage"
	"github.com/openfga/openfga/pkg/storage/memory"
	"github.com/openfga/openfga/pkg/storage/sqlcommon"
	"github.com/openfga/openfga/pkg/storage/sqlite"
	"github.com/openfga/openfga/pkg/tuple"
	"github.com/openfga/openfga/verifharness/vk"
)

// noClose lets several servers share one datastore: only the owner closes it.
type noClose struct{ storage.OpenFGADatastore }

func (noClose) Close() {}

func newDatastore(c *vk.Ctx, backend string) (storage.OpenFGADatastore, encoder.ContinuationTokenSerializer, error) {
	switch backend {
	case "memory":
		return memory.New(), encoder.NewStringContinuationTokenSerializer(), nil
	case "sqlite":
		dir := os.Getenv("VERIF_SCRATCH")
		if dir == "" {
			return nil, nil, fmt.Errorf("VERIF_SCRATCH not set")
		}
		path := filepath.Join(dir, fmt.Sprintf("c28-%d.db", c.Seed))
		uri := "file:" + path + "?_pragma=journal_mode(WAL)&_pragma=busy_timeout(5000)&_pragma=synchronous(NORMAL)"
		goose.SetLogger(goose.NopLogger())
		goose.SetBaseFS(assets.EmbedMigrations)
		db, err := goose.OpenDBWithDriver("sqlite", uri)
		if err != nil {
			return nil, nil, fmt.Errorf("open sqlite: %w", err)
		}
		if err := goose.Up(db, assets.SqliteMigrationDir); err != nil {
			db.Close()
			return nil, nil, fmt.Errorf("migrate sqlite: %w", err)
		}
		db.Close()
		ds, err := sqlite.New(uri, sqlcommon.NewConfig())
		if err != nil {
			return nil, nil, err
		}
		return ds, sqlcommon.NewSQLContinuationTokenSerializer(), nil
	}
	return nil, nil, fmt.Errorf("unknown backend %s", backend)
}

func direct(types ...string) (*openfgav1.Userset, *openfgav1.RelationMetadata) {
	var refs []*openfgav1.RelationReference
	for _, t := range types {
		refs = append(refs, &openfgav1.RelationReference{Type: t})
	}
	return &openfgav1.Userset{Userset: &openfgav1.Userset_This{This: &openfgav1.DirectUserset{}}},
		&openfgav1.RelationMetadata{DirectlyRelatedUserTypes: refs}
}

const pipeType = "fo|der" // a type name containing the string serializer's separator

type page struct {
	items []string
	token string // token that produced this page ("" for the first)
	next  string
}

// api abstracts Read and ReadChanges as "token in -> items, next token out".
type api struct {
	name   string // Read / ReadChanges
	filter string // human readable
	call   func(s *server.Server, pageSize int32, token string) ([]string, string, error)
	expect []string // the items a complete traversal must deliver (as a set; from what was written)
}

func rpcCode(err error) string {
	if st, ok := status.FromError(err); ok {
		if n, ok := openfgav1.ErrorCode_name[int32(st.Code())]; ok {
			return n
		}
		return st.Code().String()
	}
	return "non-status-error"
}

func e2e(c *vk.Ctx, backend string) {
	ctx := context.Background()
	ds, ser, err := newDatastore(c, backend)
	if err != nil {
		c.HarnessError("datastore %s: %v", backend, err)
		return
	}
	srv1 := server.MustNewServerWithOpts(server.WithDatastore(ds), server.WithTokenEncoder(mustGCM(c, key1)), server.WithContinuationTokenSerializer(ser))
	defer srv1.Close()
	srv2 := server.MustNewServerWithOpts(server.WithDatastore(noClose{ds}), server.WithTokenEncoder(mustGCM(c, key2)), server.WithContinuationTokenSerializer(ser))
	defer srv2.Close()
	srvPlain := server.MustNewServerWithOpts(server.WithDatastore(noClose{ds}), server.WithContinuationTokenSerializer(ser)) // default: unencrypted base64
	defer srvPlain.Close()

	st, err := srv1.CreateStore(ctx, &openfgav1.CreateStoreRequest{Name: "c28"})
	if err != nil {
		c.HarnessError("CreateStore: %v", err)
		return
	}
	storeID := st.GetId()
	vu, vm := direct("user")
	_, err = srv1.WriteAuthorizationModel(ctx, &openfgav1.WriteAuthorizationModelRequest{
		StoreId: storeID, SchemaVersion: "1.1",
		TypeDefinitions: []*openfgav1.TypeDefinition{
			{Type: "user"},
			{Type: "document", Relations: map[string]*openfgav1.Userset{"viewer": vu}, Metadata: &openfgav1.Metadata{Relations: map[string]*openfgav1.RelationMetadata{"viewer": vm}}},
			{Type: pipeType, Relations: map[string]*openfgav1.Userset{"viewer": vu}, Metadata: &openfgav1.Metadata{Relations: map[string]*openfgav1.RelationMetadata{"viewer": vm}}},
		},
	})
	if err != nil {
		c.HarnessError("WriteAuthorizationModel: %v", err)
		return
	}
	// one tuple per Write call so that the changelog has one entry per call
	type op struct {
		del bool
		tk  *openfgav1.TupleKey
	}
	var ops []op
	for _, d := range []string{"d1", "d2", "d3", "d4"} {
		ops = append(ops, op{false, tuple.NewTupleKey("document:"+d, "viewer", "user:u1")})
	}
	ops = append(ops, op{false, tuple.NewTupleKey("document:d1", "viewer", "user:u2")}, op{false, tuple.NewTupleKey("document:d2", "viewer", "user:u2")})
	for _, f := range []string{"f1", "f2", "f3"} {
		ops = append(ops, op{false, tuple.NewTupleKey(pipeType+":"+f, "viewer", "user:u1")})
	}
	ops = append(ops, op{true, tuple.NewTupleKey("document:d4", "viewer", "user:u1")}, op{false, tuple.NewTupleKey("document:d5", "viewer", "user:u1")})
	live := map[string]bool{}
	var changes []string
	for _, o := range ops {
		req := &openfgav1.WriteRequest{StoreId: storeID}
		key := tuple.TupleKeyToString(o.tk)
		if o.del {
			req.Deletes = &openfgav1.WriteRequestDeletes{TupleKeys: []*openfgav1.TupleKeyWithoutCondition{tuple.TupleKeyToTupleKeyWithoutCondition(o.tk)}}
			delete(live, key)
			changes = append(changes, "DELETE "+key)
		} else {
			req.Writes = &openfgav1.WriteRequestWrites{TupleKeys: []*openfgav1.TupleKey{o.tk}}
			live[key] = true
			changes = append(changes, "WRITE "+key)
		}
		if _, err := srv1.Write(ctx, req); err != nil {
			c.HarnessError("Write %s: %v", key, err)
			return
		}
	}
	filterSet := func(all []string, pred func(string) bool) []string {
		var out []string
		for _, s := range all {
			if pred(s) {
				out = append(out, s)
			}
		}
		return out
	}
	var liveList []string
	for k := range live {
		liveList = append(liveList, k)
	}
	sort.Strings(liveList)

	readAPI := func(name string, tk *openfgav1.ReadRequestTupleKey, pred func(string) bool) api {
		return api{name: "Read", filter: name, expect: filterSet(liveList, pred),
			call: func(s *server.Server, ps int32, token string) ([]string, string, error) {
				resp, err := s.Read(ctx, &openfgav1.ReadRequest{StoreId: storeID, TupleKey: tk, PageSize: wrapperspb.Int32(ps), ContinuationToken: token})
				if err != nil {
					return nil, "", err
				}
				var out []string
				for _, t := range resp.GetTuples() {
					out = append(out, tuple.TupleKeyToString(t.GetKey()))
				}
				return out, resp.GetContinuationToken(), nil
			}}
	}
	changesAPI := func(typ string) api {
		return api{name: "ReadChanges", filter: "type=" + typ,
			expect: filterSet(changes, func(s string) bool { return typ == "" || strings.Contains(s, " "+typ+":") }),
			call: func(s *server.Server, ps int32, token string) ([]string, string, error) {
				resp, err := s.ReadChanges(ctx, &openfgav1.ReadChangesRequest{StoreId: storeID, Type: typ, PageSize: wrapperspb.Int32(ps), ContinuationToken: token})
				if err != nil {
					return nil, "", err
				}
				var out []string
				for _, ch := range resp.GetChanges() {
					opn := "WRITE "
					if ch.GetOperation() == openfgav1.TupleOperation_TUPLE_OPERATION_DELETE {
						opn = "DELETE "
					}
					out = append(out, opn+tuple.TupleKeyToString(ch.GetTupleKey()))
				}
				return out, resp.GetContinuationToken(), nil
			}}
	}
	apis := []api{
		readAPI("all", nil, func(string) bool { return true }),
		readAPI("document:*@user:u1", &openfgav1.ReadRequestTupleKey{Object: "document:", User: "user:u1"}, func(s string) bool {
			return strings.HasPrefix(s, "document:") && strings.HasSuffix(s, "@user:u1")
		}),
		readAPI(pipeType+":*@user:u1", &openfgav1.ReadRequestTupleKey{Object: pipeType + ":", User: "user:u1"}, func(s string) bool { return strings.HasPrefix(s, pipeType+":") }),
		changesAPI(""),
		changesAPI("document"),
		changesAPI(pipeType),
	}

	// set-up barrier (not part of any oracle): the changelog of the SQL backend hides entries younger than
	// "now - horizon offset" at clock granularity; wait until everything written is visible.
	visible := false
	for try := 0; try < 200 && !visible; try++ {
		items, _, err := apis[3].call(srv1, 100, "")
		visible = err == nil && len(items) == len(changes)
		if !visible {
			time.Sleep(5 * time.Millisecond)
		}
	}
	if !visible {
		c.Inconclusive("changelog of " + backend + " never showed all written changes")
		return
	}

	in := intensity{bitsPerByte: c.Pick(1, 8), maxPos: c.Pick(200, 1500)}
	r := c.Rand("e2e-" + backend)
	var allIssued []struct {
		a     *api
		ps    int32
		token string
	}
	for ai := range apis {
		a := &apis[ai]
		// reference traversal in one page (page size 100 >= everything written)
		oneShot, _, err := a.call(srv1, 100, "")
		if err != nil {
			c.HarnessError("%s %s one-shot: %v", a.name, a.filter, err)
			continue
		}
		for _, ps := range []int32{1, 2, 3} {
			label := fmt.Sprintf("%s|%s|%s|ps=%d", backend, a.name, a.filter, ps)
			var pages []page
			token := ""
			var got []string
			for step := 0; step < 40; step++ {
				items, next, err := a.call(srv1, ps, token)
				if err != nil {
					c.Violation("C28-e2e-own-token-rejected", label+":own", "the server rejects a continuation token it has just issued",
						map[string]any{"case": label, "token": token, "error": err.Error(), "pages_so_far": pages})
					break
				}
				pages = append(pages, page{items: items, token: token, next: next})
				got = append(got, items...)
				if len(items) == 0 || next == "" {
					break
				}
				token = next
			}
			// oracle 1 (round trip): the pages, in order, are exactly the one-shot listing: every token led to
			// exactly the position after the previous page; and the set is what was written.
			c.Case("e2e-paging:"+label, true)
			if strings.Join(got, "\n") != strings.Join(oneShot, "\n") {
				c.Violation("C28-e2e-position-drift", label+":drift", "paging with issued tokens does not reproduce the one-page listing (a token did not decode to the position it encodes)",
					map[string]any{"case": label, "paged": got, "one_shot": oneShot, "pages": pages})
			}
			gs, es := append([]string(nil), got...), append([]string(nil), a.expect...)
			sort.Strings(gs)
			sort.Strings(es)
			if strings.Join(gs, "\n") != strings.Join(es, "\n") {
				c.Violation("C28-e2e-traversal-set", label+":set", "paged traversal does not deliver exactly what was written (lost or duplicated items across a continuation token)",
					map[string]any{"case": label, "paged_sorted": gs, "written_sorted": es, "pages": pages})
			}
			c.Count("e2e_pages:"+backend+"|"+a.name, len(pages))

			// oracle 2 (tamper resistance) on every issued token
			for pi, p := range pages {
				if p.next == "" {
					continue
				}
				tok := p.next
				c.Count("e2e_tokens_issued:"+backend+"|"+a.name, 1)
				allIssued = append(allIssued, struct {
					a     *api
					ps    int32
					token string
				}{a, ps, tok})
				// what the issued token yields (twice: same position both times)
				want, _, err := a.call(srv1, ps, tok)
				want2, _, err2 := a.call(srv1, ps, tok)
				if err != nil || err2 != nil || strings.Join(want, "\n") != strings.Join(want2, "\n") {
					c.Violation("C28-e2e-token-not-stable", label+":stable", "the same issued token does not yield the same page twice",
						map[string]any{"case": label, "token": tok, "first": want, "second": want2, "err1": fmt.Sprint(err), "err2": fmt.Sprint(err2)})
					continue
				}
				rawTok, _ := lenientRaw(tok)
				t := tally{}
				muts := 0
				send := func(kind, m string) {
					if m == tok {
						t["identical-to-issued(skipped):"+kind]++
						return
					}
					if m == "" {
						t["empty-token(first page, not judged):"+kind]++
						return
					}
					muts++
					var items []string
					var callErr error
					func() {
						defer func() {
							if pv := recover(); pv != nil {
								callErr = &panicErr{pv, string(debug.Stack())}
							}
						}()
						items, _, callErr = a.call(srv1, ps, m)
					}()
					wit := map[string]any{"backend": backend, "api": a.name, "filter": a.filter, "page_size": ps, "key": key1, "issued_token": tok,
						"mutation": kind, "mutant_token": m, "mutant_token_quoted": fmt.Sprintf("%q", m), "issued_token_page": want, "mutant_page": items}
					if pe, ok := callErr.(*panicErr); ok {
						wit["panic"], wit["stack"] = fmt.Sprint(pe.v), pe.stack
						t[kind+"->PANIC"]++
						c.Violation("C28-e2e-panic", label+":panic:"+kind, "the server panicked on a tampered continuation token", wit)
						return
					}
					if callErr != nil {
						t[kind+"->rejected:"+rpcCode(callErr)]++
						return
					}
					// accepted: only tolerable if the mutant carries exactly the issued ciphertext bytes
					if mr, ok := lenientRaw(m); ok && bytes.Equal(mr, rawTok) {
						if strings.Join(items, "\n") == strings.Join(want, "\n") {
							t[kind+"->malleable-equal"]++
							return
						}
						t[kind+"->VIOLATION"]++
						c.Violation("C28-e2e-same-bytes-other-page", label+":samebytes:"+kind, "a re-encoding of the issued token yields a different page", wit)
						return
					}
					t[kind+"->VIOLATION"]++
					c.Violation("C28-e2e-tampered-token-accepted", "e2e-accepted:"+backend+":"+a.name+":"+kind,
						fmt.Sprintf("%s/%s answered a tampered continuation token (%s) with a page instead of an error", backend, a.name, kind), wit)
				}
				other := ""
				if pi > 0 {
					other = pages[pi-1].next
				}
				mutations(tok, other, in, r, send)
				forgeries(r, 3, send)
				// the same position issued by a server with another key / without a key
				for _, f := range []struct {
					name string
					s    *server.Server
				}{{"foreign-server:key2", srv2}, {"foreign-server:unencrypted", srvPlain}} {
					// walk the foreign server to the same page index to obtain "the same position under another key"
					ftok := ""
					ok := true
					for j := 0; j <= pi; j++ {
						_, nx, err := a.call(f.s, ps, ftok)
						if err != nil || nx == "" {
							ok = false
							break
						}
						ftok = nx
					}
					if !ok {
						c.Inconclusive("foreign server could not be walked to the same page")
						continue
					}
					send(f.name, ftok)
				}
				c.Evals(muts)
				c.Count("e2e_mutants_total", muts)
				for k, v := range t {
					c.Count("e2e:"+backend+"|"+a.name+"|"+k, v)
					c.Distinct("e2e-mut:" + backend + "|" + a.name + "|" + k)
				}
				if pi == 0 && ps == 2 {
					c.Sample(map[string]any{"kind": "e2e", "case": label, "issued_token": tok, "issued_token_page": want, "mutants_sent": muts, "outcomes": t})
				}
			}
		}
	}
	// cross-API / cross-filter use of genuine tokens issued under the same key: outside C28, recorded only
	for _, is := range allIssued {
		for ai := range apis {
			b := &apis[ai]
			if b == is.a {
				continue
			}
			var err error
			func() {
				defer func() {
					if pv := recover(); pv != nil {
						err = &panicErr{pv, string(debug.Stack())}
					}
				}()
				_, _, err = b.call(srv1, is.ps, is.token)
			}()
			out := "page"
			if _, isPanic := err.(*panicErr); isPanic {
				out = "PANIC"
			} else if err != nil {
				out = "rejected:" + rpcCode(err)
			}
			c.Count(fmt.Sprintf("cross_api(not judged):%s|%s->%s:%s", backend, is.a.name, b.name, out), 1)
		}
	}
}
