// Package c28 checks property C28 "Continuation tokens round-trip and resist tampering".
//
// Unit level: serializers (string "pos|type" used with the memory backend, JSON used with the SQL
// backends) × encoders (base64, AES-GCM+base64) over generated positions and type filters:
// decode(encode(x)) = x. With a key: every mutant / foreign / forged token is decoded with the real
// TokenEncoder and must be rejected (or decode to exactly the issued bytes: "malleable-equal").
// End to end: real in-process servers (memory and sqlite) with an encrypted token encoder are paged
// through Read and ReadChanges; issued tokens are mutated and sent back; the answer must be an error.
package c28

import (
	"bytes"
	"fmt"
	"math/rand"
	"regexp"
	"runtime/debug"
	"strconv"
	"strings"
	"sync"
	"unicode/utf8"

	"github.com/oklog/ulid/v2"

	"github.com/openfga/openfga/pkg/encoder"
	"github.com/openfga/openfga/pkg/encrypter"
	"github.com/openfga/openfga/pkg/storage/sqlcommon"
	"github.com/openfga/openfga/verifharness/vk"
)

func init() { vk.Register("C28", "exploration", run) }

const (
	key1 = "verif-c28-key-one-0123456789-abcdefghijklmnopqrstuvwxyz" // longer than any cipher key size: every byte must matter
	key2 = "verif-c28-key-two"
)

var apiTokenPattern = regexp.MustCompile("^$|^[A-Za-z0-9-_]+={0,2}$") // ReadRequest.continuation_token validation rule

func mustGCM(c *vk.Ctx, key string) encoder.Encoder {
	e, err := encrypter.NewGCMEncrypter(key)
	if err != nil {
		c.HarnessError("NewGCMEncrypter(%q): %v", key, err)
		panic(err)
	}
	return encoder.NewTokenEncoder(e, encoder.NewBase64Encoder())
}

// safeDecode / safeEncode turn a panic of the code under test into an error value with a marker.
type panicErr struct {
	v     any
	stack string
}

func (p *panicErr) Error() string { return fmt.Sprintf("panic: %v", p.v) }

func safeDecode(e encoder.Encoder, s string) (b []byte, err error) {
	defer func() {
		if r := recover(); r != nil {
			err = &panicErr{r, string(debug.Stack())}
		}
	}()
	return e.Decode(s)
}

// ---------------------------------------------------------------------------------------------
// generation of positions and type filters

type position struct {
	s    string
	kind string
}

func genPosition(r *rand.Rand, i int) position {
	fixedOffsets := []string{"0", "1", "2", "9", "10", "99", "100", "101", "65535", "65536", "999999", "1000000"}
	switch i % 4 {
	case 0: // memory backend: decimal offset
		if i/4 < len(fixedOffsets) {
			return position{fixedOffsets[i/4], "offset"}
		}
		return position{strconv.Itoa(r.Intn(1000001)), "offset"}
	case 1: // boundary ULIDs
		switch (i / 4) % 3 {
		case 0:
			return position{ulid.MustNew(0, bytes.NewReader(make([]byte, 10))).String(), "ulid-min"}
		case 1:
			return position{ulid.MustNew(ulid.MaxTime(), bytes.NewReader(bytes.Repeat([]byte{0xff}, 10))).String(), "ulid-max"}
		}
		fallthrough
	default:
		ms := uint64(r.Int63n(int64(ulid.MaxTime())))
		if r.Intn(2) == 0 {
			ms = 1_600_000_000_000 + uint64(r.Int63n(400_000_000_000)) // realistic timestamps
		}
		return position{ulid.MustNew(ms, r).String(), "ulid"}
	}
}

var fixedTypes = []string{
	"", "document", "user", "a", "a|b", "|", "||x|", "x|", "|x", "a:b", ":", "a#b@c*d", "日本語", "😀😀", "ü|ñ",
	`q"uo\te`, "<&>", "\u2028\u2029", "tab\tnl\n", "nul\x00x", `{"ulid":"x","ObjectType":"y"}`, "ulid", "type with space",
	"\ufffd", "é", strings.Repeat("a", 254), strings.Repeat("😀", 254), strings.Repeat("<", 254), strings.Repeat("ab|", 1700),
}

var typeRunes = []rune("abcdefgXYZ0189-_.|+=,/~!$%&()[]{}<>?;'\"\\^`:#@* éßñΩ日本語😀\u200b\t\n")

func genType(r *rand.Rand, i int) string {
	if i < len(fixedTypes)*3 {
		return fixedTypes[i%len(fixedTypes)]
	}
	if r.Intn(5) == 0 {
		return ""
	}
	n := 1 + r.Intn(12)
	if r.Intn(50) == 0 {
		n = 254
	}
	var sb strings.Builder
	for j := 0; j < n; j++ {
		sb.WriteRune(typeRunes[r.Intn(len(typeRunes))])
	}
	return sb.String()
}

func typeClass(t string) string {
	if t == "" {
		return "empty"
	}
	var cl []string
	if strings.Contains(t, "|") {
		cl = append(cl, "pipe")
	}
	if strings.ContainsAny(t, ":#@*") {
		cl = append(cl, "sep")
	}
	if strings.ContainsAny(t, "\"\\<>&{}") || strings.ContainsAny(t, "\u2028\u2029") {
		cl = append(cl, "json")
	}
	if strings.ContainsAny(t, " \t\n\x00") {
		cl = append(cl, "ws")
	}
	if len(t) != utf8.RuneCountInString(t) {
		cl = append(cl, "unicode")
	}
	switch n := utf8.RuneCountInString(t); {
	case n > 254:
		cl = append(cl, "verylong")
	case n == 254:
		cl = append(cl, "max254")
	case n == 1:
		cl = append(cl, "len1")
	}
	if len(cl) == 0 {
		return "ascii"
	}
	return strings.Join(cl, "+")
}

// ---------------------------------------------------------------------------------------------
// unit level

type serializerUnderTest struct {
	name string
	s    encoder.ContinuationTokenSerializer
}

type encoderUnderTest struct {
	name string
	e    encoder.Encoder
}

func unitRoundTrip(c *vk.Ctx) {
	sers := []serializerUnderTest{
		{"string", encoder.NewStringContinuationTokenSerializer()},
		{"sqljson", sqlcommon.NewSQLContinuationTokenSerializer()},
	}
	encs := []encoderUnderTest{
		{"base64", encoder.NewBase64Encoder()},
		{"gcm+base64", mustGCM(c, key1)},
		{"gcm(emptykey)+base64", mustGCM(c, "")},
		{"noopcrypt+base64", encoder.NewTokenEncoder(encrypter.NewNoopEncrypter(), encoder.NewBase64Encoder())},
	}
	r := c.Rand("roundtrip")
	n := c.Pick(100000, 1000000)
	for i := 0; i < n; i++ {
		pos := genPosition(r, i)
		typ := genType(r, i/2)
		for _, su := range sers {
			for _, eu := range encs {
				sig := fmt.Sprintf("rt:%s|%s|pos=%s|type=%s", su.name, eu.name, pos.kind, typeClass(typ))
				c.Case(sig, true)
				w := map[string]any{"serializer": su.name, "encoder": eu.name, "position": pos.s, "type": typ, "type_quoted": fmt.Sprintf("%q", typ)}
				func() {
					defer func() {
						if p := recover(); p != nil {
							w["panic"], w["stack"] = fmt.Sprint(p), string(debug.Stack())
							c.Violation("C28-roundtrip-panic", sig+":panic", fmt.Sprintf("encode/decode panicked: %v", p), w)
						}
					}()
					plain, err := su.s.Serialize(pos.s, typ)
					if err != nil {
						w["error"] = err.Error()
						c.Violation("C28-serialize-error", sig+":ser", "Serialize fails on a non-empty position", w)
						return
					}
					tok, err := eu.e.Encode(plain)
					if err != nil {
						w["error"] = err.Error()
						c.Violation("C28-encode-error", sig+":enc", "Encode fails on a serialized position", w)
						return
					}
					w["token"] = tok
					if utf8.RuneCountInString(typ) <= 254 && (!apiTokenPattern.MatchString(tok) || len(tok) > 5120) {
						c.Violation("C28-token-not-acceptable-to-api", sig+":pattern", "issued token would be refused by the API's own continuation_token validation rule", w)
					}
					back, err := eu.e.Decode(tok)
					if err != nil {
						w["error"] = err.Error()
						c.Violation("C28-decode-own-token-error", sig+":dec", "Decode rejects a token just issued by the same encoder", w)
						return
					}
					if !bytes.Equal(back, plain) {
						w["decoded"] = string(back)
						c.Violation("C28-decode-differs", sig+":decdiff", "Decode(Encode(x)) != x", w)
						return
					}
					p2, t2, err := su.s.Deserialize(string(back))
					if err != nil {
						w["error"] = err.Error()
						c.Violation("C28-deserialize-own-token-error", sig+":deser", "Deserialize rejects a position just serialized", w)
						return
					}
					if p2 != pos.s || t2 != typ {
						w["got_position"], w["got_type"] = p2, t2
						c.Violation("C28-roundtrip-differs", sig+":rt", fmt.Sprintf("position/type do not round-trip: (%q,%q) -> (%q,%q)", pos.s, typ, p2, t2), w)
						return
					}
					c.Count("roundtrip_ok:"+su.name+"|"+eu.name, 1)
				}()
				if i%9973 == 0 && su.name == "sqljson" && eu.name == "gcm+base64" {
					c.Sample(map[string]any{"kind": "unit-roundtrip", "case": w})
				}
			}
		}
	}
	// documented special case: the empty token means "first page" (Decode("") = empty, no error)
	for _, eu := range encs {
		b, err := safeDecode(eu.e, "")
		if err != nil || len(b) != 0 {
			c.Violation("C28-empty-token", "empty:"+eu.name, "the empty token does not decode to the empty position", map[string]any{"encoder": eu.name, "err": fmt.Sprint(err), "decoded": string(b)})
		}
		c.Count("empty_token_is_first_page", 1)
	}
}

type tally map[string]int

// judgeDecode classifies the result of decoding a non-issued token under key1.
// Returns the outcome label; "VIOLATION" means: accepted AND decoded to something that is neither
// the issued plaintext nor the empty position of the (documented) empty token.
func judgeDecode(tok, m string, plain []byte, got []byte, err error) string {
	if err != nil {
		if _, isPanic := err.(*panicErr); isPanic {
			return "PANIC"
		}
		return "rejected"
	}
	if bytes.Equal(got, plain) {
		return "malleable-equal"
	}
	if len(got) == 0 {
		if raw, ok := lenientRaw(m); ok && len(raw) == 0 {
			return "empty-equivalent"
		}
	}
	return "VIOLATION"
}

func unitTamper(c *vk.Ctx) {
	enc1 := mustGCM(c, key1)
	foreign := []encoderUnderTest{
		{"key2", mustGCM(c, key2)},
		{"emptykey", mustGCM(c, "")},
		{"key1+space", mustGCM(c, key1+" ")},
		{"key1-same-first-40-bytes", mustGCM(c, key1[:40]+"-another-tail")},
		{"key1-truncated-to-32-bytes", mustGCM(c, key1[:32])},
		{"key1-uppercased", mustGCM(c, strings.ToUpper(key1))},
		{"unencrypted-base64", encoder.NewBase64Encoder()},
		{"noopcrypt+base64", encoder.NewTokenEncoder(encrypter.NewNoopEncrypter(), encoder.NewBase64Encoder())},
	}
	sers := []serializerUnderTest{
		{"string", encoder.NewStringContinuationTokenSerializer()},
		{"sqljson", sqlcommon.NewSQLContinuationTokenSerializer()},
	}
	nTokens := c.Pick(10000, 40000)
	in := intensity{bitsPerByte: c.Pick(2, 8), maxPos: c.Pick(400, 1500)}
	workers := 8
	var wg sync.WaitGroup
	for w := 0; w < workers; w++ {
		wg.Add(1)
		go func(w int) {
			defer wg.Done()
			r := c.Rand(fmt.Sprintf("tamper-%d", w))
			prevTok := ""
			for i := w; i < nTokens; i += workers {
				pos := genPosition(r, i)
				typ := genType(r, i/3)
				su := sers[(i/2)%2]
				plain, err := su.s.Serialize(pos.s, typ)
				if err != nil {
					c.HarnessError("Serialize: %v", err)
					return
				}
				tok, err := enc1.Encode(plain)
				if err != nil {
					c.HarnessError("Encode: %v", err)
					return
				}
				t := tally{}
				muts := 0
				check := func(kind, m string) {
					if m == tok {
						t["identical-to-issued(skipped):"+kind]++
						return
					}
					if m == "" {
						t["empty-token(first page, not judged):"+kind]++
						return
					}
					muts++
					got, derr := safeDecode(enc1, m)
					out := judgeDecode(tok, m, plain, got, derr)
					if strings.HasPrefix(kind, "foreign:") && out == "malleable-equal" {
						// a token produced under ANOTHER key (or none) is "not issued under that key": decoding it
						// at all — even to the same position — means the two keys are interchangeable
						out = "VIOLATION"
					}
					t[kind+"->"+out]++
					if out == "VIOLATION" || out == "PANIC" {
						wit := map[string]any{"key": key1, "serializer": su.name, "position": pos.s, "type_quoted": fmt.Sprintf("%q", typ),
							"issued_token": tok, "issued_plaintext": string(plain), "mutation": kind, "mutant_token": m, "mutant_token_quoted": fmt.Sprintf("%q", m),
							"decoded": string(got), "decoded_quoted": fmt.Sprintf("%q", got)}
						if pe, ok := derr.(*panicErr); ok {
							wit["panic"], wit["stack"] = fmt.Sprint(pe.v), pe.stack
							c.Violation("C28-decode-panic", "panic:"+kind, "TokenEncoder.Decode panicked on a tampered token", wit)
							return
						}
						if p2, t2, e2 := su.s.Deserialize(string(got)); e2 == nil {
							wit["decoded_position"], wit["decoded_type"] = p2, t2
						}
						c.Violation("C28-tampered-token-accepted", "accepted:"+kind+":"+su.name,
							fmt.Sprintf("a token not issued under the key (%s) was decoded without error to %q (issued plaintext %q)", kind, got, plain), wit)
					}
				}
				other := prevTok
				mutations(tok, other, in, r, check)
				prevTok = tok
				// tokens for the same position issued by somebody else
				for _, f := range foreign {
					ft, err := f.e.Encode(plain)
					if err != nil {
						c.HarnessError("foreign Encode: %v", err)
						return
					}
					check("foreign:"+f.name, ft)
				}
				forgeries(r, 4, check)
				// flush
				padding := len(tok) - len(strings.TrimRight(tok, "="))
				c.Case(fmt.Sprintf("tamper:%s|pos=%s|type=%s|pad=%d", su.name, pos.kind, typeClass(typ), padding), true)
				c.Evals(muts)
				for k, v := range t {
					c.Count("unit_tamper:"+k, v)
					c.Distinct("unit-mut:" + k)
				}
				c.Count("unit_tamper_mutants_total", muts)
				if i%1499 == 0 {
					c.Sample(map[string]any{"kind": "unit-tamper", "serializer": su.name, "position": pos.s, "type_quoted": fmt.Sprintf("%q", typ), "issued_token": tok, "mutants_decoded": muts, "outcomes": t})
				}
			}
		}(w)
	}
	wg.Wait()
}

func run(c *vk.Ctx) {
	c.SetRule("Unit: positions = decimal offsets 0..1e6 (memory backend), ULIDs incl. min/max (SQL backends); type filters = fixed hostile list " +
		"(empty, '|' ':' '#' inside, JSON-special, white space, NUL, unicode, 254 runes, 5100 bytes) + random words; each × {string, JSON} serializer × " +
		"{base64, GCM+base64, GCM(empty key), noop-crypt} encoder; signature = serializer|encoder|position kind|type class. " +
		"Tamper: each token issued under key1 is mutated (string level: every char × bits, every truncation, appends/prepends, char delete/dup/swap, newline " +
		"insertion, alphabet swaps, case; raw level after independent base64 decoding: every byte × bits, every truncation, extensions, zeroed nonce/tag, " +
		"dropped nonce/tag, splices with another issued token, non-canonical trailing bits), re-issued under 4 other keys / no key, and random forgeries; " +
		"signature = mutation kind → outcome. End-to-end: memory and sqlite servers with a GCM token encoder, Read × 3 filters and ReadChanges × 3 type " +
		"filters × page size 1–3, every issued token mutated and sent back; signature = backend|api|filter|page size|mutation kind → outcome.")
	c.Assume("Type filters are valid UTF-8 (gRPC/proto3 guarantees it); positions handed to the serializers are what the backends produce (ULIDs, decimal offsets), never strings containing '|'.")
	c.Assume("An accepted mutant is 'malleable-equal' (not a violation) iff it decodes to exactly the bytes of the issued token; classification of accepted mutants in the end-to-end part uses Go's encoding/base64 as trusted independent decoder.")
	c.Assume("The empty token means 'first page' (documented); a mutant equal to the empty string is not judged.")
	c.Assume("Tokens issued under the same key for another API or another type filter are out of scope of C28 and only counted.")
	unitRoundTrip(c)
	c.Logf("unit round trips done")
	unitTamper(c)
	c.Logf("unit tamper done: %d mutants", c.Counter("unit_tamper_mutants_total"))
	for _, backend := range []string{"memory", "sqlite"} {
		e2e(c, backend)
		c.Logf("end-to-end %s done", backend)
	}
	if c.Counter("unit_tamper_mutants_total") == 0 || c.Counter("e2e_mutants_total") == 0 {
		c.HarnessError("no mutants were decoded (unit=%d e2e=%d)", c.Counter("unit_tamper_mutants_total"), c.Counter("e2e_mutants_total"))
	}
}
