package c28

import (
	"encoding/base64"
	"math/rand"
	"strings"
)

// lenientRaw decodes a token string the way an independent, maximally tolerant observer would (Go
// standard library; URL or std alphabet, padded or not, CR/LF ignored, trailing bits ignored). It is
// used ONLY to classify an accepted mutant as "same ciphertext bytes as the issued token"
// (malleable-equal) or "no bytes at all" (equivalent to the documented empty token). ok=false when
// the string is not base64 in any of those variants.
func lenientRaw(tok string) ([]byte, bool) {
	for _, e := range []*base64.Encoding{base64.URLEncoding, base64.RawURLEncoding, base64.StdEncoding, base64.RawStdEncoding} {
		if b, err := e.DecodeString(tok); err == nil {
			return b, true
		}
	}
	return nil, false
}

// positions returns up to max indexes of [0,n): all of them when n<=max, otherwise an evenly spread
// deterministic sample that always contains both ends.
func positions(n, max int) []int {
	if n <= max {
		out := make([]int, n)
		for i := range out {
			out[i] = i
		}
		return out
	}
	out := make([]int, 0, max)
	for i := 0; i < max; i++ {
		out = append(out, i*(n-1)/(max-1))
	}
	return out
}

type intensity struct {
	bitsPerByte int // 1, 2 or 8
	maxPos      int // cap on positions per mutation family (long tokens)
}

func bitsFor(i int, in intensity) []int {
	switch {
	case in.bitsPerByte >= 8:
		return []int{0, 1, 2, 3, 4, 5, 6, 7}
	case in.bitsPerByte == 2:
		return []int{i % 8, (i*3 + 5) % 8}
	default:
		return []int{(i * 5) % 8}
	}
}

// mutations enumerates tampered variants of an issued token. other is another token issued under
// the same key (for splices), raw is the independent decoding of tok.
func mutations(tok, other string, in intensity, r *rand.Rand, emit func(kind, m string)) {
	n := len(tok)
	// --- string level ---------------------------------------------------------------------------
	for _, i := range positions(n, in.maxPos) {
		for _, b := range bitsFor(i, in) {
			bs := []byte(tok)
			bs[i] ^= 1 << uint(b)
			emit("str-bitflip", string(bs))
		}
	}
	for _, l := range positions(n, in.maxPos) { // every truncation length 0..n-1
		emit("str-truncate", tok[:l])
	}
	for _, suffix := range []string{"A", "=", "-", "_", "AA", "==", "A=", "AAA", "A==", "===", "\n", " ", "\x00"} {
		emit("str-append", tok+suffix)
	}
	for _, prefix := range []string{"A", "=", "AAAA", "\n", " "} {
		emit("str-prepend", prefix+tok)
	}
	emit("str-double", tok+tok)
	for _, i := range positions(n, in.maxPos/4+1) {
		emit("str-delete-char", tok[:i]+tok[i+1:])
		emit("str-dup-char", tok[:i+1]+tok[i:])
		if i+1 < n && tok[i] != tok[i+1] {
			bs := []byte(tok)
			bs[i], bs[i+1] = bs[i+1], bs[i]
			emit("str-swap-adjacent", string(bs))
		}
		emit("str-insert-newline", tok[:i]+"\n"+tok[i:])
	}
	emit("alphabet-url2std-chars", strings.NewReplacer("-", "+", "_", "/").Replace(tok))
	emit("alphabet-strip-padding", strings.TrimRight(tok, "="))
	emit("alphabet-lowercase", strings.ToLower(tok))
	emit("alphabet-uppercase", strings.ToUpper(tok))

	// --- raw level (decode independently, mutate the ciphertext bytes, re-encode canonically) -----
	raw, ok := lenientRaw(tok)
	if !ok {
		return
	}
	enc := func(b []byte) string { return base64.URLEncoding.EncodeToString(b) }
	emit("alphabet-std", base64.StdEncoding.EncodeToString(raw))
	emit("alphabet-rawstd", base64.RawStdEncoding.EncodeToString(raw))
	emit("alphabet-rawurl", base64.RawURLEncoding.EncodeToString(raw))
	for _, i := range positions(len(raw), in.maxPos) {
		for _, b := range bitsFor(i, in) {
			m := append([]byte(nil), raw...)
			m[i] ^= 1 << uint(b)
			emit("raw-bitflip", enc(m))
		}
	}
	for _, l := range positions(len(raw), in.maxPos) {
		emit("raw-truncate", enc(raw[:l]))
	}
	for k := 1; k <= 3; k++ {
		ext := make([]byte, k)
		emit("raw-append-zero", enc(append(append([]byte(nil), raw...), ext...)))
		r.Read(ext)
		emit("raw-append-random", enc(append(append([]byte(nil), raw...), ext...)))
		emit("raw-prepend-random", enc(append(append([]byte(nil), ext...), raw...)))
		if len(raw) > k {
			emit("raw-drop-front", enc(raw[k:]))
		}
	}
	if len(raw) >= 28 {
		z := append([]byte(nil), raw...)
		for i := 0; i < 12; i++ {
			z[i] = 0
		}
		emit("raw-zero-nonce", enc(z))
		z = append([]byte(nil), raw...)
		for i := len(z) - 16; i < len(z); i++ {
			z[i] = 0
		}
		emit("raw-zero-tag", enc(z))
		emit("raw-all-zero", enc(make([]byte, len(raw))))
		emit("raw-drop-tag", enc(raw[:len(raw)-16]))
		emit("raw-drop-nonce", enc(raw[12:]))
		emit("raw-ciphertext-only", enc(raw[12:len(raw)-16]))
		rev := append([]byte(nil), raw...)
		for i, j := 0, len(rev)-1; i < j; i, j = i+1, j-1 {
			rev[i], rev[j] = rev[j], rev[i]
		}
		emit("raw-reverse", enc(rev))
		if oraw, ok := lenientRaw(other); ok && len(oraw) >= 28 && other != tok {
			emit("splice-nonce", enc(append(append([]byte(nil), oraw[:12]...), raw[12:]...)))
			emit("splice-tag", enc(append(append([]byte(nil), raw[:len(raw)-16]...), oraw[len(oraw)-16:]...)))
			if len(oraw) == len(raw) {
				emit("splice-body", enc(append(append(append([]byte(nil), raw[:12]...), oraw[12:len(oraw)-16]...), raw[len(raw)-16:]...)))
			}
		}
	}
	// non-canonical trailing bits of a padded token: same bytes for a lenient decoder (expected
	// outcome: rejected or malleable-equal, never another position)
	if strings.HasSuffix(tok, "=") {
		body := strings.TrimRight(tok, "=")
		pad := tok[len(body):]
		const url = "ABCDEFGHIJKLMNOPQRSTUVWXYZabcdefghijklmnopqrstuvwxyz0123456789-_"
		last := strings.IndexByte(url, body[len(body)-1])
		if last >= 0 {
			free := 2 // one '=' : 2 unused bits, two '=' : 4 unused bits
			if len(pad) == 2 {
				free = 4
			}
			for v := 1; v < 1<<uint(free); v++ {
				emit("noncanonical-trailing-bits", body[:len(body)-1]+string(url[last|v])+pad)
			}
		}
	}
}

const urlAlphabet = "ABCDEFGHIJKLMNOPQRSTUVWXYZabcdefghijklmnopqrstuvwxyz0123456789-_"

// forgeries enumerates tokens built without the key.
func forgeries(r *rand.Rand, count int, emit func(kind, m string)) {
	for i := 0; i < count; i++ {
		n := 1 + r.Intn(100)
		b := make([]byte, n)
		r.Read(b)
		emit("forge-random-bytes", base64.URLEncoding.EncodeToString(b))
		var sb strings.Builder
		for j := 1 + r.Intn(120); j > 0; j-- {
			sb.WriteByte(urlAlphabet[r.Intn(64)])
		}
		emit("forge-random-alphabet", sb.String())
	}
}
