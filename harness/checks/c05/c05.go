// Package c05: ListObjects returns exactly the permitted objects (reference-model monitor on sets:
// soundness, duplicate-freedom, completeness, exact count under a result limit), for the classic
// reverse expansion, its weighted-graph variant and the streaming pipeline.
package c05

import (
	"context"
	"encoding/json"
	"errors"
	"fmt"
	"github.com/openfga/openfga/pkg/storage"
	"math/rand"
	"os"
	"sort"
	"strings"
	"time"

	openfgav1 "github.com/openfga/api/proto/openfga/v1"

	"github.com/openfga/openfga/verifharness/checks/sem"
	"github.com/openfga/openfga/verifharness/drive"
	"github.com/openfga/openfga/verifharness/gen"
	"github.com/openfga/openfga/verifharness/ref"
	"github.com/openfga/openfga/verifharness/vk"
)

func init() { vk.Register("C05", "exploration", run) }

type namedSrv struct {
	name  string
	s     *drive.Srv
	limit int // 0 = no effective limit (server default 1000 > universe)
}

func run(c *vk.Ctx) {
	c.SetRule("every sampled (type, relation, subject, context) of each seeded case is sent to ListObjects and StreamedListObjects on each engine (classic, optimized=weighted reverse expansion, pipeline with tuning variants) and result limits 1/2/3/none; " +
		"the returned set is compared with the reference set {o : K(o#relation, subject)=T}: soundness, no duplicates, completeness without limit, exactly min(limit, |set|) objects with a limit; " +
		"distinct_nontrivial = distinct (rewrite skeleton, subject kind, size class of the reference set, engine, limit) with a non-empty reference set")
	c.Assume("reference semantics harness/ref; generous server deadlines so that no answer is deadline-truncated (truncation sub-workload uses an explicit tiny deadline and judges soundness only)")
	c.RaceAnchors = []string{"/pkg/server/commands/", "/internal/listobjects/", "/internal/graph/", "/internal/containers/", "/pkg/storage/storagewrappers/"}
	if !sem.Calibrate(c) {
		return
	}
	if c.Replay != "" {
		sem.ReplayList(c, c.Replay)
		return
	}
	base, err := drive.New(drive.Cfg{})
	if err != nil {
		c.HarnessError("server: %v", err)
		return
	}
	defer base.Close()
	servers := []namedSrv{{"classic", base, 0}}
	add := func(name string, cfg drive.Cfg, limit int) bool {
		if limit > 0 {
			cfg.LOMax = uint32(limit)
		}
		s, err := drive.NewShared(cfg, base)
		if err != nil {
			c.HarnessError("server %s: %v", name, err)
			return false
		}
		servers = append(servers, namedSrv{name, s, limit})
		return true
	}
	ok := add("optimized", drive.Cfg{LOEngine: "optimized"}, 0) &&
		add("pipeline", drive.Cfg{LOEngine: "pipeline"}, 0) &&
		add("pipeline-1/0/1", drive.Cfg{LOEngine: "pipeline", Chunk: 1, Buffer: -1, Procs: 1}, 0) &&
		add("pipeline-2/2/3", drive.Cfg{LOEngine: "pipeline", Chunk: 2, Buffer: 2, Procs: 3}, 0) &&
		add("classic-limit1", drive.Cfg{}, 1) &&
		add("optimized-limit2", drive.Cfg{LOEngine: "optimized"}, 2) &&
		add("pipeline-limit1", drive.Cfg{LOEngine: "pipeline", Chunk: 1, Buffer: 2, Procs: 2}, 1) &&
		add("pipeline-limit2", drive.Cfg{LOEngine: "pipeline"}, 2) &&
		add("classic-limit3", drive.Cfg{Breadth: 1, ReadsLO: 1}, 3)
	if !c.Quick() && ok {
		ok = add("pipeline-100/128/3", drive.Cfg{LOEngine: "pipeline", Chunk: 100, Buffer: 128, Procs: 3}, 0) &&
			add("optimized-limit1", drive.Cfg{LOEngine: "optimized", Breadth: 1}, 1) &&
			add("pipeline-limit3", drive.Cfg{LOEngine: "pipeline", Chunk: 1, Buffer: -1, Procs: 3}, 3)
	}
	defer func() {
		for _, ns := range servers[1:] {
			ns.s.Close()
		}
	}()
	if !ok {
		return
	}
	// deadline truncation: a server whose ListObjects deadline is practically zero
	trunc, err := drive.NewShared(drive.Cfg{LOEngine: "pipeline", LODeadline: 1}, base)
	if err == nil {
		defer trunc.Close()
	}
	trunc2, err2 := drive.NewShared(drive.Cfg{LODeadline: 1}, base)
	if err2 == nil {
		defer trunc2.Close()
	}
	// read faults: servers (one per engine) whose datastore fails the reads of chosen relations of a
	// store with a timeout or a plain error; an answer given nevertheless must still be sound
	faultSrvs = nil
	for _, eng := range []string{"classic", "optimized", "pipeline"} {
		var ods *drive.ObsDS
		fs, ferr := drive.NewShared(drive.Cfg{LOEngine: eng, WrapDS: func(ds storage.OpenFGADatastore) storage.OpenFGADatastore {
			ods = drive.NewObsDS(ds)
			return ods
		}}, base)
		if ferr != nil {
			c.HarnessError("server: %v", ferr)
			return
		}
		defer fs.Close()
		faultSrvs = append(faultSrvs, faultSrv{eng, fs, ods})
	}
	nCases := c.Pick(200, 500)
	sem.RunCases(c, base, "mem", nCases, gen.Options{WideEvery: 3, AlgebraEvery: 4, HierarchyEvery: 6}, 4, 8, func(i int, r *rand.Rand, p *sem.Prepared, contextual []*openfgav1.TupleKey) {
		oneCase(c, i, r, p, contextual, servers, []*drive.Srv{trunc, trunc2})
	})
}

func oneCase(c *vk.Ctx, i int, r *rand.Rand, p *sem.Prepared, contextual []*openfgav1.TupleKey, servers []namedSrv, truncs []*drive.Srv) {
	subjects, ctxs, nodes := sem.RequestSpace(r, p, 5, 2)
	all := p.AllTuples(contextual)
	type tr struct{ t, rel string }
	var trs []tr
	for _, t := range p.Ref.TypeNames() {
		for _, rel := range p.Ref.RelationNames(t) {
			trs = append(trs, tr{t, rel})
		}
	}
	mode := []drive.Mode{"default", "fast", ""}[i%3]
	drive.ForceStore(p.Store, mode)
	for _, rctx := range ctxs {
		rc := ref.NewCase(p.Ref, all, rctx, sem.ExtraObjects(nodes, subjects)...)
		// rank (type, relation, subject) by reference-set size, keep the most informative ones
		type q struct {
			tr
			subj string
			want []string
			anyE bool
		}
		var qs []q
		for _, x := range trs {
			for _, s := range subjects {
				want, anyE := sem.RefListObjects(rc, x.t, x.rel, s)
				qs = append(qs, q{x, s, want, anyE})
			}
		}
		r.Shuffle(len(qs), func(a, b int) { qs[a], qs[b] = qs[b], qs[a] })
		sort.SliceStable(qs, func(a, b int) bool { return len(qs[a].want) > len(qs[b].want) })
		n := c.Pick(14, 30)
		if len(qs) > n {
			// two thirds largest reference sets, one third random tail
			tail := qs[(n*2)/3:]
			r.Shuffle(len(tail), func(a, b int) { tail[a], tail[b] = tail[b], tail[a] })
			qs = append(qs[:(n*2)/3:(n*2)/3], tail[:n-(n*2)/3]...)
		}
		for qi, x := range qs {
			rq := drive.Req{Store: p.Store, Object: x.t, Relation: x.rel, User: x.subj, Ctx: rctx, Contextual: contextual}
			for si, ns := range servers {
				streamed := (qi+si)%2 == 1
				var lo drive.ListOutcome
				t0 := time.Now()
				returned := drive.Watch(90*time.Second, func() {
					if streamed {
						lo = ns.s.StreamedListObjects(rq)
					} else {
						lo = ns.s.ListObjects(rq)
					}
				})
				if !returned {
					// far beyond the server's 40 s deadline: a hang. That is C20/C21's subject; here the
					// request is inconclusive, its witness is kept for those checks.
					c.Inconclusive("request did not return within 90s (server deadline 40s) on " + ns.name)
					w := witness(p, rc, contextual, ns.name, mode, x.t, x.rel, x.subj, x.want, nil)
					b, _ := json.MarshalIndent(map[string]any{"what": "ListObjects hang", "witness": w}, "", " ")
					_ = os.WriteFile(fmt.Sprintf("%s/replay/C05-hang-seed%d-%s.json", vk.Root(), c.Seed, p.Case.Name), b, 0o644)
					c.Logf("HANG on %s: ListObjects(%s, %s, %s) case=%s", ns.name, x.t, x.rel, x.subj, p.Case.Name)
					continue
				}
				if el := time.Since(t0); el > 5*time.Second {
					c.Count("requests_slower_than_5s", 1)
					c.Seen("slow_request_engines", ns.name)
					c.Logf("slow request (%.1fs) on %s: ListObjects(%s, %s, %s) ctx=%s case=%s answer=%v err=%v", el.Seconds(), ns.name, x.t, x.rel, x.subj, gen.CtxString(rctx), p.Case.Name, lo.Items, lo.Err)
					if os.Getenv("VERIF_DEBUG") != "" {
						c.Logf("model:\n%s\nstored: %v\ncontextual: %v", p.Ref.DSL(), gen.TupleStrings(p.Stored), gen.TupleStrings(contextual))
					}
				}
				// completeness is judged only when no valid tuple of the case is unevaluable under this context: with
				// one in play an engine may legitimately fail — or, when streaming, stop — on a branch the
				// reference does not need (C01's acceptance relation); soundness is judged regardless
				judge(c, p, rc, contextual, ns, mode, streamed, x.t, x.rel, x.subj, x.want, x.anyE || rc.AnyUnevaluable(), lo)
			}
			if qi < 4 && rctx == ctxs[0] && (p.Case.Features["exclusion"] || p.Case.Features["intersection"]) {
				// the same request while the reads of one or two relations of this store fail
				// relations the requested one depends on (through computed usersets and tuple-to-userset
				// targets, a few levels): each in turn, so that the subtracted / intersected operands are hit
				rels := dependsOn(p.Ref, x.t, x.rel)
				r.Shuffle(len(rels), func(a, b int) { rels[a], rels[b] = rels[b], rels[a] })
				if len(rels) > 3 {
					rels = rels[:3]
				}
				for _, frel := range rels {
					ferr := error(context.DeadlineExceeded)
					if r.Intn(4) == 0 {
						ferr = errors.New("injected datastore failure")
					}
					for _, fs := range faultSrvs {
						fs.ods.FailReads(p.Store, []string{frel}, ferr)
						lo := fs.s.ListObjects(rq)
						fs.ods.FailReads(p.Store, nil, nil)
						c.Count("read_fault_requests", 1)
						if lo.Err == nil && !lo.Hung {
							c.Count("read_fault_requests_answered", 1)
							judgeSound(c, p, rc, contextual, fs.name+"+read-fault", mode, x.t, x.rel, x.subj, x.want, lo.Items)
						}
					}
				}
			}
			if qi < 3 {
				for ti, ts := range truncs {
					if ts == nil {
						continue
					}
					lo := ts.ListObjects(rq)
					c.Count("deadline_truncated_requests", 1)
					if lo.Err == nil {
						judgeSound(c, p, rc, contextual, fmt.Sprintf("deadline-1ns-%d", ti), mode, x.t, x.rel, x.subj, x.want, lo.Items)
					}
				}
			}
		}
	}
	c.SampleEvery(i, 10, func() any {
		return map[string]any{"case": p.Case.Name, "model": p.Ref.DSL(), "stored": gen.TupleStrings(p.Stored), "contextual": gen.TupleStrings(contextual), "engines": len(servers), "strategy_mode": string(mode)}
	})
}

func sizeClass(n int) string {
	switch {
	case n == 0:
		return "0"
	case n == 1:
		return "1"
	case n <= 3:
		return "2-3"
	}
	return "4+"
}

func judgeSound(c *vk.Ctx, p *sem.Prepared, rc *ref.Case, contextual []*openfgav1.TupleKey, cfg string, mode drive.Mode, t, rel, subj string, want []string, got []string) bool {
	wantSet := map[string]bool{}
	for _, o := range want {
		wantSet[o] = true
	}
	seen := map[string]bool{}
	ok := true
	res := rc.Eval(subj)
	for _, o := range got {
		if seen[o] {
			ok = false
			f := ""
			if strings.HasPrefix(cfg, "optimized") {
				f = "C05-" + sem.FindingOptimizedOmits
			}
			c.Violation(f, "dup|"+cfg, fmt.Sprintf("ListObjects(%s, %s, %s) on %s returned %s twice: %v", t, rel, subj, cfg, o, got), witness(p, rc, contextual, cfg, mode, t, rel, subj, want, got))
		}
		seen[o] = true
		if !wantSet[o] {
			ok = false
			k := res.K(o, rel)
			f := sem.ClassifyCheck("C05", rc, sem.Request{Object: o, Relation: rel, User: subj, Ctx: rc.Context}, k, drive.Outcome{Allowed: true}, mode)
			if f == "" {
				f = sem.ClassifyList("C05", cfg, p, rc, o, rel, subj, true)
			}
			c.Violation(f, "unsound|"+cfg+"|"+ref.Shape(p.Ref.Rewrite(t, rel))+"|"+ref.UserKind(subj),
				fmt.Sprintf("ListObjects(%s, %s, %s, ctx=%s) on %s [mode %q] returned %s whose reference value is %s; got %v, reference set %v", t, rel, subj, gen.CtxString(rc.Context), cfg, mode, o, k, got, want),
				witness(p, rc, contextual, cfg, mode, t, rel, subj, want, got))
		}
	}
	return ok
}

func judge(c *vk.Ctx, p *sem.Prepared, rc *ref.Case, contextual []*openfgav1.TupleKey, ns namedSrv, mode drive.Mode, streamed bool, t, rel, subj string, want []string, anyE bool, lo drive.ListOutcome) {
	api := "ListObjects"
	if streamed {
		api = "StreamedListObjects"
	}
	c.Count("answers_"+api, 1)
	sig := fmt.Sprintf("%s|%s|%s|%s|limit=%d|%s", ref.Shape(p.Ref.Rewrite(t, rel)), ref.UserKind(subj), sizeClass(len(want)), ns.name, ns.limit, api)
	c.Case(sig, len(want) > 0)
	if lo.Code == "PANIC" {
		c.Violation("", "panic|"+ns.name, fmt.Sprintf("%s panicked on %s: %v", api, ns.name, lo.Err), map[string]any{"stack": lo.Panic, "model": p.Ref.DSL()})
		return
	}
	if lo.Hung {
		// termination is C20 / C21's subject; the listed pipeline teardown deadlock is attributed where its
		// firing condition holds, any other abandoned request makes the run inconclusive
		c.Count("answers_abandoned_by_the_watchdog", 1)
		if strings.HasPrefix(ns.name, "pipeline") && sem.PipelineHangShape(p.Ref, t, rel) {
			w := sem.Witness(p, ns.name, mode, sem.Request{Object: t, Relation: rel, User: subj, Ctx: rc.Context}, contextual, fmt.Sprint(want), "no answer")
			c.Violation("C05-pipeline-teardown-deadlock", "hang|pipeline", fmt.Sprintf("%s(%s, %s, %s) on %s did not return within %s", api, t, rel, subj, ns.name, drive.HangAfter), w)
		} else {
			sem.Hung(c, ns.name, lo)
		}
		return
	}
	if lo.Err != nil {
		c.Count("answers_error", 1)
		if sem.IsDepthError(lo.Err) || anyE || rc.AnyUnevaluable() {
			return
		}
		c.Violation(sem.ClassifyListError("C05", ns.name, p, t, rel, subj, lo.Err), "error|"+ns.name+"|"+ref.UserKind(subj)+"|"+drive.CodeOf(lo.Err),
			fmt.Sprintf("%s(%s, %s, %s, ctx=%s) on %s fails although nothing is unevaluable: %s", api, t, rel, subj, gen.CtxString(rc.Context), ns.name, drive.ErrDetail(lo.Err)),
			witness(p, rc, contextual, ns.name, mode, t, rel, subj, want, nil))
		return
	}
	if streamed {
		// documented: StreamedListObjects ignores the result limit and returns all available results
		ns.limit = 0
	}
	got := lo.Items
	judgeSound(c, p, rc, contextual, ns.name, mode, t, rel, subj, want, got)
	gotSet := map[string]bool{}
	for _, o := range got {
		gotSet[o] = true
	}
	if ns.limit == 0 {
		// completeness (objects whose reference value is E may be omitted)
		for _, o := range want {
			if !gotSet[o] {
				f := sem.ClassifyCheck("C05", rc, sem.Request{Object: o, Relation: rel, User: subj, Ctx: rc.Context}, ref.T, drive.Outcome{Allowed: false}, mode)
				if f == "" {
					f = sem.ClassifyList("C05", ns.name, p, rc, o, rel, subj, false)
				}
				c.Violation(f, "incomplete|"+ns.name+"|"+ref.Shape(p.Ref.Rewrite(t, rel))+"|"+ref.UserKind(subj),
					fmt.Sprintf("%s(%s, %s, %s, ctx=%s) on %s [mode %q] omitted %s although it holds the relation (no limit or deadline applied); got %v, reference set %v", api, t, rel, subj, gen.CtxString(rc.Context), ns.name, mode, o, got, want),
					witness(p, rc, contextual, ns.name, mode, t, rel, subj, want, got))
				break
			}
		}
		return
	}
	if anyE {
		return // with unevaluable candidates the exact count is not determined
	}
	expect := ns.limit
	if len(want) < expect {
		expect = len(want)
	}
	if len(gotSet) != expect {
		f := ""
		if len(gotSet) < expect {
			// a shortfall is attributed to a Check-level finding only if, with the objects that finding
			// explains removed from the reference set, the count is right
			f = sem.ClassifyLimit("C05", ns.name, rc, rel, subj, want, got, mode)
			if f == "" && len(want) > 0 {
				f = sem.ClassifyList("C05", ns.name, p, rc, want[0], rel, subj, false)
			} else if f != "" {
				unexplained := 0
				for _, o := range want {
					if !gotSet[o] && sem.ClassifyCheck("C05", rc, sem.Request{Object: o, Relation: rel, User: subj, Ctx: rc.Context}, ref.T, drive.Outcome{Allowed: false}, mode) == "" {
						unexplained++
					}
				}
				reduced := len(gotSet) + unexplained
				if reduced > ns.limit {
					reduced = ns.limit
				}
				if len(gotSet) < reduced {
					f = ""
				}
			}
		}
		c.Violation(f, "limit|"+ns.name+"|"+ref.Shape(p.Ref.Rewrite(t, rel)),
			fmt.Sprintf("%s(%s, %s, %s) on %s with result limit %d returned %d distinct objects %v; reference set %v (expected exactly %d)", api, t, rel, subj, ns.name, ns.limit, len(gotSet), got, want, expect),
			witness(p, rc, contextual, ns.name, mode, t, rel, subj, want, got))
	}
}

func witness(p *sem.Prepared, rc *ref.Case, contextual []*openfgav1.TupleKey, cfg string, mode drive.Mode, t, rel, subj string, want, got []string) map[string]any {
	w := sem.Witness(p, cfg, mode, sem.Request{Object: t, Relation: rel, User: subj, Ctx: rc.Context}, contextual, strings.Join(want, ","), strings.Join(got, ","))
	sem.AddWire(w, p, contextual, rc.Context)
	return w
}

type faultSrv struct {
	name string
	s    *drive.Srv
	ods  *drive.ObsDS
}

var faultSrvs []faultSrv

// dependsOn lists the relation names the rewrite of typ#rel mentions, transitively through computed
// usersets of the same type (bounded), including tupleset relations and tuple-to-userset targets.
func dependsOn(rm *ref.Model, typ, rel string) []string {
	seen := map[string]bool{}
	var out []string
	add := func(n string) {
		if !seen[n] {
			seen[n] = true
			out = append(out, n)
		}
	}
	var walkRel func(r string, depth int)
	var walk func(u *openfgav1.Userset, self string, depth int)
	walk = func(u *openfgav1.Userset, self string, depth int) {
		switch v := u.GetUserset().(type) {
		case *openfgav1.Userset_This:
			add(self)
		case *openfgav1.Userset_ComputedUserset:
			add(v.ComputedUserset.GetRelation())
			walkRel(v.ComputedUserset.GetRelation(), depth+1)
		case *openfgav1.Userset_TupleToUserset:
			add(v.TupleToUserset.GetTupleset().GetRelation())
			add(v.TupleToUserset.GetComputedUserset().GetRelation())
		case *openfgav1.Userset_Union:
			for _, ch := range v.Union.GetChild() {
				walk(ch, self, depth)
			}
		case *openfgav1.Userset_Intersection:
			for _, ch := range v.Intersection.GetChild() {
				walk(ch, self, depth)
			}
		case *openfgav1.Userset_Difference:
			walk(v.Difference.GetBase(), self, depth)
			walk(v.Difference.GetSubtract(), self, depth)
		}
	}
	visited := map[string]bool{}
	walkRel = func(r string, depth int) {
		if depth > 4 || visited[r] {
			return
		}
		visited[r] = true
		if rw := rm.Rewrite(typ, r); rw != nil {
			walk(rw, r, depth)
		}
	}
	walkRel(rel, 0)
	sort.Strings(out)
	return out
}
