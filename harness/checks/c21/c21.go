// Package c21: the ListObjects pipeline tears down cycles without losing work (online trace monitor
// over the cycle-group hook events, seeded yield injection at the cycle group's suspension points,
// termination watchdog confirmed by a goroutine dump, output compared with the reference set).
package c21

import (
	"context"
	"encoding/json"
	"fmt"
	"hash/fnv"
	"math/rand"
	"os"
	"runtime"
	"sort"
	"strings"
	"sync"
	"sync/atomic"
	"time"

	openfgav1 "github.com/openfga/api/proto/openfga/v1"
	parser "github.com/openfga/language/pkg/go/transformer"
	"google.golang.org/protobuf/encoding/protojson"

	"github.com/openfga/openfga/internal/verifhook"
	"github.com/openfga/openfga/verifharness/checks/sem"
	"github.com/openfga/openfga/verifharness/drive"
	"github.com/openfga/openfga/verifharness/gen"
	"github.com/openfga/openfga/verifharness/ref"
	"github.com/openfga/openfga/verifharness/vk"
)

func init() { vk.Register("C21", "exploration", run) }

// ---- trace monitor ----

type poolState struct {
	registered              map[int]bool
	reported                map[int]bool
	incOnes                 int
	decZeros                int
	negative                bool
	quiesced                bool
	quiesceBad              string
	cleanups                map[string]int
	cleanupBeforeQuiescence bool
	events                  int
	sig                     uint64
	members                 []string
}

type monitor struct {
	mu       sync.Mutex
	pools    map[any]*poolState
	rep2pool map[any]any
	total    atomic.Int64
}

func newMonitor() *monitor { return &monitor{pools: map[any]*poolState{}, rep2pool: map[any]any{}} }

func (m *monitor) pool(p any) *poolState {
	ps := m.pools[p]
	if ps == nil {
		ps = &poolState{registered: map[int]bool{}, reported: map[int]bool{}, cleanups: map[string]int{}}
		m.pools[p] = ps
	}
	return ps
}

func (ps *poolState) mix(tag string) {
	h := fnv.New64a()
	h.Write([]byte(tag))
	ps.sig = ps.sig*1099511628211 ^ h.Sum64()
	ps.events++
}

func (m *monitor) sink(kind string, args []any) {
	if !strings.HasPrefix(kind, "sp.") && !strings.HasPrefix(kind, "cycle.") {
		return
	}
	m.total.Add(1)
	m.mu.Lock()
	defer m.mu.Unlock()
	switch kind {
	case "sp.register":
		ps := m.pool(args[0])
		ps.registered[args[1].(int)] = true
	case "sp.inc":
		ps := m.pool(args[0])
		if args[1].(int64) == 1 {
			ps.incOnes++
		}
		ps.mix("i")
	case "sp.dec":
		ps := m.pool(args[0])
		v := args[1].(int64)
		if v < 0 {
			ps.negative = true
		}
		if v == 0 {
			ps.decZeros++
		}
		ps.mix("d")
	case "sp.report":
		ps := m.pool(args[0])
		ps.reported[args[1].(int)] = true
		ps.mix(fmt.Sprintf("r%d", args[1].(int)))
	case "sp.ready":
		m.pool(args[0]).mix("R")
	case "sp.quiescence":
		ps := m.pool(args[0])
		ps.quiesced = true
		for idx := range ps.registered {
			if !ps.reported[idx] {
				ps.quiesceBad = fmt.Sprintf("quiescence latch closed while member %d had not signalled ready", idx)
			}
		}
		ps.mix("Q")
	case "cycle.join":
		m.rep2pool[args[1]] = args[0]
		ps := m.pool(args[0])
		ps.members = append(ps.members, args[2].(string))
	case "cycle.cleanup":
		if p, ok := m.rep2pool[args[0]]; ok {
			ps := m.pool(p)
			ps.cleanups[args[1].(string)]++
			if !ps.quiesced {
				ps.cleanupBeforeQuiescence = true
			}
			ps.mix("c:" + args[1].(string))
		}
	case "cycle.wake":
		if p, ok := m.rep2pool[args[0]]; ok {
			m.pool(p).mix("w:" + args[1].(string))
		}
	}
}

// harvest returns and removes all pools (call at quiescence of the workload: between requests).
func (m *monitor) harvest() []*poolState {
	m.mu.Lock()
	defer m.mu.Unlock()
	var out []*poolState
	for _, ps := range m.pools {
		out = append(out, ps)
	}
	m.pools = map[any]*poolState{}
	m.rep2pool = map[any]any{}
	return out
}

// ---- yield injection ----

var yieldSeed atomic.Uint64
var yieldOn atomic.Bool

// yieldQueues extends the injection to the queue hook points (claim / publish / park windows of the
// message queues between workers): used by the cancellation phase.
var yieldQueues atomic.Bool

func yielder(point string) {
	if !yieldOn.Load() {
		return
	}
	if !strings.HasPrefix(point, "cycle.") && !(yieldQueues.Load() && (strings.HasPrefix(point, "mpmc.") || strings.HasPrefix(point, "mpsc."))) {
		return
	}
	n := yieldSeed.Add(0x9E3779B97F4A7C15)
	x := n ^ (n >> 29)
	switch x % 7 {
	case 0, 1, 2:
		runtime.Gosched()
	case 3:
		time.Sleep(time.Duration(x%200) * time.Microsecond)
	case 4:
		time.Sleep(time.Duration(x%3) * time.Millisecond)
	}
}

// ---- directed cases ----

type directed struct {
	name     string
	dsl      string
	tuples   func(n int) []*openfgav1.TupleKey
	typ, rel string
	users    []string
}

func tk(o, r, u string) *openfgav1.TupleKey {
	return &openfgav1.TupleKey{Object: o, Relation: r, User: u}
}

func directedCases() []directed {
	return []directed{
		{"recursive-userset-chain", `model
  schema 1.1
type user
type group
  relations
    define member: [user, group#member]
type doc
  relations
    define viewer: [group#member]`, func(n int) []*openfgav1.TupleKey {
			var t []*openfgav1.TupleKey
			for i := 0; i < n; i++ {
				t = append(t, tk(fmt.Sprintf("group:g%d", i+1), "member", fmt.Sprintf("group:g%d#member", i)))
				t = append(t, tk(fmt.Sprintf("doc:d%d", i), "viewer", fmt.Sprintf("group:g%d#member", i)))
			}
			t = append(t, tk("group:g0", "member", "user:a"), tk("group:g0", "member", fmt.Sprintf("group:g%d#member", n))) // closes the cycle
			return t
		}, "doc", "viewer", []string{"user:a", "user:b"}},
		{"wide-cyclic-burst", `model
  schema 1.1
type user
type group
  relations
    define member: [user, group#member]`, func(n int) []*openfgav1.TupleKey {
			// many two-level groups: one burst of 8n objects enters the cyclic edge of group#member at once
			var t []*openfgav1.TupleKey
			for i := 0; i < 8*n; i++ {
				t = append(t, tk(fmt.Sprintf("group:leaf%d", i), "member", "user:a"))
				t = append(t, tk(fmt.Sprintf("group:top%d", i), "member", fmt.Sprintf("group:leaf%d#member", i)))
			}
			return t
		}, "group", "member", []string{"user:a", "user:b"}},
		{"recursive-ttu-chain", `model
  schema 1.1
type user
type folder
  relations
    define parent: [folder]
    define viewer: [user] or viewer from parent
type doc
  relations
    define parent: [folder]
    define viewer: viewer from parent`, func(n int) []*openfgav1.TupleKey {
			var t []*openfgav1.TupleKey
			for i := 0; i < n; i++ {
				t = append(t, tk(fmt.Sprintf("folder:f%d", i+1), "parent", fmt.Sprintf("folder:f%d", i)))
				t = append(t, tk(fmt.Sprintf("doc:d%d", i), "parent", fmt.Sprintf("folder:f%d", i)))
			}
			t = append(t, tk("folder:f0", "viewer", "user:a"), tk("folder:f0", "parent", fmt.Sprintf("folder:f%d", n)))
			return t
		}, "doc", "viewer", []string{"user:a", "user:b"}},
		{"mutual-recursion", `model
  schema 1.1
type user
type team
  relations
    define lead: [user, team#member]
    define member: [user, team#lead] or lead
type doc
  relations
    define viewer: [team#member, team#lead]`, func(n int) []*openfgav1.TupleKey {
			var t []*openfgav1.TupleKey
			for i := 0; i < n; i++ {
				t = append(t, tk(fmt.Sprintf("team:t%d", i+1), "lead", fmt.Sprintf("team:t%d#member", i)))
				t = append(t, tk(fmt.Sprintf("team:t%d", i+1), "member", fmt.Sprintf("team:t%d#lead", i)))
				t = append(t, tk(fmt.Sprintf("doc:d%d", i), "viewer", fmt.Sprintf("team:t%d#member", i)))
			}
			t = append(t, tk("team:t0", "lead", "user:a"), tk("team:t0", "member", fmt.Sprintf("team:t%d#lead", n)))
			return t
		}, "doc", "viewer", []string{"user:a", "user:b"}},
		{"ttu-and-userset-cycle", `model
  schema 1.1
type user
type group
  relations
    define parent: [group]
    define member: [user, group#member] or member from parent
type doc
  relations
    define viewer: [group#member]`, func(n int) []*openfgav1.TupleKey {
			var t []*openfgav1.TupleKey
			for i := 0; i < n; i++ {
				if i%2 == 0 {
					t = append(t, tk(fmt.Sprintf("group:g%d", i+1), "member", fmt.Sprintf("group:g%d#member", i)))
				} else {
					t = append(t, tk(fmt.Sprintf("group:g%d", i+1), "parent", fmt.Sprintf("group:g%d", i)))
				}
				t = append(t, tk(fmt.Sprintf("doc:d%d", i), "viewer", fmt.Sprintf("group:g%d#member", i)))
			}
			t = append(t, tk("group:g0", "member", "user:a"), tk("group:g0", "parent", fmt.Sprintf("group:g%d", n)))
			return t
		}, "doc", "viewer", []string{"user:a", "user:b"}},
	}
}

type job struct {
	name           string
	model          *openfgav1.AuthorizationModel
	perm           *openfgav1.AuthorizationModel
	stored         []*openfgav1.TupleKey
	ctxl           []*openfgav1.TupleKey
	typ, rel, user string
}

func run(c *vk.Ctx) {
	c.SetRule("ListObjects runs on the streaming pipeline (chunk 1/2/100, buffer 0/1/2/128, 1 or 3 procs) over directed models with cycle groups of several members (recursive userset chains, recursive tuple-to-userset chains, mutually recursive relations, mixed cycles; chain length 3..14 closed into a tuple cycle) and over seeded generated cases; every run repeats under seeded yield injection (Gosched / sub-millisecond sleeps) at the cycle group's suspension points; the hook events of each status pool are checked online: in-flight count never negative, reaches zero at most once, is never incremented from zero after the first join, the quiescence latch closes only after every member signalled ready, no member cleans up before quiescence, every member cleans up exactly once; the request must return (teardown completes) and its output must equal the reference set; " +
		"distinct_nontrivial = distinct (case kind, pipeline tuning, interleaving signature of the pool's inc/dec/report/quiescence/cleanup/wake events) of runs whose model has a cycle group")
	c.Assume("interleavings are sampled (seeded yields), not enumerated; the evidence reports the number of distinct event-order signatures observed")
	c.Assume("event-order invariants are chosen to be sound under the hook's emission points (events that must precede an action are emitted before it)")
	c.RaceAnchors = []string{"/internal/listobjects/pipeline/", "/internal/containers/"}
	mon := newMonitor()
	verifhook.SetSink(mon.sink)
	verifhook.SetYield(yielder)
	defer verifhook.SetSink(nil)
	defer verifhook.SetYield(nil)

	base, err := drive.New(drive.Cfg{LOEngine: "pipeline", LODeadline: 5 * time.Second})
	if err != nil {
		c.HarnessError("server: %v", err)
		return
	}
	type tune struct {
		name string
		s    *drive.Srv
	}
	tunes := []tune{{"default", base}}
	for _, cfg := range []drive.Cfg{
		{LOEngine: "pipeline", Chunk: 1, Buffer: -1, Procs: 1, LODeadline: 5 * time.Second},
		{LOEngine: "pipeline", Chunk: 1, Buffer: 1, Procs: 3, LODeadline: 5 * time.Second},
		{LOEngine: "pipeline", Chunk: 2, Buffer: 2, Procs: 3, LODeadline: 5 * time.Second},
	} {
		s, err := drive.NewShared(cfg, base)
		if err != nil {
			c.HarnessError("server: %v", err)
			return
		}
		tunes = append(tunes, tune{fmt.Sprintf("chunk%d/buf%d/procs%d", cfg.Chunk, cfg.Buffer, cfg.Procs), s})
	}
	hung := false
	defer func() {
		if !hung { // a hung request keeps its server busy: closing would block
			for _, t := range tunes[1:] {
				t.s.Close()
			}
			base.Close()
		}
	}()

	var jobs []job
	for _, d := range directedCases() {
		m, err := parser.TransformDSLToProto(d.dsl)
		if err != nil {
			c.HarnessError("directed model %s: %v", d.name, err)
			return
		}
		for _, n := range []int{3, 7, c.Pick(10, 14)} {
			for _, u := range d.users {
				jobs = append(jobs, job{name: fmt.Sprintf("%s/n=%d", d.name, n), model: m, stored: d.tuples(n), typ: d.typ, rel: d.rel, user: u})
			}
		}
	}
	if f := os.Getenv("VERIF_C21_DSL"); f != "" {
		// debugging aid: file = DSL model, then a line "---", then lines "object#relation@user" (prefix "ctx " for
		// contextual tuples), then a line "? type relation user"
		jobs = nil
		b, _ := os.ReadFile(f)
		parts := strings.SplitN(string(b), "\n---\n", 2)
		m, err := parser.TransformDSLToProto(parts[0])
		if err != nil {
			c.HarnessError("dsl: %v", err)
			return
		}
		j := job{name: "dsl", model: m}
		for _, line := range strings.Split(parts[1], "\n") {
			line = strings.TrimSpace(line)
			if line == "" {
				continue
			}
			if strings.HasPrefix(line, "?") {
				fs := strings.Fields(line)
				j.typ, j.rel, j.user = fs[1], fs[2], fs[3]
				continue
			}
			isCtx := strings.HasPrefix(line, "ctx ")
			line = strings.TrimPrefix(line, "ctx ")
			at := strings.LastIndex(line, "@")
			hash := strings.Index(line, "#")
			t := tk(line[:hash], line[hash+1:at], line[at+1:])
			if isCtx {
				j.ctxl = append(j.ctxl, t)
			} else {
				j.stored = append(j.stored, t)
			}
		}
		jobs = append(jobs, j)
	}
	// generated cases
	r := c.Rand("gen")
	if os.Getenv("VERIF_C21_DSL") != "" {
		r = nil
	}
	for i := 0; r != nil && i < c.Pick(25, 300); i++ {
		gc := gen.NewCase(r, fmt.Sprintf("gen-%d", i), gen.Options{})
		rm := ref.NewModel(gc.Model, ref.TemplateCondEval)
		if !rm.Stratified {
			continue
		}
		var valid []*openfgav1.TupleKey
		for _, t := range gc.Tuples {
			if rm.ValidForRead(t) {
				valid = append(valid, t)
			}
		}
		for _, t := range rm.TypeNames() {
			for _, rel := range rm.RelationNames(t) {
				if rm.ReachesRecursion(t, rel) && r.Intn(2) == 0 {
					jobs = append(jobs, job{name: fmt.Sprintf("gen-%d", i), model: gc.Model, perm: gc.Permissive, stored: valid, typ: t, rel: rel, user: "user:" + gen.UserIDs[r.Intn(3)]})
				}
			}
		}
	}
	// last: the saved witness of a teardown that never completes (see known_findings.json); it is last
	// because a hung request cannot be cleaned up and ends the run
	if os.Getenv("VERIF_C21_DSL") == "" {
		if j, ok := loadWitness(c, vk.Root()+"/cases/pipeline-hang-1.json"); ok {
			jobs = append(jobs, j)
		}
	}
	reps := c.Pick(6, 40)
	for ji, j := range jobs {
		if hung {
			c.Inconclusive("jobs skipped after a hang (the hung request keeps pipeline goroutines alive)")
			break
		}
		store, err := base.CreateStore(fmt.Sprintf("c21-job-%d", ji))
		if err != nil {
			c.HarnessError("CreateStore: %v", err)
			return
		}
		mid, err := base.WriteModel(store, j.model)
		if err != nil {
			c.Count("models_rejected", 1)
			continue
		}
		if err := base.WriteTuples(store, mid, j.stored); err != nil {
			c.Count("tuple_sets_rejected", 1)
			continue
		}
		rm := ref.NewModel(j.model, ref.TemplateCondEval)
		rc := ref.NewCase(rm, append(append([]*openfgav1.TupleKey{}, j.stored...), j.ctxl...), nil, j.user)
		want, anyE := sem.RefListObjects(rc, j.typ, j.rel, j.user)
		kind := strings.SplitN(j.name, "/", 2)[0]
		if strings.HasPrefix(kind, "gen-") {
			kind = "generated"
		}
		for rep := 0; rep < reps; rep++ {
			t := tunes[(ji+rep)%len(tunes)]
			yieldOn.Store(rep > 0) // first run without injection
			yieldSeed.Store(uint64(c.SubSeed(fmt.Sprintf("y-%d-%d", ji, rep))))
			mon.harvest()
			var lo drive.ListOutcome
			returned := drive.Watch(hangAfter(), func() {
				lo = t.s.ListObjects(drive.Req{Store: store, Object: j.typ, Relation: j.rel, User: j.user, Contextual: j.ctxl})
			})
			c.Count("pipeline_runs", 1)
			if !returned {
				// logical confirmation: the dump must show cycle members parked in the status pool / sleep chain
				buf := make([]byte, 1<<22)
				dump := string(buf[:runtime.Stack(buf, true)])
				parked := strings.Count(dump, "track.(*StatusPool).Wait") + strings.Count(dump, "worker.(*Membership).Sleep")
				drains := strings.Count(dump, "worker.DrainSender")
				w := map[string]any{"job": j.name, "tuning": t.name, "model": rm.DSL(), "stored": gen.TupleStrings(j.stored), "contextual": gen.TupleStrings(j.ctxl), "request": []string{j.typ, j.rel, j.user},
					"goroutines_parked_in_cycle_wait": parked, "goroutines_in_DrainSender": drains, "yield_injection": rep > 0}
				if parked == 0 && drains == 0 {
					c.Inconclusive("request did not return within 60s but no pipeline goroutine is parked")
				} else {
					c.Violation(classifyHang(rm, j), "hang|"+kind, fmt.Sprintf("ListObjects(%s, %s, %s) on the pipeline (%s) did not return 25 s after its 5 s deadline: %d goroutines parked in the cycle group's wait / sleep, %d in DrainSender — teardown never completes", j.typ, j.rel, j.user, t.name, parked, drains), w)
				}
				hung = true
				break
			}
			pools := mon.harvest()
			cyc := false
			for _, ps := range pools {
				if len(ps.members) == 0 {
					continue
				}
				cyc = true
				c.Count("cycle_groups_observed", 1)
				c.Count("cycle_group_events", ps.events)
				c.Seen("interleaving_signatures", fmt.Sprintf("%s|%d|%x", kind, len(ps.members), ps.sig))
				c.Seen("cycle_group_sizes", fmt.Sprint(len(ps.members)))
				c.Case(fmt.Sprintf("%s|%s|m=%d|%x", kind, t.name, len(ps.members), ps.sig), true)
				bad := ""
				switch {
				case ps.negative:
					bad = "in-flight count went negative"
				case ps.decZeros > 1:
					bad = fmt.Sprintf("in-flight count reached zero %d times", ps.decZeros)
				case ps.incOnes > 1:
					bad = fmt.Sprintf("in-flight count was incremented from zero %d times (premature quiescence or late message)", ps.incOnes)
				case ps.quiesceBad != "":
					bad = ps.quiesceBad
				case ps.cleanupBeforeQuiescence && lo.Err == nil:
					bad = "a member cleaned up before the quiescence latch closed"
				}
				if bad == "" && ps.quiesced && lo.Err == nil {
					for _, mname := range ps.members {
						if ps.cleanups[mname] != 1 {
							bad = fmt.Sprintf("member %s cleaned up %d times", mname, ps.cleanups[mname])
						}
					}
				}
				if bad != "" {
					c.Violation("", "trace|"+bad[:20], fmt.Sprintf("cycle group %v of %s (%s): %s", ps.members, j.name, t.name, bad),
						map[string]any{"job": j.name, "tuning": t.name, "model": rm.DSL(), "stored": gen.TupleStrings(j.stored), "members": ps.members, "events": ps.events})
				}
			}
			if !cyc {
				c.Count("runs_without_cycle_group", 1)
				c.Case(fmt.Sprintf("%s|%s|nocycle", kind, t.name), false)
			}
			// no lost work
			if lo.Err != nil {
				c.Count("runs_with_error", 1)
				if !anyE && !rc.AnyUnevaluable() && drive.CodeOf(lo.Err) != "DeadlineExceeded" {
					c.Violation("", "error|"+kind, fmt.Sprintf("pipeline ListObjects(%s, %s, %s) fails: %s", j.typ, j.rel, j.user, drive.ErrDetail(lo.Err)), map[string]any{"job": j.name, "model": rm.DSL()})
				}
				continue
			}
			if anyE {
				continue
			}
			got := append([]string{}, lo.Items...)
			sort.Strings(got)
			if strings.Join(got, ",") != strings.Join(want, ",") {
				f := "?"
				for _, o := range append(append([]string{}, got...), want...) {
					if has(got, o) == has(want, o) {
						continue
					}
					kk := ref.F
					if has(want, o) {
						kk = ref.T
					}
					ff := sem.ClassifyCheck("C21", rc, sem.Request{Object: o, Relation: j.rel, User: j.user}, kk, drive.Outcome{Allowed: has(got, o)}, "fast")
					if f == "?" {
						f = ff
					} else if f != ff {
						f = ""
					}
				}
				if f == "?" {
					f = ""
				}
				c.Violation(f, "lost-work|"+kind, fmt.Sprintf("pipeline ListObjects(%s, %s, %s) on %s (%s, yields %v) returned %v; reference %v", j.typ, j.rel, j.user, j.name, t.name, rep > 0, got, want),
					map[string]any{"job": j.name, "tuning": t.name, "model": rm.DSL(), "stored": gen.TupleStrings(j.stored), "contextual": gen.TupleStrings(j.ctxl)})
			}
		}
		// cancellation phase: the client gives up 0.2-13 ms into the request while yields widen the windows
		// around queue sends and the cycle group's protocol; teardown must still complete: the call
		// returns and no pipeline goroutine outlives it
		for rep := 0; rep < c.Pick(6, 30) && !hung; rep++ {
			t := tunes[(ji+rep)%len(tunes)]
			yieldOn.Store(true)
			yieldQueues.Store(true)
			yieldSeed.Store(uint64(c.SubSeed(fmt.Sprintf("yc-%d-%d", ji, rep))))
			after := []time.Duration{200 * time.Microsecond, time.Millisecond, 2 * time.Millisecond, 3 * time.Millisecond, 5 * time.Millisecond, 8 * time.Millisecond, 13 * time.Millisecond}[(ji+rep)%7]
			ctx, cancel := context.WithCancel(context.Background())
			go func() { time.Sleep(after); cancel() }()
			returned := drive.Watch(hangAfter(), func() {
				t.s.ListObjects(drive.Req{Store: store, Object: j.typ, Relation: j.rel, User: j.user, Contextual: j.ctxl, Context: ctx})
			})
			cancel()
			yieldQueues.Store(false)
			mon.harvest()
			c.Count("cancelled_pipeline_runs", 1)
			left := 0
			if returned {
				// bounded wait for the request's goroutines to go away
				for w := 0; w < 250; w++ {
					if left = pipelineGoroutines(); left == 0 {
						break
					}
					time.Sleep(20 * time.Millisecond)
				}
			}
			if !returned || left > 0 {
				buf := make([]byte, 1<<22)
				dump := string(buf[:runtime.Stack(buf, true)])
				what := fmt.Sprintf("ListObjects(%s, %s, %s) on the pipeline (%s), cancelled by the client after %s under yield injection: ", j.typ, j.rel, j.user, t.name, after)
				if !returned {
					what += fmt.Sprintf("did not return within %s — teardown never completes", hangAfter())
				} else {
					what += fmt.Sprintf("%d pipeline goroutines are still alive 5 s after it returned — teardown never completes", left)
				}
				c.Violation(classifyHang(rm, j), "cancel-teardown|"+kind, what, map[string]any{"job": j.name, "tuning": t.name, "model": rm.DSL(), "stored": gen.TupleStrings(j.stored), "cancel_after": after.String(),
					"goroutines_in_DrainSender": strings.Count(dump, "worker.DrainSender"), "goroutines_parked_in_cycle_wait": strings.Count(dump, "track.(*StatusPool).Wait")})
				hung = true
			}
		}
		yieldQueues.Store(false)
		if ji%10 == 0 {
			c.Sample(map[string]any{"job": j.name, "model": rm.DSL(), "tuples": len(j.stored), "request": []string{j.typ, j.rel, j.user}, "reference_set_size": len(want)})
		}
	}
	c.Count("hook_events_total", int(mon.total.Load()))
	if mon.total.Load() == 0 {
		c.HarnessError("no cycle-group hook event was observed: the build lacks the verif tag or the hooks moved")
	}
}

func hangAfter() time.Duration {
	if os.Getenv("VERIF_C21_DSL") != "" {
		return 12 * time.Second
	}
	return 30 * time.Second
}

func has(xs []string, x string) bool {
	for _, y := range xs {
		if y == x {
			return true
		}
	}
	return false
}

func loadWitness(c *vk.Ctx, path string) (job, bool) {
	b, err := os.ReadFile(path)
	if err != nil {
		return job{}, false
	}
	var doc struct {
		Witness struct {
			Model      json.RawMessage                         `json:"model_json"`
			Stored     []json.RawMessage                       `json:"stored_json"`
			Contextual []json.RawMessage                       `json:"contextual_json"`
			Request    struct{ Object, Relation, User string } `json:"request"`
		} `json:"witness"`
	}
	if json.Unmarshal(b, &doc) != nil {
		return job{}, false
	}
	m := &openfgav1.AuthorizationModel{}
	if protojson.Unmarshal(doc.Witness.Model, m) != nil {
		return job{}, false
	}
	parse := func(raw []json.RawMessage) []*openfgav1.TupleKey {
		var out []*openfgav1.TupleKey
		for _, r := range raw {
			t := &openfgav1.TupleKey{}
			if protojson.Unmarshal(r, t) == nil {
				out = append(out, t)
			}
		}
		return out
	}
	rm := ref.NewModel(m, ref.TemplateCondEval)
	var stored []*openfgav1.TupleKey
	for _, t := range parse(doc.Witness.Stored) {
		if rm.ValidForRead(t) {
			stored = append(stored, t)
		}
	}
	return job{name: "saved-witness/pipeline-hang-1", model: m, stored: stored, ctxl: parse(doc.Witness.Contextual), typ: doc.Witness.Request.Object, rel: doc.Witness.Request.Relation, user: doc.Witness.Request.User}, true
}

// classifyHang attributes a hang to the listed finding when its firing condition holds.
func classifyHang(rm *ref.Model, j job) string {
	if sem.PipelineHangShape(rm, j.typ, j.rel) {
		return "C21-pipeline-teardown-deadlock"
	}
	return ""
}

var _ = rand.Int

// pipelineGoroutines counts goroutines with a frame of the ListObjects pipeline package.
func pipelineGoroutines() int {
	buf := make([]byte, 1<<22)
	dump := string(buf[:runtime.Stack(buf, true)])
	n := 0
	for _, g := range strings.Split(dump, "\n\n") {
		if strings.Contains(g, "internal/listobjects/pipeline") {
			n++
		}
	}
	return n
}
