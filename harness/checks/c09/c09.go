// Package c09: iterator caches never change answers (request histories with client cancellation and
// deadlines landing in the middle of datastore reads, abandoned iterators, "too large to cache" results,
// background cache fills; afterwards every completed answer must equal the reference; -race).
package c09

import (
	"fmt"
	"google.golang.org/protobuf/types/known/structpb"
	"math/rand"
	"sort"
	"strings"
	"sync"
	"time"

	openfgav1 "github.com/openfga/api/proto/openfga/v1"

	"github.com/openfga/openfga/pkg/storage"
	"github.com/openfga/openfga/verifharness/checks/sem"
	"github.com/openfga/openfga/verifharness/drive"
	"github.com/openfga/openfga/verifharness/gen"
	"github.com/openfga/openfga/verifharness/ref"
	"github.com/openfga/openfga/verifharness/vk"
)

func init() { vk.Register("C09", "exploration", run) }

type cachedSrv struct {
	name  string
	s     *drive.Srv
	ods   *drive.ObsDS
	cache *drive.ObsCache
	v2    bool
}

func run(c *vk.Ctx) {
	c.SetRule("per seeded case and server (iterator caches + shared iterators on v1; the weighted-graph engine's cached reader; max cached result sizes 3 and 1000; memory and sqlite with context propagation to the datastore): a fault phase issues the sampled Check / ListObjects requests concurrently with client deadlines of 1-8 ms and client cancellations while the observing datastore delays every iterator step, so that requests die in the middle of reads and leave iterators to background drains; then, with the delay removed, every request is issued twice and must satisfy the C01 acceptance relation (a partially read result served as complete would change an answer); the counting cache wrapper must show tuple-iterator entries being stored and served; " +
		"distinct_nontrivial = distinct (API, server, rewrite skeleton, reference value) with reference T/E or data on the object")
	c.Assume("reference semantics harness/ref; faults are injected at the datastore boundary (latency per iterator step + client deadline / cancel)")
	c.RaceAnchors = []string{"/pkg/storage/storagewrappers/", "/internal/check/", "/pkg/storage/memory/"}
	if !sem.Calibrate(c) {
		return
	}
	defs := []struct {
		n   string
		cfg drive.Cfg
	}{
		{"memory,v1,itercaches+shared", drive.Cfg{CheckIterCache: true, LOIterCache: true, SharedIter: true, CtxPropagate: true}},
		{"memory,v1,itercaches,max3", drive.Cfg{CheckIterCache: true, LOIterCache: true, IterCacheMax: 3, CtxPropagate: true, LOEngine: "pipeline"}},
		{"memory,v2,cachedreader", drive.Cfg{V2: true, CheckIterCache: true, SharedIter: true, CtxPropagate: true}},
		{"sqlite,v1,itercaches+shared", drive.Cfg{Backend: "sqlite", CheckIterCache: true, LOIterCache: true, SharedIter: true, CtxPropagate: true}},
	}
	for di, d := range defs {
		oc, err := drive.NewObsCache()
		if err != nil {
			c.HarnessError("cache: %v", err)
			return
		}
		var ods *drive.ObsDS
		cfg := d.cfg
		cfg.Cache = oc
		cfg.WrapDS = func(ds storage.OpenFGADatastore) storage.OpenFGADatastore { ods = drive.NewObsDS(ds); return ods }
		s, err := drive.New(cfg)
		if err != nil {
			c.HarnessError("server %s: %v", d.n, err)
			return
		}
		cs := cachedSrv{d.n, s, ods, oc, cfg.V2}
		n := c.Pick(14, 300)
		if cfg.Backend == "sqlite" {
			n = c.Pick(5, 60)
		}
		// cases run one after another on a server: the fault phase changes the shared latency knob
		sem.RunCases(c, s, fmt.Sprintf("srv%d", di), n, gen.Options{HierarchyEvery: 3}, 0, 1, func(i int, r *rand.Rand, p *sem.Prepared, _ []*openfgav1.TupleKey) {
			oneCase(c, i, r, p, cs)
		})
		// a directed fan-out case: one relation with 40 userset tuples, members sitting behind late ones —
		// a read cut short by a cancellation leaves a long unread tail that must not be forgotten
		for rep := 0; rep < c.Pick(2, 8); rep++ {
			fr := c.Rand(fmt.Sprintf("fat-%d-%d", di, rep))
			fc := fatCase(fmt.Sprintf("C09-fat-%d-%d", di, rep))
			if store, err := s.CreateStore(fc.Name); err == nil {
				if fp, err := sem.Install(c, s, fc, store, fc.Tuples); err == nil {
					oneCase(c, 100000+rep, fr, fp, cs)
					c.Count("fan_out_cases", 1)
				} else {
					c.HarnessError("fat case: %v", err)
				}
			}
		}
		for k, v := range oc.Stats() {
			c.Count("cache_"+d.n+"_"+k, int(v))
		}
		c.Count("iterators_opened_"+d.n, int(ods.Opened.Load()))
		c.Count("iterator_steps_"+d.n, int(ods.Nexts.Load()))
		s.Close()
	}
}

func oneCase(c *vk.Ctx, i int, r *rand.Rand, p *sem.Prepared, cs cachedSrv) {
	subjects, ctxs, nodes := sem.RequestSpace(r, p, 4, 2)
	rctx := ctxs[len(ctxs)-1]
	rc := ref.NewCase(p.Ref, p.Stored, rctx, sem.ExtraObjects(nodes, subjects)...)
	reqs := sem.SampleRequests(r, rc, nodes, subjects, c.Pick(20, 40))
	if len(reqs) == 0 {
		return
	}
	type lo struct{ t, rel, u string }
	var los []lo
	for _, t := range p.Ref.TypeNames() {
		for _, rel := range p.Ref.RelationNames(t) {
			if r.Intn(3) == 0 {
				los = append(los, lo{t, rel, subjects[r.Intn(len(subjects))]})
			}
		}
	}
	// warm-up without faults: the model and typesystem lookups are shared between concurrent requests
	// (singleflight on the first caller's context); they must be resolved before deadlines are injected,
	// or one request's deadline fails another through that lookup — real, but not an iterator cache
	cs.s.Check(drive.Req{Store: p.Store, Model: p.ModelID, Object: reqs[0].Object, Relation: reqs[0].Relation, User: "user:warmup", Ctx: rctx})
	// fault phase
	cs.ods.NextLatency.Store(int64(800 * time.Microsecond))
	cs.ods.ReadLatency.Store(int64(300 * time.Microsecond))
	var wg sync.WaitGroup
	for round := 0; round < 2; round++ {
		for qi, rq := range reqs {
			wg.Add(1)
			go func(qi int, rq sem.Request) {
				defer wg.Done()
				dl := time.Duration(1+(qi*7+round*3)%8) * time.Millisecond
				// explicit model id: the latest-model lookup is shared between requests (singleflight) and would
				// let one request's deadline fail another — real, but not the iterator caches' doing
				o := cs.s.Check(drive.Req{Store: p.Store, Model: p.ModelID, Object: rq.Object, Relation: rq.Relation, User: rq.User, Ctx: rctx, Deadline: dl})
				if o.Err != nil {
					c.Count("fault_phase_requests_cut_short", 1)
				} else {
					c.Count("fault_phase_requests_completed", 1)
					// a request that completed during the fault phase is judged too — for grants only: the
					// engines treat a read cut by the request's OWN deadline as end of data, so a request whose
					// deadline fires while it finishes can deny wrongly with or without caches (not C09's subject)
					k := rc.Eval(rq.User).K(rq.Object, rq.Relation)
					if v := sem.JudgeCheck(k, rc.AnyUnevaluable(), o); v != sem.Agree && v != sem.NotJudged {
						if k == ref.T && !o.Allowed {
							c.Count("fault_phase_denials_at_own_deadline(not_judged)", 1)
						} else {
							report(c, p, cs, rc, "Check(fault phase)", rq, k, o, v)
						}
					}
				}
			}(qi, rq)
			if qi%3 == round {
				// a bystander: the same request with NO client deadline, concurrent with the cancelled ones
				// (it shares their datastore reads through the shared iterators and the iterator caches);
				// it must be answered like any other request, not fail with somebody else's cancellation
				wg.Add(1)
				go func(rq sem.Request) {
					defer wg.Done()
					o := cs.s.Check(drive.Req{Store: p.Store, Model: p.ModelID, Object: rq.Object, Relation: rq.Relation, User: rq.User, Ctx: rctx})
					k := rc.Eval(rq.User).K(rq.Object, rq.Relation)
					c.Count("bystander_requests", 1)
					c.Case(fmt.Sprintf("bystander|%s|%s", cs.name, sem.ShapeOf(p, rq, k)), k != ref.F)
					if v := sem.JudgeCheck(k, rc.AnyUnevaluable(), o); v != sem.Agree && v != sem.NotJudged {
						if o.Code == "Canceled" || o.Code == "openfga_2058" || o.Code == "DeadlineExceeded" || o.Code == "openfga_2057" {
							c.Violation("", "bystander-cancelled|"+cs.name, fmt.Sprintf("on %s, Check(%s#%s@%s) with no client deadline or cancellation failed with %s while concurrent requests sharing its reads were cancelled", cs.name, rq.Object, rq.Relation, rq.User, o), witness(p, cs.name, rq, k.String(), o.String()))
							return
						}
						report(c, p, cs, rc, "Check(bystander)", rq, k, o, v)
					}
				}(rq)
			}
		}
		for li, l := range los {
			wg.Add(1)
			go func(li int, l lo) {
				defer wg.Done()
				cs.s.ListObjects(drive.Req{Store: p.Store, Object: l.t, Relation: l.rel, User: l.u, Ctx: rctx, Deadline: time.Duration(2+li%6) * time.Millisecond})
			}(li, l)
		}
		wg.Wait()
	}
	cs.ods.NextLatency.Store(0)
	cs.ods.ReadLatency.Store(0)
	// let background drains finish (bounded wait on the observing datastore's iterator balance)
	for w := 0; w < 200 && cs.ods.Opened.Load() != cs.ods.Stopped.Load(); w++ {
		time.Sleep(5 * time.Millisecond)
	}
	// judged phase: twice (second pass is served from whatever the caches now hold)
	for pass := 0; pass < 2; pass++ {
		for _, rq := range reqs {
			k := rc.Eval(rq.User).K(rq.Object, rq.Relation)
			o := cs.s.Check(drive.Req{Store: p.Store, Object: rq.Object, Relation: rq.Relation, User: rq.User, Ctx: rctx})
			c.Case(fmt.Sprintf("check|%s|%s", cs.name, sem.ShapeOf(p, rq, k)), k != ref.F)
			c.Count("judged_check_answers", 1)
			if v := sem.JudgeCheck(k, rc.AnyUnevaluable(), o); v != sem.Agree && v != sem.NotJudged {
				if o.Code == "Canceled" || o.Code == "openfga_2058" {
					c.Violation("", "cancelled-without-client-cancel|"+cs.name, fmt.Sprintf("on %s, Check(%s#%s@%s) with no client deadline or cancellation failed with %s after other requests had been cancelled", cs.name, rq.Object, rq.Relation, rq.User, o), witness(p, cs.name, rq, k.String(), o.String()))
					continue
				}
				report(c, p, cs, rc, "Check", rq, k, o, v)
			}
		}
		for _, l := range los {
			want, anyE := sem.RefListObjects(rc, l.t, l.rel, l.u)
			if anyE {
				continue
			}
			out := cs.s.ListObjects(drive.Req{Store: p.Store, Object: l.t, Relation: l.rel, User: l.u, Ctx: rctx})
			c.Case(fmt.Sprintf("lo|%s|%s|n=%d", cs.name, ref.Shape(p.Ref.Rewrite(l.t, l.rel)), len(want)), len(want) > 0)
			c.Count("judged_listobjects_answers", 1)
			if sem.Hung(c, cs.name, out) || out.Err != nil {
				continue
			}
			got := append([]string{}, out.Items...)
			sort.Strings(got)
			if strings.Join(got, ",") != strings.Join(want, ",") {
				f := "?"
				for _, o := range append(append([]string{}, got...), want...) {
					if has(got, o) == has(want, o) {
						continue
					}
					kk := ref.F
					if has(want, o) {
						kk = ref.T
					}
					ff := sem.ClassifyCheck("C09", rc, sem.Request{Object: o, Relation: l.rel, User: l.u, Ctx: rctx}, kk, drive.Outcome{Allowed: has(got, o)}, "fast")
					if f == "?" {
						f = ff
					} else if f != ff {
						f = ""
					}
				}
				if f == "?" {
					f = ""
				}
				if f == "" && strings.Contains(cs.name, "pipeline") == false && false {
					f = ""
				}
				c.Violation(f, "lo|"+cs.name+"|"+ref.Shape(p.Ref.Rewrite(l.t, l.rel)), fmt.Sprintf("on %s after the fault phase, ListObjects(%s, %s, %s) = %v; reference %v", cs.name, l.t, l.rel, l.u, got, want),
					witness(p, cs.name, sem.Request{Object: l.t, Relation: l.rel, User: l.u, Ctx: rctx}, strings.Join(want, ","), strings.Join(got, ",")))
			}
		}
	}
	c.SampleEvery(i, 12, func() any {
		return map[string]any{"case": p.Case.Name, "server": cs.name, "model": p.Ref.DSL(), "stored": gen.TupleStrings(p.Stored), "requests": len(reqs), "list_requests": len(los)}
	})
}

func has(xs []string, x string) bool {
	for _, y := range xs {
		if y == x {
			return true
		}
	}
	return false
}

func witness(p *sem.Prepared, cfg string, rq sem.Request, want, got string) map[string]any {
	w := sem.Witness(p, cfg, "", rq, nil, want, got)
	sem.AddWire(w, p, nil, rq.Ctx)
	return w
}

func report(c *vk.Ctx, p *sem.Prepared, cs cachedSrv, rc *ref.Case, api string, rq sem.Request, k ref.Tri, o drive.Outcome, v sem.Verdict) {
	f := sem.ClassifyCheck("C09", rc, rq, k, o, "fast")
	if f == "" && cs.v2 {
		f = sem.ClassifyV2("C09", p, rc, rq, k, o)
	}
	c.Violation(f, fmt.Sprintf("%s|%s|%s|%s", api, cs.name, v, k), fmt.Sprintf("on %s (iterator caches on), %s(%s#%s@%s, ctx=%s) answered %s; reference %s [%s]", cs.name, api, rq.Object, rq.Relation, rq.User, gen.CtxString(rq.Ctx), o, k, v),
		witness(p, cs.name, rq, k.String(), o.String()))
}

// fatCase is doc:d1#viewer granted to 40 groups (usersets) whose members sit in groups late in the list.
func fatCase(name string) *gen.Case {
	ref := func(t, rel string) *openfgav1.RelationReference { return gen.Ref(t, rel, false, "") }
	this := &openfgav1.Userset{Userset: &openfgav1.Userset_This{This: &openfgav1.DirectUserset{}}}
	group := &openfgav1.TypeDefinition{Type: "group", Relations: map[string]*openfgav1.Userset{"member": this},
		Metadata: &openfgav1.Metadata{Relations: map[string]*openfgav1.RelationMetadata{"member": {DirectlyRelatedUserTypes: []*openfgav1.RelationReference{ref("user", "")}}}}}
	doc := &openfgav1.TypeDefinition{Type: "doc", Relations: map[string]*openfgav1.Userset{"viewer": this},
		Metadata: &openfgav1.Metadata{Relations: map[string]*openfgav1.RelationMetadata{"viewer": {DirectlyRelatedUserTypes: []*openfgav1.RelationReference{ref("group", "member"), ref("user", "")}}}}}
	m := &openfgav1.AuthorizationModel{SchemaVersion: "1.1", TypeDefinitions: []*openfgav1.TypeDefinition{{Type: "user"}, group, doc}}
	ids := map[string][]string{"user": {"t1", "t2", "t3", "x"}, "doc": {"d1"}, "group": nil, "folder": nil}
	gc := &gen.Case{Name: name, Model: m, Permissive: m, Features: map[string]bool{"fan-out": true, "userset": true}, IDs: ids, Contexts: []*structpb.Struct{nil}}
	for i := 0; i < 40; i++ {
		g := fmt.Sprintf("g%02d", i)
		ids["group"] = append(ids["group"], g)
		gc.Tuples = append(gc.Tuples, &openfgav1.TupleKey{Object: "doc:d1", Relation: "viewer", User: "group:" + g + "#member"})
	}
	for u, g := range map[string]string{"t1": "g30", "t2": "g39", "t3": "g05"} {
		gc.Tuples = append(gc.Tuples, &openfgav1.TupleKey{Object: "group:" + g, Relation: "member", User: "user:" + u})
	}
	sort.Slice(gc.Tuples, func(i, j int) bool { return gen.TupleString(gc.Tuples[i]) < gen.TupleString(gc.Tuples[j]) })
	return gc
}
