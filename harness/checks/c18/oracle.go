package c18

import (
	"math"
	"sort"
	"strings"
	"unicode"

	openfgav1 "github.com/openfga/api/proto/openfga/v1"
	"google.golang.org/protobuf/proto"
	"google.golang.org/protobuf/types/known/structpb"

	"github.com/openfga/openfga/verifharness/ref"
)

// ctxByteLimit is the documented limit of a stored condition context (32 KB, wire size of the struct).
const ctxByteLimit = 32 * 1024

// Verdict is the oracle's judgement of one tuple against one model, written from the property text:
// a tuple is valid exactly when
//
//	(1) object, relation and user are well formed (type:id / name / type:id, type:*, type:id#relation),
//	(2) the object type and the relation exist,
//	(3) the user's type exists (and, for a userset, its relation exists on that type),
//	(4) a tupleset relation receives only a concrete object,
//	(5) the user matches one of the relation's type restrictions in type and shape,
//	(6) the tuple's condition (or absence of one) is what one of the *matching* restrictions allows,
//	(7) every stored context key is a parameter the condition declares, every value fits the declared
//	    type, and the context is not larger than the limit,
//	(8) it is not a userset pointing at itself.
type Verdict struct {
	Valid     bool
	Judged    bool     // false: validity hinges on a point on which the statement is silent
	Reasons   []string // every clause that fails (sorted); empty when valid
	Match     string   // how the user relates to the restrictions: no-relation / no-type / type-only / shape
	CondClass string   // none-ok / none-missing / allowed / other-shape-only / not-allowed / undefined
}

func (v Verdict) Reason() string {
	if len(v.Reasons) == 0 {
		if !v.Judged {
			return "not-judged"
		}
		return "valid"
	}
	return strings.Join(v.Reasons, "+")
}

func hasSpaceOrCtl(s string) bool {
	for _, r := range s {
		if unicode.IsSpace(r) || unicode.IsControl(r) {
			return true
		}
	}
	return false
}

// typeID splits "type:id" requiring exactly one colon, both parts non-empty, no '#', '@' in the type, no blanks.
func typeID(s string) (typ, id string, ok bool) {
	if strings.Count(s, ":") != 1 || strings.Contains(s, "#") || hasSpaceOrCtl(s) {
		return "", "", false
	}
	i := strings.Index(s, ":")
	typ, id = s[:i], s[i+1:]
	if typ == "" || id == "" {
		return "", "", false
	}
	return typ, id, true
}

func nameOK(s string) bool {
	return s != "" && !strings.ContainsAny(s, ":#@") && !hasSpaceOrCtl(s)
}

// fits reports whether a stored value fits a declared parameter type: +1 yes, -1 no, 0 not judged.
// Only the unambiguous wire forms are judged (an integral JSON number for int, a JSON string for
// string, a JSON bool for bool; a value of another JSON kind does not fit); numeric strings for an
// int, nulls and very large numbers are left alone.
func fits(v *structpb.Value, t openfgav1.ConditionParamTypeRef_TypeName) int {
	if v == nil {
		return 0
	}
	switch k := v.GetKind().(type) {
	case *structpb.Value_NullValue:
		return 0
	case *structpb.Value_NumberValue:
		switch t {
		case openfgav1.ConditionParamTypeRef_TYPE_NAME_INT:
			if math.IsNaN(k.NumberValue) || math.IsInf(k.NumberValue, 0) {
				return 0
			}
			if k.NumberValue != math.Trunc(k.NumberValue) {
				return -1
			}
			if math.Abs(k.NumberValue) > 1e9 {
				return 0
			}
			return 1
		case openfgav1.ConditionParamTypeRef_TYPE_NAME_STRING, openfgav1.ConditionParamTypeRef_TYPE_NAME_BOOL:
			return -1
		}
		return 0
	case *structpb.Value_StringValue:
		switch t {
		case openfgav1.ConditionParamTypeRef_TYPE_NAME_STRING:
			return 1
		case openfgav1.ConditionParamTypeRef_TYPE_NAME_BOOL:
			return -1
		}
		return 0 // "5" for an int: silent
	case *structpb.Value_BoolValue:
		switch t {
		case openfgav1.ConditionParamTypeRef_TYPE_NAME_BOOL:
			return 1
		case openfgav1.ConditionParamTypeRef_TYPE_NAME_INT, openfgav1.ConditionParamTypeRef_TYPE_NAME_STRING:
			return -1
		}
		return 0
	case *structpb.Value_ListValue, *structpb.Value_StructValue:
		switch t {
		case openfgav1.ConditionParamTypeRef_TYPE_NAME_INT, openfgav1.ConditionParamTypeRef_TYPE_NAME_STRING, openfgav1.ConditionParamTypeRef_TYPE_NAME_BOOL:
			return -1
		}
		return 0
	}
	return 0
}

// Judge is the oracle.
func Judge(m *ref.Model, tk *openfgav1.TupleKey) Verdict {
	v := Verdict{Judged: true, Match: "no-relation", CondClass: "-"}
	fail := func(r string) { v.Reasons = append(v.Reasons, r) }

	obj, rel, user := tk.GetObject(), tk.GetRelation(), tk.GetUser()
	ot, oid, okObj := typeID(obj)
	if !okObj || oid == "*" {
		fail("malformed-object")
	}
	okRel := nameOK(rel)
	if !okRel {
		fail("malformed-relation")
	}
	// user: type:id | type:* | type:id#relation
	var ut, uid, urel string
	okUser := true
	switch strings.Count(user, "#") {
	case 0:
		ut, uid, okUser = typeID(user)
	case 1:
		i := strings.Index(user, "#")
		urel = user[i+1:]
		ut, uid, okUser = typeID(user[:i])
		if okUser && (!nameOK(urel) || uid == "*") {
			okUser = false
		}
	default:
		okUser = false
	}
	if !okUser {
		fail("malformed-user")
	}
	if len(v.Reasons) > 0 {
		// a malformed tuple has no meaning against the model; whatever else is wrong with it, it is invalid
		sort.Strings(v.Reasons)
		return v
	}

	if m.Types[ot] == nil {
		fail("unknown-object-type")
	} else if m.Rewrite(ot, rel) == nil {
		fail("unknown-relation")
	}
	if m.Types[ut] == nil {
		fail("unknown-user-type")
	} else if urel != "" && m.Rewrite(ut, urel) == nil {
		fail("unknown-userset-relation")
	}
	if len(v.Reasons) > 0 {
		sort.Strings(v.Reasons)
		return v
	}

	shape := "object"
	switch {
	case urel != "":
		shape = "userset"
	case uid == "*":
		shape = "wildcard"
	}
	if m.IsTupleset(ot, rel) && shape != "object" {
		fail("tupleset-nonobject")
	}

	// type restrictions
	var matching []*openfgav1.RelationReference
	sameType := false
	var sameTypeConds []string
	for _, rr := range m.Restrictions(ot, rel) {
		if rr.GetType() != ut {
			continue
		}
		sameType = true
		sameTypeConds = append(sameTypeConds, rr.GetCondition())
		rrShape := "object"
		switch {
		case rr.GetWildcard() != nil:
			rrShape = "wildcard"
		case rr.GetRelation() != "":
			rrShape = "userset"
		}
		if rrShape != shape || (shape == "userset" && rr.GetRelation() != urel) {
			continue
		}
		matching = append(matching, rr)
	}
	switch {
	case len(matching) > 0:
		v.Match = "shape"
	case sameType:
		v.Match = "type-only"
		fail("type-restriction")
	default:
		v.Match = "no-type"
		fail("type-restriction")
	}

	// condition
	name := ""
	hasCond := tk.GetCondition() != nil
	if hasCond {
		name = tk.GetCondition().GetName()
	}
	if hasCond && name == "" {
		// a condition object without a name: the statement does not say whether it means "no condition"
		v.Judged = false
	}
	allowed := false
	for _, rr := range matching {
		if rr.GetCondition() == name {
			allowed = true
		}
	}
	otherShape := false
	for _, cn := range sameTypeConds {
		if cn == name {
			otherShape = true
		}
	}
	cdef := m.Conds[name]
	switch {
	case name == "" && allowed:
		v.CondClass = "none-ok"
	case name == "":
		v.CondClass = "none-missing"
		if otherShape {
			v.CondClass = "none-other-shape-only"
		}
		if len(matching) > 0 {
			fail("condition-missing")
		}
	case cdef == nil:
		v.CondClass = "undefined"
		fail("condition-undefined")
	case allowed:
		v.CondClass = "allowed"
	default:
		v.CondClass = "not-allowed"
		if otherShape {
			v.CondClass = "other-shape-only"
		}
		fail("condition-not-allowed")
	}

	// stored context
	if name != "" {
		ctx := tk.GetCondition().GetContext()
		if cdef != nil {
			ambiguous := false
			undeclared, mistyped := false, false
			for k, val := range ctx.GetFields() {
				p, ok := cdef.GetParameters()[k]
				if !ok {
					undeclared = true
					continue
				}
				switch fits(val, p.GetTypeName()) {
				case -1:
					mistyped = true
				case 0:
					ambiguous = true
				}
			}
			if undeclared {
				fail("ctx-undeclared")
			}
			if mistyped {
				fail("ctx-mistyped")
			}
			if ambiguous && len(v.Reasons) == 0 {
				v.Judged = false
			}
		}
		if proto.Size(ctx) > ctxByteLimit {
			fail("ctx-oversize")
		}
	}

	if user == obj+"#"+rel {
		fail("self-reference")
	}

	sort.Strings(v.Reasons)
	if len(v.Reasons) > 0 {
		v.Judged = true // invalid for a reason that does not depend on the silent point
	}
	v.Valid = len(v.Reasons) == 0 && v.Judged
	return v
}

// crossCheck compares the restriction/condition-name part of Judge with harness/ref's validator (a
// second independent definition); a disagreement is a defect of the harness, never of the server.
func crossCheck(m *ref.Model, tk *openfgav1.TupleKey, v Verdict) bool {
	structural := true
	for _, r := range v.Reasons {
		if strings.HasPrefix(r, "malformed-") {
			return true // ref's validator presupposes well-formed tuples
		}
		if !strings.HasPrefix(r, "ctx-") && r != "self-reference" {
			structural = false
		}
	}
	if tk.GetCondition() != nil && tk.GetCondition().GetName() == "" {
		return true
	}
	return m.ValidForRead(tk) == structural
}
