// Package c18: tuple validation accepts exactly what the model allows (independent-validator monitor
// on Write and on contextual tuples; rejected writes leave store and changelog untouched).
package c18

import (
	"context"
	"crypto/sha256"
	"encoding/base64"
	"encoding/json"
	"errors"
	"fmt"
	"math/rand"
	"os"
	"sort"
	"strconv"
	"strings"
	"sync"
	"time"

	openfgav1 "github.com/openfga/api/proto/openfga/v1"
	"google.golang.org/protobuf/encoding/protojson"
	"google.golang.org/protobuf/proto"
	"google.golang.org/protobuf/types/known/structpb"
	"google.golang.org/protobuf/types/known/wrapperspb"

	"github.com/openfga/openfga/pkg/storage"
	"github.com/openfga/openfga/verifharness/checks/sem"
	"github.com/openfga/openfga/verifharness/drive"
	"github.com/openfga/openfga/verifharness/gen"
	"github.com/openfga/openfga/verifharness/ref"
	"github.com/openfga/openfga/verifharness/vk"
)

func init() { vk.Register("C18", "exploration", run) }

func run(c *vk.Ctx) {
	c.SetRule("for each seeded, stratified, server-accepted model: tuples over the vocabulary (objects of every type incl. an unknown id × every relation; users = objects and typed wildcards of every type, usersets type:id#rel for every defined relation and an undefined one) × condition ∈ {none, each defined condition, an undefined name} × stored context ∈ {none, empty, all parameters well typed, one parameter, one mistyped value, an undeclared key, a parameter of another condition, exactly at the 32 KiB limit, one byte above}; " +
		"user/relation pairs that match a type restriction in shape get the full condition × context cross product, pairs matching only in type get every condition name, the rest is sampled (thorough: the full cross product on one model in eight); plus malformed variants derived from a valid tuple by changing one field (no type, empty id, blanks, extra ':' or '#', typed wildcard as object, untyped '*', unknown type, undefined relation, undefined userset relation, wildcard userset). " +
		"Each tuple is (a) sent alone through Server.Write (accepted writes are verified to be stored exactly, logged once, and deleted again), (b) passed as the only contextual tuple of Server.Check and, sampled, of ListObjects / Expand / ListUsers, and of Check on a weighted-graph (v2) server for every third model; acceptance is compared with the oracle written from the property text. After every rejected Write the store content (ReadAll) and the changelog (read whole from the backend) must be unchanged; multi-tuple requests with one invalid tuple must change nothing. " +
		"distinct_nontrivial = distinct (path, family, user shape, tupleset?, restriction match class, condition class, context kind, failing clauses) of judged cases other than plain type mismatches without condition")
	c.Assume("the models are the ones the server's WriteAuthorizationModel accepted (schema 1.1); condition family of harness/gen (parameters x:int, s:string, b:bool)")
	c.Assume("only unambiguous context values are judged: integral JSON number for int, JSON string for string, JSON bool for bool fit; a value of another JSON kind (or a fractional number for int) does not; numeric strings for int and nulls are observed but not judged")
	c.Assume("the context size limit is the default 32*1024 bytes of the wire encoding (proto.Size of the context struct); a context of exactly that size is within the limit")
	c.Assume("a contextual tuple counts as rejected when the request fails with InvalidArgument or an OpenFGA 2xxx input error other than resolution-too-complex; the request context supplies every parameter so that no valid tuple's condition is unevaluable")

	if c.Replay != "" {
		replay(c, c.Replay)
		return
	}

	mem, err := drive.New(drive.Cfg{})
	if err != nil {
		c.HarnessError("server: %v", err)
		return
	}
	defer mem.Close()
	v2, err := drive.New(drive.Cfg{V2: true})
	if err != nil {
		c.HarnessError("v2 server: %v", err)
		return
	}
	defer v2.Close()
	var sql *drive.Srv
	if !c.Quick() {
		s, err := drive.New(drive.Cfg{Backend: "sqlite"})
		if err != nil {
			c.HarnessError("sqlite server: %v", err)
			return
		}
		defer s.Close()
		sql = s
	}

	n := c.Pick(300, 600)
	if v := os.Getenv("VERIF_C18_MODELS"); v != "" {
		n, _ = strconv.Atoi(v)
	}
	var wg sync.WaitGroup
	slots := make(chan struct{}, 8)
	for i := 0; i < n; i++ {
		wg.Add(1)
		slots <- struct{}{}
		go func(i int) {
			defer wg.Done()
			defer func() { <-slots }()
			oneModel(c, i, mem, v2, sql)
		}(i)
	}
	wg.Wait()
	disMu.Lock()
	c.Extra("disagreements_by_finding_id", dis)
	disMu.Unlock()
}

// ---------------------------------------------------------------------------------------------
// candidates

type cand struct {
	TK      *openfgav1.TupleKey
	Family  string // "vocab" or "malformed:<what>"
	CtxKind string
}

func mkTuple(obj, rel, user string, cond string, ctx *structpb.Struct) *openfgav1.TupleKey {
	tk := &openfgav1.TupleKey{Object: obj, Relation: rel, User: user}
	if cond != "" {
		tk.Condition = &openfgav1.RelationshipCondition{Name: cond, Context: ctx}
	}
	return tk
}

func mustStruct(m map[string]any) *structpb.Struct {
	s, err := structpb.NewStruct(m)
	if err != nil {
		panic(err)
	}
	return s
}

func wellTyped(t openfgav1.ConditionParamTypeRef_TypeName) any {
	switch t {
	case openfgav1.ConditionParamTypeRef_TYPE_NAME_INT:
		return 7
	case openfgav1.ConditionParamTypeRef_TYPE_NAME_STRING:
		return "ok"
	}
	return true
}

func illTyped(r *rand.Rand, t openfgav1.ConditionParamTypeRef_TypeName) (any, string) {
	switch t {
	case openfgav1.ConditionParamTypeRef_TYPE_NAME_INT:
		switch r.Intn(4) {
		case 0:
			return true, "int<-bool"
		case 1:
			return []any{1}, "int<-list"
		case 2:
			return 1.5, "int<-fraction"
		}
		return map[string]any{"a": 1}, "int<-struct"
	case openfgav1.ConditionParamTypeRef_TYPE_NAME_STRING:
		switch r.Intn(3) {
		case 0:
			return 5, "string<-number"
		case 1:
			return true, "string<-bool"
		}
		return []any{"a"}, "string<-list"
	}
	switch r.Intn(3) {
	case 0:
		return "true", "bool<-string"
	case 1:
		return 1, "bool<-number"
	}
	return []any{true}, "bool<-list"
}

// sizedContext builds {"s": "aaa…"} whose wire size is exactly `size` bytes (or the closest below).
func sizedContext(size int) *structpb.Struct {
	l := size - 16
	if l < 0 {
		l = 0
	}
	var best *structpb.Struct
	for ; l <= size; l++ {
		s := &structpb.Struct{Fields: map[string]*structpb.Value{"s": structpb.NewStringValue(strings.Repeat("a", l))}}
		if n := proto.Size(s); n <= size {
			best = s
			if n == size {
				break
			}
		} else {
			break
		}
	}
	return best
}

var (
	atLimitCtx  = sizedContext(ctxByteLimit)
	overSizeCtx = sizedContext(ctxByteLimit + 1)
)

type ctxVariant struct {
	kind string
	ctx  *structpb.Struct
}

func sortedParams(cd *openfgav1.Condition) []string {
	var ps []string
	for p := range cd.GetParameters() {
		ps = append(ps, p)
	}
	sort.Strings(ps)
	return ps
}

// ctxVariants lists the stored contexts tried with condition `name` of the model.
func ctxVariants(r *rand.Rand, m *ref.Model, name string) []ctxVariant {
	out := []ctxVariant{{"none", nil}}
	cd := m.Conds[name]
	if cd == nil {
		return append(out, ctxVariant{"some", mustStruct(map[string]any{"x": 7})})
	}
	ps := sortedParams(cd)
	out = append(out, ctxVariant{"empty", &structpb.Struct{Fields: map[string]*structpb.Value{}}})
	full := map[string]any{}
	for _, p := range ps {
		full[p] = wellTyped(cd.GetParameters()[p].GetTypeName())
	}
	out = append(out, ctxVariant{"full", mustStruct(full)})
	if len(ps) > 1 {
		p := ps[r.Intn(len(ps))]
		out = append(out, ctxVariant{"partial", mustStruct(map[string]any{p: full[p]})})
	}
	for _, p := range ps {
		bad, what := illTyped(r, cd.GetParameters()[p].GetTypeName())
		mm := map[string]any{p: bad}
		if r.Intn(2) == 0 {
			for _, q := range ps {
				if q != p {
					mm[q] = full[q]
				}
			}
		}
		out = append(out, ctxVariant{"mistyped:" + what, mustStruct(mm)})
	}
	und := map[string]any{"zzz": 1}
	if r.Intn(2) == 0 {
		for k, v := range full {
			und[k] = v
		}
	}
	out = append(out, ctxVariant{"undeclared", mustStruct(und)})
	for _, fp := range []struct {
		p string
		v any
	}{{"x", 7}, {"s", "ok"}, {"b", true}} {
		if _, declared := cd.GetParameters()[fp.p]; !declared {
			mm := map[string]any{fp.p: fp.v}
			if r.Intn(2) == 0 {
				for k, v := range full {
					mm[k] = v
				}
			}
			out = append(out, ctxVariant{"foreign-param", mustStruct(mm)})
			break
		}
	}
	if pt, ok := cd.GetParameters()["s"]; ok && pt.GetTypeName() == openfgav1.ConditionParamTypeRef_TYPE_NAME_STRING {
		out = append(out, ctxVariant{"at-limit", atLimitCtx}, ctxVariant{"oversize", overSizeCtx})
	} else {
		// no string parameter: an oversize context is necessarily also undeclared
		out = append(out, ctxVariant{"oversize+undeclared", overSizeCtx})
	}
	// silent points: observed, never judged
	if pt, ok := cd.GetParameters()["x"]; ok && pt.GetTypeName() == openfgav1.ConditionParamTypeRef_TYPE_NAME_INT {
		out = append(out, ctxVariant{"ambiguous:int<-numeric-string", mustStruct(map[string]any{"x": "5"})})
	} else {
		out = append(out, ctxVariant{"ambiguous:null", mustStruct(map[string]any{ps[0]: nil})})
	}
	return out
}

const undefinedCond = "c_undefined"

// fullEvery: on the thorough tier every fullEvery-th model gets the complete cross product.
const fullEvery = 8

// buildCandidates enumerates / samples the tuple space of a model.
func buildCandidates(r *rand.Rand, m *ref.Model, full bool) []cand {
	var out []cand
	type or struct{ obj, rel string }
	var nodes []or
	for _, t := range m.TypeNames() {
		ids := gen.IDs(t)
		for _, rel := range m.RelationNames(t) {
			nodes = append(nodes, or{t + ":" + ids[0], rel})
			if full || r.Intn(3) == 0 {
				nodes = append(nodes, or{t + ":zz", rel})
			}
		}
	}
	var users []string
	for _, t := range m.TypeNames() {
		ids := gen.IDs(t)
		users = append(users, t+":"+ids[0], t+":"+ids[1], t+":*")
		for _, rel := range m.RelationNames(t) {
			users = append(users, t+":"+ids[0]+"#"+rel)
			if full || r.Intn(3) == 0 {
				users = append(users, t+":"+ids[1]+"#"+rel)
			}
		}
		users = append(users, t+":"+ids[0]+"#nope")
	}
	var condNames []string
	for cn := range m.Conds {
		condNames = append(condNames, cn)
	}
	sort.Strings(condNames)
	condNames = append(condNames, undefinedCond)

	var firstValid *openfgav1.TupleKey
	for _, n := range nodes {
		for _, u := range users {
			plain := mkTuple(n.obj, n.rel, u, "", nil)
			v := Judge(m, plain)
			out = append(out, cand{plain, "vocab", "-"})
			all := func(cn string) {
				for _, cv := range ctxVariants(r, m, cn) {
					tk := mkTuple(n.obj, n.rel, u, cn, cv.ctx)
					out = append(out, cand{tk, "vocab", cv.kind})
					if firstValid == nil && cv.kind == "none" && Judge(m, tk).Valid {
						firstValid = tk
					}
				}
			}
			if firstValid == nil && v.Valid {
				firstValid = plain
			}
			switch {
			case full || v.Match == "shape":
				for _, cn := range condNames {
					all(cn)
				}
			case v.Match == "type-only":
				for _, cn := range condNames {
					out = append(out, cand{mkTuple(n.obj, n.rel, u, cn, nil), "vocab", "none"})
					if cn != undefinedCond && r.Intn(3) == 0 {
						cvs := ctxVariants(r, m, cn)
						cv := cvs[r.Intn(len(cvs))]
						out = append(out, cand{mkTuple(n.obj, n.rel, u, cn, cv.ctx), "vocab", cv.kind})
					}
				}
			default:
				if r.Intn(8) == 0 {
					cn := condNames[r.Intn(len(condNames))]
					cvs := ctxVariants(r, m, cn)
					cv := cvs[r.Intn(len(cvs))]
					out = append(out, cand{mkTuple(n.obj, n.rel, u, cn, cv.ctx), "vocab", cv.kind})
				}
			}
		}
	}

	// malformed variants: one field of a valid tuple replaced
	if firstValid == nil {
		firstValid = mkTuple(nodes[0].obj, nodes[0].rel, "user:a", "", nil)
	}
	ot, oid := ref.SplitObject(firstValid.GetObject())
	rel := firstValid.GetRelation()
	grel := "member"
	if rs := m.RelationNames("group"); len(rs) > 0 {
		grel = rs[0]
	}
	with := func(what string, f func(tk *openfgav1.TupleKey)) {
		tk := proto.Clone(firstValid).(*openfgav1.TupleKey)
		f(tk)
		kind := "-"
		if tk.GetCondition() != nil {
			kind = "none"
		}
		out = append(out, cand{tk, "malformed:" + what, kind})
	}
	for what, o := range map[string]string{
		"object-empty": "", "object-no-type": oid, "object-empty-id": ot + ":", "object-empty-type": ":" + oid,
		"object-blank": ot + ":d 1", "object-wildcard": ot + ":*", "object-with-relation": ot + ":" + oid + "#" + rel,
		"object-two-colons": ot + ":" + oid + ":x", "object-unknown-type": "nope:" + oid, "object-tab": ot + ":d\t1",
	} {
		o := o
		with(what, func(tk *openfgav1.TupleKey) { tk.Object = o })
	}
	for what, x := range map[string]string{
		"relation-empty": "", "relation-unknown": "nope", "relation-blank": "view er", "relation-hash": rel + "#x",
		"relation-colon": rel + ":x", "relation-at": rel + "@x",
	} {
		x := x
		with(what, func(tk *openfgav1.TupleKey) { tk.Relation = x })
	}
	for what, u := range map[string]string{
		"user-empty": "", "user-no-type": "a", "user-untyped-wildcard": "*", "user-empty-id": "user:", "user-empty-type": ":a",
		"user-blank": "user:a b", "user-unknown-type": "nope:a", "user-unknown-type-wildcard": "nope:*",
		"userset-undefined-relation": "group:g1#nope", "userset-on-relationless-type": "user:a#" + grel,
		"userset-of-wildcard": "group:*#" + grel, "user-trailing-hash": "user:a#", "user-two-hashes": "group:g1#" + grel + "#" + grel,
		"user-two-colons": "user:a:b",
	} {
		u := u
		with(what, func(tk *openfgav1.TupleKey) { tk.User = u })
	}
	// map iteration order is random: order the malformed block deterministically
	start := len(out)
	for start > 0 && strings.HasPrefix(out[start-1].Family, "malformed:") {
		start--
	}
	mal := out[start:]
	sort.Slice(mal, func(i, j int) bool { return mal[i].Family < mal[j].Family })
	return out
}

// ---------------------------------------------------------------------------------------------
// rendering

func ctxDigest(s *structpb.Struct) string {
	if s == nil || len(s.GetFields()) == 0 {
		return "{}"
	}
	b, _ := proto.MarshalOptions{Deterministic: true}.Marshal(s)
	if len(b) <= 96 {
		j, _ := json.Marshal(s.AsMap())
		return string(j)
	}
	h := sha256.Sum256(b)
	return fmt.Sprintf("sha256:%x/%dB", h[:8], len(b))
}

func keyOf(tk interface {
	GetObject() string
	GetRelation() string
	GetUser() string
}) string {
	return tk.GetObject() + "#" + tk.GetRelation() + "@" + tk.GetUser()
}

func renderTK(tk *openfgav1.TupleKey) string {
	s := keyOf(tk)
	if c := tk.GetCondition(); c != nil && c.GetName() != "" {
		s += " with " + c.GetName() + " " + ctxDigest(c.GetContext())
	}
	return s
}

func tupleWitness(tk *openfgav1.TupleKey) map[string]any {
	w := map[string]any{"object": tk.GetObject(), "relation": tk.GetRelation(), "user": tk.GetUser()}
	if c := tk.GetCondition(); c != nil {
		w["condition"] = c.GetName()
		w["context"] = ctxDigest(c.GetContext())
		w["context_bytes"] = proto.Size(c.GetContext())
	}
	b, _ := proto.MarshalOptions{Deterministic: true}.Marshal(tk)
	w["tuple_key_pb_b64"] = base64.StdEncoding.EncodeToString(b)
	return w
}

// family classifies an error: "" (none), "invalid" (input rejected), "depth", "panic", "other".
func family(err error) string {
	if err == nil {
		return ""
	}
	code := drive.CodeOf(err)
	switch {
	case code == "PANIC":
		return "panic"
	case sem.IsDepthError(err):
		return "depth"
	case code == "InvalidArgument":
		return "invalid"
	case strings.HasPrefix(code, "openfga_"):
		n, _ := strconv.Atoi(strings.TrimPrefix(code, "openfga_"))
		switch n {
		case 2001, 2020, 2017, 2058:
			return "other"
		}
		if n >= 2000 && n < 2100 {
			return "invalid"
		}
	}
	return "other"
}

// ---------------------------------------------------------------------------------------------
// one store under observation

type state struct {
	c     *vk.Ctx
	srv   *drive.Srv
	label string // "mem", "sqlite", "v2"
	store string
	m     *ref.Model
	name  string
	base  []string // sorted rendering of the store content
	nlog    int      // number of changelog entries at the last look
	logWant []string // every change the accepted requests account for
	mjson string
}

func (st *state) snapshot() ([]string, error) {
	tks, err := st.srv.ReadAll(st.store)
	if err != nil {
		return nil, err
	}
	out := make([]string, 0, len(tks))
	for _, tk := range tks {
		out = append(out, renderTK(tk))
	}
	sort.Strings(out)
	return out, nil
}

func renderChange(ch *openfgav1.TupleChange) string {
	if ch.GetOperation() == openfgav1.TupleOperation_TUPLE_OPERATION_DELETE {
		return "DELETE " + keyOf(ch.GetTupleKey())
	}
	return "WRITE " + renderTK(ch.GetTupleKey())
}

// readLog reads the whole changelog of the store from the raw backend in one page. (Server.ReadChanges
// pages by ULID; the memory backend's ULIDs are not monotonic for writes landing in the same
// millisecond, so paging through the API can skip or repeat entries — that belongs to another
// property, and must not disturb this one.)
func (st *state) readLog() ([]*openfgav1.TupleChange, error) {
	var out []*openfgav1.TupleChange
	err := drive.Guard(func() error {
		chs, _, err := st.srv.DS.ReadChanges(context.Background(), st.store, storage.ReadChangesFilter{},
			storage.ReadChangesOptions{Pagination: storage.NewPaginationOptions(1<<24, "")})
		if errors.Is(err, storage.ErrNotFound) {
			return nil
		}
		out = chs
		return err
	})
	return out, err
}

// expectChanges compares the changelog with "everything seen so far + want" (want in any order):
// same number of entries and every wanted entry present among the new ones. Returns "" when fine.
func (st *state) expectChanges(want []string) string {
	got, err := st.readLog()
	if err != nil {
		st.c.Inconclusive("reading the changelog failed: " + drive.CodeOf(err))
		return ""
	}
	before := st.nlog
	st.nlog = len(got)
	if len(got) == before+len(want) {
		// the wanted entries must be among the entries (searching from the end: backends append or sort by time)
		missing := 0
		for _, w := range want {
			found := false
			for i := len(got) - 1; i >= 0 && i >= len(got)-1-len(want)-64; i-- {
				if renderChange(got[i]) == w {
					found = true
					break
				}
			}
			if !found {
				for i := range got {
					if renderChange(got[i]) == w {
						found = true
						break
					}
				}
			}
			if !found {
				missing++
			}
		}
		st.logWant = append(st.logWant, want...)
		if missing == 0 {
			return ""
		}
	} else {
		st.logWant = append(st.logWant, want...)
	}
	all := make([]string, 0, len(got))
	for _, ch := range got {
		all = append(all, renderChange(ch))
	}
	d := diff(all, st.logWant)
	st.logWant = all // resynchronise
	return fmt.Sprintf("the changelog has %d entries, %d were there before and %d expected new %v; difference to everything expected so far: %v", len(got), before, len(want), want, d)
}

// syncLog resynchronises the expected changelog with the real one without judging.
func (st *state) syncLog() {
	got, err := st.readLog()
	if err != nil {
		return
	}
	st.nlog = len(got)
	st.logWant = st.logWant[:0]
	for _, ch := range got {
		st.logWant = append(st.logWant, renderChange(ch))
	}
}

// finalLog: at the end of a model the whole changelog must be exactly (as a multiset) what the
// accepted requests account for; as a side observation the changelog is also paged through
// Server.ReadChanges and the number of entries compared (not judged).
func (st *state) finalLog() {
	got, err := st.readLog()
	if err != nil {
		return
	}
	all := make([]string, 0, len(got))
	for _, ch := range got {
		all = append(all, renderChange(ch))
	}
	if d := diff(all, st.logWant); len(d) > 0 {
		st.c.Violation("C18-changelog-not-explained-by-accepted-writes", "final-log", fmt.Sprintf("%s: the changelog differs from the accepted writes and deletes: %v", st.label, d),
			map[string]any{"server": st.label, "model_dsl": st.m.DSL(), "model_json": st.mjson, "difference": d})
	}
	st.c.Count("changelog_entries_explained", len(all))
	// side observation
	n, tok := 0, ""
	for page := 0; page < 10000; page++ {
		var resp *openfgav1.ReadChangesResponse
		err := drive.Guard(func() error {
			var err error
			resp, err = st.srv.S.ReadChanges(context.Background(), &openfgav1.ReadChangesRequest{StoreId: st.store, ContinuationToken: tok, PageSize: wrapperspb.Int32(100)})
			return err
		})
		if err != nil || len(resp.GetChanges()) == 0 {
			break
		}
		n += len(resp.GetChanges())
		if resp.GetContinuationToken() == "" || resp.GetContinuationToken() == tok {
			break
		}
		tok = resp.GetContinuationToken()
	}
	if n != len(all) {
		st.c.Count("not_judged_stores_where_paging_ReadChanges_skips_or_repeats_entries_"+st.label, 1)
	}
}

func equal(a, b []string) bool {
	if len(a) != len(b) {
		return false
	}
	for i := range a {
		if a[i] != b[i] {
			return false
		}
	}
	return true
}

func diff(got, want []string) []string {
	cnt := map[string]int{}
	for _, x := range got {
		cnt[x]++
	}
	for _, x := range want {
		cnt[x]--
	}
	var out []string
	for k, v := range cnt {
		if v > 0 {
			out = append(out, "+"+k)
		} else if v < 0 {
			out = append(out, "-"+k)
		}
	}
	sort.Strings(out)
	return out
}

func (st *state) witness(path string, cd cand, v Verdict, observed string, extra map[string]any) map[string]any {
	w := map[string]any{
		"path": path, "server": st.label + " (" + st.srv.Cfg.Name() + ")", "case": st.name,
		"model_dsl": st.m.DSL(), "model_json": st.mjson,
		"tuple": tupleWitness(cd.TK), "tuple_text": renderTK(cd.TK), "family": cd.Family, "context_kind": cd.CtxKind,
		"oracle": map[string]any{"valid": v.Valid, "judged": v.Judged, "failing_clauses": v.Reasons, "restriction_match": v.Match, "condition_class": v.CondClass},
		"observed": observed, "store_before": st.base,
	}
	for k, x := range extra {
		w[k] = x
	}
	return w
}

func userShape(u string) string {
	switch {
	case strings.Contains(u, "#"):
		return "userset"
	case strings.HasSuffix(u, ":*") || u == "*":
		return "wildcard"
	}
	return "object"
}

func (st *state) signature(path string, cd cand, v Verdict) (string, bool) {
	ot, _ := ref.SplitObject(cd.TK.GetObject())
	ts := ""
	if st.m.IsTupleset(ot, cd.TK.GetRelation()) {
		ts = "tupleset"
	}
	kind := cd.CtxKind
	sig := strings.Join([]string{path, cd.Family, userShape(cd.TK.GetUser()), ts, v.Match, v.CondClass, kind, v.Reason()}, "|")
	nontrivial := v.Judged && !(cd.Family == "vocab" && cd.TK.GetCondition() == nil && v.Match != "shape" && v.Reason() == "type-restriction")
	return sig, nontrivial
}

// compare records the case and raises the alarm when acceptance and oracle disagree.
func (st *state) compare(path string, cd cand, v Verdict, accepted bool, observed string, extra map[string]any) {
	sig, nt := st.signature(path, cd, v)
	st.c.Case(sig, nt)
	st.c.Count("cases_"+path, 1)
	if path == "write" {
		st.c.Count("cases_write_on_"+st.label, 1)
	}
	if !v.Judged {
		st.c.Count("not_judged_"+path+"_"+cd.CtxKind+"_accepted="+strconv.FormatBool(accepted), 1)
		return
	}
	if accepted {
		st.c.Count("accepted_"+path, 1)
	} else {
		st.c.Count("rejected_"+path, 1)
		for _, rs := range v.Reasons {
			st.c.Seen("rejection_clauses_"+path, rs)
		}
	}
	if len(v.Reasons) == 1 {
		st.c.Count("only_failing_clause_"+v.Reasons[0]+"_"+pathClass(path), 1)
	}
	if accepted == v.Valid {
		return
	}
	pc := pathClass(path)
	if v.Valid {
		id := fmt.Sprintf("C18-%s-rejects-valid-%s", pc, ctxClass(cd.CtxKind))
		st.c.Seen("disagreements", id)
		noteDisagreement(id)
		st.c.Violation(id, id+"|"+path+"|"+userShape(cd.TK.GetUser())+"|"+v.CondClass,
			fmt.Sprintf("%s on %s rejects the tuple %s although the model allows it (restriction match %s, condition %s): %s", path, st.label, renderTK(cd.TK), v.Match, v.CondClass, observed),
			st.witness(path, cd, v, observed, extra))
		return
	}
	// An accepted invalid tuple shows that none of its failing clauses is enforced on this path. It is
	// attributed to the first failing clause that is not a listed finding of this path (so that a
	// tuple failing two clauses is explained only when both gaps are known).
	clause := v.Reasons[0]
	for _, rs := range v.Reasons {
		if st.c.MatchFinding(fmt.Sprintf("C18-%s-accepts-%s", pc, rs)) == nil {
			clause = rs
			break
		}
	}
	id := fmt.Sprintf("C18-%s-accepts-%s", pc, clause)
	st.c.Seen("disagreements", id)
	noteDisagreement(id)
	st.c.Violation(id, id+"|"+path+"|"+cd.Family+"|"+userShape(cd.TK.GetUser())+"|"+v.CondClass+"|"+ctxClass(cd.CtxKind),
		fmt.Sprintf("%s on %s accepts the tuple %s which is invalid for the model: %s (restriction match %s, condition %s, context %s)", path, st.label, renderTK(cd.TK), v.Reason(), v.Match, v.CondClass, cd.CtxKind),
		st.witness(path, cd, v, observed, extra))
}

var (
	disMu sync.Mutex
	dis   = map[string]int{}
)

func noteDisagreement(id string) {
	disMu.Lock()
	dis[id]++
	disMu.Unlock()
}

// pathClass groups the entry points by the validation they share as seen from outside: Write,
// contextual tuples of the classic query APIs, contextual tuples of the weighted-graph Check.
func pathClass(path string) string {
	switch path {
	case "write":
		return "write"
	case "v2check":
		return "v2check"
	}
	return "contextual"
}

func ctxClass(kind string) string {
	if i := strings.Index(kind, ":"); i >= 0 {
		return kind[:i]
	}
	return kind
}

// writePath sends the tuple alone through Server.Write.
func (st *state) writePath(cd cand, v Verdict) {
	tk := cd.TK
	err := st.srv.WriteTuples(st.store, "", []*openfgav1.TupleKey{proto.Clone(tk).(*openfgav1.TupleKey)})
	fam := family(err)
	if fam == "panic" {
		st.c.Violation("C18-panic-write", "panic-write", "Server.Write panicked on "+renderTK(tk)+": "+err.Error(), st.witness("write", cd, v, err.Error(), nil))
		return
	}
	if err != nil {
		now, serr := st.snapshot()
		if serr != nil {
			st.c.HarnessError("ReadAll: %v", serr)
			return
		}
		st.c.Count("unchanged_checks_after_rejected_write", 1)
		if !equal(now, st.base) {
			st.c.Violation("C18-rejected-write-changed-store", "rejected-changed-store",
				fmt.Sprintf("Write of %s failed (%s) but the store changed: %v", renderTK(tk), drive.ErrDetail(err), diff(now, st.base)),
				st.witness("write", cd, v, drive.ErrDetail(err), map[string]any{"store_after": now}))
			st.base = now
		}
		if msg := st.expectChanges(nil); msg != "" {
			st.c.Violation("C18-rejected-write-changed-changelog", "rejected-changed-log",
				fmt.Sprintf("Write of %s failed (%s) but the changelog grew: %s", renderTK(tk), drive.ErrDetail(err), msg),
				st.witness("write", cd, v, drive.ErrDetail(err), nil))
		}
		if fam != "invalid" {
			st.c.Inconclusive("Write failed with a non-validation error: " + drive.CodeOf(err))
			return
		}
		st.c.Seen("write_error_codes", drive.CodeOf(err))
		st.compare("write", cd, v, false, drive.ErrDetail(err), nil)
		return
	}
	// accepted: stored exactly, logged once
	now, serr := st.snapshot()
	if serr != nil {
		st.c.HarnessError("ReadAll: %v", serr)
		return
	}
	want := append(append([]string{}, st.base...), renderTK(tk))
	sort.Strings(want)
	if !equal(now, want) {
		st.c.Violation("C18-accepted-write-not-stored-exactly", "accepted-not-stored",
			fmt.Sprintf("Write of %s succeeded but the store differs from before+tuple: %v", renderTK(tk), diff(now, want)),
			st.witness("write", cd, v, "accepted", map[string]any{"store_after": now}))
	}
	if msg := st.expectChanges([]string{"WRITE " + renderTK(tk)}); msg != "" {
		st.c.Violation("C18-accepted-write-changelog", "accepted-log", fmt.Sprintf("Write of %s succeeded: %s", renderTK(tk), msg), st.witness("write", cd, v, "accepted", nil))
	}
	st.compare("write", cd, v, true, "accepted", nil)
	// restore
	derr := st.srv.DeleteTuples(st.store, "", []*openfgav1.TupleKey{tk})
	if derr != nil {
		st.c.Count("delete_after_accepted_write_failed", 1)
		st.c.Seen("delete_failures", drive.CodeOf(derr))
	}
	now, serr = st.snapshot()
	if serr != nil {
		st.c.HarnessError("ReadAll: %v", serr)
		return
	}
	if derr == nil {
		if !equal(now, st.base) {
			st.c.Violation("C18-delete-did-not-restore", "delete-restore",
				fmt.Sprintf("deleting the just written %s did not restore the store: %v", renderTK(tk), diff(now, st.base)), st.witness("write", cd, v, "accepted", map[string]any{"store_after": now}))
		}
		if msg := st.expectChanges([]string{"DELETE " + keyOf(tk)}); msg != "" {
			st.c.Violation("C18-delete-changelog", "delete-log", fmt.Sprintf("delete of %s: %s", renderTK(tk), msg), st.witness("write", cd, v, "accepted", nil))
		}
	} else {
		st.syncLog()
	}
	st.base = now
}

var fullCtx = mustStruct(map[string]any{"x": 7, "s": "ok", "b": true})

// node picks the object#relation a contextual request is aimed at.
func (st *state) node(tk *openfgav1.TupleKey) (string, string) {
	ot, oid, ok := typeID(tk.GetObject())
	if ok && oid != "*" && st.m.Rewrite(ot, tk.GetRelation()) != nil {
		return tk.GetObject(), tk.GetRelation()
	}
	for _, t := range st.m.TypeNames() {
		if rs := st.m.RelationNames(t); len(rs) > 0 {
			return t + ":" + gen.IDs(t)[0], rs[0]
		}
	}
	return "doc:d1", "viewer"
}

// ctxPath passes the tuple as the single contextual tuple of a query.
func (st *state) ctxPath(api string, cd cand, v Verdict) {
	obj, rel := st.node(cd.TK)
	ot, _ := ref.SplitObject(obj)
	rq := drive.Req{Store: st.store, Object: obj, Relation: rel, User: "user:a", Ctx: fullCtx,
		Contextual: []*openfgav1.TupleKey{proto.Clone(cd.TK).(*openfgav1.TupleKey)}}
	var err error
	switch api {
	case "check", "v2check":
		err = st.srv.Check(rq).Err
	case "listobjects":
		rq.Object = ot
		err = st.srv.ListObjects(rq).Err
	case "expand":
		_, err = st.srv.Expand(rq)
	case "listusers":
		err = st.srv.ListUsers(rq, "user", "").Err
	}
	extra := map[string]any{"request": map[string]any{"api": api, "object": rq.Object, "relation": rel, "user": "user:a", "context": ctxDigest(fullCtx)}}
	switch family(err) {
	case "panic":
		st.c.Violation("C18-panic-"+api, "panic-"+api, api+" panicked on contextual tuple "+renderTK(cd.TK)+": "+err.Error(), st.witness(api, cd, v, err.Error(), extra))
	case "depth":
		st.c.Inconclusive(api + ": resolution too complex")
	case "other":
		st.c.Inconclusive(api + " failed with a non-validation error: " + drive.CodeOf(err))
	case "invalid":
		st.c.Seen(api+"_error_codes", drive.CodeOf(err))
		st.compare(api, cd, v, false, drive.ErrDetail(err), extra)
	default:
		st.compare(api, cd, v, true, "accepted", extra)
	}
}

// batch: multi-tuple requests. One invalid tuple among valid ones must change nothing.
func (st *state) batch(r *rand.Rand, good, bad []cand) {
	if len(good) == 0 {
		return
	}
	pick := func(k int) []*openfgav1.TupleKey {
		perm := r.Perm(len(good))
		seen := map[string]bool{}
		var out []*openfgav1.TupleKey
		for _, i := range perm {
			if len(out) >= k {
				break
			}
			if seen[keyOf(good[i].TK)] {
				continue
			}
			seen[keyOf(good[i].TK)] = true
			out = append(out, proto.Clone(good[i].TK).(*openfgav1.TupleKey))
		}
		return out
	}
	send := func(writes []*openfgav1.TupleKey, deletes []*openfgav1.TupleKeyWithoutCondition) error {
		return drive.Guard(func() error {
			req := &openfgav1.WriteRequest{StoreId: st.store}
			if len(writes) > 0 {
				req.Writes = &openfgav1.WriteRequestWrites{TupleKeys: writes}
			}
			if len(deletes) > 0 {
				req.Deletes = &openfgav1.WriteRequestDeletes{TupleKeys: deletes}
			}
			_, err := st.srv.S.Write(context.Background(), req)
			return err
		})
	}
	render := func(ws []*openfgav1.TupleKey) []string {
		var out []string
		for _, w := range ws {
			out = append(out, renderTK(w))
		}
		return out
	}
	unchanged := func(what string, ws []*openfgav1.TupleKey, err error) {
		now, serr := st.snapshot()
		if serr != nil {
			st.c.HarnessError("ReadAll: %v", serr)
			return
		}
		st.c.Count("unchanged_checks_after_rejected_batch", 1)
		w := map[string]any{"path": "write-batch", "server": st.label, "model_dsl": st.m.DSL(), "model_json": st.mjson, "request_writes": render(ws), "shape": what,
			"observed": drive.ErrDetail(err), "store_before": st.base, "store_after": now}
		if !equal(now, st.base) {
			st.c.Violation("C18-rejected-batch-changed-store", "batch-store|"+what,
				fmt.Sprintf("a Write request (%s) failed (%s) but changed the store: %v", what, drive.ErrDetail(err), diff(now, st.base)), w)
			st.base = now
		}
		if msg := st.expectChanges(nil); msg != "" {
			st.c.Violation("C18-rejected-batch-changed-changelog", "batch-log|"+what,
				fmt.Sprintf("a Write request (%s) failed (%s) but the changelog grew: %s", what, drive.ErrDetail(err), msg), w)
		}
	}
	// (1) valid tuples + one invalid tuple at a random position (+ sometimes a delete of a stored tuple)
	for j := 0; j < 4 && len(bad) > 0; j++ {
		ws := pick(1 + r.Intn(4))
		b := bad[r.Intn(len(bad))]
		pos := r.Intn(len(ws) + 1)
		ws = append(ws[:pos], append([]*openfgav1.TupleKey{proto.Clone(b.TK).(*openfgav1.TupleKey)}, ws[pos:]...)...)
		var dels []*openfgav1.TupleKeyWithoutCondition
		withDelete := len(st.base) > 0 && r.Intn(2) == 0
		what := fmt.Sprintf("%d valid + 1 invalid (%s) at position %d", len(ws)-1, Judge(st.m, b.TK).Reason(), pos)
		if withDelete {
			if tks, err := st.srv.ReadAll(st.store); err == nil && len(tks) > 0 {
				d := tks[r.Intn(len(tks))]
				dels = append(dels, &openfgav1.TupleKeyWithoutCondition{Object: d.GetObject(), Relation: d.GetRelation(), User: d.GetUser()})
				what += " + 1 delete"
			}
		}
		err := send(ws, dels)
		sig := fmt.Sprintf("write-batch|invalid-among-valid|%s|pos=%d/%d|del=%v", Judge(st.m, b.TK).Reason(), pos, len(ws), len(dels) > 0)
		st.c.Case(sig, true)
		st.c.Count("cases_write_batch", 1)
		switch {
		case family(err) == "panic":
			st.c.Violation("C18-panic-write", "panic-batch", "Server.Write panicked: "+err.Error(), map[string]any{"request_writes": render(ws), "model_dsl": st.m.DSL()})
		case err != nil:
			unchanged(what, ws, err)
		default:
			// the request was taken although it contains an invalid tuple
			now, _ := st.snapshot()
			id := "C18-write-batch-accepts-" + Judge(st.m, b.TK).Reason()
			st.c.Violation(id, id, fmt.Sprintf("a Write request with %s succeeded", what),
				map[string]any{"path": "write-batch", "server": st.label, "model_dsl": st.m.DSL(), "model_json": st.mjson, "request_writes": render(ws), "store_before": st.base, "store_after": now})
			// restore
			_ = st.srv.DeleteTuples(st.store, "", ws)
			if len(dels) > 0 {
				st.c.Count("batch_restore_skipped_delete", 1)
			}
			now, _ = st.snapshot()
			st.base = now
			st.syncLog()
		}
	}
	// (2) all valid: accepted as a whole, stored exactly
	ws := pick(2 + r.Intn(4))
	if len(ws) >= 2 {
		err := send(ws, nil)
		st.c.Case(fmt.Sprintf("write-batch|all-valid|n=%d", len(ws)), true)
		st.c.Count("cases_write_batch", 1)
		if err != nil {
			if family(err) == "invalid" {
				st.c.Violation("C18-write-batch-rejects-valid", "batch-rejects-valid", fmt.Sprintf("a Write request of %d tuples that are each valid (and each accepted alone) fails: %s", len(ws), drive.ErrDetail(err)),
					map[string]any{"path": "write-batch", "server": st.label, "model_dsl": st.m.DSL(), "model_json": st.mjson, "request_writes": render(ws), "store_before": st.base})
			} else {
				st.c.Inconclusive("batch Write failed with a non-validation error: " + drive.CodeOf(err))
			}
			unchanged("all valid", ws, err)
		} else {
			now, _ := st.snapshot()
			want := append(append([]string{}, st.base...), render(ws)...)
			sort.Strings(want)
			if !equal(now, want) {
				st.c.Violation("C18-accepted-write-not-stored-exactly", "batch-not-stored", fmt.Sprintf("a Write request of %d valid tuples succeeded but the store differs: %v", len(ws), diff(now, want)),
					map[string]any{"path": "write-batch", "model_dsl": st.m.DSL(), "model_json": st.mjson, "request_writes": render(ws), "store_before": st.base, "store_after": now})
			}
			var wantLog []string
			for _, w := range ws {
				wantLog = append(wantLog, "WRITE "+renderTK(w))
			}
			if msg := st.expectChanges(wantLog); msg != "" {
				st.c.Violation("C18-accepted-write-changelog", "batch-log", fmt.Sprintf("a Write request of %d valid tuples succeeded: %s", len(ws), msg), map[string]any{"model_dsl": st.m.DSL(), "request_writes": render(ws)})
			}
			_ = st.srv.DeleteTuples(st.store, "", ws)
			now, _ = st.snapshot()
			if !equal(now, st.base) {
				st.c.Count("batch_restore_failed", 1)
				st.base = now
			}
			st.syncLog()
		}
	}
	// (3) the same valid tuple twice in one request / written and deleted in one request: whatever the
	// answer (the statement is silent on duplicates), a failing request must change nothing
	ws = pick(2)
	if len(ws) >= 1 {
		dup := append(append([]*openfgav1.TupleKey{}, ws...), proto.Clone(ws[0]).(*openfgav1.TupleKey))
		err := send(dup, nil)
		st.c.Case(fmt.Sprintf("write-batch|duplicate-in-request|rejected=%v", err != nil), true)
		st.c.Count("cases_write_batch", 1)
		if err != nil {
			unchanged("same tuple twice", dup, err)
			st.c.Seen("duplicate_request_codes", drive.CodeOf(err))
		} else {
			st.c.Count("not_judged_duplicate_request_accepted", 1)
			_ = st.srv.DeleteTuples(st.store, "", ws)
			now, _ := st.snapshot()
			st.base = now
			st.syncLog()
		}
		err = send(ws[:1], []*openfgav1.TupleKeyWithoutCondition{{Object: ws[0].GetObject(), Relation: ws[0].GetRelation(), User: ws[0].GetUser()}})
		st.c.Case(fmt.Sprintf("write-batch|write-and-delete-same|rejected=%v", err != nil), true)
		st.c.Count("cases_write_batch", 1)
		if err != nil {
			unchanged("write and delete of the same tuple", ws[:1], err)
		} else {
			st.c.Count("not_judged_write_and_delete_accepted", 1)
			_ = st.srv.DeleteTuples(st.store, "", ws[:1])
			now, _ := st.snapshot()
			st.base = now
			st.syncLog()
		}
	}
}

// ---------------------------------------------------------------------------------------------
// one model

func newState(c *vk.Ctx, srv *drive.Srv, label, store, name string, m *ref.Model) *state {
	b, _ := protojson.Marshal(m.Proto)
	return &state{c: c, srv: srv, label: label, store: store, m: m, name: name, mjson: string(b)}
}

// installBase writes a few valid tuples (ids outside the candidate vocabulary) so that "unchanged"
// is observed on a non-empty store; they go through the same judgement as every other Write.
func (st *state) installBase() {
	n := 0
	for _, t := range st.m.TypeNames() {
		for _, rel := range st.m.RelationNames(t) {
			rs := st.m.Restrictions(t, rel)
			if len(rs) == 0 || n >= 4 {
				continue
			}
			rr := rs[0]
			u := rr.GetType() + ":" + gen.IDs(rr.GetType())[2]
			switch {
			case rr.GetWildcard() != nil:
				u = rr.GetType() + ":*"
			case rr.GetRelation() != "":
				u += "#" + rr.GetRelation()
			}
			tk := mkTuple(t+":"+gen.IDs(t)[2], rel, u, rr.GetCondition(), nil)
			v := Judge(st.m, tk)
			if !v.Valid {
				continue // e.g. a self-reference
			}
			err := st.srv.WriteTuples(st.store, "", []*openfgav1.TupleKey{tk})
			cd := cand{tk, "vocab", "-"}
			if tk.GetCondition() != nil {
				cd.CtxKind = "none"
			}
			if err != nil {
				if family(err) == "invalid" {
					st.compare("write", cd, v, false, drive.ErrDetail(err), nil)
				} else {
					st.c.Inconclusive("base Write failed: " + drive.CodeOf(err))
				}
				continue
			}
			st.compare("write", cd, v, true, "accepted", nil)
			n++
		}
	}
	st.base, _ = st.snapshot()
	st.syncLog()
}

func oneModel(c *vk.Ctx, i int, mem, v2, sql *drive.Srv) {
	r := c.Rand(fmt.Sprintf("model-%d", i))
	name := fmt.Sprintf("C18-%d", i)
	gc, store := sem.Generate(c, mem, r, name, gen.Options{})
	if gc == nil {
		return
	}
	m := ref.NewModel(gc.Model, ref.TemplateCondEval)
	full := !c.Quick() && i%fullEvery == 0
	t0 := time.Now()
	defer func() {
		if os.Getenv("VERIF_DEBUG") != "" {
			c.Logf("model %d full=%v took %.1fs", i, full, time.Since(t0).Seconds())
		}
	}()
	cands := buildCandidates(r, m, full)
	if full {
		c.Count("models_full_cross_product", 1)
	}
	c.Count("candidates", len(cands))

	st := newState(c, mem, "mem", store, name, m)
	st.installBase()

	var other []*state // v2 (contextual Check only), sqlite (Write only)
	if i%3 == 0 {
		if s2 := otherStore(c, v2, "v2", name, gc, m); s2 != nil {
			other = append(other, s2)
		}
	}
	if sql != nil && i%10 == 1 {
		if s3 := otherStore(c, sql, "sqlite", name, gc, m); s3 != nil {
			s3.installBase()
			other = append(other, s3)
		}
	}

	var good, bad []cand
	for k, cd := range cands {
		v := Judge(m, cd.TK)
		if !crossCheck(m, cd.TK, v) {
			c.HarnessError("oracle disagrees with harness/ref's validator on %s (%s)\n%s", renderTK(cd.TK), v.Reason(), m.DSL())
			return
		}
		st.writePath(cd, v)
		st.ctxPath("check", cd, v)
		if r.Intn(6) == 0 {
			st.ctxPath("listobjects", cd, v)
		}
		if r.Intn(12) == 0 {
			st.ctxPath("expand", cd, v)
		}
		if r.Intn(12) == 0 {
			st.ctxPath("listusers", cd, v)
		}
		for _, o := range other {
			switch o.label {
			case "v2":
				if v.Match != "no-type" || r.Intn(4) == 0 {
					o.ctxPath("v2check", cd, v)
				}
			case "sqlite":
				if v.Match != "no-type" || r.Intn(4) == 0 {
					o.writePath(cd, v)
				}
			}
		}
		if v.Judged && cd.CtxKind != "oversize" && cd.CtxKind != "at-limit" && cd.CtxKind != "oversize+undeclared" {
			if v.Valid {
				good = append(good, cd)
			} else if cd.Family == "vocab" || strings.Contains(cd.Family, "unknown") || strings.Contains(cd.Family, "undefined") {
				// proto-level malformed tuples would only test the request validator
				bad = append(bad, cd)
			}
		}
		c.SampleEvery(i*100000+k, 7919, func() any {
			return map[string]any{"case": name, "model": m.DSL(), "tuple": renderTK(cd.TK), "family": cd.Family, "context_kind": cd.CtxKind,
				"oracle": v.Reason(), "restriction_match": v.Match, "condition_class": v.CondClass}
		})
	}
	st.batch(r, good, bad)
	st.finalLog()
	for _, o := range other {
		if o.label == "sqlite" {
			o.batch(r, good, bad)
			o.finalLog()
		}
	}
	if os.Getenv("VERIF_DEBUG") != "" {
		c.Logf("model %d: %d candidates, %d valid", i, len(cands), len(good))
	}
}

func otherStore(c *vk.Ctx, srv *drive.Srv, label, name string, gc *gen.Case, m *ref.Model) *state {
	store, err := srv.CreateStore(name)
	if err != nil {
		c.HarnessError("%s CreateStore: %v", label, err)
		return nil
	}
	if _, err := srv.WriteModel(store, gc.Model); err != nil {
		c.HarnessError("%s: model accepted by the memory server is rejected: %v", label, err)
		return nil
	}
	return newState(c, srv, label, store, name, m)
}

// ---------------------------------------------------------------------------------------------
// replay

func replay(c *vk.Ctx, path string) {
	b, err := os.ReadFile(path)
	if err != nil {
		c.HarnessError("replay: %v", err)
		return
	}
	var doc struct {
		Witness struct {
			Path      string `json:"path"`
			Server    string `json:"server"`
			ModelJSON string `json:"model_json"`
			Family    string `json:"family"`
			CtxKind   string `json:"context_kind"`
			Tuple     struct {
				PB string `json:"tuple_key_pb_b64"`
			} `json:"tuple"`
		} `json:"witness"`
	}
	if err := json.Unmarshal(b, &doc); err != nil {
		c.HarnessError("replay: %v", err)
		return
	}
	w := doc.Witness
	if w.ModelJSON == "" || w.Tuple.PB == "" {
		c.HarnessError("replay: the witness has no single tuple (batch witnesses are replayed by re-running the seed)")
		return
	}
	var model openfgav1.AuthorizationModel
	if err := protojson.Unmarshal([]byte(w.ModelJSON), &model); err != nil {
		c.HarnessError("replay: model: %v", err)
		return
	}
	raw, _ := base64.StdEncoding.DecodeString(w.Tuple.PB)
	var tk openfgav1.TupleKey
	if err := proto.Unmarshal(raw, &tk); err != nil {
		c.HarnessError("replay: tuple: %v", err)
		return
	}
	cfg := drive.Cfg{}
	label := "mem"
	switch {
	case strings.HasPrefix(w.Server, "v2"):
		cfg.V2, label = true, "v2"
	case strings.HasPrefix(w.Server, "sqlite"):
		cfg.Backend, label = "sqlite", "sqlite"
	}
	srv, err := drive.New(cfg)
	if err != nil {
		c.HarnessError("server: %v", err)
		return
	}
	defer srv.Close()
	store, err := srv.CreateStore("replay")
	if err != nil {
		c.HarnessError("CreateStore: %v", err)
		return
	}
	if _, err := srv.WriteModel(store, &model); err != nil {
		c.HarnessError("WriteModel: %v", err)
		return
	}
	m := ref.NewModel(&model, ref.TemplateCondEval)
	st := newState(c, srv, label, store, "replay", m)
	if label != "v2" {
		st.installBase()
	}
	cd := cand{&tk, w.Family, w.CtxKind}
	v := Judge(m, &tk)
	c.Logf("replay %s of %s: oracle %s (match %s, condition %s)", w.Path, renderTK(&tk), v.Reason(), v.Match, v.CondClass)
	if w.Path == "write" || w.Path == "write-batch" {
		st.writePath(cd, v)
	} else {
		st.ctxPath(w.Path, cd, v)
	}
}
