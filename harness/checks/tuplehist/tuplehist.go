// Package tuplehist is the workload + oracle shared by the write-path checks (C12, C15): a small
// tuple universe with condition variants, a generator of Write requests (valid, no-op, conflicting,
// invalid), a sequential reference model of "tuple set + append-only changelog" written from the
// documentation of the Write API, and a driver that runs requests through a real in-process
// Server on a given datastore.
package tuplehist

import (
	"context"
	"fmt"
	"math/rand"
	"sort"
	"strings"

	openfgav1 "github.com/openfga/api/proto/openfga/v1"
	parser "github.com/openfga/language/pkg/go/transformer"
	"google.golang.org/protobuf/types/known/structpb"

	"github.com/openfga/openfga/pkg/encoder"
	"github.com/openfga/openfga/pkg/server"
	"github.com/openfga/openfga/pkg/storage"
	"github.com/openfga/openfga/pkg/storage/sqlcommon"

	"github.com/openfga/openfga/verifharness/checks/storekit"
)

// ModelDSL is the authorization model every history runs under.
const ModelDSL = `model
  schema 1.1
type user
type doc
  relations
    define viewer: [user, user with c1, user with c2]
    define editor: [user]
type docs
  relations
    define viewer: [user, user with c1]
condition c1(x: int) {
  x < 100
}
condition c2(x: int) {
  x > 0
}`

// Tup is a tuple of the universe with one condition variant.
type Tup struct {
	Object, Relation, User string
	CondName               string // "" = no condition
	CtxX                   int    // 0 = nil context, else context {x: CtxX}
}

func (t Tup) Key() string { return storekit.BaseKey(t.Object, t.Relation, t.User) }

// Cond is the canonical condition text (same rendering as storekit.CondString).
func (t Tup) Cond() string { return storekit.CondString(t.ProtoCond()) }

func (t Tup) String() string { return t.Key() + " [" + t.Cond() + "]" }

func (t Tup) ProtoCond() *openfgav1.RelationshipCondition {
	if t.CondName == "" {
		return nil
	}
	c := &openfgav1.RelationshipCondition{Name: t.CondName}
	if t.CtxX != 0 {
		c.Context = &structpb.Struct{Fields: map[string]*structpb.Value{"x": structpb.NewNumberValue(float64(t.CtxX))}}
	}
	return c
}

func (t Tup) Proto() *openfgav1.TupleKey {
	return &openfgav1.TupleKey{Object: t.Object, Relation: t.Relation, User: t.User, Condition: t.ProtoCond()}
}

func (t Tup) ProtoNoCond() *openfgav1.TupleKeyWithoutCondition {
	return &openfgav1.TupleKeyWithoutCondition{Object: t.Object, Relation: t.Relation, User: t.User}
}

// Base is one of the six base tuples with the condition variants the model allows for it.
type Base struct {
	Object, Relation, User string
	Variants               [][2]any // {condName, ctxX}
}

var docVariants = [][2]any{{"", 0}, {"c1", 1}, {"c1", 2}, {"c1", 0}, {"c2", 1}}
var docsVariants = [][2]any{{"", 0}, {"c1", 1}, {"c1", 2}, {"c1", 0}}
var plainVariants = [][2]any{{"", 0}}

// Universe is the 6-tuple universe (two object types, three relations).
var Universe = []Base{
	{"doc:1", "viewer", "user:a", docVariants},
	{"doc:1", "viewer", "user:b", docVariants},
	{"doc:2", "viewer", "user:a", docVariants},
	{"doc:1", "editor", "user:a", plainVariants},
	{"docs:1", "viewer", "user:a", docsVariants},
	{"docs:1", "viewer", "user:b", docsVariants},
}

// ObjectTypes of the universe.
var ObjectTypes = []string{"doc", "docs"}

func (b Base) With(v [2]any) Tup {
	return Tup{Object: b.Object, Relation: b.Relation, User: b.User, CondName: v[0].(string), CtxX: v[1].(int)}
}

// Req is one Write request. Invalid names the validation rule the generator broke on purpose
// ("" = the request is well-formed and its fate depends only on the store's state).
type Req struct {
	Deletes   []Tup  `json:"deletes,omitempty"`
	Writes    []Tup  `json:"writes,omitempty"`
	OnDup     string `json:"on_duplicate,omitempty"` // "", "error", "ignore", or a bogus value
	OnMissing string `json:"on_missing,omitempty"`
	Invalid   string `json:"invalid,omitempty"`
}

func (r Req) IgnoreDup() bool     { return r.OnDup == "ignore" }
func (r Req) IgnoreMissing() bool { return r.OnMissing == "ignore" }

func (r Req) String() string {
	var d, w []string
	for _, t := range r.Deletes {
		d = append(d, t.Key())
	}
	for _, t := range r.Writes {
		w = append(w, t.String())
	}
	return fmt.Sprintf("D(%s;%s) W(%s;%s) invalid=%q", strings.Join(d, ","), r.OnMissing, strings.Join(w, ","), r.OnDup, r.Invalid)
}

// Proto builds the API request.
func (r Req) Proto(store, modelID string) *openfgav1.WriteRequest {
	req := &openfgav1.WriteRequest{StoreId: store, AuthorizationModelId: modelID}
	if len(r.Writes) > 0 {
		w := &openfgav1.WriteRequestWrites{OnDuplicate: r.OnDup}
		for _, t := range r.Writes {
			w.TupleKeys = append(w.TupleKeys, t.Proto())
		}
		req.Writes = w
	}
	if len(r.Deletes) > 0 {
		d := &openfgav1.WriteRequestDeletes{OnMissing: r.OnMissing}
		for _, t := range r.Deletes {
			d.TupleKeys = append(d.TupleKeys, t.ProtoNoCond())
		}
		req.Deletes = d
	}
	return req
}

// ---------------------------------------------------------------------------------------------
// the sequential reference model (written from the Write API documentation, not from the code):
//   * a request that breaks a validation rule changes nothing;
//   * deleting a missing tuple fails the whole request unless on_missing=ignore (then that item is skipped);
//   * writing an existing tuple fails the whole request unless on_duplicate=ignore AND the stored
//     condition (name + context) is identical (then that item is skipped);
//   * otherwise all deletes, then all writes, are applied, one changelog entry each, in request order;
//     delete entries carry no condition.

// Model is the reference state.
type Model struct {
	T   map[string]string // key -> canonical condition
	Log []string          // "W key [cond]" / "D key []"
}

func NewModel() *Model { return &Model{T: map[string]string{}} }

// NewModelFrom returns a model whose tuple set is pre (its log holds one write entry per tuple).
func NewModelFrom(pre []Tup) *Model {
	m := NewModel()
	if len(pre) > 0 {
		m.Apply(Req{Writes: pre})
	}
	return m
}

func (m *Model) Clone() *Model {
	c := &Model{T: make(map[string]string, len(m.T)), Log: append([]string(nil), m.Log...)}
	for k, v := range m.T {
		c.T[k] = v
	}
	return c
}

// Outcome describes what the model did with a request.
type Outcome struct {
	Accepted   bool
	Reason     string // why rejected
	EffDeletes int    // items that changed state
	EffWrites  int
	SkipDelete int // no-op items skipped thanks to an ignore option
	SkipWrite  int
}

// Apply runs the request against the model.
func (m *Model) Apply(r Req) Outcome {
	if r.Invalid != "" {
		return Outcome{Reason: "invalid:" + r.Invalid}
	}
	var o Outcome
	var dels, wrs []Tup
	for _, t := range r.Deletes {
		if _, ok := m.T[t.Key()]; !ok {
			if !r.IgnoreMissing() {
				return Outcome{Reason: "delete-missing"}
			}
			o.SkipDelete++
			continue
		}
		dels = append(dels, t)
	}
	for _, t := range r.Writes {
		if c, ok := m.T[t.Key()]; ok {
			if !r.IgnoreDup() {
				return Outcome{Reason: "write-existing"}
			}
			if c != t.Cond() {
				return Outcome{Reason: "write-existing-other-condition"}
			}
			o.SkipWrite++
			continue
		}
		wrs = append(wrs, t)
	}
	for _, t := range dels {
		delete(m.T, t.Key())
		m.Log = append(m.Log, "D "+t.Key()+" []")
	}
	for _, t := range wrs {
		m.T[t.Key()] = t.Cond()
		m.Log = append(m.Log, "W "+t.Key()+" ["+t.Cond()+"]")
	}
	o.Accepted, o.EffDeletes, o.EffWrites = true, len(dels), len(wrs)
	return o
}

// Tuples renders the model's tuple set like storekit.Snapshot.SemTuples.
func (m *Model) Tuples() []string {
	keys := make([]string, 0, len(m.T))
	for k := range m.T {
		keys = append(keys, k)
	}
	sort.Strings(keys)
	out := make([]string, 0, len(keys))
	for _, k := range keys {
		out = append(out, k+" ["+m.T[k]+"]")
	}
	return out
}

// ---------------------------------------------------------------------------------------------
// request generator

// Gen draws requests biased towards the interesting corners given the model's current state.
type Gen struct {
	R *rand.Rand
	// NoInvalid suppresses deliberately malformed requests.
	NoInvalid bool
}

func (g *Gen) variant(b Base) Tup { return b.With(b.Variants[g.R.Intn(len(b.Variants))]) }

// otherVariant returns a variant of b whose condition differs from cond (if b has one).
func (g *Gen) otherVariant(b Base, cond string) (Tup, bool) {
	var c []Tup
	for _, v := range b.Variants {
		if t := b.With(v); t.Cond() != cond {
			c = append(c, t)
		}
	}
	if len(c) == 0 {
		return Tup{}, false
	}
	return c[g.R.Intn(len(c))], true
}

func (g *Gen) sameVariant(b Base, cond string) Tup {
	for _, v := range b.Variants {
		if t := b.With(v); t.Cond() == cond {
			return t
		}
	}
	return b.With(b.Variants[0])
}

var optionValues = []string{"", "error", "ignore"}

// Next draws one request. The shape is chosen first, then filled from the current state m.
func (g *Gen) Next(m *Model) Req {
	r := Req{OnDup: optionValues[g.R.Intn(3)], OnMissing: optionValues[g.R.Intn(3)]}
	if g.R.Intn(3) == 0 { // make the ignore options common
		r.OnDup = "ignore"
	}
	if g.R.Intn(3) == 0 {
		r.OnMissing = "ignore"
	}
	perm := g.R.Perm(len(Universe))
	nItems := 1 + g.R.Intn(4)
	if g.R.Intn(6) == 0 {
		nItems = len(Universe)
	}
	for _, i := range perm[:nItems] {
		b := Universe[i]
		cond, present := m.T[b.With(b.Variants[0]).Key()]
		// per item: choose an action relative to the state
		switch p := g.R.Intn(100); {
		case present && p < 35: // delete existing
			r.Deletes = append(r.Deletes, g.variant(b))
		case present && p < 55: // re-write identical
			r.Writes = append(r.Writes, g.sameVariant(b, cond))
		case present && p < 80: // re-write with another condition
			if t, ok := g.otherVariant(b, cond); ok {
				r.Writes = append(r.Writes, t)
			} else {
				r.Writes = append(r.Writes, g.sameVariant(b, cond))
			}
		case present: // nothing / plain duplicate
			r.Writes = append(r.Writes, g.variant(b))
		case p < 65: // write new
			r.Writes = append(r.Writes, g.variant(b))
		default: // delete missing
			r.Deletes = append(r.Deletes, g.variant(b))
		}
	}
	if !g.NoInvalid && g.R.Intn(8) == 0 {
		g.spoil(&r)
	}
	return r
}

// spoil breaks one documented validation rule, keeping the other items as they are (mixed batch).
func (g *Gen) spoil(r *Req) {
	switch g.R.Intn(8) {
	case 0: // unknown object type in writes
		r.Writes = append(r.Writes, Tup{Object: "ghost:1", Relation: "viewer", User: "user:a"})
		r.Invalid = "unknown-type"
	case 1: // unknown relation
		r.Writes = append(r.Writes, Tup{Object: "doc:1", Relation: "owner", User: "user:a"})
		r.Invalid = "unknown-relation"
	case 2: // condition not allowed by the type restriction
		r.Writes = append(r.Writes, Tup{Object: "doc:2", Relation: "editor", User: "user:b", CondName: "c1", CtxX: 1})
		r.Invalid = "condition-not-allowed"
	case 3: // same tuple twice in writes (different conditions)
		if len(r.Writes) == 0 {
			r.Writes = append(r.Writes, g.variant(Universe[0]))
		}
		dup := r.Writes[0]
		dup.CondName, dup.CtxX = "c1", 2
		if r.Writes[0].CondName == "c1" && r.Writes[0].CtxX == 2 {
			dup.CondName, dup.CtxX = "", 0
		}
		if dup.Relation == "editor" {
			dup = r.Writes[0]
		}
		r.Writes = append(r.Writes, dup)
		r.Invalid = "duplicate-in-writes"
	case 4: // same tuple in writes and deletes
		if len(r.Writes) == 0 {
			r.Writes = append(r.Writes, g.variant(Universe[1]))
		}
		r.Deletes = append(r.Deletes, r.Writes[len(r.Writes)-1])
		r.Invalid = "same-tuple-in-writes-and-deletes"
	case 5: // unknown option value
		if len(r.Writes) > 0 {
			r.OnDup = "bogus"
			r.Invalid = "bad-on_duplicate"
		} else {
			r.OnMissing = "bogus"
			r.Invalid = "bad-on_missing"
		}
	case 6: // malformed user in a delete
		r.Deletes = append(r.Deletes, Tup{Object: "doc:1", Relation: "viewer", User: "user:a:b#"})
		r.Invalid = "malformed-user"
	case 7: // wrong parameter type in the condition context
		// (context {x: "str"} for an int parameter) -- built by the driver from CtxX = -1
		r.Writes = append(r.Writes, Tup{Object: "doc:2", Relation: "viewer", User: "user:b", CondName: "c9", CtxX: 1})
		r.Invalid = "unknown-condition"
	}
}

// ---------------------------------------------------------------------------------------------
// environment: datastore + in-process server + store + model

// Env is one store on one datastore behind a real Server.
type Env struct {
	Backend string // "memory" | "sqlite"
	DS      storage.OpenFGADatastore
	Srv     *server.Server
	Store   string
	ModelID string
	Path    string // sqlite file
	fork    bool
}

// NewEnv builds the server on ds, creates a store and writes the model. Close() closes the datastore too.
func NewEnv(ctx context.Context, backend string, ds storage.OpenFGADatastore, opts ...server.OpenFGAServiceV1Option) (*Env, error) {
	all := []server.OpenFGAServiceV1Option{server.WithDatastore(ds)}
	if backend == "sqlite" {
		all = append(all, server.WithContinuationTokenSerializer(sqlcommon.NewSQLContinuationTokenSerializer()))
	} else {
		all = append(all, server.WithContinuationTokenSerializer(encoder.NewStringContinuationTokenSerializer()))
	}
	all = append(all, opts...)
	srv, err := server.NewServerWithOpts(all...)
	if err != nil {
		return nil, err
	}
	e := &Env{Backend: backend, DS: ds, Srv: srv}
	if err := e.initStore(ctx); err != nil {
		srv.Close()
		return nil, err
	}
	return e, nil
}

// OpenEnv creates a fresh datastore of the given backend (sqlite under dir) and an Env on it.
func OpenEnv(ctx context.Context, backend, dir string, opts ...server.OpenFGAServiceV1Option) (*Env, error) {
	switch backend {
	case "memory":
		return NewEnv(ctx, backend, storekit.OpenMemory(), opts...)
	case "sqlite":
		ds, path, err := storekit.OpenSqlite(dir)
		if err != nil {
			return nil, err
		}
		e, err := NewEnv(ctx, backend, ds, opts...)
		if e != nil {
			e.Path = path
		}
		return e, err
	}
	return nil, fmt.Errorf("unknown backend %q", backend)
}

// Close closes the server and the datastore (only on the root Env, not on forks).
func (e *Env) Close() {
	if !e.fork {
		e.Srv.Close()
	}
}

// Fork creates another store (with the model) on the same server and datastore.
func (e *Env) Fork(ctx context.Context) (*Env, error) {
	f := &Env{Backend: e.Backend, DS: e.DS, Srv: e.Srv, Path: e.Path, fork: true}
	if err := f.initStore(ctx); err != nil {
		return nil, err
	}
	return f, nil
}

func (e *Env) initStore(ctx context.Context) error {
	st, err := e.Srv.CreateStore(ctx, &openfgav1.CreateStoreRequest{Name: "verif"})
	if err != nil {
		return fmt.Errorf("CreateStore: %w", err)
	}
	e.Store = st.GetId()
	model := parser.MustTransformDSLToProto(ModelDSL)
	wm, err := e.Srv.WriteAuthorizationModel(ctx, &openfgav1.WriteAuthorizationModelRequest{
		StoreId: e.Store, SchemaVersion: model.GetSchemaVersion(), TypeDefinitions: model.GetTypeDefinitions(), Conditions: model.GetConditions(),
	})
	if err != nil {
		return fmt.Errorf("WriteAuthorizationModel: %w", err)
	}
	e.ModelID = wm.GetAuthorizationModelId()
	return nil
}

// Write sends the request through Server.Write; a panic is returned as err with panicked=true.
func (e *Env) Write(ctx context.Context, r Req) (err error, panicked bool) {
	defer func() {
		if p := recover(); p != nil {
			err, panicked = fmt.Errorf("panic: %v", p), true
		}
	}()
	_, err = e.Srv.Write(ctx, r.Proto(e.Store, e.ModelID))
	return err, false
}

// Dump reads the store's tuples and changelog straight from the datastore.
func (e *Env) Dump(ctx context.Context) (storekit.Snapshot, error) {
	return storekit.Dump(ctx, e.DS, e.Store)
}
