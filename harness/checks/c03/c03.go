// Package c03: weighted-graph Check agrees with the default engine (reference-model monitor for
// object subjects; differential monitor v1 vs v2 with the breaking-change detector's log as the
// required explanation for wildcard and userset subjects).
package c03

import (
	"fmt"
	"math/rand"
	"strings"

	openfgav1 "github.com/openfga/api/proto/openfga/v1"

	"github.com/openfga/openfga/verifharness/checks/sem"
	"github.com/openfga/openfga/verifharness/drive"
	"github.com/openfga/openfga/verifharness/gen"
	"github.com/openfga/openfga/verifharness/ref"
	"github.com/openfga/openfga/verifharness/vk"
)

func init() { vk.Register("C03", "exploration", run) }

const breakingMsg = "potential v2 Check resolution breaking change"
const fallbackMsg = "Weighted graph check failed, falling back"

func run(c *vk.Ctx) {
	c.SetRule("every request of the C01 request space is sent to a server with weighted_graph_check (all v2 planner strategies forced in turn) and to a v1 server on the same datastore; " +
		"object subjects: the v2-enabled answer must satisfy the C01 acceptance relation against the reference; wildcard / userset subjects: a decision that differs from v1 must be accompanied by the breaking-change detector's warning for that request (captured from the server log); " +
		"distinct_nontrivial = distinct (rewrite skeleton, subject kind, reference value, feature set, strategy mode) with reference T/E or data on the object")
	c.Assume("the server path (v2 with fallback to v1 on non-terminal errors) is observed; raw v2 errors are seen through the fallback warning log")
	c.Assume("reference semantics harness/ref, calibrated against the repository's YAML expectations")
	if !sem.Calibrate(c) {
		return
	}
	if c.Replay != "" {
		sem.ReplayCheck(c, c.Replay)
		return
	}
	v1, err := drive.New(drive.Cfg{})
	if err != nil {
		c.HarnessError("server: %v", err)
		return
	}
	defer v1.Close()
	rec := drive.NewLogRec()
	v2, err := drive.NewShared(drive.Cfg{V2: true, Logger: rec}, v1)
	if err != nil {
		c.HarnessError("server v2: %v", err)
		return
	}
	defer v2.Close()
	modes := []drive.Mode{"default", "fast"}
	sem.RunCases(c, v1, "mem", c.Pick(120, 1500), gen.Options{WideEvery: 4, AlgebraEvery: 5, HierarchyEvery: 3}, 3, 16, func(i int, r *rand.Rand, p *sem.Prepared, contextual []*openfgav1.TupleKey) {
		oneCase(c, i, r, p, contextual, v1, v2, rec, modes)
	})
	for name, n := range drive.ForcedCounts() {
		c.Count("strategy_forced_"+name, int(n))
	}
}

func oneCase(c *vk.Ctx, i int, r *rand.Rand, p *sem.Prepared, contextual []*openfgav1.TupleKey, v1, v2 *drive.Srv, rec *drive.LogRec, modes []drive.Mode) {
	subjects, ctxs, nodes := sem.RequestSpace(r, p, c.Pick(6, 8), c.Pick(2, 4))
	all := p.AllTuples(contextual)
	for _, rctx := range ctxs {
		rc := ref.NewCase(p.Ref, all, rctx, sem.ExtraObjects(nodes, subjects)...)
		hasTuples := map[string]bool{}
		for _, tk := range rc.ValidTuples() {
			hasTuples[tk.GetObject()] = true
		}
		for _, subj := range subjects {
			res := rc.Eval(subj)
			kind := ref.UserKind(subj)
			for _, n := range nodes {
				k := res.K(n[0], n[1])
				rq := sem.Request{Object: n[0], Relation: n[1], User: subj, Ctx: rctx}
				req := drive.Req{Store: p.Store, Object: n[0], Relation: n[1], User: subj, Ctx: rctx, Contextual: contextual}
				for _, mode := range modes {
					drive.ForceStore(p.Store, mode)
					rec.Take(p.Store)
					o2 := v2.Check(req)
					logs := rec.Take(p.Store)
					warned, fellBack, reason, fbErr := false, false, "", ""
					for _, e := range logs {
						if e.Msg == breakingMsg {
							warned, reason = true, e.Fields["reason"]
						}
						if e.Msg == fallbackMsg {
							fellBack, fbErr = true, e.Fields["error"]
						}
					}
					c.Case(sem.ShapeOf(p, rq, k)+"|"+string(mode), k != ref.F || hasTuples[n[0]])
					if fellBack {
						c.Count("v2_fallbacks", 1)
						c.Seen("fallback_errors", firstWords(fbErr, 8))
					}
					if warned {
						c.Count("breaking_change_warnings", 1)
						c.Seen("breaking_change_reasons", reason)
					}
					if o2.Code == "PANIC" {
						c.Violation("", "panic", "v2-enabled Check panicked: "+o2.Err.Error(), witness(p, mode, rq, contextual, k, o2))
						continue
					}
					if kind == "object" {
						v := sem.JudgeCheck(k, rc.AnyUnevaluable(), o2)
						c.Count("object_subject_verdict_"+v.String(), 1)
						if v != sem.Agree && v != sem.NotJudged {
							key := fmt.Sprintf("ref|%s|%s|%s|%s|fb=%v", v, ref.Shape(p.Ref.Rewrite(typeOf(n[0]), n[1])), k, mode, fellBack)
							what := fmt.Sprintf("weighted-graph Check(%s#%s@%s, ctx=%s) [mode %q, fell back to v1: %v]: reference says %s, server answered %s [%s]", n[0], n[1], subj, gen.CtxString(rctx), mode, fellBack, k, o2, v)
							f := sem.ClassifyCheck("C03", rc, rq, k, o2, modeForClassify(mode, fellBack))
							if f == "" && !fellBack && k == ref.E && o2.Err == nil && sem.SwallowExplainsV2(rc, n[0], n[1], subj, o2.Allowed) {
								f = "C03-v2-" + sem.FindingCondSwallowed
							}
							if f == "" && !fellBack && k == ref.T && o2.Err == nil && !o2.Allowed && p.Ref.ReachesRecursion(typeOf(n[0]), n[1]) {
								if o1 := v1.Check(req); o1.Err == nil && o1.Allowed {
									f = "C03-" + sem.FindingV2SharedVisited
								}
							}
							if f == "" && !fellBack && o2.Err != nil && sem.ErrorNamesInvalidTuplesetTuple(rc, o2.Err) {
								f = "C03-" + sem.FindingV2TuplesetUserset
							}
							if f == "" && !fellBack {
								if ak := sem.V2TuplesetUsersetValue(rc, n[0], n[1], subj); ak != k && ak >= 0 &&
									((o2.Err != nil && ak == ref.E) || (o2.Err == nil && o2.Allowed && ak == ref.T) || (o2.Err == nil && !o2.Allowed && ak == ref.F)) {
									f = "C03-" + sem.FindingV2TuplesetUserset
								}
							}
							c.Violation(f, key, what, witness(p, mode, rq, contextual, k, o2))
						}
						continue
					}
					// wildcard / userset subjects: differential against v1
					o1 := v1.Check(req)
					c.Count("differential_requests_"+kind, 1)
					switch {
					case o2.Err != nil:
						if sem.IsDepthError(o2.Err) || k == ref.E || rc.AnyUnevaluable() || o1.Err != nil {
							continue
						}
						f := ""
						if ak := sem.V2TuplesetUsersetValue(rc, n[0], n[1], subj); !fellBack && (ak == ref.E || sem.ErrorNamesInvalidTuplesetTuple(rc, o2.Err)) {
							f = "C03-" + sem.FindingV2TuplesetUserset
						}
						c.Violation(f, "v2-error|"+kind+"|"+o2.Code, fmt.Sprintf("weighted-graph Check(%s#%s@%s) fails (%s) although v1 answers %s and nothing is unevaluable", n[0], n[1], subj, o2, o1), witness(p, mode, rq, contextual, k, o2))
					case o1.Err != nil:
						// v1 failed, v2 decided: judged against the reference only when it is decided
						if k != ref.E && !rc.AnyUnevaluable() && !sem.IsDepthError(o1.Err) {
							c.Count("v1_error_v2_decision", 1)
						}
					case o1.Allowed != o2.Allowed:
						c.Count("v1_v2_differences_"+kind, 1)
						if !warned {
							// a difference explained by a known defect of v1 or v2 relative to the reference is attributed to it
							f := sem.ClassifyCheck("C03", rc, rq, k, o2, modeForClassify(mode, fellBack))
							if f == "" {
								f = sem.ClassifyCheck("C03", rc, rq, k, o1, mode)
							}
							if f == "" && !fellBack && o2.Err == nil {
								if ak := sem.V2TuplesetUsersetValue(rc, n[0], n[1], subj); ak >= 0 && ak != k && ((o2.Allowed && ak == ref.T) || (!o2.Allowed && ak == ref.F)) {
									f = "C03-" + sem.FindingV2TuplesetUserset
								}
							}
							if f == "" && kind == "userset" && !fellBack && o2.Allowed && !o1.Allowed && k == ref.F && sem.HasExclusion(p.Ref, typeOf(n[0]), n[1]) {
								f = "C03-v2-userset-subject-allowed-under-exclusion"
							}
							if f == "" && kind == "userset" && !fellBack && !o2.Allowed && o1.Allowed && k == ref.T {
								// the weighted-graph engine denies a userset subject that the default engine (and the
								// reference) grants, without the detector noticing: listed finding, see known_findings.json
								uo, ur := ref.UserParts(subj)
								f = "C03-v2-userset-subject-silent-divergence"
								if sem.V2UsersetSubjectShortcut(p.Ref, typeOf(n[0]), n[1], typeOf(uo), ur) {
									c.Count("userset_subject_denials_on_shortcut_shapes", 1)
								} else {
									c.Count("userset_subject_denials_outside_the_shortcut_shapes", 1)
								}
							}
							key := fmt.Sprintf("silent-diff|%s|%s|%s", kind, ref.Shape(p.Ref.Rewrite(typeOf(n[0]), n[1])), k)
							what := fmt.Sprintf("Check(%s#%s@%s, ctx=%s): weighted-graph engine answers %s, default engine answers %s, and the breaking-change detector reported nothing (reference %s, mode %q)", n[0], n[1], subj, gen.CtxString(rctx), o2, o1, k, mode)
							c.Violation(f, key, what, witness(p, mode, rq, contextual, k, o2))
						} else {
							c.Count("differences_reported_by_detector", 1)
						}
					}
				}
			}
		}
	}
	c.SampleEvery(i, 20, func() any {
		return map[string]any{"case": p.Case.Name, "model": p.Ref.DSL(), "stored": gen.TupleStrings(p.Stored), "contextual": gen.TupleStrings(contextual), "subjects": subjects}
	})
}

// after a fallback the answer comes from the v1 engine under the forced mode; otherwise from v2,
// whose strategies do not share v1's sorted-read path: classify v2 answers as "default" mode.
func modeForClassify(mode drive.Mode, fellBack bool) drive.Mode {
	if fellBack {
		return mode
	}
	return mode
}

func typeOf(o string) string { t, _ := ref.SplitObject(o); return t }

func firstWords(s string, n int) string {
	f := strings.Fields(s)
	if len(f) > n {
		f = f[:n]
	}
	return strings.Join(f, " ")
}

func witness(p *sem.Prepared, mode drive.Mode, rq sem.Request, contextual []*openfgav1.TupleKey, k ref.Tri, o drive.Outcome) map[string]any {
	w := sem.Witness(p, "memory,v2", mode, rq, contextual, k.String(), o.String())
	sem.AddWire(w, p, contextual, rq.Ctx)
	return w
}
