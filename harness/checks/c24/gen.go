package c24

import (
	"encoding/binary"
	"math"
	"math/rand/v2"
)

// ---------- alphabets ----------

// Strings engineered to collide under sloppy encodings: pieces that concatenate into each other,
// the encoder's own tag bytes (0x00..0x0b), uvarint length prefixes, a complete TLV string
// ("\x04\x01a" is the encoding of "a"), separators used by the string joins, invalid UTF-8.
var strAlpha = []string{
	"", "a", "b", "ab", "ba", "aa", "abab",
	"\x00", "\x04", "\x01", "\x04\x00", "\x04\x01a", "a\x04\x01b", "\x04\x01a\x04\x01b", "\x06\x00", "\x07\x00", "\x0b",
	"#", ":", "a#b", "a#", "#b", "a:*", ":*", "*", "a.b",
	"\xff", "\xc0\x80",
	"0", "1", "true", "false", "null",
}

var smallAlpha = []string{"", "a", "b", "ab", "\x04\x01a", "a\x04\x01b", "\x00"}

var numAlpha = []float64{0, math.Copysign(0, -1), 1, -1, 4, 0.5, 1e300, 5e-324, math.Inf(1), math.Inf(-1),
	math.NaN(), math.Float64frombits(0x7ff8000000000002), math.Float64frombits(0x0404040404040404), 9007199254740992}

func pick[T any](r *rand.Rand, xs []T) T { return xs[r.IntN(len(xs))] }

// Per-round alphabet extension: a few extra strings glued from hostile pieces, so that different
// seeds / rounds probe different concrete boundaries. The base alphabets are never modified.
var alphaPieces = []string{"a", "b", "\x04", "\x01", "\x02", "\x00", "#", ":", "*", "\x06", "\x07"}

var baseAlphas struct {
	done                                      bool
	small, str, key, cond, oid, simple, ufObj []string
}

func setRoundAlphabets(r *rand.Rand) []string {
	b := &baseAlphas
	if !b.done {
		b.small, b.str, b.key, b.cond, b.oid, b.simple, b.ufObj = smallAlpha, strAlpha, keyAlpha, condAlpha, oidAlpha, simpleAlpha, ufObjAlpha
		b.done = true
	}
	var extras []string
	for i := 0; i < 4; i++ {
		n := 2 + r.IntN(3)
		x := ""
		for j := 0; j < n; j++ {
			x += pick(r, alphaPieces)
		}
		extras = append(extras, x)
	}
	ext := func(base []string, k int) []string { return append(append([]string(nil), base...), extras[:k]...) }
	smallAlpha, strAlpha, keyAlpha, condAlpha = ext(b.small, 3), ext(b.str, 4), ext(b.key, 2), ext(b.cond, 2)
	oidAlpha, simpleAlpha, ufObjAlpha = ext(b.oid, 2), ext(b.simple, 2), ext(b.ufObj, 2)
	return extras
}

// ---------- random values ----------

func genVal(r *rand.Rand, depth int, inContainer bool) val {
	n := 12
	if depth <= 0 {
		n = 8
	}
	switch r.IntN(n) {
	case 0:
		return vNull()
	case 1:
		return vBool(r.IntN(2) == 0)
	case 2, 3:
		return vNum(pick(r, numAlpha))
	case 4, 5:
		return vStr(pick(r, strAlpha))
	case 6:
		return vUnset()
	case 7:
		if inContainer && r.IntN(3) == 0 {
			return vNilPtr()
		}
		if r.IntN(2) == 0 {
			return val{k: 'l'}
		}
		return val{k: 'm'}
	case 8, 9:
		l := make([]val, r.IntN(4))
		for i := range l {
			l[i] = genVal(r, depth-1, true)
		}
		return val{k: 'L', l: l}
	default:
		return val{k: 'M', m: genFields(r, depth-1)}
	}
}

var keyAlpha = []string{"", "a", "b", "ab", "a.b", "\x04\x01a", "k", "\x00"}

func genFields(r *rand.Rand, depth int) []field {
	n := r.IntN(4)
	seen := map[string]bool{}
	var out []field
	for i := 0; i < n; i++ {
		k := pick(r, keyAlpha)
		if seen[k] {
			continue
		}
		seen[k] = true
		out = append(out, field{k, genVal(r, depth, true)})
	}
	// random presentation order
	r.Shuffle(len(out), func(i, j int) { out[i], out[j] = out[j], out[i] })
	return out
}

// deepVal nests a two-valued leaf under n single-element containers (all lists or all one-field maps):
// contexts that differ only below dozens of container levels must still get different keys.
func deepVal(r *rand.Rand) val {
	n := []int{5, 17, 31, 32, 33, 40, 64}[r.IntN(7)]
	v := vBool(r.IntN(2) == 0)
	asList := r.IntN(2) == 0
	for i := 0; i < n; i++ {
		if asList {
			v = val{k: 'L', l: []val{v}}
		} else {
			v = val{k: 'M', m: []field{{"a", v}}}
		}
	}
	return v
}

func genCtx(r *rand.Rand) ctxv {
	if r.IntN(40) == 0 {
		return ctxv{fields: []field{{"a", deepVal(r)}}}
	}
	switch r.IntN(6) {
	case 0:
		return ctxv{isNil: true}
	case 1:
		return ctxv{}
	default:
		return ctxv{fields: genFields(r, 2)}
	}
}

// a much smaller context space (so that equal contexts are frequent and tuple/ctx boundaries are probed)
func genSmallCtx(r *rand.Rand) ctxv {
	switch r.IntN(8) {
	case 0:
		return ctxv{isNil: true}
	case 1, 2:
		return ctxv{}
	case 3:
		return ctxv{fields: []field{{"a", vNum(1)}}}
	case 4:
		return ctxv{fields: []field{{"a", vStr("1")}}}
	case 5:
		return ctxv{fields: []field{{"a", vNull()}}}
	case 6:
		return ctxv{fields: []field{{"a", vNum(1)}, {"b", vNum(2)}}}
	default:
		return ctxv{fields: []field{{"b", vNum(2)}, {"a", vNum(1)}}}
	}
}

// ---------- random tuples ----------

var objAlpha = []string{"d:1", "d:2", "d:", "d:1\x04\x01r", "", "d:1#r"}
var relAlpha = []string{"r", "s", "", "r\x04\x03u:1"}
var userAlpha = []string{"u:1", "u:2", "u:*", "g:1#m", "", "u:1\x04\x01c"}
var condNameAlpha = []string{"", "c", "d", "c\x07\x00"}

func genTuple(r *rand.Rand, objs, rels, users []string) tup {
	t := tup{o: pick(r, objs), r: pick(r, rels), u: pick(r, users)}
	if r.IntN(5) < 2 {
		t.cond = &condv{name: pick(r, condNameAlpha), ctx: genSmallCtx(r)}
	}
	return t
}

func genTuples(r *rand.Rand, objs, rels, users []string) []tup {
	n := r.IntN(4)
	if n == 0 && r.IntN(2) == 0 {
		return nil
	}
	out := make([]tup, n)
	for i := range out {
		out[i] = genTuple(r, objs, rels, users)
	}
	return out
}

// ---------- random inputs per kind ----------

var storeAlpha = []string{"S", "T", "", "S\x04\x01M", "SM"}
var modelAlpha = []string{"M", "N", "", "M\x06\x00"}

func genInv(r *rand.Rand) invIn { return genInvFresh(r) }

// genInvTwin regenerates the input of the previous index (same PRNG stream) and presents its contextual
// tuples in another order: "tuple component order does not affect the invariant hash" is only exercised
// when the same multiset of tuples really arrives in two orders.
func genInvTwin(prev, r *rand.Rand) invIn {
	in := genInvFresh(prev)
	if len(in.tuples) < 2 {
		return genInvFresh(r)
	}
	in.tuples = append([]tup(nil), in.tuples...)
	r.Shuffle(len(in.tuples), func(i, j int) { in.tuples[i], in.tuples[j] = in.tuples[j], in.tuples[i] })
	return in
}

func genInvFresh(r *rand.Rand) invIn {
	in := invIn{store: pick(r, storeAlpha), model: pick(r, modelAlpha), tuples: genTuples(r, objAlpha, relAlpha, userAlpha)}
	if r.IntN(3) == 0 {
		in.ctx = genCtx(r)
	} else {
		in.ctx = genSmallCtx(r)
	}
	return in
}

func genBatch(r *rand.Rand) batchIn {
	return batchIn{invIn: genInvFresh(r), object: pick(r, smallAlpha), relation: pick(r, smallAlpha), user: pick(r, smallAlpha)}
}

var invAlpha = []uint64{0, 1, 0x0104, 0x6101040000000000, math.MaxUint64}

func genCheck(r *rand.Rand) checkIn {
	return checkIn{store: pick(r, smallAlpha), object: pick(r, smallAlpha), relation: pick(r, smallAlpha), user: pick(r, smallAlpha), inv: pick(r, invAlpha)}
}

var condAlpha = []string{"", "c", "d", "cd", "c\x04\x01d"}

func genStrList(r *rand.Rand, alpha []string) strList {
	switch r.IntN(6) {
	case 0:
		return strList{isNil: true}
	case 1:
		return strList{}
	}
	n := 1 + r.IntN(3)
	l := strList{items: make([]string, n)}
	for i := range l.items {
		l.items[i] = pick(r, alpha)
	}
	return l
}

func genRead(r *rand.Rand) readIn {
	return readIn{store: pick(r, smallAlpha), object: pick(r, smallAlpha), relation: pick(r, smallAlpha), user: pick(r, smallAlpha), conds: genStrList(r, condAlpha)}
}

var refTypeValid = []string{"a", "b", "ab"}
var refRelValid = []string{"m", "b", "a"}
var refTypeRaw = []string{"a", "b", "a#b", "a#", "a:*", "a#b:*", ""}
var refRelRaw = []string{"", "b", "m", "b#c", "*", "b:*"}

func genRelRefs(r *rand.Rand, raw bool) relRefList {
	switch r.IntN(6) {
	case 0:
		return relRefList{isNil: true}
	case 1:
		return relRefList{}
	}
	n := 1 + r.IntN(3)
	l := relRefList{items: make([]relRef, n)}
	for i := range l.items {
		ref := relRef{kind: "rw-"[r.IntN(3)]}
		if raw {
			ref.typ = pick(r, refTypeRaw)
		} else {
			ref.typ = pick(r, refTypeValid)
		}
		if ref.kind == 'r' {
			if raw {
				ref.rel = pick(r, refRelRaw)
			} else {
				ref.rel = pick(r, refRelValid)
			}
		}
		l.items[i] = ref
	}
	return l
}

func genRut(r *rand.Rand, raw bool) rutIn {
	return rutIn{store: pick(r, smallAlpha), object: pick(r, smallAlpha), relation: pick(r, smallAlpha), refs: genRelRefs(r, raw), conds: genStrList(r, condAlpha)}
}

var ufObjAlpha = []string{"u:1", "g:1", "g:1#m", "u:*", "", "c", "1"}
var ufRelAlpha = []string{"", "", "m", "n"}
var oidAlpha = []string{"1", "2", "", "c", "\x04\x011", "u:1"}

func genRswu(r *rand.Rand) rswuIn {
	in := rswuIn{store: pick(r, smallAlpha), objectType: pick(r, smallAlpha), relation: pick(r, smallAlpha), conds: genStrList(r, append([]string{"1", "u:1"}, condAlpha...))}
	switch r.IntN(6) {
	case 0:
		in.users.isNil = true
	case 1:
	default:
		n := 1 + r.IntN(3)
		for i := 0; i < n; i++ {
			in.users.items = append(in.users.items, objRel{pick(r, ufObjAlpha), pick(r, ufRelAlpha)})
		}
	}
	switch r.IntN(5) {
	case 0:
		in.oids.isNil = true
	case 1:
	default:
		seen := map[string]bool{}
		for i, n := 0, 1+r.IntN(3); i < n; i++ {
			id := pick(r, oidAlpha)
			if !seen[id] {
				seen[id] = true
				in.oids.ids = append(in.oids.ids, id)
			}
		}
	}
	return in
}

var simpleKinds = []string{"cc", "iq", "iq-or", "iq-uot"}

// field alphabet that includes the literal kind markers "OR" / "UOT" used inside the IQ keys
var simpleAlpha = []string{"", "a", "b", "ab", "OR", "UOT", "IQ", "\x04\x02OR", "a\x04\x01b"}

func genSimple(r *rand.Rand) simpleIn {
	k := pick(r, simpleKinds)
	in := simpleIn{k: k, fields: make([]string, simpleArity(k))}
	for i := range in.fields {
		in.fields[i] = pick(r, simpleAlpha)
	}
	return in
}

var edgeTypeAlpha = []int64{0, 1, 2, 3, 4, 5, 0x0104, -1}

func genEdgeLiteral(r *rand.Rand) edgeIn {
	return edgeIn{store: pick(r, smallAlpha), model: pick(r, smallAlpha), object: pick(r, smallAlpha), user: pick(r, smallAlpha),
		reqRelation: pick(r, smallAlpha), relDef: pick(r, smallAlpha), toLabel: pick(r, smallAlpha), tupleset: pick(r, smallAlpha),
		edgeType: pick(r, edgeTypeAlpha)}
}

// Inputs accepted by check.NewRequest on edgeModelDSL (see check.go): object ids / user ids may be
// arbitrary bytes in contextual tuples; the request tuple must be a valid user.
var edgeCtxObj = []string{"doc:1", "doc:2", "doc:1\x04\x06viewer", "doc:"}
var edgeCtxUser = []string{"user:1", "user:2", "user:1\x04\x01c", "user:"}
var edgeReqObj = []string{"doc:1", "doc:2", "doc:1\x04\x06user:1", "folder:1"}
var edgeReqUser = []string{"user:1", "user:2", "user:*", "group:1#member"}
var edgeModels = []string{"M1", "M2", "M1\x04\x05doc:1"}
var edgeStores = []string{"S1", "S2", "S1\x04\x02M1"}

func genEdgeCtxTuple(r *rand.Rand) tup {
	t := tup{o: pick(r, edgeCtxObj), r: "viewer", u: pick(r, edgeCtxUser)}
	switch r.IntN(4) {
	case 0:
		t.cond = &condv{name: "c1", ctx: genSmallCtx(r)}
	case 1:
		t.cond = &condv{name: "c2", ctx: genSmallCtx(r)}
	}
	return t
}

func genEdgeNew(r *rand.Rand) edgeIn {
	in := edgeIn{viaNewRequest: true, store: pick(r, edgeStores), model: pick(r, edgeModels),
		object: pick(r, edgeReqObj), user: pick(r, edgeReqUser), reqRelation: "viewer",
		relDef: pick(r, []string{"doc#viewer", "doc#editor", "folder#viewer"}), toLabel: pick(r, []string{"user", "user:*", "group#member", "doc#editor"}),
		tupleset: pick(r, []string{"", "doc#parent"}), edgeType: int64(r.IntN(4)), ctx: genSmallCtx(r)}
	if in.object == "folder:1" {
		in.reqRelation = "viewer"
	}
	n := r.IntN(3)
	for i := 0; i < n; i++ {
		in.tuples = append(in.tuples, genEdgeCtxTuple(r))
	}
	return in
}

// ---------- directed near-miss engine over vectors of string fields ----------

func uvarint(n int) string { return string(binary.AppendUvarint(nil, uint64(n))) }

// tlv is what keys.Builder.EncodeString is documented to emit (tagString, uvarint length, bytes);
// used only to BUILD hostile field contents.
func tlv(s string) string { return "\x04" + uvarint(len(s)) + s }

// nearMisses returns field vectors derived from base that a sloppy encoding would confuse with it
// or with each other.
func nearMisses(base []string) [][]string {
	var out [][]string
	cp := func() []string { return append([]string(nil), base...) }
	out = append(out, cp())
	n := len(base)
	for i := 0; i < n; i++ {
		for _, f := range []func(string) string{
			func(string) string { return "" },
			func(s string) string { return s + "\x00" },
			func(s string) string { return "\x00" + s },
			func(s string) string { return s + "\x04\x00" },
			func(s string) string { return tlv(s) },
			func(s string) string { return uvarint(len(s)) + s },
			func(s string) string { return s + s },
		} {
			v := cp()
			v[i] = f(base[i])
			out = append(out, v)
		}
	}
	for i := 0; i+1 < n; i++ {
		a, b := base[i], base[i+1]
		pairs := [][2]string{
			{a + b, ""}, {"", a + b}, {b, a},
			{a + tlv(b), ""}, {"", tlv(a) + b}, {a + uvarint(len(b)) + b, ""},
			{a + "\x00" + b, ""}, {a + "#" + b, ""}, {a + ":" + b, ""}, {a + "|" + b, ""},
		}
		if len(b) > 0 {
			pairs = append(pairs, [2]string{a + b[:1], b[1:]})
		}
		if len(a) > 0 {
			pairs = append(pairs, [2]string{a[:len(a)-1], a[len(a)-1:] + b})
		}
		for _, p := range pairs {
			v := cp()
			v[i], v[i+1] = p[0], p[1]
			out = append(out, v)
		}
	}
	// rotate all fields
	if n > 2 {
		v := append(cp()[1:], base[0])
		out = append(out, v)
	}
	return out
}

var fieldBases = [][]string{
	{"ab", "cd", "ef", "gh", "ij", "kl", "mn"},
	{"a", "", "b", "", "c", "", "d"},
	{"", "", "", "", "", "", ""},
	{"\x04\x01a", "a", "\x04", "\x01", "a", "\x00", "\x0b"},
	{"x", "x", "x", "x", "x", "x", "x"},
	{"doc:1", "viewer", "user:1", "doc:1#viewer", "user:*", "c1", "M"},
}

// ---------- directed value zoo ----------

func valueZoo() []val {
	deep := vNum(1)
	deepL := vNum(1)
	for i := 0; i < 40; i++ {
		deep = vMap(fld("a", deep))
		deepL = vList(deepL)
	}
	z := []val{
		vUnset(), vNull(), vBool(false), vBool(true), vNum(0), vNum(math.Copysign(0, -1)), vNum(1), vNum(2),
		vNum(math.NaN()), vNum(math.Float64frombits(0x7ff8000000000002)), vNum(math.Inf(1)), vNum(math.Inf(-1)),
		vNum(9007199254740992), vNum(1e300), vNum(5e-324), vNum(4), vNum(math.Float64frombits(0x0404040404040404)),
		vStr(""), vStr("0"), vStr("1"), vStr("false"), vStr("true"), vStr("null"), vStr("\x00"), vStr("\x0b"), vStr("\xff"), vStr("\xc0\x80"),
		vStr("\x04\x01a"), vStr("a"), vStr("a\x04\x01b"), vStr("[]"), vStr("{}"),
		{k: 'l'}, {k: 'm'}, vList(), vMap(),
		vList(vNull()), vList(vUnset()), vList(vNilPtr()), vList(vList()), vList(vMap()), vList(vBool(false)), vList(vNum(0)), vList(vStr("")),
		vList(vNum(1), vNum(2)), vList(vNum(2), vNum(1)), vList(vNum(1)), vList(vStr("1")), vList(vNum(1), vNum(1)),
		vList(vList(vNum(1)), vList(vNum(2))), vList(vList(vNum(1), vNum(2))), vList(vList(vNum(1), vNum(2)), vList()), vList(vList(), vList(vNum(1), vNum(2))),
		vList(vNum(1), vList(vNum(2))), vList(vList(vNum(1)), vNum(2)),
		vMap(fld("", vNull())), vMap(fld("a", vNum(1))), vMap(fld("a", vStr("1"))), vMap(fld("a", vNull())), vMap(fld("a", vUnset())), vMap(fld("a", vNilPtr())),
		vMap(fld("a", vNum(1)), fld("b", vNum(2))), vMap(fld("b", vNum(2)), fld("a", vNum(1))), vMap(fld("a", vNum(2)), fld("b", vNum(1))),
		vList(vStr("a"), vNum(1), vStr("b"), vNum(2)), vList(vList(vStr("a"), vNum(1)), vList(vStr("b"), vNum(2))), vList(vMap(fld("a", vNum(1))), vMap(fld("b", vNum(2)))),
		vMap(fld("a", vMap(fld("b", vNum(1))))), vMap(fld("a.b", vNum(1))), vMap(fld("a", vList(vStr("b"), vNum(1)))), vMap(fld("a", vMap()), fld("b", vNum(1))),
		vMap(fld("a", vStr("x")), fld("b", vStr("y"))), vMap(fld("a", vStr("x"+tlv("b")+tlv("y")))), vMap(fld("a"+tlv("x")+tlv("b"), vStr("y"))),
		vMap(fld("a", vList(vNum(1))), fld("b", vNum(2))), vMap(fld("a", vList(vNum(1), vStr("b"), vNum(2)))),
		deep, deepL,
	}
	return z
}

// permutations of 0..n-1 (n <= 4)
func perms(n int) [][]int {
	if n == 0 {
		return [][]int{{}}
	}
	var out [][]int
	for _, p := range perms(n - 1) {
		for i := 0; i <= len(p); i++ {
			q := append(append(append([]int{}, p[:i]...), n-1), p[i:]...)
			out = append(out, q)
		}
	}
	return out
}
