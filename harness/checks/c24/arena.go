package c24

import (
	"crypto/sha256"
	"encoding/hex"
	"fmt"
	"reflect"

	"github.com/openfga/openfga/verifharness/vk"
)

type h128 [16]byte

func hsum(s string) h128 {
	x := sha256.Sum256([]byte(s))
	var h h128
	copy(h[:], x[:16])
	return h
}

// rec remembers the first input seen with a given encoding / strict form. The input itself is
// re-materialised on demand (src) so that the maps stay small.
type rec struct {
	enc    h128
	strict h128
	loose  h128
	exact  h128 // hash of describe(): identical inputs have identical exact forms
	src    func() input
}

type arenaStats struct {
	inputs, encHits, encHitsNontrivial, strictHits, strictHitsNontrivial, unjudgedSameEnc, unjudgedDiffEnc int
	digestCollisions                                                                                 int
}

// arena implements the pairwise oracle over everything added to it:
//
//	(a) same strict form  => same encoding          (else violation "<kind>-unstable")
//	(b) same encoding     => same loose form        (else violation "<kind>-collision")
//	    same encoding + same digest is expected; same digest + different encoding is a DIGEST
//	    collision: counted, never a violation.
type arena struct {
	c        *vk.Ctx
	obs      *observer
	kind     string
	byEnc    map[h128]*rec
	byStrict map[h128]*rec
	byDigest map[string]h128 // digest bytes -> hash of the pre-hash bytes that produced it
	loose    map[h128]struct{}
	stats    arenaStats
	global   *globalKeys
}

// globalKeys detects equal full keys across different key kinds (they share one cache).
type globalKeys struct {
	byKey map[h128]globalRec
}
type globalRec struct {
	kind string
	src  func() input
}

func newArena(c *vk.Ctx, obs *observer, kind string, g *globalKeys) *arena {
	return &arena{c: c, obs: obs, kind: kind, byEnc: map[h128]*rec{}, byStrict: map[h128]*rec{},
		byDigest: map[string]h128{}, loose: map[h128]struct{}{}, global: g}
}

func hexs(s string) string { return hex.EncodeToString([]byte(s)) }

func witness(a, b input, oa, ob observation) map[string]any {
	return map[string]any{
		"input_A": a.describe(), "input_B": b.describe(),
		"encoding_A_hex": hexs(oa.enc), "encoding_B_hex": hexs(ob.enc),
		"key_A_hex": hexs(oa.key), "key_B_hex": hexs(ob.key),
		"strict_A": a.canon(strictMode), "strict_B": b.canon(strictMode),
		"loose_A": a.canon(looseMode), "loose_B": b.canon(looseMode),
	}
}

// add runs the real key function on in (twice, on independently built protobuf inputs) and checks
// it against everything added before. family labels the producer for the case signature.
func (ar *arena) add(family string, in input, src func() input) {
	o1, ok := in.observe(ar.obs)
	if !ok {
		ar.flushObsErrors()
		return
	}
	o2, ok := in.observe(ar.obs)
	if !ok {
		ar.flushObsErrors()
		return
	}
	ar.stats.inputs++
	if o1.enc != o2.enc || o1.key != o2.key {
		ar.c.Violation("C24-"+ar.kind+"-nondeterministic", "nondet|"+ar.kind+"|"+in.shape(),
			"the same input encoded twice gives two different encodings (map iteration order or other hidden state leaks into the key): "+in.describe(),
			map[string]any{"input": in.describe(), "encoding_1_hex": hexs(o1.enc), "encoding_2_hex": hexs(o2.enc)})
	}
	strict, loose := in.canon(strictMode), in.canon(looseMode)
	r := &rec{enc: hsum(o1.enc), strict: hsum(strict), loose: hsum(loose), exact: hsum(in.describe()), src: src}
	ar.loose[r.loose] = struct{}{}
	nontrivial := false

	// direction (b): equal encodings must have equal loose forms
	if prev, ok := ar.byEnc[r.enc]; ok {
		ar.stats.encHits++
		switch {
		case prev.loose != r.loose:
			ar.reportCollision(prev.src(), in, o1)
		case prev.strict != r.strict:
			ar.stats.encHitsNontrivial++ // e.g. permuted list, nil vs empty: equal key, consistent
			nontrivial = true
		}
	} else {
		ar.byEnc[r.enc] = r
	}

	// direction (a): equal strict forms must have equal encodings
	if prev, ok := ar.byStrict[r.strict]; ok {
		ar.stats.strictHits++
		if prev.loose != r.loose {
			ar.c.HarnessError("oracle inconsistency: equal strict forms with different loose forms: %s vs %s", prev.src().describe(), in.describe())
		}
		if prev.enc != r.enc {
			ar.reportUnstable(prev.src(), in, o1)
		} else if prev.exact != r.exact {
			ar.stats.strictHitsNontrivial++ // a genuinely reordered input gave the same encoding
			nontrivial = true
		}
	} else {
		ar.byStrict[r.strict] = r
	}

	// digests: equal digest produced from different pre-hash bytes is a digest collision (counted only)
	if o1.digest != "" {
		ph := hsum(o1.pre)
		if prevEnc, ok := ar.byDigest[o1.digest]; ok {
			if prevEnc != ph {
				ar.stats.digestCollisions++
				ar.c.Count("digest_collisions_different_encoding", 1)
			}
		} else {
			ar.byDigest[o1.digest] = ph
		}
	}

	// cross-kind: the same full key must not be produced by two different key kinds
	if ar.global != nil {
		kh := hsum(o1.key)
		if g, ok := ar.global.byKey[kh]; ok {
			if g.kind != ar.kind {
				other := g.src()
				ar.c.Violation("C24-crosskind-collision", "cross|"+g.kind+"|"+ar.kind,
					fmt.Sprintf("two different key kinds produce the same cache key bytes: %s and %s", other.describe(), in.describe()),
					map[string]any{"input_A": other.describe(), "input_B": in.describe(), "key_hex": hexs(o1.key)})
			}
		} else {
			ar.global.byKey[kh] = globalRec{kind: ar.kind, src: src}
		}
	}
	ar.c.Case(family+" | "+in.shape(), true)
	_ = nontrivial
}

func (ar *arena) flushObsErrors() {
	for _, e := range ar.obs.errs {
		ar.c.HarnessError("%s", e)
	}
	ar.obs.errs = nil
}

func (ar *arena) reportCollision(a, b input, ob observation) {
	oa, _ := a.observe(ar.obs)
	id := "C24-" + ar.kind + "-collision"
	what := "two inputs with different answer-relevant content have the SAME pre-digest encoding"
	if ra, ok := a.(rutIn); ok {
		rb := b.(rutIn)
		// classification only: is the collision explained by the string join of type/relation and
		// does it need a type or relation name containing '#' or ':' (which no valid model has)?
		if (ra.malformed() || rb.malformed()) && joinRendering(ra.refs) == joinRendering(rb.refs) &&
			sameExceptRefs(ra, rb) {
			id = "C24-rut-relref-join"
			what += " because RelationReference is rendered as the joined string type+\"#\"+relation / type+\":*\" / type (reachable only with a type or relation name containing '#' or ':')"
		}
	}
	key := id + "|" + a.shape() + "|" + b.shape()
	if id == "C24-rut-relref-join" {
		key = id + "|" + joinRendering(a.(rutIn).refs) // one report per ambiguous rendering
	}
	ar.c.Violation(id, key, what+": "+a.describe()+"  vs  "+b.describe(), witness(a, b, oa, ob))
}

func sameExceptRefs(a, b rutIn) bool {
	a.refs, b.refs = relRefList{}, relRefList{}
	return a.canon(looseMode) == b.canon(looseMode)
}

func tuplesOf(in input) ([]tup, bool) {
	switch x := in.(type) {
	case invIn:
		return x.tuples, true
	case batchIn:
		return x.tuples, true
	case edgeIn:
		return x.tuples, true
	}
	return nil, false
}

func (ar *arena) reportUnstable(a, b input, ob observation) {
	oa, _ := a.observe(ar.obs)
	id := "C24-" + ar.kind + "-unstable"
	what := "two inputs that differ only by the order of list entries / map fields have DIFFERENT encodings"
	if ta, ok := tuplesOf(a); ok {
		tb, _ := tuplesOf(b)
		// classification only: if a stable sort by the documented key (object, relation, user,
		// condition name) does not bring the two lists into the same sequence, the difference is
		// among tuples that tie on that key (TupleKeys.Less ignores the condition context and
		// returns true for equal elements).
		if !reflect.DeepEqual(stableByTieKey(ta), stableByTieKey(tb)) {
			id = "C24-invariant-tiebreak-order"
			what = "reordering contextual tuples that tie on (object, relation, user, condition name) but differ in condition context (or nil condition vs empty-named condition) changes the key: tuple.TupleKeys.Less does not order by context and is not a strict order"
		}
	}
	key := id + "|" + a.shape() + "|" + b.shape()
	if id == "C24-invariant-tiebreak-order" {
		key = id + "|" + ar.kind + "|" + fmt.Sprint(len(stableByTieKey(tuplesOfOrNil(a))))
	}
	ar.c.Violation(id, key, what+": "+a.describe()+"  vs  "+b.describe(), witness(a, b, oa, ob))
}

func tuplesOfOrNil(in input) []tup { t, _ := tuplesOf(in); return t }

func (ar *arena) report() {
	p := ar.kind + "."
	ar.c.Count(p+"inputs", ar.stats.inputs)
	ar.c.Count(p+"distinct_strict_forms", len(ar.byStrict))
	ar.c.Count(p+"distinct_encodings", len(ar.byEnc))
	ar.c.Count(p+"distinct_loose_forms", len(ar.loose))
	ar.c.Count(p+"equal_encoding_pairs_checked", ar.stats.encHits)
	ar.c.Count(p+"equal_encoding_pairs_with_different_strict_form", ar.stats.encHitsNontrivial)
	ar.c.Count(p+"equal_strict_pairs_checked", ar.stats.strictHits)
	ar.c.Count(p+"equal_strict_pairs_genuinely_reordered", ar.stats.strictHitsNontrivial)
	ar.c.Count(p+"digest_collisions", ar.stats.digestCollisions)
}

// reset drops the pair memory (thorough tier runs several independent rounds).
func (ar *arena) reset() {
	ar.report()
	ar.byEnc, ar.byStrict, ar.byDigest, ar.loose = map[h128]*rec{}, map[h128]*rec{}, map[string]h128{}, map[h128]struct{}{}
	ar.stats = arenaStats{}
}
