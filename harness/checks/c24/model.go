// Package c24 decides property C24 "Cache keys distinguish every answer-relevant input".
//
// model.go: the harness' OWN representation of key inputs (plain Go trees, no protobuf, no
// keys.Builder) and their two canonical semantic forms:
//
//	strict: the finest form. Two inputs have the same strict form only if they differ by nothing
//	        but things the documentation/property statement promises not to matter: order of
//	        context (map) fields, order of contextual tuples, order of filter-list entries.
//	        Oracle direction (a): equal strict forms  =>  equal encodings.
//	loose:  the coarsest defensible form. Two inputs have different loose forms only if some
//	        datastore / evaluator could answer differently for them. Everything that is unclear
//	        (nil vs empty context, duplicated list entries, NaN payloads, a condition with an empty
//	        name vs no condition, nil vs empty ObjectIDs, ObjectRelation{Object:"g:1#m"} vs
//	        {Object:"g:1",Relation:"m"} which every datastore renders identically) is identified.
//	        Oracle direction (b): different loose forms  =>  different encodings.
//
// Between the two nothing is judged.
package c24

import (
	"fmt"
	"math"
	"sort"
	"strconv"
	"strings"
)

// ---------- injective canonical writer (decimal length prefixes, explicit list framing) ----------

type cw struct{ b []byte }

func (w *cw) atom(tag byte, s string) {
	w.b = append(w.b, tag)
	w.b = strconv.AppendInt(w.b, int64(len(s)), 10)
	w.b = append(w.b, ':')
	w.b = append(w.b, s...)
}
func (w *cw) open(tag byte, n int) {
	w.b = append(w.b, tag)
	w.b = strconv.AppendInt(w.b, int64(n), 10)
	w.b = append(w.b, '[')
}
func (w *cw) close()         { w.b = append(w.b, ']') }
func (w *cw) raw(s string)   { w.b = append(w.b, s...) }
func (w *cw) String() string { return string(w.b) }

// sortedList writes items (each already canonical) as a sorted list; dedupe turns it into a set.
func (w *cw) sortedList(tag byte, items []string, dedupe bool) {
	s := append([]string(nil), items...)
	sort.Strings(s)
	if dedupe {
		out := s[:0]
		for i, x := range s {
			if i == 0 || x != s[i-1] {
				out = append(out, x)
			}
		}
		s = out
	}
	w.open(tag, len(s))
	for _, x := range s {
		w.atom('e', x)
	}
	w.close()
}

// ---------- values ----------

// val is a structpb.Value-shaped tree.
// k: 'U' Value with no kind set; 'P' nil *Value pointer (only inside containers); 'N' null;
// 'B' bool; 'F' number; 'S' string; 'L' list; 'M' struct; 'l' ListValue kind with nil *ListValue;
// 'm' StructValue kind with nil *Struct.
type val struct {
	k byte
	b bool
	f float64
	s string
	l []val
	m []field
}

type field struct {
	key string
	v   val
}

func vNull() val            { return val{k: 'N'} }
func vUnset() val           { return val{k: 'U'} }
func vNilPtr() val          { return val{k: 'P'} }
func vBool(b bool) val      { return val{k: 'B', b: b} }
func vNum(f float64) val    { return val{k: 'F', f: f} }
func vStr(s string) val     { return val{k: 'S', s: s} }
func vList(l ...val) val    { return val{k: 'L', l: l} }
func vMap(m ...field) val   { return val{k: 'M', m: m} }
func fld(k string, v val) field { return field{k, v} }

type canonMode int

const (
	strictMode canonMode = iota
	looseMode
)

func canonVal(w *cw, v val, mode canonMode) {
	switch v.k {
	case 'U', 'P':
		// A nil *Value and a Value without a kind are both "no kind selected" in protobuf terms.
		if mode == strictMode {
			w.atom(v.k, "")
		} else {
			w.atom('U', "")
		}
	case 'N':
		w.atom('N', "")
	case 'B':
		if v.b {
			w.atom('B', "1")
		} else {
			w.atom('B', "0")
		}
	case 'F':
		bits := math.Float64bits(v.f)
		if mode == looseMode && v.f != v.f {
			bits = 0x7ff8000000000001 // all NaN payloads are indistinguishable to an evaluator
		}
		w.atom('F', strconv.FormatUint(bits, 16))
	case 'S':
		w.atom('S', v.s)
	case 'L', 'l':
		tag := byte('L')
		if mode == strictMode {
			tag = v.k
		}
		w.open(tag, len(v.l))
		for _, e := range v.l {
			canonVal(w, e, mode)
		}
		w.close()
	case 'M', 'm':
		tag := byte('M')
		if mode == strictMode {
			tag = v.k
		}
		canonFields(w, tag, v.m, mode)
	default:
		panic("c24: bad val kind")
	}
}

// canonFields writes a map: entries sorted by key (keys are unique by construction).
func canonFields(w *cw, tag byte, m []field, mode canonMode) {
	idx := make([]int, len(m))
	for i := range idx {
		idx[i] = i
	}
	sort.Slice(idx, func(a, b int) bool { return m[idx[a]].key < m[idx[b]].key })
	w.open(tag, len(m))
	for _, i := range idx {
		w.atom('k', m[i].key)
		canonVal(w, m[i].v, mode)
	}
	w.close()
}

// ctxv is a *structpb.Struct-shaped request/condition context.
type ctxv struct {
	isNil  bool
	fields []field
}

func canonCtx(w *cw, c ctxv, mode canonMode) {
	tag := byte('M')
	if mode == strictMode && c.isNil {
		tag = 'n'
	}
	canonFields(w, tag, c.fields, mode)
}

// ---------- tuples ----------

type condv struct {
	name string
	ctx  ctxv
}

type tup struct {
	o, r, u string
	cond    *condv
}

func canonTuple(t tup, mode canonMode) string {
	var w cw
	w.atom('o', t.o)
	w.atom('r', t.r)
	w.atom('u', t.u)
	switch {
	case t.cond == nil:
		w.atom('c', "none")
	case mode == looseMode && t.cond.name == "":
		// A RelationshipCondition with an empty name is treated as "no condition" by validation and
		// evaluation; whether its context matters is undocumented => identified with "none".
		w.atom('c', "none")
	default:
		w.atom('C', t.cond.name)
		canonCtx(&w, t.cond.ctx, mode)
	}
	return w.String()
}

func canonTuples(w *cw, ts []tup, mode canonMode) {
	items := make([]string, len(ts))
	for i, t := range ts {
		items[i] = canonTuple(t, mode)
	}
	w.sortedList('T', items, mode == looseMode)
}

// tieKey is the documented sort key of tuple.TupleKeys (object, relation, user, condition name).
func tieKey(t tup) string {
	var w cw
	w.atom('o', t.o)
	w.atom('r', t.r)
	w.atom('u', t.u)
	if t.cond != nil {
		w.atom('n', t.cond.name)
	} else {
		w.atom('n', "")
	}
	return w.String()
}

// stableByTieKey returns the strict forms of ts after a STABLE sort by the documented key.
func stableByTieKey(ts []tup) []string {
	c := append([]tup(nil), ts...)
	sort.SliceStable(c, func(i, j int) bool { return tieKey(c[i]) < tieKey(c[j]) })
	out := make([]string, len(c))
	for i, t := range c {
		out[i] = canonTuple(t, strictMode)
	}
	return out
}

// ---------- filters ----------

type strList struct {
	isNil bool
	items []string
}

func canonStrList(w *cw, tag byte, l strList, mode canonMode) {
	if mode == strictMode && l.isNil {
		w.atom(tag, "nil")
		return
	}
	items := make([]string, len(l.items))
	for i, s := range l.items {
		var x cw
		x.atom('s', s)
		items[i] = x.String()
	}
	w.sortedList(tag, items, mode == looseMode)
}

type objRel struct{ object, relation string }

type objRelList struct {
	isNil bool
	items []objRel
}

func renderObjRel(o objRel) string {
	// All four datastores look for the user string object[#relation]; callers put whole usersets
	// ("group:1#member") into Object with an empty Relation (internal/checkutil.userFilter).
	if o.relation != "" {
		return o.object + "#" + o.relation
	}
	return o.object
}

func canonObjRels(w *cw, l objRelList, mode canonMode) {
	if mode == strictMode && l.isNil {
		w.atom('F', "nil")
		return
	}
	items := make([]string, len(l.items))
	for i, o := range l.items {
		var x cw
		if mode == strictMode {
			x.atom('o', o.object)
			x.atom('r', o.relation)
		} else {
			x.atom('s', renderObjRel(o))
		}
		items[i] = x.String()
	}
	w.sortedList('F', items, mode == looseMode)
}

// relRef mirrors openfgav1.RelationReference: kind 'r' relation, 'w' wildcard, '-' neither.
type relRef struct {
	typ  string
	kind byte
	rel  string
}

type relRefList struct {
	isNil bool
	items []relRef
}

func canonRelRefs(w *cw, l relRefList, mode canonMode) {
	if mode == strictMode && l.isNil {
		w.atom('R', "nil")
		return
	}
	items := make([]string, len(l.items))
	for i, r := range l.items {
		var x cw
		x.atom('t', r.typ)
		x.atom('k', string(r.kind))
		if r.kind == 'r' {
			x.atom('r', r.rel)
		}
		items[i] = x.String()
	}
	w.sortedList('R', items, mode == looseMode)
}

// joinRendering is used ONLY to classify an already established collision between two relation
// reference lists as "caused by the type#relation / type:* string join" (finding
// C24-rut-relref-join); it never decides whether something is a violation.
func joinRendering(l relRefList) string {
	items := make([]string, len(l.items))
	for i, r := range l.items {
		switch r.kind {
		case 'r':
			items[i] = r.typ + "#" + r.rel
		case 'w':
			items[i] = r.typ + ":*"
		default:
			items[i] = r.typ
		}
	}
	var w cw
	var enc []string
	for _, s := range items {
		var x cw
		x.atom('s', s)
		enc = append(enc, x.String())
	}
	w.sortedList('J', enc, true)
	return w.String()
}

func nameIsMalformed(s string) bool { return strings.ContainsAny(s, "#:") }

type oidSet struct {
	isNil bool
	ids   []string // unique
}

func canonOIDs(w *cw, s oidSet, mode canonMode) {
	if s.isNil && mode == strictMode {
		w.atom('O', "nil")
		return
	}
	// loose: nil and empty are identified here; the nil-vs-empty question is decided separately by
	// observing the real memory datastore's answers (see differential.go).
	items := make([]string, len(s.ids))
	for i, id := range s.ids {
		var x cw
		x.atom('s', id)
		items[i] = x.String()
	}
	w.sortedList('O', items, true)
}

// ---------- describing inputs for witnesses ----------

func descVal(v val) string {
	switch v.k {
	case 'U':
		return "Value{}"
	case 'P':
		return "(*Value)(nil)"
	case 'N':
		return "null"
	case 'B':
		return strconv.FormatBool(v.b)
	case 'F':
		return fmt.Sprintf("num(%v;0x%016x)", v.f, math.Float64bits(v.f))
	case 'S':
		return strconv.Quote(v.s)
	case 'L', 'l':
		parts := make([]string, len(v.l))
		for i, e := range v.l {
			parts[i] = descVal(e)
		}
		if v.k == 'l' {
			return "List(nil)"
		}
		return "[" + strings.Join(parts, ", ") + "]"
	case 'M', 'm':
		if v.k == 'm' {
			return "Struct(nil)"
		}
		return descFields(v.m)
	}
	return "?"
}

func descFields(m []field) string {
	parts := make([]string, len(m))
	for i, f := range m {
		parts[i] = strconv.Quote(f.key) + ": " + descVal(f.v)
	}
	return "{" + strings.Join(parts, ", ") + "}"
}

func descCtx(c ctxv) string {
	if c.isNil {
		return "nil"
	}
	return descFields(c.fields)
}

func descTuple(t tup) string {
	s := fmt.Sprintf("(%q, %q, %q", t.o, t.r, t.u)
	if t.cond != nil {
		s += fmt.Sprintf(", cond{name:%q, ctx:%s}", t.cond.name, descCtx(t.cond.ctx))
	}
	return s + ")"
}

func descTuples(ts []tup) string {
	parts := make([]string, len(ts))
	for i, t := range ts {
		parts[i] = descTuple(t)
	}
	return "[" + strings.Join(parts, ", ") + "]"
}

func descStrList(l strList) string {
	if l.isNil {
		return "nil"
	}
	return fmt.Sprintf("%q", l.items)
}

// ---------- shape helpers (for case signatures) ----------

type shapeAcc struct {
	kinds    map[byte]bool
	maxDepth int
	special  map[string]bool
}

func newShape() *shapeAcc {
	return &shapeAcc{kinds: map[byte]bool{}, special: map[string]bool{}}
}

func (a *shapeAcc) str(s string) {
	for i := 0; i < len(s); i++ {
		c := s[i]
		switch {
		case c <= 0x0b:
			a.special["tag"] = true
		case c == '#' || c == ':':
			a.special["sep"] = true
		case c >= 0x80:
			a.special["hi"] = true
		}
	}
	if s == "" {
		a.special["empty"] = true
	}
}

func (a *shapeAcc) val(v val, d int) {
	a.kinds[v.k] = true
	if d > a.maxDepth {
		a.maxDepth = d
	}
	switch v.k {
	case 'S':
		a.str(v.s)
	case 'F':
		if v.f != v.f {
			a.special["nan"] = true
		}
		if v.f == 0 && math.Signbit(v.f) {
			a.special["-0"] = true
		}
	case 'L':
		for _, e := range v.l {
			a.val(e, d+1)
		}
	case 'M':
		for _, f := range v.m {
			a.str(f.key)
			a.val(f.v, d+1)
		}
	}
}

func (a *shapeAcc) ctx(c ctxv) {
	for _, f := range c.fields {
		a.str(f.key)
		a.val(f.v, 1)
	}
}

func (a *shapeAcc) String() string {
	var ks []string
	for k := range a.kinds {
		ks = append(ks, string(k))
	}
	sort.Strings(ks)
	var sp []string
	for k := range a.special {
		sp = append(sp, k)
	}
	sort.Strings(sp)
	d := a.maxDepth
	if d > 4 {
		d = 4
	}
	return fmt.Sprintf("v=%s d=%d sp=%s", strings.Join(ks, ""), d, strings.Join(sp, ","))
}
