package c24

import (
	"encoding/binary"
	"errors"
	"fmt"
	"github.com/openfga/openfga/pkg/tuple"
	"strings"
	"sync/atomic"

	"github.com/cespare/xxhash/v2"
	openfgav1 "github.com/openfga/api/proto/openfga/v1"
	authzGraph "github.com/openfga/language/pkg/go/graph"
	"google.golang.org/protobuf/types/known/structpb"

	"github.com/openfga/openfga/internal/check"
	"github.com/openfga/openfga/internal/modelgraph"
	"github.com/openfga/openfga/internal/verifhook"
	"github.com/openfga/openfga/pkg/storage"
	"github.com/openfga/openfga/pkg/storage/cache/keys"
)

// ---------- building the real protobuf inputs from the harness' trees ----------

func pbVal(v val) *structpb.Value {
	switch v.k {
	case 'U':
		return &structpb.Value{}
	case 'P':
		return nil
	case 'N':
		return structpb.NewNullValue()
	case 'B':
		return structpb.NewBoolValue(v.b)
	case 'F':
		return structpb.NewNumberValue(v.f)
	case 'S':
		return structpb.NewStringValue(v.s)
	case 'l':
		return &structpb.Value{Kind: &structpb.Value_ListValue{}}
	case 'm':
		return &structpb.Value{Kind: &structpb.Value_StructValue{}}
	case 'L':
		l := &structpb.ListValue{Values: make([]*structpb.Value, len(v.l))}
		for i, e := range v.l {
			l.Values[i] = pbVal(e)
		}
		return structpb.NewListValue(l)
	case 'M':
		return structpb.NewStructValue(pbFields(v.m))
	}
	panic("c24: bad val kind")
}

// pbFields inserts the fields in reverse order on odd sizes so that two builds of the same tree do
// not even share an insertion order (Go map iteration is randomised anyway).
func pbFields(m []field) *structpb.Struct {
	s := &structpb.Struct{Fields: make(map[string]*structpb.Value, len(m))}
	for i := len(m) - 1; i >= 0; i-- {
		s.Fields[m[i].key] = pbVal(m[i].v)
	}
	return s
}

func pbCtx(c ctxv) *structpb.Struct {
	if c.isNil {
		return nil
	}
	return pbFields(c.fields)
}

func pbTuple(t tup) *openfgav1.TupleKey {
	tk := &openfgav1.TupleKey{Object: t.o, Relation: t.r, User: t.u}
	if t.cond != nil {
		tk.Condition = &openfgav1.RelationshipCondition{Name: t.cond.name, Context: pbCtx(t.cond.ctx)}
	}
	return tk
}

func pbTuples(ts []tup) []*openfgav1.TupleKey {
	if ts == nil {
		return nil
	}
	out := make([]*openfgav1.TupleKey, len(ts))
	for i, t := range ts {
		out[i] = pbTuple(t)
	}
	return out
}

func goStrList(l strList) []string {
	if l.isNil {
		return nil
	}
	return append([]string{}, l.items...)
}

func pbObjRels(l objRelList) []*openfgav1.ObjectRelation {
	if l.isNil {
		return nil
	}
	out := make([]*openfgav1.ObjectRelation, len(l.items))
	for i, o := range l.items {
		out[i] = &openfgav1.ObjectRelation{Object: o.object, Relation: o.relation}
	}
	return out
}

func pbRelRefs(l relRefList) []*openfgav1.RelationReference {
	if l.isNil {
		return nil
	}
	out := make([]*openfgav1.RelationReference, len(l.items))
	for i, r := range l.items {
		ref := &openfgav1.RelationReference{Type: r.typ}
		switch r.kind {
		case 'r':
			ref.RelationOrWildcard = &openfgav1.RelationReference_Relation{Relation: r.rel}
		case 'w':
			ref.RelationOrWildcard = &openfgav1.RelationReference_Wildcard{Wildcard: &openfgav1.Wildcard{}}
		}
		out[i] = ref
	}
	return out
}

func goOIDs(s oidSet) storage.SortedSet {
	if s.isNil {
		return nil
	}
	return storage.NewSortedSet(s.ids...)
}

// ---------- observation of the real key functions ----------

// observation is what one real call produced.
type observation struct {
	enc    string // the full pre-digest encoding: clear part of the key (+ pre-hash bytes when hashed)
	key    string // keys.Key.Bytes() as returned (includes the 8 digest bytes for hashed kinds)
	digest string // 8 digest bytes, "" for clear-text kinds
	pre    string // pre-hash bytes reported by the hook, "" for clear-text kinds
}

type observer struct {
	gotKind []string
	gotPre  []string
	errs    []string
}

const fixedSeed = 0x5eed5eed5eed5eed

func newObserver() *observer {
	o := &observer{}
	keys.Seed = fixedSeed // documented as pinnable by tests; makes digests reproducible
	verifhook.SetSink(func(kind string, args []any) {
		if kind != "key.pre" || len(args) != 2 {
			return
		}
		k, _ := args[0].(string)
		p, _ := args[1].(string)
		o.gotKind = append(o.gotKind, k)
		o.gotPre = append(o.gotPre, p)
	})
	return o
}

func (o *observer) close() { verifhook.SetSink(nil) }

func (o *observer) reset() { o.gotKind = o.gotKind[:0]; o.gotPre = o.gotPre[:0] }

// one returns the single pre-hash event of the expected kind recorded since reset.
func (o *observer) one(kind string) (string, bool) {
	if len(o.gotKind) != 1 || o.gotKind[0] != kind {
		o.errs = append(o.errs, fmt.Sprintf("expected exactly one key.pre/%s event, got %v", kind, o.gotKind))
		return "", false
	}
	return o.gotPre[0], true
}

func lenPrefixed(parts ...string) string {
	var b []byte
	for _, p := range parts {
		b = binary.AppendUvarint(b, uint64(len(p)))
		b = append(b, p...)
	}
	return string(b)
}

// hashedObservation splits a returned key into clear part + digest, and checks that the digest is
// xxhash64(seed, pre) computed independently (i.e. the hook reported exactly the hashed bytes).
func (o *observer) hashedObservation(kind string, key []byte) (observation, bool) {
	pre, ok := o.one(kind)
	if !ok {
		return observation{}, false
	}
	if len(key) < 9 {
		o.errs = append(o.errs, fmt.Sprintf("%s: key shorter than a digest: %x", kind, key))
		return observation{}, false
	}
	digest := string(key[len(key)-8:])
	clear := string(key[:len(key)-8])
	d := xxhash.NewWithSeed(fixedSeed)
	_, _ = d.WriteString(pre)
	var want [8]byte
	binary.LittleEndian.PutUint64(want[:], d.Sum64())
	if string(want[:]) != digest {
		o.errs = append(o.errs, fmt.Sprintf("%s: trailing 8 key bytes %x are not xxhash64(pre-hash bytes) %x: hook does not report what is hashed", kind, digest, want))
		return observation{}, false
	}
	return observation{enc: lenPrefixed(clear, pre), key: string(key), digest: digest, pre: pre}, true
}

// ---------- the input kinds ----------

type input interface {
	kind() string
	canon(mode canonMode) string
	observe(o *observer) (observation, bool)
	describe() string
	shape() string
}

// --- check: storage.CheckCacheKey with an explicit invariant (clear text) ---

type checkIn struct {
	store, object, relation, user string
	inv                           uint64
}

func (in checkIn) kind() string { return "check" }
func (in checkIn) canon(canonMode) string {
	var w cw
	w.atom('s', in.store)
	w.atom('o', in.object)
	w.atom('r', in.relation)
	w.atom('u', in.user)
	w.atom('i', fmt.Sprint(in.inv))
	return w.String()
}
func (in checkIn) observe(o *observer) (observation, bool) {
	o.reset()
	k := storage.CheckCacheKey(in.store, in.object, in.relation, in.user, in.inv)
	b := string(k.Bytes())
	return observation{enc: b, key: b}, true
}
func (in checkIn) describe() string {
	return fmt.Sprintf("CheckCacheKey(store=%q, object=%q, relation=%q, user=%q, invariant=%#x)", in.store, in.object, in.relation, in.user, in.inv)
}
func (in checkIn) shape() string {
	a := newShape()
	for _, s := range []string{in.store, in.object, in.relation, in.user} {
		a.str(s)
	}
	return "check " + a.String()
}

// --- invariant: storage.InvariantCacheKey (hashed) ---

type invIn struct {
	store, model string
	tuples       []tup
	ctx          ctxv
}

func (in invIn) kind() string { return "invariant" }
func (in invIn) canon(mode canonMode) string {
	var w cw
	w.atom('s', in.store)
	w.atom('m', in.model)
	canonTuples(&w, in.tuples, mode)
	canonCtx(&w, in.ctx, mode)
	return w.String()
}
func (in invIn) observe(o *observer) (observation, bool) {
	o.reset()
	d := storage.InvariantCacheKey(in.store, in.model, pbCtx(in.ctx), pbTuples(in.tuples)...)
	var key [8]byte
	binary.LittleEndian.PutUint64(key[:], d)
	pre, ok := o.one("invariant")
	if !ok {
		return observation{}, false
	}
	h := xxhash.NewWithSeed(fixedSeed)
	_, _ = h.WriteString(pre)
	if h.Sum64() != d {
		o.errs = append(o.errs, "invariant: returned digest is not xxhash64(pre-hash bytes)")
		return observation{}, false
	}
	return observation{enc: pre, key: string(key[:]), digest: string(key[:]), pre: pre}, true
}
func (in invIn) describe() string {
	return fmt.Sprintf("InvariantCacheKey(store=%q, model=%q, ctx=%s, tuples=%s)", in.store, in.model, descCtx(in.ctx), descTuples(in.tuples))
}
func tuplesShape(a *shapeAcc, ts []tup) string {
	conds, ties := 0, 0
	seen := map[string]int{}
	for _, t := range ts {
		a.str(t.o)
		a.str(t.r)
		a.str(t.u)
		if t.cond != nil {
			conds++
			a.str(t.cond.name)
			a.ctx(t.cond.ctx)
		}
		seen[tieKey(t)]++
	}
	for _, n := range seen {
		if n > 1 {
			ties++
		}
	}
	return fmt.Sprintf("t=%d c=%d ties=%d", len(ts), conds, ties)
}
func (in invIn) shape() string {
	a := newShape()
	a.str(in.store)
	a.str(in.model)
	ts := tuplesShape(a, in.tuples)
	a.ctx(in.ctx)
	return fmt.Sprintf("invariant %s ctx=%d/%v %s", ts, len(in.ctx.fields), in.ctx.isNil, a)
}

// --- batch: the composition used by BatchCheck de-duplication and by check.NewRequest ---
// CheckCacheKey(store, object, relation, user, InvariantCacheKey(store, model, ctx, tuples...)).

type batchIn struct {
	invIn
	object, relation, user string
}

func (in batchIn) kind() string { return "batch" }
func (in batchIn) canon(mode canonMode) string {
	var w cw
	w.atom('o', in.object)
	w.atom('r', in.relation)
	w.atom('u', in.user)
	w.raw(in.invIn.canon(mode))
	return w.String()
}
func (in batchIn) observe(o *observer) (observation, bool) {
	o.reset()
	item := &openfgav1.BatchCheckItem{
		TupleKey:         &openfgav1.CheckRequestTupleKey{Object: in.object, Relation: in.relation, User: in.user},
		Context:          pbCtx(in.ctx),
		ContextualTuples: &openfgav1.ContextualTupleKeys{TupleKeys: pbTuples(in.tuples)},
	}
	// replica of commands.generateCacheKeyFromCheck (unexported):
	tk := item.GetTupleKey()
	k := storage.CheckCacheKey(in.store, tk.GetObject(), tk.GetRelation(), tk.GetUser(),
		storage.InvariantCacheKey(in.store, in.model, item.GetContext(), item.GetContextualTuples().GetTupleKeys()...))
	return o.hashedObservation("invariant", k.Bytes())
}
func (in batchIn) describe() string {
	return fmt.Sprintf("batchKey(object=%q, relation=%q, user=%q, %s)", in.object, in.relation, in.user, in.invIn.describe())
}
func (in batchIn) shape() string {
	a := newShape()
	a.str(in.object)
	a.str(in.relation)
	a.str(in.user)
	return "batch " + a.String() + " | " + in.invIn.shape()
}

// --- read: storage.ReadKey ---

type readIn struct {
	store, object, relation, user string
	conds                         strList
}

func (in readIn) kind() string { return "read" }
func (in readIn) canon(mode canonMode) string {
	var w cw
	w.atom('s', in.store)
	w.atom('o', in.object)
	w.atom('r', in.relation)
	w.atom('u', in.user)
	canonStrList(&w, 'C', in.conds, mode)
	return w.String()
}
func (in readIn) observe(o *observer) (observation, bool) {
	o.reset()
	k := storage.ReadKey(in.store, storage.ReadFilter{Object: in.object, Relation: in.relation, User: in.user, Conditions: goStrList(in.conds)})
	return o.hashedObservation("read", k.Bytes())
}
func (in readIn) describe() string {
	return fmt.Sprintf("ReadKey(store=%q, ReadFilter{Object:%q, Relation:%q, User:%q, Conditions:%s})", in.store, in.object, in.relation, in.user, descStrList(in.conds))
}
func listShape(name string, isNil bool, items []string) string {
	dup := false
	seen := map[string]bool{}
	for _, s := range items {
		if seen[s] {
			dup = true
		}
		seen[s] = true
	}
	return fmt.Sprintf("%s=%d/%v/%v", name, len(items), isNil, dup)
}
func (in readIn) shape() string {
	a := newShape()
	for _, s := range append([]string{in.store, in.object, in.relation, in.user}, in.conds.items...) {
		a.str(s)
	}
	return "read " + listShape("c", in.conds.isNil, in.conds.items) + " " + a.String()
}

// --- rut: storage.ReadUsersetTuplesKey ---

type rutIn struct {
	store, object, relation string
	refs                    relRefList
	conds                   strList
}

func (in rutIn) kind() string { return "rut" }
func (in rutIn) canon(mode canonMode) string {
	var w cw
	w.atom('s', in.store)
	w.atom('o', in.object)
	w.atom('r', in.relation)
	canonRelRefs(&w, in.refs, mode)
	canonStrList(&w, 'C', in.conds, mode)
	return w.String()
}
func (in rutIn) observe(o *observer) (observation, bool) {
	o.reset()
	k := storage.ReadUsersetTuplesKey(in.store, storage.ReadUsersetTuplesFilter{
		Object: in.object, Relation: in.relation,
		AllowedUserTypeRestrictions: pbRelRefs(in.refs), Conditions: goStrList(in.conds)})
	return o.hashedObservation("rut", k.Bytes())
}
func descRefs(l relRefList) string {
	if l.isNil {
		return "nil"
	}
	parts := make([]string, len(l.items))
	for i, r := range l.items {
		switch r.kind {
		case 'r':
			parts[i] = fmt.Sprintf("{Type:%q, Relation:%q}", r.typ, r.rel)
		case 'w':
			parts[i] = fmt.Sprintf("{Type:%q, Wildcard}", r.typ)
		default:
			parts[i] = fmt.Sprintf("{Type:%q}", r.typ)
		}
	}
	return "[" + strings.Join(parts, ", ") + "]"
}
func (in rutIn) describe() string {
	return fmt.Sprintf("ReadUsersetTuplesKey(store=%q, Filter{Object:%q, Relation:%q, AllowedUserTypeRestrictions:%s, Conditions:%s})", in.store, in.object, in.relation, descRefs(in.refs), descStrList(in.conds))
}
func (in rutIn) malformed() bool {
	for _, r := range in.refs.items {
		if nameIsMalformed(r.typ) || (r.kind == 'r' && nameIsMalformed(r.rel)) {
			return true
		}
	}
	return false
}
func (in rutIn) shape() string {
	a := newShape()
	for _, s := range append([]string{in.store, in.object, in.relation}, in.conds.items...) {
		a.str(s)
	}
	kinds := map[byte]int{}
	for _, r := range in.refs.items {
		kinds[r.kind]++
	}
	return fmt.Sprintf("rut refs=%d/%v r%d w%d n%d malformed=%v %s %s", len(in.refs.items), in.refs.isNil, kinds['r'], kinds['w'], kinds['-'], in.malformed(), listShape("c", in.conds.isNil, in.conds.items), a)
}

// --- rswu: storage.ReadStartingWithUserKey ---

type rswuIn struct {
	store, objectType, relation string
	users                       objRelList
	oids                        oidSet
	conds                       strList
}

func (in rswuIn) kind() string { return "rswu" }
func (in rswuIn) canon(mode canonMode) string {
	var w cw
	w.atom('s', in.store)
	w.atom('o', in.objectType)
	w.atom('r', in.relation)
	canonObjRels(&w, in.users, mode)
	canonOIDs(&w, in.oids, mode)
	canonStrList(&w, 'C', in.conds, mode)
	return w.String()
}
func (in rswuIn) filter() storage.ReadStartingWithUserFilter {
	return storage.ReadStartingWithUserFilter{ObjectType: in.objectType, Relation: in.relation,
		UserFilter: pbObjRels(in.users), ObjectIDs: goOIDs(in.oids), Conditions: goStrList(in.conds)}
}
func (in rswuIn) observe(o *observer) (observation, bool) {
	o.reset()
	k := storage.ReadStartingWithUserKey(in.store, in.filter())
	return o.hashedObservation("rswu", k.Bytes())
}
func (in rswuIn) describe() string {
	uf := "nil"
	if !in.users.isNil {
		parts := make([]string, len(in.users.items))
		for i, u := range in.users.items {
			parts[i] = fmt.Sprintf("{Object:%q, Relation:%q}", u.object, u.relation)
		}
		uf = "[" + strings.Join(parts, ", ") + "]"
	}
	oid := "nil"
	if !in.oids.isNil {
		oid = fmt.Sprintf("SortedSet%q", in.oids.ids)
	}
	return fmt.Sprintf("ReadStartingWithUserKey(store=%q, Filter{ObjectType:%q, Relation:%q, UserFilter:%s, ObjectIDs:%s, Conditions:%s})", in.store, in.objectType, in.relation, uf, oid, descStrList(in.conds))
}
func (in rswuIn) shape() string {
	a := newShape()
	for _, s := range append(append([]string{in.store, in.objectType, in.relation}, in.conds.items...), in.oids.ids...) {
		a.str(s)
	}
	withRel := 0
	for _, u := range in.users.items {
		a.str(u.object)
		if u.relation != "" {
			withRel++
		}
	}
	return fmt.Sprintf("rswu uf=%d/%v rel%d oid=%d/%v %s %s", len(in.users.items), in.users.isNil, withRel, len(in.oids.ids), in.oids.isNil, listShape("c", in.conds.isNil, in.conds.items), a)
}

// --- simple clear-text keys sharing the cache with the above (storage.*CacheKey) ---

type simpleIn struct {
	k      string // "cc", "iq", "iq-or", "iq-uot"
	fields []string
}

func (in simpleIn) kind() string { return in.k }
func (in simpleIn) canon(canonMode) string {
	var w cw
	for _, f := range in.fields {
		w.atom('f', f)
	}
	return w.String()
}
func (in simpleIn) observe(o *observer) (observation, bool) {
	o.reset()
	var k keys.Key
	f := in.fields
	switch in.k {
	case "cc":
		k = storage.ChangelogCacheKey(f[0])
	case "iq":
		k = storage.InvalidIteratorCacheKey(f[0])
	case "iq-or":
		k = storage.InvalidIteratorByObjectRelationCacheKey(f[0], f[1], f[2])
	case "iq-uot":
		k = storage.InvalidIteratorByUserObjectTypeCacheKey(f[0], f[1], f[2])
	default:
		panic("c24: bad simple kind")
	}
	b := string(k.Bytes())
	return observation{enc: b, key: b}, true
}
func (in simpleIn) describe() string { return fmt.Sprintf("%s%q", in.k, in.fields) }
func (in simpleIn) shape() string {
	a := newShape()
	for _, s := range in.fields {
		a.str(s)
	}
	return in.k + " " + a.String()
}

func simpleArity(k string) int {
	if k == "cc" || k == "iq" {
		return 1
	}
	return 3
}

// --- edge: check.EdgeCacheKey ---
// The request is built either as a struct literal (invariant digest 0, arbitrary strings) or through
// check.NewRequest on a real model graph (real invariant, hook observed).

type edgeIn struct {
	store, model, object, user string
	reqRelation                string // NOT part of the key by design (the edge identifies the relation definition)
	relDef, toLabel, tupleset  string
	edgeType                   int64
	// viaNewRequest: use env.graphs[model] and these invariant inputs
	viaNewRequest bool
	tuples        []tup
	ctx           ctxv
}

type edgeEnv struct {
	graphs map[string]*modelgraph.AuthorizationModelGraph // model id -> graph (same DSL, different ids)
}

var theEdgeEnv *edgeEnv

func (in edgeIn) kind() string { return "edge" }
func (in edgeIn) canon(mode canonMode) string {
	var w cw
	w.atom('s', in.store)
	w.atom('m', in.model)
	w.atom('o', in.object)
	w.atom('u', in.user)
	w.atom('d', in.relDef)
	w.atom('t', fmt.Sprint(in.edgeType))
	w.atom('l', in.toLabel)
	w.atom('p', in.tupleset)
	if in.viaNewRequest {
		w.atom('v', "inv")
		canonTuples(&w, in.tuples, mode)
		canonCtx(&w, in.ctx, mode)
	} else {
		w.atom('v', "zero")
	}
	return w.String()
}

func syntheticEdge(relDef, toLabel, tupleset string, edgeType int64) *authzGraph.WeightedAuthorizationModelEdge {
	g := authzGraph.NewWeightedAuthorizationModelGraph()
	g.AddNode("from", "from", authzGraph.SpecificTypeAndRelation)
	g.AddNode(toLabel, toLabel, authzGraph.SpecificType)
	g.AddEdge("from", toLabel, authzGraph.EdgeType(edgeType), relDef, tupleset, nil)
	es, _ := g.GetEdgesFromNodeID("from")
	return es[0]
}

func (in edgeIn) observe(o *observer) (observation, bool) {
	o.reset()
	edge := syntheticEdge(in.relDef, in.toLabel, in.tupleset, in.edgeType)
	if !in.viaNewRequest {
		req := &check.Request{StoreID: in.store, AuthorizationModelID: in.model,
			TupleKey: &openfgav1.TupleKey{Object: in.object, Relation: in.reqRelation, User: in.user}}
		b := check.EdgeCacheKey(req, edge).Bytes()
		// trailing uint64 is the zero invariant of a literal request
		return observation{enc: string(b), key: string(b)}, true
	}
	g := theEdgeEnv.graphs[in.model]
	req, err := check.NewRequest(check.RequestParams{StoreID: in.store, Model: g,
		TupleKey:         &openfgav1.TupleKey{Object: in.object, Relation: in.reqRelation, User: in.user},
		ContextualTuples: pbTuples(in.tuples), Context: pbCtx(in.ctx)})
	if err != nil {
		// since fix 0f98983 the weighted-graph request constructor validates the shape of contextual
		// tuples: the malformed ones of this adversarial arena never reach a cache key any more
		var ite *tuple.InvalidTupleError
		if errors.As(err, &ite) {
			rejectedByRequestValidation.Add(1)
			return observation{}, false
		}
		o.errs = append(o.errs, fmt.Sprintf("edge: NewRequest rejected generated input %s: %v", in.describe(), err))
		return observation{}, false
	}
	b := check.EdgeCacheKey(req, edge).Bytes()
	return o.hashedObservation("invariant", b)
}
func (in edgeIn) describe() string {
	s := fmt.Sprintf("EdgeCacheKey(req{store=%q, model=%q, object=%q, relation=%q, user=%q}, edge{relationDefinition=%q, type=%d, to=%q, tuplesetRelation=%q}", in.store, in.model, in.object, in.reqRelation, in.user, in.relDef, in.edgeType, in.toLabel, in.tupleset)
	if in.viaNewRequest {
		s += fmt.Sprintf(", via NewRequest ctx=%s tuples=%s", descCtx(in.ctx), descTuples(in.tuples))
	}
	return s + ")"
}
func (in edgeIn) shape() string {
	a := newShape()
	for _, s := range []string{in.store, in.model, in.object, in.user, in.relDef, in.toLabel, in.tupleset} {
		a.str(s)
	}
	ts := tuplesShape(a, in.tuples)
	a.ctx(in.ctx)
	return fmt.Sprintf("edge new=%v type=%d %s %s", in.viaNewRequest, in.edgeType, ts, a)
}

// rejectedByRequestValidation counts arena inputs the request constructor refuses (malformed contextual tuples).
var rejectedByRequestValidation atomic.Int64
