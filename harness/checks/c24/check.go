package c24

import (
	"context"
	"fmt"
	"math/rand/v2"
	"runtime/debug"
	"sort"
	"strings"

	openfgav1 "github.com/openfga/api/proto/openfga/v1"
	"github.com/openfga/language/pkg/go/transformer"

	"github.com/openfga/openfga/internal/modelgraph"
	"github.com/openfga/openfga/pkg/storage"
	"github.com/openfga/openfga/pkg/storage/memory"
	"github.com/openfga/openfga/verifharness/vk"
)

func init() { vk.Register("C24", "exploration", run) }

const edgeModelDSL = `model
  schema 1.1
type user
type group
  relations
    define member: [user]
type folder
  relations
    define viewer: [user, user:*, group#member]
type doc
  relations
    define parent: [folder]
    define editor: [user]
    define viewer: [user, user:*, user with c1, user with c2, group#member] or editor or viewer from parent
condition c1(x: int) {
  x < 100
}
condition c2(y: string) {
  y == "a"
}
`

type checker struct {
	c      *vk.Ctx
	obs    *observer
	global *globalKeys
	arenas map[string]*arena
}

func (ck *checker) arena(kind string) *arena {
	a := ck.arenas[kind]
	if a == nil {
		a = newArena(ck.c, ck.obs, kind, ck.global)
		ck.arenas[kind] = a
	}
	return a
}

func (ck *checker) add(family string, in input) {
	ck.arena(in.kind()).add(family, in, func() input { return in })
}

func run(c *vk.Ctx) {
	c.SetRule("Inputs of every cache-key builder (CheckCacheKey, InvariantCacheKey, the BatchCheck de-dup composition, ReadKey, " +
		"ReadUsersetTuplesKey, ReadStartingWithUserKey, EdgeCacheKey, changelog/invalidation keys) are produced by (1) directed near-miss " +
		"families (moved field boundaries, embedded tag bytes / uvarint prefixes / complete TLVs, empty vs absent, a zoo of structpb values, " +
		"all permutations of tuples and filter lists, strings moved between adjacent lists) and (2) a bulk random generator over small hostile " +
		"alphabets. Every input is run through the REAL key function twice (freshly built protobufs); the pre-digest encoding is taken from the " +
		"returned clear-text key plus the H4 hook's pre-hash bytes. All inputs of a kind meet in one arena that checks every pair implicitly: " +
		"equal strict canonical form => equal encoding; equal encoding => equal loose canonical form. A case is one encoded input; its signature " +
		"is producer family + semantic shape (list sizes, nil/empty, duplicates, ties, value kinds, nesting depth, special bytes present).")
	c.Assume("canonical forms (harness/checks/c24/model.go) are written from the storage filter docs and the property statement, not from the keys package")
	c.Assume("the H4 hook reports exactly the hashed bytes: verified at run time by recomputing xxhash64(seed, pre-hash bytes) with cespare/xxhash and comparing with the returned digest for every observation")
	c.Assume("commands.generateCacheKeyFromCheck is unexported: the harness replicates its composition CheckCacheKey(store, object, relation, user, InvariantCacheKey(store, model, ctx, tuples...)) on a real BatchCheckItem; check.NewRequest uses the same composition and is exercised for the edge keys")
	c.Assume("EdgeCacheKey: the semantic input is what its doc names (store, model, object, user, edge relation definition / type / target label / tupleset relation, invariant); whether those fields determine the edge's answer is outside this property. Edges are built with the language graph's public AddNode/AddEdge")
	c.Assume("keys.Seed is pinned (documented as test-pinnable) so digest-collision counts are reproducible")

	defer func() {
		if r := recover(); r != nil {
			c.Violation("C24-panic", "panic", fmt.Sprintf("a key builder panicked: %v", r), map[string]any{"panic": fmt.Sprint(r), "stack": string(debug.Stack())})
		}
	}()

	obs := newObserver()
	defer obs.close()
	ck := &checker{c: c, obs: obs, global: &globalKeys{byKey: map[h128]globalRec{}}, arenas: map[string]*arena{}}

	if err := setupEdgeEnv(); err != nil {
		c.HarnessError("edge environment: %v", err)
		return
	}

	ck.directed()
	c.Logf("directed families done: %d inputs", c.Counter("directed_inputs"))
	ck.differentialObjectIDs()
	ck.realGraphEdgeIdentity()

	rounds := c.Pick(1, 10)
	perKind := c.Pick(200_000, 300_000)
	for round := 0; round < rounds; round++ {
		extras := setRoundAlphabets(rand.New(rand.NewPCG(uint64(c.SubSeed(fmt.Sprintf("alphabet-%d", round))), 24)))
		c.Seen("alphabet_extras", fmt.Sprintf("%q", extras))
		if round > 0 {
			// independent rounds keep memory bounded; pair checking is within a round
			for _, a := range ck.arenas {
				a.reset()
			}
			ck.global.byKey = map[h128]globalRec{}
			ck.directedQuiet()
		}
		ck.bulk(round, perKind)
		c.Logf("bulk round %d done", round)
	}
	kinds := make([]string, 0, len(ck.arenas))
	for k := range ck.arenas {
		kinds = append(kinds, k)
	}
	sort.Strings(kinds)
	for _, k := range kinds {
		ck.arenas[k].report()
	}
	ck.arena("check").flushObsErrors()
}

func setupEdgeEnv() error {
	theEdgeEnv = &edgeEnv{graphs: map[string]*modelgraph.AuthorizationModelGraph{}}
	for _, id := range edgeModels {
		m, err := transformer.TransformDSLToProto(edgeModelDSL)
		if err != nil {
			return err
		}
		m.Id = id
		g, err := modelgraph.New(m)
		if err != nil {
			return err
		}
		theEdgeEnv.graphs[id] = g
	}
	return nil
}

// ---------- bulk random mode ----------

func (ck *checker) bulk(round, perKind int) {
	base := uint64(ck.c.SubSeed(fmt.Sprintf("bulk-%d", round)))
	type genFn struct {
		name string
		n    int
		f    func(r *rand.Rand) input
	}
	gens := []genFn{
		{"check", perKind, func(r *rand.Rand) input { return genCheck(r) }},
		{"invariant", perKind, func(r *rand.Rand) input { return genInv(r) }},
		{"batch", perKind / 2, func(r *rand.Rand) input { return genBatch(r) }},
		{"read", perKind / 2, func(r *rand.Rand) input { return genRead(r) }},
		{"rut-valid", perKind / 2, func(r *rand.Rand) input { return genRut(r, false) }},
		{"rut-raw", perKind / 2, func(r *rand.Rand) input { return genRut(r, true) }},
		{"rswu", perKind, func(r *rand.Rand) input { return genRswu(r) }},
		{"simple", perKind / 4, func(r *rand.Rand) input { return genSimple(r) }},
		{"edge-literal", perKind / 2, func(r *rand.Rand) input { return genEdgeLiteral(r) }},
		{"edge-newrequest", perKind / 4, func(r *rand.Rand) input { return genEdgeNew(r) }},
	}
	for gi, g := range gens {
		g := g
		stream := base + uint64(gi)*0x9e3779b97f4a7c15
		for i := 0; i < g.n; i++ {
			i := i
			mk := func() input { return g.f(rand.New(rand.NewPCG(stream, uint64(i)))) }
			if g.name == "invariant" && i%3 == 2 {
				mk = func() input {
					return genInvTwin(rand.New(rand.NewPCG(stream, uint64(i-1))), rand.New(rand.NewPCG(stream, uint64(i))))
				}
			}
			in := mk()
			ck.arena(in.kind()).add("bulk:"+g.name, in, mk)
			if i%50_000 == 0 {
				ck.c.SampleEvery(i, 100_000, func() any { return map[string]any{"family": "bulk:" + g.name, "input": in.describe()} })
			}
		}
		ck.c.Count("bulk_inputs."+g.name, g.n)
	}
}

// ---------- directed families ----------

func (ck *checker) directedQuiet() { ck.directed() }

func (ck *checker) directed() {
	before := ck.totalInputs()
	ck.directedFieldVectors()
	ck.directedValues()
	ck.directedTuples()
	ck.directedFilters()
	ck.c.Count("directed_inputs", ck.totalInputs()-before)
}

func (ck *checker) totalInputs() int {
	n := 0
	for _, a := range ck.arenas {
		n += a.stats.inputs
	}
	return n
}

// every kind's string fields get the near-miss treatment
func (ck *checker) directedFieldVectors() {
	for bi, base := range fieldBases {
		fam := fmt.Sprintf("fields#%d", bi)
		for _, v := range nearMisses(base[:4]) {
			for _, inv := range []uint64{0, 0x0104} {
				ck.add(fam, checkIn{v[0], v[1], v[2], v[3], inv})
			}
			ck.add(fam, readIn{store: v[0], object: v[1], relation: v[2], user: v[3]})
			ck.add(fam, readIn{store: v[0], object: v[1], relation: v[2], user: "u", conds: strList{items: []string{v[3]}}})
		}
		for _, v := range nearMisses(base[:3]) {
			ck.add(fam, rutIn{store: v[0], object: v[1], relation: v[2], refs: relRefList{isNil: true}, conds: strList{isNil: true}})
			ck.add(fam, rswuIn{store: v[0], objectType: v[1], relation: v[2], users: objRelList{isNil: true}, oids: oidSet{isNil: true}, conds: strList{isNil: true}})
			ck.add(fam, simpleIn{"iq-or", v})
			ck.add(fam, simpleIn{"iq-uot", v})
			ck.add(fam, simpleIn{"cc", v[:1]})
			ck.add(fam, simpleIn{"iq", v[:1]})
			// relation | first list entry boundaries
			ck.add(fam, rutIn{store: "S", object: v[0], relation: v[1], refs: relRefList{items: []relRef{{typ: v[2], kind: '-'}}}, conds: strList{isNil: true}})
			ck.add(fam, rutIn{store: "S", object: v[0], relation: v[1], refs: relRefList{isNil: true}, conds: strList{items: []string{v[2]}}})
			ck.add(fam, rswuIn{store: "S", objectType: v[0], relation: v[1], users: objRelList{items: []objRel{{object: v[2]}}}, oids: oidSet{isNil: true}, conds: strList{isNil: true}})
		}
		// store, model, (object, relation, user, condition name) of one contextual tuple
		for _, v := range nearMisses(base[:6]) {
			t := tup{o: v[2], r: v[3], u: v[4], cond: &condv{name: v[5]}}
			ck.add(fam, invIn{store: v[0], model: v[1], tuples: []tup{t}})
			t2 := tup{o: v[2], r: v[3], u: v[4]}
			ck.add(fam, invIn{store: v[0], model: v[1], tuples: []tup{t2}, ctx: ctxv{fields: []field{{v[5], vNull()}}}})
			ck.add(fam, batchIn{invIn: invIn{store: v[0], model: v[1]}, object: v[2], relation: v[3], user: v[4]})
		}
		for _, v := range nearMisses(base[:7]) {
			for _, et := range []int64{0, 2} {
				ck.add(fam, edgeIn{store: v[0], model: v[1], object: v[2], user: v[3], relDef: v[4], toLabel: v[5], tupleset: v[6], edgeType: et, reqRelation: "r"})
			}
		}
	}
	// the edge type and the request relation
	for _, et := range edgeTypeAlpha {
		for _, rel := range []string{"r", "s"} {
			ck.add("edge-type", edgeIn{store: "S", model: "M", object: "d:1", user: "u:1", relDef: "d#r", toLabel: "u", tupleset: "", edgeType: et, reqRelation: rel})
		}
	}
	for _, inv := range invAlpha {
		ck.add("check-inv", checkIn{"S", "d:1", "r", "u:1", inv})
	}
}

// a single context field carrying each member of the value zoo, in the request context and in a
// tuple's condition context; plus whole-context shapes.
func (ck *checker) directedValues() {
	zoo := valueZoo()
	for _, v := range zoo {
		ck.add("value-zoo:req-ctx", invIn{store: "S", model: "M", ctx: ctxv{fields: []field{{"k", v}}}})
		ck.add("value-zoo:cond-ctx", invIn{store: "S", model: "M", tuples: []tup{{o: "d:1", r: "r", u: "u:1", cond: &condv{name: "c", ctx: ctxv{fields: []field{{"k", v}}}}}}})
		ck.add("value-zoo:batch", batchIn{invIn: invIn{store: "S", model: "M", ctx: ctxv{fields: []field{{"k", v}}}}, object: "d:1", relation: "r", user: "u:1"})
		if v.k == 'M' {
			// the same fields as the context itself (flattening one level)
			ck.add("value-zoo:as-ctx", invIn{store: "S", model: "M", ctx: ctxv{fields: v.m}})
		}
	}
	// pairs of zoo members under two keys: {a: x, b: y} for neighbouring x, y (boundary between a value and the next key)
	for i := 0; i+1 < len(zoo); i++ {
		ck.add("value-zoo:pairs", invIn{store: "S", model: "M", ctx: ctxv{fields: []field{{"a", zoo[i]}, {"b", zoo[i+1]}}}})
		ck.add("value-zoo:pairs", invIn{store: "S", model: "M", ctx: ctxv{fields: []field{{"b", zoo[i+1]}, {"a", zoo[i]}}}})
		ck.add("value-zoo:list2", invIn{store: "S", model: "M", ctx: ctxv{fields: []field{{"a", vList(zoo[i], zoo[i+1])}}}})
	}
	// context shapes
	for _, cx := range []ctxv{{isNil: true}, {}, {fields: []field{{"", vNull()}}}, {fields: []field{{"", vUnset()}}}} {
		ck.add("ctx-shape", invIn{store: "S", model: "M", ctx: cx})
		ck.add("ctx-shape", invIn{store: "S", model: "M", tuples: []tup{}, ctx: cx})
	}
	// field-order permutations of a 4-field context (Go map order is random; encoded twice each)
	fs := []field{{"a", vNum(1)}, {"b", vStr("x")}, {"ab", vNull()}, {"", vList(vNum(1))}}
	for _, p := range perms(4) {
		q := make([]field, 4)
		for i, j := range p {
			q[i] = fs[j]
		}
		ck.add("ctx-field-order", invIn{store: "S", model: "M", ctx: ctxv{fields: q}})
		ck.add("ctx-field-order", batchIn{invIn: invIn{store: "S", model: "M", ctx: ctxv{fields: q}}, object: "d:1", relation: "r", user: "u:1"})
	}
}

func (ck *checker) directedTuples() {
	mk := func(ts ...tup) invIn { return invIn{store: "S", model: "M", tuples: ts} }
	c := func(name string, fs ...field) *condv { return &condv{name: name, ctx: ctxv{fields: fs}} }
	cNil := func(name string) *condv { return &condv{name: name, ctx: ctxv{isNil: true}} }
	t := func(o, r, u string, cd *condv) tup { return tup{o, r, u, cd} }

	// condition present / absent / empty-named / context variants on one tuple
	for _, cd := range []*condv{nil, cNil(""), c(""), cNil("c"), c("c"), c("c", fld("x", vNum(1))), c("c", fld("x", vStr("1"))),
		c("", fld("c", vNum(1))), c("x"), c("", fld("x", vNull())), c("c", fld("x", vNull())), c("c", fld("x", vUnset())), c("cx"), c("c", fld("", vNull()))} {
		ck.add("tuple-cond", mk(t("d:1", "r", "u:1", cd)))
	}
	// one tuple with a condition vs two tuples; tuple fields vs next tuple; tuple context vs request context
	ck.add("tuple-boundary", mk(t("d:1", "r", "u:1", nil), t("d:2", "s", "u:2", nil)))
	ck.add("tuple-boundary", mk(t("d:1", "r", "u:1", c("d:2"))))
	ck.add("tuple-boundary", mk(t("d:1", "r", "u:1", c("d:2", fld("s", vStr("u:2"))))))
	ck.add("tuple-boundary", mk(t("d:1", "r", "u:1"+tlv("d:2")+tlv("s")+tlv("u:2"), nil)))
	ck.add("tuple-boundary", mk(t("d:1", "r", "u:1", nil)))
	ck.add("tuple-boundary", mk(t("d:1", "r", "u:1", nil), t("", "", "", nil)))
	ck.add("tuple-boundary", mk(t("d:1", "r", "u:1", nil), t("", "", "", c(""))))
	ck.add("tuple-boundary", mk(t("", "", "", nil)))
	ck.add("tuple-boundary", mk())
	ck.add("tuple-boundary", invIn{store: "S", model: "M", tuples: nil})
	for _, x := range []ctxv{{}, {fields: []field{{"a", vNum(1)}}}} {
		for _, y := range []ctxv{{}, {fields: []field{{"a", vNum(1)}}}} {
			ck.add("tuple-ctx-vs-req-ctx", invIn{store: "S", model: "M", tuples: []tup{t("d:1", "r", "u:1", &condv{name: "c", ctx: x})}, ctx: y})
			ck.add("tuple-ctx-vs-req-ctx", invIn{store: "S", model: "M", tuples: []tup{t("d:1", "r", "u:1", &condv{name: "c", ctx: x}), t("d:2", "r", "u:1", &condv{name: "c", ctx: y})}})
		}
	}
	// duplicated tuples (unjudged in both directions; still must be deterministic)
	ck.add("tuple-dup", mk(t("d:1", "r", "u:1", nil), t("d:1", "r", "u:1", nil)))

	// all permutations of three / four tuples with pairwise different sort keys
	distinct := []tup{t("d:1", "r", "u:1", nil), t("d:1", "r", "u:2", c("c", fld("x", vNum(1)))), t("d:1", "s", "u:1", nil), t("d:0", "r", "u:1", c("d"))}
	for _, n := range []int{2, 3, 4} {
		for _, p := range perms(n) {
			q := make([]tup, n)
			for i, j := range p {
				q[i] = distinct[j]
			}
			ck.add("tuple-order:distinct-keys", mk(q...))
			ck.add("tuple-order:distinct-keys", batchIn{invIn: mk(q...), object: "d:1", relation: "r", user: "u:1"})
		}
	}
	// same (object, relation, user), different condition names: the documented key still orders them
	byName := []tup{t("d:1", "r", "u:1", c("a")), t("d:1", "r", "u:1", c("b")), t("d:1", "r", "u:1", c("c"))}
	for _, p := range perms(3) {
		ck.add("tuple-order:by-condition-name", mk(byName[p[0]], byName[p[1]], byName[p[2]]))
	}
	// ties on the documented key: same condition name, different context; nil condition vs ""-named
	ties := [][]tup{
		{t("d:1", "r", "u:1", c("c", fld("x", vNum(1)))), t("d:1", "r", "u:1", c("c", fld("x", vNum(2))))},
		{t("d:1", "r", "u:1", c("c", fld("x", vNum(1)))), t("d:1", "r", "u:1", c("c", fld("x", vNum(2)))), t("d:1", "r", "u:1", c("c", fld("x", vNum(3))))},
		{t("d:1", "r", "u:1", nil), t("d:1", "r", "u:1", c("", fld("x", vNum(1))))},
		{t("d:0", "r", "u:1", nil), t("d:1", "r", "u:1", c("c")), t("d:1", "r", "u:1", c("c", fld("x", vNum(2)))), t("d:2", "r", "u:1", nil)},
	}
	for _, ts := range ties {
		for _, p := range perms(len(ts)) {
			q := make([]tup, len(ts))
			for i, j := range p {
				q[i] = ts[j]
			}
			ck.add("tuple-order:ties", mk(q...))
		}
	}
	// edge keys through check.NewRequest: permuted contextual tuples and contexts
	et := []tup{{"doc:1", "viewer", "user:1", nil}, {"doc:2", "viewer", "user:1", &condv{name: "c1", ctx: ctxv{fields: []field{{"x", vNum(1)}}}}}, {"doc:1", "viewer", "user:2", nil}}
	for _, p := range perms(3) {
		ck.add("edge-newrequest:tuple-order", edgeIn{viaNewRequest: true, store: "S1", model: "M1", object: "doc:1", user: "user:1", reqRelation: "viewer",
			relDef: "doc#viewer", toLabel: "user", edgeType: 0, tuples: []tup{et[p[0]], et[p[1]], et[p[2]]}})
	}
	for _, rel := range []string{"viewer", "editor", "parent"} {
		ck.add("edge-newrequest:req-relation", edgeIn{viaNewRequest: true, store: "S1", model: "M1", object: "doc:1", user: "user:1", reqRelation: rel,
			relDef: "doc#viewer", toLabel: "user", edgeType: 0})
	}
}

func (ck *checker) directedFilters() {
	condLists := []strList{{isNil: true}, {}, {items: []string{""}}, {items: []string{"", ""}}, {items: []string{"c"}}, {items: []string{"c", "d"}},
		{items: []string{"d", "c"}}, {items: []string{"cd"}}, {items: []string{"c" + tlv("d")}}, {items: []string{"c", ""}}, {items: []string{"", "c"}},
		{items: []string{"c", "c"}}, {items: []string{"c", "d", ""}}, {items: []string{"", "d", "c"}}, {items: []string{"\x00"}}, {items: []string{"c\x00d"}}}
	for _, cl := range condLists {
		ck.add("conditions", readIn{store: "S", object: "d:1", relation: "r", user: "u:1", conds: cl})
		ck.add("conditions", rutIn{store: "S", object: "d:1", relation: "r", refs: relRefList{isNil: true}, conds: cl})
		ck.add("conditions", rutIn{store: "S", object: "d:1", relation: "r", refs: relRefList{items: []relRef{{"a", 'r', "m"}}}, conds: cl})
		ck.add("conditions", rswuIn{store: "S", objectType: "d", relation: "r", users: objRelList{items: []objRel{{"u:1", ""}}}, oids: oidSet{isNil: true}, conds: cl})
	}
	// relation references: every kind, valid names
	refLists := [][]relRef{nil, {}, {{"a", 'r', "m"}}, {{"a", 'w', ""}}, {{"a", '-', ""}}, {{"a", 'r', "m"}, {"a", 'w', ""}}, {{"a", 'w', ""}, {"a", 'r', "m"}},
		{{"a", 'r', "m"}, {"b", 'r', "m"}}, {{"b", 'r', "m"}, {"a", 'r', "m"}}, {{"a", 'r', "m"}, {"a", 'r', "m"}}, {{"am", 'r', ""}}, {{"a", 'r', "mm"}}, {{"a", 'r', "m"}, {"a", 'r', "n"}},
		{{"a", 'r', "n"}, {"a", 'r', "m"}}, {{"a", 'r', "m"}, {"a", 'r', "n"}, {"b", 'w', ""}}, {{"b", 'w', ""}, {"a", 'r', "n"}, {"a", 'r', "m"}}}
	for i, rl := range refLists {
		ck.add("relrefs:valid", rutIn{store: "S", object: "d:1", relation: "r", refs: relRefList{isNil: i == 0, items: rl}, conds: strList{isNil: true}})
	}
	// relation references with separator characters inside names (no valid model has them)
	rawLists := [][]relRef{{{"a#b", '-', ""}}, {{"a", 'r', "b"}}, {{"a:*", '-', ""}}, {{"a", 'w', ""}}, {{"a#", '-', ""}}, {{"a", 'r', ""}}, {{"a#b", 'r', "c"}}, {{"a", 'r', "b#c"}},
		{{"a#b", 'w', ""}}, {{"a", 'r', "b:*"}}, {{"a#b:*", '-', ""}}, {{"", 'r', "a"}}, {{"#a", '-', ""}}, {{"", 'w', ""}}, {{":*", '-', ""}}}
	for _, rl := range rawLists {
		ck.add("relrefs:raw", rutIn{store: "S", object: "d:1", relation: "r", refs: relRefList{items: rl}, conds: strList{isNil: true}})
	}
	// one string moved between adjacent lists
	for _, x := range []string{"x", "", "a#m"} {
		ck.add("list-boundary", rutIn{store: "S", object: "d:1", relation: "r", refs: relRefList{items: []relRef{{x, '-', ""}}}, conds: strList{}})
		ck.add("list-boundary", rutIn{store: "S", object: "d:1", relation: "r", refs: relRefList{}, conds: strList{items: []string{x}}})
		ck.add("list-boundary", rutIn{store: "S", object: "d:1", relation: "r", refs: relRefList{items: []relRef{{x, '-', ""}, {"y", '-', ""}}}, conds: strList{}})
		ck.add("list-boundary", rutIn{store: "S", object: "d:1", relation: "r", refs: relRefList{items: []relRef{{x, '-', ""}}}, conds: strList{items: []string{"y"}}})
		for _, pos := range []int{0, 1, 2} {
			in := rswuIn{store: "S", objectType: "d", relation: "r"}
			switch pos {
			case 0:
				in.users.items = []objRel{{object: x}}
			case 1:
				in.oids.ids = []string{x}
			case 2:
				in.conds.items = []string{x}
			}
			ck.add("list-boundary", in)
			in2 := in
			in2.users.items = append([]objRel{{object: "y"}}, in.users.items...)
			ck.add("list-boundary", in2)
			in3 := in
			in3.conds.items = append([]string{"y"}, in.conds.items...)
			ck.add("list-boundary", in3)
		}
	}
	// user filter: order, duplicates, object#relation rendering
	ufs := [][]objRel{nil, {}, {{"u:1", ""}}, {{"u:1", ""}, {"u:*", ""}}, {{"u:*", ""}, {"u:1", ""}}, {{"g:1", "m"}}, {{"g:1#m", ""}}, {{"g:1", "m"}, {"u:*", ""}}, {{"u:*", ""}, {"g:1", "m"}},
		{{"u:1", ""}, {"u:1", ""}}, {{"g:1", "n"}}, {{"g:1m", ""}}, {{"g:1", ""}, {"m", ""}}, {{"", "m"}}, {{"#m", ""}}}
	for i, uf := range ufs {
		ck.add("user-filter", rswuIn{store: "S", objectType: "d", relation: "r", users: objRelList{isNil: i == 0, items: uf}, oids: oidSet{isNil: true}, conds: strList{isNil: true}})
	}
	// object ids (a set; construction order must not matter)
	for _, ids := range [][]string{nil, {}, {"1"}, {"1", "2"}, {"2", "1"}, {"12"}, {""}, {"", "1"}, {"1" + tlv("2")}, {"1", "2", "3"}, {"3", "1", "2"}} {
		ck.add("object-ids", rswuIn{store: "S", objectType: "d", relation: "r", users: objRelList{items: []objRel{{"u:1", ""}}}, oids: oidSet{isNil: ids == nil, ids: ids}, conds: strList{isNil: true}})
	}
}

// ---------- nil vs empty ObjectIDs: decided by the real memory datastore's answers ----------

func (ck *checker) differentialObjectIDs() {
	c := ck.c
	ds := memory.New()
	defer ds.Close()
	ctx := context.Background()
	store := "01HVERIFC24STORE0000000000"
	ws := []*openfgav1.TupleKey{
		{Object: "doc:1", Relation: "viewer", User: "user:1"},
		{Object: "doc:2", Relation: "viewer", User: "user:1"},
	}
	if err := ds.Write(ctx, store, nil, ws); err != nil {
		c.HarnessError("memory datastore write: %v", err)
		return
	}
	read := func(oids storage.SortedSet) ([]string, error) {
		it, err := ds.ReadStartingWithUser(ctx, store, storage.ReadStartingWithUserFilter{ObjectType: "doc", Relation: "viewer",
			UserFilter: []*openfgav1.ObjectRelation{{Object: "user:1"}}, ObjectIDs: oids}, storage.ReadStartingWithUserOptions{})
		if err != nil {
			return nil, err
		}
		defer it.Stop()
		var out []string
		for {
			t, err := it.Next(ctx)
			if err != nil {
				break
			}
			out = append(out, t.GetKey().GetObject())
		}
		sort.Strings(out)
		return out, nil
	}
	ansNil, err1 := read(nil)
	ansEmpty, err2 := read(storage.NewSortedSet())
	if err1 != nil || err2 != nil {
		c.HarnessError("memory datastore read: %v %v", err1, err2)
		return
	}
	a := rswuIn{store: store, objectType: "doc", relation: "viewer", users: objRelList{items: []objRel{{"user:1", ""}}}, oids: oidSet{isNil: true}, conds: strList{isNil: true}}
	b := a
	b.oids = oidSet{}
	oa, ok1 := a.observe(ck.obs)
	ob, ok2 := b.observe(ck.obs)
	if !ok1 || !ok2 {
		ck.arena("rswu").flushObsErrors()
		return
	}
	answersDiffer := strings.Join(ansNil, ",") != strings.Join(ansEmpty, ",")
	c.Case(fmt.Sprintf("differential:objectids nil-vs-empty answersDiffer=%v sameEncoding=%v", answersDiffer, oa.enc == ob.enc), true)
	c.Count("differential.objectids.answers_differ", b2i(answersDiffer))
	c.Count("differential.objectids.same_encoding", b2i(oa.enc == ob.enc))
	if answersDiffer && oa.enc == ob.enc {
		w := witness(a, b, oa, ob)
		w["memory_datastore_answer_nil_ObjectIDs"] = ansNil
		w["memory_datastore_answer_empty_ObjectIDs"] = ansEmpty
		w["doc"] = "storage.ReadStartingWithUserFilter.ObjectIDs: \"Optional. It can be nil. If present, ... The datastore should return the intersection between this filter and what is in the database.\""
		c.Violation("C24-rswu-objectids-nil-vs-empty", "objectids-nil-vs-empty",
			fmt.Sprintf("ReadStartingWithUserKey gives the same key for ObjectIDs=nil and ObjectIDs=empty set, but the real memory datastore answers %v for nil and %v for the empty set (the documented 'intersection' semantics); a cached iterator of one is served for the other", ansNil, ansEmpty), w)
	}
}

func b2i(b bool) int {
	if b {
		return 1
	}
	return 0
}

// ---------- edges of real weighted graphs: equal key fields => same edge semantics ----------

var realModels = []string{
	edgeModelDSL,
	`model
  schema 1.1
type user
type team
  relations
    define member: [user, team#member]
type group
  relations
    define member: [user, user with c1, team#member with c1, team#member]
type folder
  relations
    define parent: [folder]
    define owner: [user]
    define viewer: [user, user:* with c1, group#member] or owner or viewer from parent
    define blocked: [user]
    define can_view: (viewer but not blocked) and (owner or viewer)
    define other: (viewer and owner) or (viewer but not owner) or owner from parent
condition c1(x: int) {
  x < 100
}
`,
}

func (ck *checker) realGraphEdgeIdentity() {
	c := ck.c
	for mi, dsl := range realModels {
		m, err := transformer.TransformDSLToProto(dsl)
		if err != nil {
			c.HarnessError("real model %d: %v", mi, err)
			return
		}
		m.Id = fmt.Sprintf("R%d", mi)
		g, err := modelgraph.New(m)
		if err != nil {
			c.HarnessError("real model graph %d: %v", mi, err)
			return
		}
		type sem struct{ conds, from string }
		byFields := map[string]sem{}
		n := 0
		froms := make([]string, 0)
		for from := range g.GetEdges() {
			froms = append(froms, from)
		}
		sort.Strings(froms)
		for _, from := range froms {
			for _, e := range g.GetEdges()[from] {
				n++
				var w cw
				w.atom('d', e.GetRelationDefinition())
				w.atom('t', fmt.Sprint(int64(e.GetEdgeType())))
				w.atom('l', e.GetTo().GetUniqueLabel())
				w.atom('p', e.GetTuplesetRelation())
				cs := append([]string(nil), e.GetConditions()...)
				sort.Strings(cs)
				s := sem{conds: fmt.Sprintf("%q", cs), from: from}
				if prev, ok := byFields[w.String()]; ok {
					c.Count("real_edges.same_key_fields_pairs", 1)
					if prev.conds != s.conds {
						c.Violation("C24-edge-identity-conditions", "edge-identity|"+w.String(),
							"two edges of one model graph agree on every field EdgeCacheKey encodes (relation definition, type, target, tupleset relation) but carry different condition sets",
							map[string]any{"model": dsl, "key_fields": w.String(), "from_A": prev.from, "conditions_A": prev.conds, "from_B": from, "conditions_B": s.conds})
					}
				} else {
					byFields[w.String()] = s
				}
				// and the real edge through the real key function, with a real request
				ck.add("edge-real-graph", edgeIn{store: "S", model: m.Id, object: "folder:1", user: "user:1", reqRelation: "viewer",
					relDef: e.GetRelationDefinition(), toLabel: e.GetTo().GetUniqueLabel(), tupleset: e.GetTuplesetRelation(), edgeType: int64(e.GetEdgeType())})
			}
		}
		c.Count("real_edges.seen", n)
	}
}
