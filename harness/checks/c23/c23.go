// Package c23 decides property C23: iterator adapters and shared iterators yield their specified
// sequences. Real adapters are executed over observing inner iterators; a pure slice-level
// specification per adapter (spec.go) is the oracle.
package c23

import (
	"github.com/openfga/openfga/verifharness/vk"
)

func init() { vk.Register("C23", "exploration", run) }

func run(c *vk.Ctx) {
	c.RaceAnchors = []string{"internal/iterator", "pkg/storage/tuple_iterators.go", "pkg/storage/storagewrappers/sharediterator"}
	c.SetRule("Adapters: per adapter, seeded base inputs (0-4 input sequences of length 0-12 over a small tuple domain, duplicates likely; " +
		"sorted where the adapter requires it; nil inputs for the combined iterators); for every base EVERY injection is run: none, and " +
		"{early ErrIteratorDone, sticky error, context cancellation} at every position 0..len of every input; each run uses a seeded Head/Next pattern " +
		"(Head share 0/30/60 %, 20 % of the runs Stop early). Channel adapters: the same with seeded producer goroutines. Shared iterator datastore: " +
		"2-6 concurrent consumers over 1-2 queries of 0-330 tuples (fetch buffer is 100), late joiners, early Stop, own-context cancellation, " +
		"datastore error at position k / at open, configurations shared / limit 0 / limit 1 / HIGHER_CONSISTENCY / tiny idle or admission time. " +
		"A case is non-trivial when an input is non-empty or an injection is present; the signature is (adapter, number and size class of inputs, " +
		"injection kind and position class, Head share, early stop, terminal event observed, size class of the output).")
	c.Assume("inner iterators obey the storage.Iterator contract and their errors are sticky (the same error again on the next call)")
	c.Assume("which of several tuples with equal mapper value an ordered merge returns is unspecified: ordered merges are compared on mapper values, plus membership in the inputs")
	c.Assume("behaviour after the first reported error, Next/Head after Stop, unsorted input to ordered merges, Head on Concat/Merge/NewFilteredIterator are not judged")
	c.Assume("asynchronous stops (Stream.Stop, channelIterator.Stop, TTL timers) are awaited with a bound; running out of time makes the run inconclusive (exit 2), never a violation")

	runAdapters(c)
	runChannels(c)
	runConcurrentConsumers(c)
	runShared(c)

	if n := c.Counter("inconclusive_timeouts"); n > 0 {
		c.HarnessError("%d bounded waits ran out of time: the run is inconclusive", n)
	}
}
