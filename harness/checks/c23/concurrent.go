package c23

import (
	"errors"
	"fmt"
	"math/rand"
	"sort"
	"sync"

	openfgav1 "github.com/openfga/api/proto/openfga/v1"

	"github.com/openfga/openfga/pkg/storage"
	"github.com/openfga/openfga/verifharness/vk"
)

// "NewCombinedIterator is a thread-safe iterator ...", "NewOrderedCombinedIterator is a thread-safe
// iterator ...": several goroutines consume the same adapter concurrently.
// Oracle: combined - the multiset of everything obtained by all consumers equals the multiset of the
// inputs; ordered - every mapper value is obtained exactly once overall, and each consumer's own
// sequence is strictly increasing. Every consumer ends with ErrIteratorDone.
func runConcurrentConsumers(c *vk.Ctx) {
	runs := c.Pick(600, 6000)
	r := c.Rand("concurrent")
	for i := 0; i < runs; i++ {
		ordered := i%2 == 1
		n := 1 + r.Intn(4)
		var base [][]elem
		if ordered {
			base = genInputs(r, n, func(r *rand.Rand, l int) []elem { return genSorted(r, l, objKey) })
		} else {
			base = genInputs(r, n, genList)
		}
		e := newEnv()
		ins := make([]*obs[*openfgav1.Tuple], n)
		var want []string
		for j := range base {
			ins[j] = mkObs(e, j, script{Items: base[j]}, tuplesOf)
			for _, el := range base[j] {
				if ordered {
					want = append(want, el.Obj)
				} else {
					want = append(want, el.String())
				}
			}
		}
		sort.Strings(want)
		adapter := "combined_concurrent"
		var it storage.Iterator[*openfgav1.Tuple]
		if ordered {
			adapter = "ordered_combined_concurrent"
			want = dedupSorted(want)
			it = storage.NewOrderedCombinedIterator(storage.ObjectMapper(), asIters(ins)...)
		} else {
			it = storage.NewCombinedIterator(asIters(ins)...)
		}
		consumers := 2 + r.Intn(3)
		got := make([][]string, consumers)
		ends := make([]error, consumers)
		panics := make([]string, consumers)
		var wg sync.WaitGroup
		for g := 0; g < consumers; g++ {
			wg.Add(1)
			seed := r.Int63()
			go func(g int) {
				defer wg.Done()
				defer func() {
					if p := recover(); p != nil {
						panics[g] = fmt.Sprint(p)
					}
				}()
				jr := rand.New(rand.NewSource(seed))
				for k := 0; k < 200; k++ {
					jitter(jr)
					if jr.Intn(4) == 0 {
						_, _ = it.Head(e.ctx) // result depends on the interleaving; only Next results are judged
					}
					t, err := it.Next(e.ctx)
					if err != nil {
						ends[g] = err
						return
					}
					if ordered {
						got[g] = append(got[g], t.GetKey().GetObject())
					} else {
						got[g] = append(got[g], renderTuple(t))
					}
				}
			}(g)
		}
		wg.Wait()
		it.Stop()
		fail := ""
		var all []string
		for g := 0; g < consumers && fail == ""; g++ {
			switch {
			case panics[g] != "":
				fail = "panic: " + panics[g]
			case !errors.Is(ends[g], storage.ErrIteratorDone):
				fail = fmt.Sprintf("consumer %d ended with %v, expected ErrIteratorDone", g, ends[g])
			}
			if ordered {
				for k := 1; k < len(got[g]); k++ {
					if got[g][k-1] >= got[g][k] {
						fail = fmt.Sprintf("consumer %d obtained %q after %q from an ordered, de-duplicating iterator", g, got[g][k], got[g][k-1])
					}
				}
			}
			all = append(all, got[g]...)
		}
		sort.Strings(all)
		if fail == "" && fmt.Sprint(all) != fmt.Sprint(want) {
			fail = fmt.Sprintf("the consumers together obtained %v, expected (as a multiset) %v", all, want)
		}
		if fail == "" {
			if msg := checkStopped(ins); msg != "" {
				fail = msg
			}
		}
		e.cancel()
		reportCase(c, adapter, "sequence", fmt.Sprintf("inputs=%d|len=%s|consumers=%d", n, lenBucket(len(want)), consumers), len(want) > 0, fail,
			map[string]any{"inputs": base, "consumers": consumers, "got": got}, false)
	}
	c.Logf("concurrent consumers done")
}
