package c23

import (
	"context"
	"errors"
	"fmt"
	"sync"

	openfgav1 "github.com/openfga/api/proto/openfga/v1"

	"github.com/openfga/openfga/pkg/storage"
)

// ---- elements ---------------------------------------------------------------------------------

// elem is the harness-side description of one tuple; all oracles work on elem / strings, never on
// values produced by the code under test.
type elem struct {
	Obj, Rel, User, Cond string
}

func (e elem) String() string {
	s := e.Obj + "#" + e.Rel + "@" + e.User
	if e.Cond != "" {
		s += "[" + e.Cond + "]"
	}
	return s
}

// MarshalJSON renders the element compactly in witnesses.
func (e elem) MarshalJSON() ([]byte, error) { return []byte(fmt.Sprintf("%q", e.String())), nil }

func (e elem) key() *openfgav1.TupleKey {
	k := &openfgav1.TupleKey{Object: e.Obj, Relation: e.Rel, User: e.User}
	if e.Cond != "" {
		k.Condition = &openfgav1.RelationshipCondition{Name: e.Cond}
	}
	return k
}

func (e elem) tuple() *openfgav1.Tuple { return &openfgav1.Tuple{Key: e.key()} }

func renderKey(k *openfgav1.TupleKey) string {
	if k == nil {
		return "<nil>"
	}
	return elem{k.GetObject(), k.GetRelation(), k.GetUser(), k.GetCondition().GetName()}.String()
}

func renderTuple(t *openfgav1.Tuple) string {
	if t == nil {
		return "<nil>"
	}
	return renderKey(t.GetKey())
}

func renderString(s string) string { return s }

func tuplesOf(es []elem) []*openfgav1.Tuple {
	out := make([]*openfgav1.Tuple, len(es))
	for i, e := range es {
		out[i] = e.tuple()
	}
	return out
}

func keysOf(es []elem) []*openfgav1.TupleKey {
	out := make([]*openfgav1.TupleKey, len(es))
	for i, e := range es {
		out[i] = e.key()
	}
	return out
}

func stringsOf(es []elem) []string {
	out := make([]string, len(es))
	for i, e := range es {
		out[i] = e.String()
	}
	return out
}

// ---- scripted, observing inner iterator ----------------------------------------------------------

type termKind int

const (
	termDone   termKind = iota // the input ends normally
	termErr                    // the input fails with a (sticky) error at this position
	termCancel                 // the request context is cancelled when this position is reached
	termAnyErr                 // (expectations only) any error that is not ErrIteratorDone
	termCancelOrDone           // (expectations only) context.Canceled or ErrIteratorDone
)

func (k termKind) String() string {
	return [...]string{"done", "err", "cancel", "anyerr", "cancel-or-done"}[k]
}

// injectedErr is the error type injected by the harness (inner iterators, filters, validators).
type injectedErr struct{ what string }

func (e *injectedErr) Error() string { return "injected: " + e.what }

// env is shared by all inner iterators of one case: one request context.
type env struct {
	ctx    context.Context
	cancel context.CancelFunc
}

func newEnv() *env {
	ctx, cancel := context.WithCancel(context.Background())
	return &env{ctx: ctx, cancel: cancel}
}

// obs is a scripted iterator handed to the adapter under test. It yields items, then its terminal
// event forever (errors are sticky, like a failed SQL cursor). It obeys the storage.Iterator contract
// (Head does not consume, Next after Stop returns ErrIteratorDone, a cancelled ctx is reported like
// storage.StaticIterator does) and counts how it is used.
type obs[T any] struct {
	mu      sync.Mutex
	name    string
	items   []T
	term    termKind
	err     error
	env     *env
	ordered bool
	onStop  func() // optional, called once on the first Stop

	pos       int
	nNext     int
	nHead     int
	nStop     int
	afterStop int // Next/Head calls after Stop
	stopped   bool
}

var _ storage.Iterator[int] = (*obs[int])(nil)

func (o *obs[T]) terminal(ctx context.Context) error {
	switch o.term {
	case termErr:
		return o.err
	case termCancel:
		if o.env != nil {
			o.env.cancel()
		}
		if ctx.Err() != nil {
			return ctx.Err()
		}
		return context.Canceled
	}
	return storage.ErrIteratorDone
}

func (o *obs[T]) Next(ctx context.Context) (T, error) {
	o.mu.Lock()
	defer o.mu.Unlock()
	var zero T
	o.nNext++
	if o.stopped {
		o.afterStop++
		return zero, storage.ErrIteratorDone
	}
	if ctx.Err() != nil {
		return zero, ctx.Err()
	}
	if o.pos >= len(o.items) {
		return zero, o.terminal(ctx)
	}
	v := o.items[o.pos]
	o.pos++
	return v, nil
}

func (o *obs[T]) Head(ctx context.Context) (T, error) {
	o.mu.Lock()
	defer o.mu.Unlock()
	var zero T
	o.nHead++
	if o.stopped {
		o.afterStop++
		return zero, storage.ErrIteratorDone
	}
	if ctx.Err() != nil {
		return zero, ctx.Err()
	}
	if o.pos >= len(o.items) {
		return zero, o.terminal(ctx)
	}
	return o.items[o.pos], nil
}

func (o *obs[T]) Stop() {
	o.mu.Lock()
	first := !o.stopped
	o.stopped = true
	o.nStop++
	cb := o.onStop
	o.mu.Unlock()
	if first && cb != nil {
		cb()
	}
}

func (o *obs[T]) IsOrdered() bool { return o.ordered }

func (o *obs[T]) stats() (next, head, stop, after, pos int) {
	o.mu.Lock()
	defer o.mu.Unlock()
	return o.nNext, o.nHead, o.nStop, o.afterStop, o.pos
}

func (o *obs[T]) isStopped() bool {
	o.mu.Lock()
	defer o.mu.Unlock()
	return o.stopped
}

// script is one input sequence of a case (already truncated at the injection position).
type script struct {
	Items []elem   `json:"items"`
	Term  termKind `json:"term"`
	Nil   bool     `json:"nil,omitempty"` // a nil iterator is passed (combined iterators skip nil inputs)
}

func (s script) termErr(i int) error {
	if s.Term == termErr {
		return &injectedErr{what: fmt.Sprintf("input %d fails at position %d", i, len(s.Items))}
	}
	return nil
}

func mkObs[T any](e *env, i int, s script, conv func([]elem) []T) *obs[T] {
	return &obs[T]{name: fmt.Sprintf("in%d", i), items: conv(s.Items), term: s.Term, err: s.termErr(i), env: e, ordered: true}
}

func isInjected(err error) bool {
	var ie *injectedErr
	return errors.As(err, &ie)
}
