package c23

import (
	"context"
	"fmt"
	"math/rand"
	"sync"

	"google.golang.org/protobuf/types/known/structpb"

	openfgav1 "github.com/openfga/api/proto/openfga/v1"
	parser "github.com/openfga/language/pkg/go/transformer"

	"github.com/openfga/openfga/internal/checkutil"
	"github.com/openfga/openfga/internal/validation"
	"github.com/openfga/openfga/pkg/storage"
	"github.com/openfga/openfga/pkg/typesystem"
)

// The composition used by internal/checkutil (IteratorReadUsersetTuples / IteratorReadStartingFromUser):
//   ConditionsFiltered( Filtered( TupleKeyFromTuple(inner), validation.FilterInvalidTuples ), BuildTupleKeyConditionFilter )
// with the *real* filters over a fixed model. The classification of each generated tuple is known by
// construction (it is generated from a category), not computed by the code under test.

const pipelineModel = `
model
  schema 1.1
type user
type group
  relations
    define member: [user]
type doc
  relations
    define viewer: [user, user:*, group#member, user with xlt10]
condition xlt10(x: int) {
  x < 10
}
`

type category int

const (
	catValid     category = iota // valid tuple, no condition or condition true -> yielded
	catInvalid                   // not valid for the model -> dropped by FilterInvalidTuples
	catCondFalse                 // valid, condition evaluates to false -> dropped
	catCondError                 // valid, condition cannot be evaluated (parameter missing) -> error, "treated as false"
)

var (
	pipelineOnce sync.Once
	pipelineTS   *typesystem.TypeSystem
	pipelineErr  error
)

func pipelineTypesystem() (*typesystem.TypeSystem, error) {
	pipelineOnce.Do(func() {
		defer func() {
			if r := recover(); r != nil {
				pipelineErr = fmt.Errorf("model: %v", r)
			}
		}()
		model := parser.MustTransformDSLToProto(pipelineModel)
		model.Id = "01HVMMBCMGZNT3SED4Z17ECXCA"
		pipelineTS, pipelineErr = typesystem.NewAndValidate(context.Background(), model)
	})
	return pipelineTS, pipelineErr
}

type pelem struct {
	elem
	X   string // tuple condition context: "" = none, else the value of x
	Cat category
}

func genPipelineElem(r *rand.Rand) pelem {
	obj := fmt.Sprintf("doc:%02d", r.Intn(6))
	usr := fmt.Sprintf("user:%d", r.Intn(4))
	switch category(r.Intn(4)) {
	case catValid:
		switch r.Intn(4) {
		case 0:
			return pelem{elem{obj, "viewer", usr, ""}, "", catValid}
		case 1:
			return pelem{elem{obj, "viewer", "user:*", ""}, "", catValid}
		case 2:
			return pelem{elem{obj, "viewer", fmt.Sprintf("group:%d#member", r.Intn(3)), ""}, "", catValid}
		}
		return pelem{elem{obj, "viewer", usr, "xlt10"}, fmt.Sprint(r.Intn(10)), catValid}
	case catInvalid:
		switch r.Intn(5) {
		case 0:
			return pelem{elem{fmt.Sprintf("folder:%d", r.Intn(3)), "viewer", usr, ""}, "", catInvalid}
		case 1:
			return pelem{elem{obj, "editor", usr, ""}, "", catInvalid}
		case 2:
			return pelem{elem{obj, "viewer", "employee:1", ""}, "", catInvalid}
		case 3:
			return pelem{elem{obj, "viewer", "group:1#owner", ""}, "", catInvalid}
		}
		return pelem{elem{obj, "viewer", "group:1#member", "xlt10"}, "3", catInvalid}
	case catCondFalse:
		return pelem{elem{obj, "viewer", usr, "xlt10"}, fmt.Sprint(10 + r.Intn(10)), catCondFalse}
	}
	return pelem{elem{obj, "viewer", usr, "xlt10"}, "", catCondError}
}

// MarshalJSON (the embedded elem's marshaller would otherwise hide X and Cat).
func (p pelem) MarshalJSON() ([]byte, error) {
	return []byte(fmt.Sprintf("%q", fmt.Sprintf("%s {x=%s} category=%d", p.elem.String(), p.X, p.Cat))), nil
}

func (p pelem) tuple() *openfgav1.Tuple {
	k := p.elem.key()
	if p.X != "" {
		var x float64
		fmt.Sscan(p.X, &x)
		k.Condition.Context = &structpb.Struct{Fields: map[string]*structpb.Value{"x": structpb.NewNumberValue(x)}}
	}
	return &openfgav1.Tuple{Key: k}
}

// pipelineRender includes the stored context value so that distinct generated tuples stay distinct.
func pipelineRender(k *openfgav1.TupleKey) string {
	if k == nil {
		return "<nil>"
	}
	s := renderKey(k)
	if f := k.GetCondition().GetContext().GetFields(); f != nil {
		if v, ok := f["x"]; ok {
			s += fmt.Sprintf("{x=%v}", v.GetNumberValue())
		}
	}
	return s
}

func casePipeline(cc *caseCtx) {
	ts, err := pipelineTypesystem()
	if err != nil {
		cc.c.HarnessError("cannot build the pipeline typesystem: %v", err)
		return
	}
	n := genLen(cc.r)
	ps := make([]pelem, n)
	// carry the pelem through the generic machinery: elem.String() must identify category and context
	base := make([]elem, n)
	for i := range ps {
		ps[i] = genPipelineElem(cc.r)
		base[i] = ps[i].elem
	}
	// Build parallel structures: scripts carry elem; conv maps back to the full pelem by index identity.
	// Since conv receives a prefix of base (truncation), index i of the prefix is ps[i].
	conv := func(es []elem) []*openfgav1.Tuple {
		out := make([]*openfgav1.Tuple, len(es))
		for i := range es {
			out[i] = ps[i].tuple()
		}
		return out
	}
	spec := func(s []script, errs []error) expectation {
		var seq []string
		sawErr := false
		for i := range s[0].Items {
			switch ps[i].Cat {
			case catValid:
				seq = append(seq, pipelineRender(ps[i].tuple().GetKey()))
			case catCondError:
				sawErr = true
			}
		}
		if s[0].Term != termDone {
			return exact(seq, s[0].Term, errs[0])
		}
		if len(seq) == 0 && sawErr {
			return exact(seq, termAnyErr, nil)
		}
		return exact(seq, termDone, nil)
	}
	for _, inj := range injectionsFor([][]elem{base}, nil) {
		runIter(cc, "pipeline", [][]elem{base}, nil, inj, conv,
			func(e *env, ins []*obs[*openfgav1.Tuple]) storage.Iterator[*openfgav1.TupleKey] {
				return storage.NewConditionsFilteredTupleKeyIterator(
					storage.NewFilteredTupleKeyIterator(
						storage.NewTupleKeyIteratorFromTupleIterator(ins[0]),
						validation.FilterInvalidTuples(ts),
					),
					checkutil.BuildTupleKeyConditionFilter(e.ctx, nil, ts),
				)
			}, pipelineRender, spec, map[string]any{"categories": ps})
	}
}
