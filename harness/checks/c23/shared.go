package c23

import (
	"context"
	"fmt"
	"math/rand"
	"runtime"
	"runtime/debug"
	"sync"
	"sync/atomic"
	"time"

	openfgav1 "github.com/openfga/api/proto/openfga/v1"

	"github.com/openfga/openfga/pkg/storage"
	"github.com/openfga/openfga/pkg/storage/storagewrappers/sharediterator"
	"github.com/openfga/openfga/verifharness/vk"
)

// ---- observing inner reader ------------------------------------------------------------------------

// srcIter is the iterator the fake datastore returns for one opened query.
type srcIter struct {
	mu        sync.Mutex
	key       string
	gen       int // index among the opens of this key
	items     []*openfgav1.Tuple
	term      termKind
	err       error
	pos       int
	stopped   bool
	nNext     int
	afterStop int
	jr        *rand.Rand
	jitterOne int // 1/jitterOne of the Next calls yields or sleeps
}

func (s *srcIter) Next(ctx context.Context) (*openfgav1.Tuple, error) {
	s.mu.Lock()
	defer s.mu.Unlock()
	s.nNext++
	if s.stopped {
		s.afterStop++
		return nil, storage.ErrIteratorDone
	}
	if ctx.Err() != nil {
		return nil, ctx.Err()
	}
	if s.jitterOne > 0 && s.jr.Intn(s.jitterOne) == 0 {
		if s.jr.Intn(2) == 0 {
			runtime.Gosched()
		} else {
			time.Sleep(time.Duration(s.jr.Intn(40)) * time.Microsecond)
		}
	}
	if s.pos >= len(s.items) {
		if s.term == termErr {
			return nil, s.err
		}
		return nil, storage.ErrIteratorDone
	}
	t := s.items[s.pos]
	s.pos++
	return t, nil
}

func (s *srcIter) Head(ctx context.Context) (*openfgav1.Tuple, error) {
	s.mu.Lock()
	defer s.mu.Unlock()
	if s.stopped {
		s.afterStop++
		return nil, storage.ErrIteratorDone
	}
	if ctx.Err() != nil {
		return nil, ctx.Err()
	}
	if s.pos >= len(s.items) {
		if s.term == termErr {
			return nil, s.err
		}
		return nil, storage.ErrIteratorDone
	}
	return s.items[s.pos], nil
}

func (s *srcIter) Stop() {
	s.mu.Lock()
	s.stopped = true
	s.mu.Unlock()
}

func (s *srcIter) IsOrdered() bool { return true }

func (s *srcIter) isStopped() bool {
	s.mu.Lock()
	defer s.mu.Unlock()
	return s.stopped
}

type queryPlan struct {
	Len      int      `json:"len"`
	Term     termKind `json:"term"`   // termDone or termErr (at position ErrAt)
	ErrAt    int      `json:"err_at"` // number of values before the error
	OpenErrs int      `json:"open_errs"`
	items    []*openfgav1.Tuple
	seq      []string
	err      error
}

// fakeReader is an in-memory storage.RelationshipTupleReader that serves one fixed sequence per
// query and records every open.
type fakeReader struct {
	storage.RelationshipTupleReader // unimplemented methods are never called by the code under test

	mu       sync.Mutex
	plans    map[string]*queryPlan
	opened   map[string][]*srcIter
	openErrs map[string]int // failed opens so far
	seed     int64
	jitter   int
}

var errOpen = &injectedErr{what: "datastore cannot open the query"}

func (f *fakeReader) open(key string) (storage.TupleIterator, error) {
	f.mu.Lock()
	defer f.mu.Unlock()
	p := f.plans[key]
	if p == nil {
		return nil, fmt.Errorf("fake reader: unknown query %q", key)
	}
	if f.openErrs[key] < p.OpenErrs {
		f.openErrs[key]++
		return nil, errOpen
	}
	n := len(p.items)
	if p.Term == termErr {
		n = p.ErrAt
	}
	it := &srcIter{key: key, gen: len(f.opened[key]), items: p.items[:n], term: p.Term, err: p.err,
		jr: rand.New(rand.NewSource(f.seed + int64(len(f.opened[key])))), jitterOne: f.jitter}
	f.opened[key] = append(f.opened[key], it)
	return it, nil
}

func (f *fakeReader) opens(key string) []*srcIter {
	f.mu.Lock()
	defer f.mu.Unlock()
	return append([]*srcIter(nil), f.opened[key]...)
}

func (f *fakeReader) Read(_ context.Context, store string, filter storage.ReadFilter, _ storage.ReadOptions) (storage.TupleIterator, error) {
	return f.open(fmt.Sprintf("read|%s|%s|%s|%s", store, filter.Object, filter.Relation, filter.User))
}

func (f *fakeReader) ReadUsersetTuples(_ context.Context, store string, filter storage.ReadUsersetTuplesFilter, _ storage.ReadUsersetTuplesOptions) (storage.TupleIterator, error) {
	return f.open(fmt.Sprintf("rut|%s|%s|%s", store, filter.Object, filter.Relation))
}

func (f *fakeReader) ReadStartingWithUser(_ context.Context, store string, filter storage.ReadStartingWithUserFilter, _ storage.ReadStartingWithUserOptions) (storage.TupleIterator, error) {
	u := ""
	for _, x := range filter.UserFilter {
		u += x.GetObject() + "#" + x.GetRelation() + ","
	}
	return f.open(fmt.Sprintf("rswu|%s|%s|%s|%s", store, filter.ObjectType, filter.Relation, u))
}

// ---- workload ------------------------------------------------------------------------------------

type cloneSpec struct {
	Key        int     `json:"key"`
	Pattern    pattern `json:"pattern"`
	StartAfter int     `json:"start_after"` // start once clone 0 obtained this many values (or finished)
}

type sharedConfig struct {
	Name      string        `json:"name"`
	Limit     int           `json:"limit"` // -1: default
	Admission time.Duration `json:"admission"`
	Idle      time.Duration `json:"idle"`
	Higher    bool          `json:"higher_consistency"`
}

type cloneResult struct {
	Spec     cloneSpec   `json:"spec"`
	OpenErr  string      `json:"open_err,omitempty"`
	Bypassed bool        `json:"bypassed"`
	Result   driveResult `json:"result"`
}

var sharedLens = []int{0, 1, 2, 7, 50, 99, 100, 101, 150, 200, 201, 330}

func runShared(c *vk.Ctx) {
	runs := c.Pick(1200, 14000)
	r := c.Rand("shared")
	observeLimitCounter(c)
	for i := 0; i < runs; i++ {
		oneSharedRun(c, r, i)
		if (i+1)%(runs/5) == 0 {
			c.Logf("shared iterator: %d/%d runs", i+1, runs)
		}
	}
}

// observeLimitCounter is an observation, not a judgement (the storage limit is not part of C23's
// statement): with limit 1, does a failed open of a query leave the storage counter incremented, so
// that afterwards nothing is shared any more? Reported as a counter in the evidence.
func observeLimitCounter(c *vk.Ctx) {
	defer func() { _ = recover() }()
	key := "read|obs|doc:0|viewer|"
	p := &queryPlan{Len: 3, OpenErrs: 1}
	for j := 0; j < 3; j++ {
		p.items = append(p.items, elem{Obj: fmt.Sprintf("doc:%d", j), Rel: "viewer", User: "user:1"}.tuple())
	}
	fr := &fakeReader{plans: map[string]*queryPlan{key: p}, opened: map[string][]*srcIter{}, openErrs: map[string]int{}}
	ds := sharediterator.NewSharedIteratorDatastore(fr,
		sharediterator.NewSharedIteratorDatastoreStorage(sharediterator.WithSharedIteratorDatastoreStorageLimit(1)),
		sharediterator.WithMaxAdmissionTime(time.Hour), sharediterator.WithMaxIdleTime(time.Hour))
	open := func() storage.TupleIterator {
		it, _ := ds.Read(context.Background(), "obs", storage.ReadFilter{Object: "doc:0", Relation: "viewer"}, storage.ReadOptions{})
		return it
	}
	if first := open(); first != nil {
		return // the injected open error did not surface; nothing to observe
	}
	// with the counter back at 0 the next request is admitted (a shared iterator); with the counter
	// left at 1 the storage looks full and the request is handed the inner iterator directly
	a := open()
	if a == nil {
		return
	}
	_, ba := a.(*srcIter)
	a.Stop()
	if ba {
		c.Count("obs_shared_limit_counter_stays_incremented_after_failed_open", 1)
	} else {
		c.Count("obs_shared_limit_counter_released_after_failed_open", 1)
	}
}

func oneSharedRun(c *vk.Ctx, r *rand.Rand, runIdx int) {
	method := r.Intn(3)
	configs := []sharedConfig{
		{Name: "shared", Limit: -1, Admission: time.Hour, Idle: time.Hour},
		{Name: "shared", Limit: 1000, Admission: time.Hour, Idle: time.Hour},
		{Name: "shared", Limit: -1, Admission: time.Hour, Idle: time.Hour},
		{Name: "limit0", Limit: 0, Admission: time.Hour, Idle: time.Hour},
		{Name: "higher", Limit: -1, Admission: time.Hour, Idle: time.Hour, Higher: true},
		{Name: "limit1", Limit: 1, Admission: time.Hour, Idle: time.Hour},
		{Name: "ttl", Limit: -1, Admission: time.Hour, Idle: []time.Duration{time.Microsecond, 200 * time.Microsecond, 2 * time.Millisecond}[r.Intn(3)]},
		{Name: "ttl", Limit: -1, Admission: []time.Duration{time.Microsecond, 300 * time.Microsecond, 3 * time.Millisecond}[r.Intn(3)], Idle: time.Hour},
	}
	cfg := configs[r.Intn(len(configs))]
	nKeys := 1 + r.Intn(2)
	if cfg.Name == "limit1" {
		nKeys = 2
	}
	store := fmt.Sprintf("store-%d", runIdx)
	fr := &fakeReader{plans: map[string]*queryPlan{}, opened: map[string][]*srcIter{}, openErrs: map[string]int{}, seed: r.Int63(), jitter: []int{0, 8, 40}[r.Intn(3)]}
	prefix := []string{"read", "rut", "rswu"}[method]
	keyNames := make([]string, nKeys)
	plans := make([]*queryPlan, nKeys)
	for k := 0; k < nKeys; k++ {
		p := &queryPlan{Len: sharedLens[r.Intn(len(sharedLens))]}
		for j := 0; j < p.Len; j++ {
			e := elem{Obj: fmt.Sprintf("doc:k%d-%04d", k, j), Rel: "viewer", User: fmt.Sprintf("user:%d", j%7)}
			p.items = append(p.items, e.tuple())
			p.seq = append(p.seq, e.String())
		}
		if r.Intn(3) == 0 {
			p.Term = termErr
			p.ErrAt = r.Intn(p.Len + 1)
			p.err = &injectedErr{what: fmt.Sprintf("datastore fails after %d tuples of query %d", p.ErrAt, k)}
		}
		if r.Intn(8) == 0 {
			p.OpenErrs = 1
		}
		plans[k] = p
		switch method {
		case 0:
			keyNames[k] = fmt.Sprintf("%s|%s|doc:%d|viewer|", prefix, store, k)
		case 1:
			keyNames[k] = fmt.Sprintf("%s|%s|doc:%d|viewer", prefix, store, k)
		default:
			keyNames[k] = fmt.Sprintf("%s|%s|doc|rel%d|user:1#,", prefix, store, k)
		}
		fr.plans[keyNames[k]] = p
	}

	var storageOpts []sharediterator.DatastoreStorageOpt
	if cfg.Limit >= 0 {
		storageOpts = append(storageOpts, sharediterator.WithSharedIteratorDatastoreStorageLimit(cfg.Limit))
	}
	ds := sharediterator.NewSharedIteratorDatastore(fr, sharediterator.NewSharedIteratorDatastoreStorage(storageOpts...),
		sharediterator.WithMaxAdmissionTime(cfg.Admission), sharediterator.WithMaxIdleTime(cfg.Idle), sharediterator.WithMethod("check"))

	pref := openfgav1.ConsistencyPreference_UNSPECIFIED
	if cfg.Higher {
		pref = openfgav1.ConsistencyPreference_HIGHER_CONSISTENCY
	} else if r.Intn(2) == 0 {
		pref = openfgav1.ConsistencyPreference_MINIMIZE_LATENCY
	}
	openQuery := func(ctx context.Context, k int) (storage.TupleIterator, error) {
		cons := storage.ConsistencyOptions{Preference: pref}
		switch method {
		case 0:
			return ds.Read(ctx, store, storage.ReadFilter{Object: fmt.Sprintf("doc:%d", k), Relation: "viewer"}, storage.ReadOptions{Consistency: cons})
		case 1:
			return ds.ReadUsersetTuples(ctx, store, storage.ReadUsersetTuplesFilter{Object: fmt.Sprintf("doc:%d", k), Relation: "viewer"}, storage.ReadUsersetTuplesOptions{Consistency: cons})
		}
		return ds.ReadStartingWithUser(ctx, store, storage.ReadStartingWithUserFilter{ObjectType: "doc", Relation: fmt.Sprintf("rel%d", k),
			UserFilter: []*openfgav1.ObjectRelation{{Object: "user:1"}}}, storage.ReadStartingWithUserOptions{Consistency: cons})
	}

	nClones := 2 + r.Intn(5)
	specs := make([]cloneSpec, nClones)
	for j := range specs {
		p := plans[0]
		specs[j].Key = r.Intn(nKeys)
		if j == 0 {
			specs[j].Key = 0
		}
		pat := pattern{HeadPct: []int{0, 0, 25, 50}[r.Intn(4)], Seed: r.Int63(), StopAfter: -1}
		switch r.Intn(5) {
		case 0:
			pat.StopAfter = r.Intn(2*plans[specs[j].Key].Len + 3)
		case 1:
			pat.CancelAfter = 1 + r.Intn(2*plans[specs[j].Key].Len+3)
		}
		specs[j].Pattern = pat
		if j > 0 && r.Intn(2) == 0 {
			specs[j].StartAfter = r.Intn(p.Len + 1)
		}
	}

	var progress0 atomic.Int64
	var done0 atomic.Bool
	results := make([]cloneResult, nClones)
	var wg sync.WaitGroup
	for j := range specs {
		wg.Add(1)
		go func(j int) {
			defer wg.Done()
			sp := specs[j]
			results[j].Spec = sp
			defer func() {
				if p := recover(); p != nil {
					results[j].Result.Fail = fmt.Sprintf("panic escaped from the shared iterator datastore: %v", p)
					results[j].Result.Panic = fmt.Sprintf("%v\n%s", p, debug.Stack())
				}
			}()
			if j == 0 {
				defer done0.Store(true)
			}
			for sp.StartAfter > 0 && progress0.Load() < int64(sp.StartAfter) && !done0.Load() {
				runtime.Gosched()
			}
			jr := rand.New(rand.NewSource(sp.Pattern.Seed ^ 0x5eed))
			ctx, cancel := context.WithCancel(context.Background())
			defer cancel()
			it, err := openQuery(ctx, sp.Key)
			if err != nil {
				results[j].OpenErr = err.Error()
				return
			}
			_, results[j].Bypassed = it.(*srcIter)
			p := plans[sp.Key]
			exp := exact(p.seq, termDone, nil)
			if p.Term == termErr {
				exp = exact(p.seq[:p.ErrAt], termErr, p.err)
			}
			hooks := &driveHooks{cancel: cancel, yield: func() {
				if jr.Intn(12) == 0 {
					jitter(jr)
				}
			}}
			if j == 0 {
				hooks.progress = func(pos int) { progress0.Store(int64(pos)) }
			}
			res := driveAndCheck(ctx, it, renderTuple, exp, sp.Pattern, hooks)
			if len(res.Steps) > 24 { // keep witnesses readable: first and last operations
				res.Steps = append(append([]step{}, res.Steps[:8]...), append([]step{{Op: fmt.Sprintf("... %d operations ...", len(res.Steps)-20)}}, res.Steps[len(res.Steps)-12:]...)...)
			}
			results[j].Result = res
		}(j)
	}
	wg.Wait()

	// ---- oracle over the recorded history ----
	fail, class := "", "sequence"
	requests := make([]int, nKeys)
	openFailures := make([]int, nKeys)
	bypassed := 0
	ops, yielded := 0, 0
	for j, cr := range results {
		requests[cr.Spec.Key]++
		ops += cr.Result.NOps
		yielded += cr.Result.Yielded
		if cr.Bypassed {
			bypassed++
		}
		if cr.OpenErr != "" {
			openFailures[cr.Spec.Key]++
			if plans[cr.Spec.Key].OpenErrs == 0 || cr.OpenErr != errOpen.Error() {
				fail = fmt.Sprintf("clone %d: opening the query failed with %q although the datastore opened it", j, cr.OpenErr)
			}
			continue
		}
		if cr.Result.Fail != "" && fail == "" {
			fail = fmt.Sprintf("clone %d of %d (query %d, %d tuples): %s", j, nClones, cr.Spec.Key, plans[cr.Spec.Key].Len, cr.Result.Fail)
			if cr.Result.Panic != "" {
				class = "panic"
			}
		}
	}
	opensTotal := 0
	afterStop := 0
	for k := 0; k < nKeys && fail == ""; k++ {
		ops := fr.opens(keyNames[k])
		opensTotal += len(ops)
		for _, it := range ops {
			afterStop += it.afterStop
		}
		served := requests[k] - openFailures[k]
		switch cfg.Name {
		case "shared":
			// one sharing group per query: the inner query is opened once for all of them
			if served > 0 && len(ops) != 1 {
				fail, class = fmt.Sprintf("query %d was opened %d times on the inner datastore for %d concurrent requests sharing it (limit not reached, no expiry)", k, len(ops), served), "open-count"
			}
		case "limit0", "higher":
			if len(ops) != served {
				fail, class = fmt.Sprintf("query %d: %d requests that bypass the shared iterator opened %d inner iterators", k, served, len(ops)), "open-count"
			}
			for _, it := range ops {
				if !it.isStopped() {
					fail, class = fmt.Sprintf("query %d: an inner iterator handed out directly was stopped by its consumer but is still open", k), "stop-propagation"
				}
			}
		default:
			// with a tiny admission/idle time one request may open the query twice: once for a shared
			// iterator that expires before it can be cloned, once more directly
			max := served
			if cfg.Name == "ttl" {
				max = 2 * served
			}
			if len(ops) > max || (served > 0 && len(ops) == 0) {
				fail, class = fmt.Sprintf("query %d: %d inner opens for %d served requests", k, len(ops), served), "open-count"
			}
		}
	}
	if (cfg.Name == "limit0" || cfg.Name == "higher") && fail == "" && bypassed != nClones-sum(openFailures) {
		fail, class = fmt.Sprintf("%d of %d requests were served by the inner datastore directly; all of them must bypass sharing in configuration %s", bypassed, nClones, cfg.Name), "open-count"
	}

	// expiry: once a new inner open for the same query is observed, the timers of all previous
	// generations have run (a generation is only replaced after its shared iterator was stopped), and
	// every clone was stopped above: the previous inner iterators must all be stopped now.
	reopen := false
	if cfg.Name == "ttl" && fail == "" {
		k := 0
		if requests[k]-openFailures[k] > 0 {
			ttl := cfg.Idle
			if cfg.Admission < ttl {
				ttl = cfg.Admission
			}
			for try := 0; try < 400 && !reopen; try++ {
				before := len(fr.opens(keyNames[k]))
				it, err := openQuery(context.Background(), k)
				if err != nil {
					break
				}
				after := fr.opens(keyNames[k])
				if len(after) > before {
					reopen = true
					for _, old := range after[:before] {
						if !old.isStopped() {
							fail, class = fmt.Sprintf("inner iterator #%d of query %d is still open although its shared iterator expired and all %d clones were stopped", old.gen, k, requests[k]), "leak"
						}
					}
				}
				it.Stop()
				if !reopen {
					time.Sleep(2*ttl + 500*time.Microsecond) // longer than the idle time, which every request restarts
				}
			}
			if !reopen {
				inconclusive(c, "shared/ttl: expiry of the shared iterator not observed within the probe bound")
			} else {
				c.Count("shared_ttl_expiry_observed", 1)
			}
		}
	}

	anyErr, anyStop, anyCancel, late := false, false, false, false
	for _, sp := range specs {
		anyStop = anyStop || sp.Pattern.StopAfter >= 0
		anyCancel = anyCancel || sp.Pattern.CancelAfter > 0
		late = late || sp.StartAfter > 0
	}
	for _, p := range plans {
		anyErr = anyErr || p.Term == termErr
	}
	c.Count("shared_clones", nClones)
	c.Count("shared_clone_ops", ops)
	c.Count("shared_values_checked", yielded)
	c.Count("shared_inner_opens", opensTotal)
	c.Count("shared_bypassed_requests", bypassed)
	c.Count("shared_open_failures", sum(openFailures))
	if afterStop > 0 {
		c.Count("obs_inner_used_after_stop/shared", afterStop)
	}
	c.Seen("shared_open_ratio", fmt.Sprintf("%s:%d/%d", cfg.Name, opensTotal, nClones))
	sig := fmt.Sprintf("cfg=%s|m=%s|keys=%d|clones=%d|len=%s|err=%v|stop=%v|cancel=%v|late=%v|bypass=%v|openerr=%v",
		cfg.Name, prefix, nKeys, nClones, lenBucket2(plans[0].Len), anyErr, anyStop, anyCancel, late, bypassed > 0, sum(openFailures) > 0)
	witness := map[string]any{"config": cfg, "method": prefix, "plans": plans, "clones": results, "inner_opens": opensTotal, "reader_jitter": fr.jitter}
	reportCase(c, "shared", class, sig, true, fail, witness, runIdx%400 == 7)
}

func sum(xs []int) int {
	t := 0
	for _, x := range xs {
		t += x
	}
	return t
}

func lenBucket2(n int) string {
	switch {
	case n <= 2:
		return fmt.Sprint(n)
	case n < 100:
		return "<100"
	case n == 100:
		return "100"
	case n <= 200:
		return "101-200"
	}
	return ">200"
}
