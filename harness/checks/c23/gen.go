package c23

import (
	"fmt"
	"hash/fnv"
	"math/rand"
	"sort"
)

var lenChoices = []int{0, 0, 1, 1, 2, 2, 3, 4, 5, 6, 8, 10, 12}

var userChoices = []string{"user:0", "user:1", "user:2", "user:*", "group:0#member", "group:1#member", "group:2#owner", "employee:*"}

func genElem(r *rand.Rand, nObj int) elem {
	e := elem{
		Obj:  fmt.Sprintf("doc:%02d", r.Intn(nObj)),
		Rel:  []string{"viewer", "viewer", "editor"}[r.Intn(3)],
		User: userChoices[r.Intn(len(userChoices))],
	}
	if r.Intn(4) == 0 {
		e.Cond = []string{"c1", "c2"}[r.Intn(2)]
	}
	return e
}

// genList: n random elements over a small domain (duplicates are likely).
func genList(r *rand.Rand, n int) []elem {
	out := make([]elem, n)
	nObj := 1 + r.Intn(8)
	for i := range out {
		out[i] = genElem(r, nObj)
	}
	return out
}

func genLen(r *rand.Rand) int { return lenChoices[r.Intn(len(lenChoices))] }

// genSorted: n random elements in non-descending order of key (duplicates allowed).
func genSorted(r *rand.Rand, n int, key func(elem) string) []elem {
	out := genList(r, n)
	sort.SliceStable(out, func(i, j int) bool { return key(out[i]) < key(out[j]) })
	return out
}

// genStrict: n elements with strictly increasing objects.
func genStrict(r *rand.Rand, n int) []elem {
	perm := r.Perm(16)[:n]
	sort.Ints(perm)
	out := make([]elem, n)
	for i, p := range perm {
		out[i] = genElem(r, 1)
		out[i].Obj = fmt.Sprintf("doc:%02d", p)
	}
	return out
}

func objKey(e elem) string  { return e.Obj }
func userKey(e elem) string { return e.User }

// injection: the terminal event put at position Pos of input Input (None: inputs end normally).
type injection struct {
	None  bool     `json:"none,omitempty"`
	Input int      `json:"input"`
	Pos   int      `json:"pos"`
	Kind  termKind `json:"kind"`
}

// injectionsFor enumerates: no injection, and {early Done, error, cancellation} at every position
// 0..len of every non-nil input.
func injectionsFor(ins [][]elem, nils []bool) []injection {
	out := []injection{{None: true}}
	for i, in := range ins {
		if nils != nil && nils[i] {
			continue
		}
		for p := 0; p <= len(in); p++ {
			for _, k := range []termKind{termDone, termErr, termCancel} {
				if k == termDone && p == len(in) {
					continue
				}
				out = append(out, injection{Input: i, Pos: p, Kind: k})
			}
		}
	}
	return out
}

func applyInjection(ins [][]elem, nils []bool, inj injection) []script {
	out := make([]script, len(ins))
	for i, in := range ins {
		out[i] = script{Items: in, Term: termDone}
		if nils != nil && nils[i] {
			out[i] = script{Nil: true}
			continue
		}
		if !inj.None && inj.Input == i {
			out[i] = script{Items: in[:inj.Pos], Term: inj.Kind}
		}
	}
	return out
}

// verdictFn: a deterministic verdict per element *value* (filters only see the value).
func verdictFn(seed int64, pctReject, pctErr int) func(elem) verdict {
	return func(e elem) verdict {
		h := fnv.New64a()
		fmt.Fprintf(h, "%d|%s", seed, e.String())
		v := int(h.Sum64() % 100)
		switch {
		case v < pctReject:
			return vReject
		case v < pctReject+pctErr:
			return vError
		}
		return vPass
	}
}

func hashPick(seed int64, e elem, n int) int {
	h := fnv.New64a()
	fmt.Fprintf(h, "pick|%d|%s", seed, e.String())
	return int(h.Sum64() % uint64(n))
}

func filterErrOf(e elem) error { return &injectedErr{what: "filter fails on " + e.String()} }

func lenBucket(n int) string {
	switch {
	case n == 0:
		return "0"
	case n == 1:
		return "1"
	case n <= 4:
		return "2-4"
	case n <= 12:
		return "5-12"
	}
	return ">12"
}

func posClass(pos, n int) string {
	switch {
	case pos == 0:
		return "first"
	case pos == n:
		return "end"
	}
	return "mid"
}
