package c23

import (
	"context"
	"errors"
	"fmt"
	"math/rand"
	"strings"
	"sync"

	openfgav1 "github.com/openfga/api/proto/openfga/v1"

	"github.com/openfga/openfga/internal/check"
	"github.com/openfga/openfga/internal/iterator"
	"github.com/openfga/openfga/pkg/storage"
	"github.com/openfga/openfga/verifharness/vk"
)

type caseCtx struct {
	c *vk.Ctx
	r *rand.Rand
}

func (cc *caseCtx) pattern() pattern {
	p := pattern{HeadPct: []int{0, 0, 30, 60}[cc.r.Intn(4)], Seed: cc.r.Int63(), StopAfter: -1}
	if cc.r.Intn(5) == 0 {
		p.StopAfter = cc.r.Intn(14)
	}
	return p
}

// asIters converts observing fakes to the interface slice (nil fakes become nil interfaces).
func asIters[T any](ins []*obs[T]) []storage.Iterator[T] {
	out := make([]storage.Iterator[T], len(ins))
	for i, in := range ins {
		if in != nil {
			out[i] = in
		}
	}
	return out
}

// runIter executes one case of an iterator-shaped adapter: builds the observing inputs, computes the
// expectation from the pure specification, drives the adapter and judges.
func runIter[In, Out any](
	cc *caseCtx, adapter string, base [][]elem, nils []bool, inj injection,
	conv func([]elem) []In,
	mk func(e *env, ins []*obs[In]) storage.Iterator[Out],
	render func(Out) string,
	spec func(scripts []script, errs []error) expectation,
	params map[string]any,
) {
	runIterOpt(cc, adapter, base, nils, inj, conv, mk, render, spec, params, false)
}

// runIterOpt: asyncStop = the adapter stops (some of) its inner iterators from a background goroutine.
func runIterOpt[In, Out any](
	cc *caseCtx, adapter string, base [][]elem, nils []bool, inj injection,
	conv func([]elem) []In,
	mk func(e *env, ins []*obs[In]) storage.Iterator[Out],
	render func(Out) string,
	spec func(scripts []script, errs []error) expectation,
	params map[string]any, asyncStop bool,
) {
	c := cc.c
	scripts := applyInjection(base, nils, inj)
	e := newEnv()
	defer e.cancel()
	ins := make([]*obs[In], len(scripts))
	errs := make([]error, len(scripts))
	total := 0
	for i, s := range scripts {
		if s.Nil {
			continue
		}
		ins[i] = mkObs(e, i, s, conv)
		errs[i] = ins[i].err
		total += len(s.Items)
	}
	exp := spec(scripts, errs)
	pat := cc.pattern()

	var it storage.Iterator[Out]
	var res driveResult
	func() {
		defer func() {
			if r := recover(); r != nil {
				res.Fail = fmt.Sprintf("panic while constructing the adapter: %v", r)
				res.Panic = res.Fail
			}
		}()
		it = mk(e, ins)
	}()
	if res.Fail == "" {
		res = driveAndCheck(e.ctx, it, render, exp, pat, nil)
	}
	class := "sequence"
	if res.Panic != "" {
		class = "panic"
	}
	if res.Fail == "" && asyncStop {
		if msg := checkReceivedStopped(ins); msg != "" {
			res.Fail = msg
			class = "stop-propagation"
		} else if !waitStopped(ins) {
			inconclusive(c, adapter+": inner iterators still queued in the channel were not stopped within the wait bound")
		}
	} else if res.Fail == "" {
		if msg := checkStopped(ins); msg != "" {
			res.Fail = msg
			class = "stop-propagation"
		}
	}

	// observations (never judged): inner iterators used after they were stopped, Next after Stop
	after := 0
	for _, in := range ins {
		if in != nil {
			_, _, _, a, _ := in.stats()
			after += a
		}
	}
	if res.Fail == "" && it != nil {
		func() {
			defer func() { _ = recover() }()
			if _, err := it.Next(e.ctx); !errors.Is(err, storage.ErrIteratorDone) && !errors.Is(err, context.Canceled) {
				c.Count("obs_next_after_stop_not_done/"+adapter, 1)
			}
		}()
	}
	if after > 0 {
		c.Count("obs_inner_used_after_stop/"+adapter, after)
	}

	injSig := "none"
	if !inj.None {
		injSig = fmt.Sprintf("%s@%s/in%s", inj.Kind, posClass(inj.Pos, len(base[inj.Input])), map[bool]string{true: "0", false: "k"}[inj.Input == 0])
	}
	if len(exp.Seq) > total {
		total = len(exp.Seq)
	}
	sig := fmt.Sprintf("%s|n=%d|len=%s|inj=%s|head=%d|early=%v|term=%s|y=%s", adapter, len(base), lenBucket(total), injSig, pat.HeadPct, pat.StopAfter >= 0, res.Terminal, lenBucket(res.Yielded))
	c.Case(sig, total > 0 || !inj.None)
	c.Count("cases/"+adapter, 1)
	c.Count("ops_total", res.NOps)
	c.Count("ops_head", res.Heads)
	if res.Terminal != "" {
		c.Count("terminal_"+res.Terminal, 1)
	}
	if !inj.None {
		c.Count("injected_"+inj.Kind.String(), 1)
	}
	witness := map[string]any{
		"adapter": adapter, "inputs": scripts, "injection": inj, "params": params,
		"pattern": pat, "expected": exp, "observed": res,
	}
	if res.Fail != "" {
		c.Violation("c23-"+adapter+"-"+class, adapter+"|"+class+"|"+firstWords(res.Fail, 6),
			fmt.Sprintf("%s: %s", adapter, res.Fail), witness)
		return
	}
	if cc.r.Intn(4000) == 0 {
		c.Sample(witness)
	}
}

func firstWords(s string, n int) string {
	f := strings.Fields(s)
	if len(f) > n {
		f = f[:n]
	}
	return strings.Join(f, " ")
}

func genInputs(r *rand.Rand, n int, gen func(*rand.Rand, int) []elem) [][]elem {
	out := make([][]elem, n)
	for i := range out {
		out[i] = gen(r, genLen(r))
	}
	return out
}

func genNils(r *rand.Rand, n int) []bool {
	out := make([]bool, n)
	for i := range out {
		out[i] = r.Intn(8) == 0
	}
	return out
}

func identity[T any](x T) T { return x }

// runAdapters drives every iterator-shaped adapter of pkg/storage and internal/iterator.
func runAdapters(c *vk.Ctx) {
	bases := c.Pick(60, 1200)

	type adapterRun struct {
		name string
		fn   func(cc *caseCtx)
	}
	runs := []adapterRun{
		{"static", caseStatic},
		{"combined", caseCombined},
		{"tuplekey", caseTupleKey},
		{"filtered_tuplekey", caseFilteredTupleKey},
		{"conditions_filtered", caseConditionsFiltered},
		{"ordered_combined", caseOrderedCombined},
		{"mapper", caseMappers},
		{"concat", caseConcat},
		{"filter", caseFilter},
		{"filter_chain", caseFilterChain},
		{"merge", caseMerge},
		{"merge_nodedup", caseMergeNoDedup},
		{"validate", caseValidate},
		{"error", caseError},
		{"pipeline", casePipeline},
	}
	for _, ar := range runs {
		cc := &caseCtx{c: c, r: c.Rand("adapter/" + ar.name)}
		for b := 0; b < bases; b++ {
			ar.fn(cc)
		}
		c.Logf("adapter %-20s done: %d cases", ar.name, c.Counter("cases/"+ar.name)+c.Counter("cases/"+ar.name+"_userset")+c.Counter("cases/"+ar.name+"_ttu"))
	}
}

// ---- pkg/storage -------------------------------------------------------------------------------

// static iterators: "returns a TupleIterator that iterates over the provided slice".
func caseStatic(cc *caseCtx) {
	list := genList(cc.r, genLen(cc.r))
	spec := func([]script, []error) expectation { return exact(stringsOf(list), termDone, nil) }
	switch cc.r.Intn(3) {
	case 0:
		runIter(cc, "static", [][]elem{list}, []bool{true}, injection{None: true}, tuplesOf,
			func(*env, []*obs[*openfgav1.Tuple]) storage.Iterator[*openfgav1.Tuple] {
				return storage.NewStaticTupleIterator(tuplesOf(list))
			}, renderTuple, spec, map[string]any{"ctor": "NewStaticTupleIterator"})
	case 1:
		runIter(cc, "static", [][]elem{list}, []bool{true}, injection{None: true}, keysOf,
			func(*env, []*obs[*openfgav1.TupleKey]) storage.Iterator[*openfgav1.TupleKey] {
				return storage.NewStaticTupleKeyIterator(keysOf(list))
			}, renderKey, spec, map[string]any{"ctor": "NewStaticTupleKeyIterator"})
	default:
		runIter(cc, "static", [][]elem{list}, []bool{true}, injection{None: true}, stringsOf,
			func(*env, []*obs[string]) storage.Iterator[string] {
				return storage.NewStaticIterator(stringsOf(list))
			}, renderString, spec, map[string]any{"ctor": "NewStaticIterator"})
	}
}

// NewCombinedIterator: "yields all the values from all iterators. Duplicates can be returned."
func caseCombined(cc *caseCtx) {
	n := cc.r.Intn(5)
	base := genInputs(cc.r, n, genList)
	nils := genNils(cc.r, n)
	for _, inj := range injectionsFor(base, nils) {
		runIter(cc, "combined", base, nils, inj, tuplesOf,
			func(_ *env, ins []*obs[*openfgav1.Tuple]) storage.Iterator[*openfgav1.Tuple] {
				return storage.NewCombinedIterator(asIters(ins)...)
			}, renderTuple, specSequential, nil)
	}
}

// NewTupleKeyIteratorFromTupleIterator: "yields all the TupleKeys from it".
func caseTupleKey(cc *caseCtx) {
	base := genInputs(cc.r, 1, genList)
	for _, inj := range injectionsFor(base, nil) {
		runIter(cc, "tuplekey", base, nil, inj, tuplesOf,
			func(_ *env, ins []*obs[*openfgav1.Tuple]) storage.Iterator[*openfgav1.TupleKey] {
				return storage.NewTupleKeyIteratorFromTupleIterator(ins[0])
			}, renderKey, specSequential, nil)
	}
}

// NewFilteredTupleKeyIterator: "filters out all tuples that don't meet the conditions of the filter".
func caseFilteredTupleKey(cc *caseCtx) {
	base := genInputs(cc.r, 1, genList)
	vf := verdictFn(cc.r.Int63(), []int{0, 30, 60, 100}[cc.r.Intn(4)], 0)
	keep := func(e elem) bool { return vf(e) == vPass }
	for _, inj := range injectionsFor(base, nil) {
		runIter(cc, "filtered_tuplekey", base, nil, inj, keysOf,
			func(_ *env, ins []*obs[*openfgav1.TupleKey]) storage.Iterator[*openfgav1.TupleKey] {
				return storage.NewFilteredTupleKeyIterator(ins[0], func(k *openfgav1.TupleKey) bool {
					return keep(elemOfKey(k))
				})
			}, renderKey,
			func(s []script, errs []error) expectation { return specFilter(s[0], errs[0], keep) }, nil)
	}
}

func elemOfKey(k *openfgav1.TupleKey) elem {
	return elem{k.GetObject(), k.GetRelation(), k.GetUser(), k.GetCondition().GetName()}
}

// NewConditionsFilteredTupleKeyIterator: errors are treated as false; if none of the tuples are valid
// and there are errors, the last error is returned.
func caseConditionsFiltered(cc *caseCtx) {
	base := genInputs(cc.r, 1, genList)
	mix := [][2]int{{0, 0}, {30, 30}, {50, 50}, {0, 100}, {60, 20}, {20, 60}}[cc.r.Intn(6)]
	vf := verdictFn(cc.r.Int63(), mix[0], mix[1])
	for _, inj := range injectionsFor(base, nil) {
		runIter(cc, "conditions_filtered", base, nil, inj, keysOf,
			func(_ *env, ins []*obs[*openfgav1.TupleKey]) storage.Iterator[*openfgav1.TupleKey] {
				return storage.NewConditionsFilteredTupleKeyIterator(ins[0], func(k *openfgav1.TupleKey) (bool, error) {
					e := elemOfKey(k)
					switch vf(e) {
					case vPass:
						return true, nil
					case vReject:
						return false, nil
					}
					return false, filterErrOf(e)
				})
			}, renderKey,
			func(s []script, errs []error) expectation { return specLastError(s[0], errs[0], vf, filterErrOf) },
			map[string]any{"pct_reject": mix[0], "pct_err": mix[1]})
	}
}

// NewOrderedCombinedIterator: sorted inputs, sorted output, each mapper value once.
func caseOrderedCombined(cc *caseCtx) {
	n := cc.r.Intn(5)
	byUser := cc.r.Intn(2) == 0
	keyOf, mapper, mname := objKey, storage.ObjectMapper(), "ObjectMapper"
	if byUser {
		keyOf, mapper, mname = userKey, storage.UserMapper(), "UserMapper"
	}
	base := genInputs(cc.r, n, func(r *rand.Rand, l int) []elem { return genSorted(r, l, keyOf) })
	nils := genNils(cc.r, n)
	member := map[string]bool{}
	for _, in := range base {
		for _, e := range in {
			member[e.String()] = true
		}
	}
	for _, inj := range injectionsFor(base, nils) {
		foreign := ""
		runIter(cc, "ordered_combined", base, nils, inj, tuplesOf,
			func(_ *env, ins []*obs[*openfgav1.Tuple]) storage.Iterator[*openfgav1.Tuple] {
				return storage.NewOrderedCombinedIterator(mapper, asIters(ins)...)
			},
			func(t *openfgav1.Tuple) string {
				if t == nil {
					return "<nil>"
				}
				if !member[renderTuple(t)] {
					foreign = renderTuple(t)
					return "<not an input tuple: " + foreign + ">"
				}
				return keyOf(elemOfKey(t.GetKey()))
			},
			func(s []script, errs []error) expectation { return specOrderedMerge(s, errs, keyOf, true) },
			map[string]any{"mapper": mname})
	}
}

// WrapIterator(kind, iter): UsersetKind / TTUKind / ObjectIDKind mappers.
func caseMappers(cc *caseCtx) {
	base := genInputs(cc.r, 1, genList)
	kinds := []struct {
		name string
		kind storage.TupleMapperKind
		f    func(elem) (string, bool)
	}{
		{"mapper_userset", storage.UsersetKind, func(e elem) (string, bool) { return specUserset(e.User) }},
		{"mapper_ttu", storage.TTUKind, func(e elem) (string, bool) { return e.User, true }},
		{"mapper_objectid", storage.ObjectIDKind, func(e elem) (string, bool) { return e.Obj, true }},
	}
	k := kinds[cc.r.Intn(len(kinds))]
	if k.kind == storage.UsersetKind && cc.r.Intn(3) > 0 {
		// mostly well-formed input (usersets and wildcards only), as ReadUsersetTuples produces
		for _, in := range base {
			for i := range in {
				if _, ok := specUserset(in[i].User); !ok {
					in[i].User = "group:" + in[i].User[len(in[i].User)-1:] + "#member"
				}
			}
		}
	}
	spec := func(s []script, errs []error) expectation {
		var seq []string
		for _, e := range s[0].Items {
			v, ok := k.f(e)
			if !ok {
				return exact(seq, termAnyErr, nil)
			}
			seq = append(seq, v)
		}
		return exact(seq, s[0].Term, errs[0])
	}
	for _, inj := range injectionsFor(base, nil) {
		runIter(cc, k.name, base, nil, inj, keysOf,
			func(_ *env, ins []*obs[*openfgav1.TupleKey]) storage.Iterator[string] {
				return storage.WrapIterator(k.kind, ins[0])
			}, renderString, spec, nil)
	}
}

// ---- internal/iterator -----------------------------------------------------------------------------

// Concat: "first yields all items from iter1, then all items from iter2". Head is not supported.
func caseConcat(cc *caseCtx) {
	base := genInputs(cc.r, 2, genList)
	for _, inj := range injectionsFor(base, nil) {
		runIter(cc, "concat", base, nil, inj, keysOf,
			func(_ *env, ins []*obs[*openfgav1.TupleKey]) storage.Iterator[*openfgav1.TupleKey] {
				return iterator.Concat[*openfgav1.TupleKey](ins[0], ins[1])
			}, renderKey,
			func(s []script, errs []error) expectation {
				e := specSequential(s, errs)
				e.NoHead = true
				return e
			}, nil)
	}
}

// NewFilteredIterator: "Next returns the next tuple that passes all filter functions. If none of the
// tuples are valid AND there are errors, returns the last error." Head is not supported.
func caseFilter(cc *caseCtx) {
	base := genInputs(cc.r, 1, genList)
	nFilters := cc.r.Intn(4)
	mix := [][2]int{{0, 0}, {30, 30}, {50, 50}, {0, 100}, {60, 20}, {20, 60}}[cc.r.Intn(6)]
	seed := cc.r.Int63()
	vf := verdictFn(seed, mix[0], mix[1])
	if nFilters == 0 {
		vf = func(elem) verdict { return vPass }
	}
	// Each element has one overall verdict; exactly one filter (chosen per element) produces it and all
	// the others accept, so the conjunction is the same whatever the evaluation order.
	filters := make([]iterator.FilterFunc[*openfgav1.TupleKey], nFilters)
	for j := range filters {
		filters[j] = func(k *openfgav1.TupleKey) (bool, error) {
			e := elemOfKey(k)
			if hashPick(seed, e, nFilters) != j {
				return true, nil
			}
			switch vf(e) {
			case vReject:
				return false, nil
			case vError:
				return false, filterErrOf(e)
			}
			return true, nil
		}
	}
	for _, inj := range injectionsFor(base, nil) {
		runIter(cc, "filter", base, nil, inj, keysOf,
			func(_ *env, ins []*obs[*openfgav1.TupleKey]) storage.Iterator[*openfgav1.TupleKey] {
				return iterator.NewFilteredIterator[*openfgav1.TupleKey](ins[0], filters...)
			}, renderKey,
			func(s []script, errs []error) expectation {
				e := specLastError(s[0], errs[0], vf, filterErrOf)
				e.NoHead = nFilters > 0 // without filters the input itself is returned
				return e
			}, map[string]any{"filters": nFilters, "pct_reject": mix[0], "pct_err": mix[1]})
	}
}

// NewFilteredIterator with the chain shapes the check engine composes (internal/check: a stateful
// de-duplication filter, check.BuildUniqueTupleKeyFilter, next to stateless and fallible filters). The
// conjunction "as the chain defines it": filters are consulted left to right and a filter is consulted
// only for entries every earlier filter accepted — so a stateful filter records only entries that
// reached it, and a fallible filter cannot fail on an entry an earlier filter already rejected.
func caseFilterChain(cc *caseCtx) {
	base := genInputs(cc.r, 1, genList)
	orders := [][]string{{"reject", "unique", "fallible"}, {"unique", "fallible"}, {"fallible", "unique"}, {"reject", "unique"}, {"reject", "fallible"}, {"unique", "reject", "fallible"}}
	order := orders[cc.r.Intn(len(orders))]
	mixR := []int{20, 40, 70}[cc.r.Intn(3)]
	mixF := [][2]int{{30, 30}, {0, 60}, {50, 50}, {20, 0}}[cc.r.Intn(4)]
	rej := verdictFn(cc.r.Int63(), mixR, 0)
	fal := verdictFn(cc.r.Int63(), mixF[0], mixF[1])
	byObject := cc.r.Intn(2) == 0
	keyOf := func(e elem) string {
		if byObject {
			return e.Obj
		}
		return e.Obj + "#" + e.Rel + "@" + e.User
	}
	for _, inj := range injectionsFor(base, nil) {
		runIter(cc, "filter_chain", base, nil, inj, keysOf,
			func(_ *env, ins []*obs[*openfgav1.TupleKey]) storage.Iterator[*openfgav1.TupleKey] {
				visited := &sync.Map{}
				var filters []iterator.FilterFunc[*openfgav1.TupleKey]
				for _, kind := range order {
					switch kind {
					case "reject":
						filters = append(filters, func(k *openfgav1.TupleKey) (bool, error) { return rej(elemOfKey(k)) == vPass, nil })
					case "unique":
						filters = append(filters, check.BuildUniqueTupleKeyFilter(visited, func(k *openfgav1.TupleKey) string { return keyOf(elemOfKey(k)) }))
					case "fallible":
						filters = append(filters, func(k *openfgav1.TupleKey) (bool, error) {
							e := elemOfKey(k)
							switch fal(e) {
							case vPass:
								return true, nil
							case vReject:
								return false, nil
							}
							return false, filterErrOf(e)
						})
					}
				}
				return iterator.NewFilteredIterator[*openfgav1.TupleKey](ins[0], filters...)
			}, renderKey,
			func(s []script, errs []error) expectation {
				seen := map[string]bool{}
				var seq []string
				var last error
			items:
				for _, e := range s[0].Items {
					for _, kind := range order {
						switch kind {
						case "reject":
							if rej(e) != vPass {
								continue items
							}
						case "unique":
							if seen[keyOf(e)] {
								continue items
							}
							seen[keyOf(e)] = true
						case "fallible":
							switch fal(e) {
							case vReject:
								continue items
							case vError:
								last = filterErrOf(e)
								continue items
							}
						}
					}
					seq = append(seq, e.String())
				}
				var ex expectation
				switch {
				case s[0].Term != termDone:
					ex = exact(seq, s[0].Term, errs[0])
				case len(seq) == 0 && last != nil:
					ex = exact(seq, termErr, last)
				default:
					ex = exact(seq, termDone, nil)
				}
				ex.NoHead = true
				return ex
			}, map[string]any{"chain": strings.Join(order, ","), "unique_by_object": byObject, "pct_reject": mixR, "fallible_mix": mixF})
	}
}

func cmpObj(a, b *openfgav1.TupleKey) int { return strings.Compare(a.GetObject(), b.GetObject()) }

// Merge with a three-way comparator on strictly increasing inputs: sorted union, equal heads once
// ("Equal values - advance both iterators to skip duplicate"). Head is not supported.
func caseMerge(cc *caseCtx) {
	base := genInputs(cc.r, 2, genStrict)
	member := map[string]bool{}
	for _, in := range base {
		for _, e := range in {
			member[e.String()] = true
		}
	}
	for _, inj := range injectionsFor(base, nil) {
		runIter(cc, "merge", base, nil, inj, keysOf,
			func(_ *env, ins []*obs[*openfgav1.TupleKey]) storage.Iterator[*openfgav1.TupleKey] {
				return iterator.Merge[*openfgav1.TupleKey](ins[0], ins[1], cmpObj)
			},
			func(k *openfgav1.TupleKey) string {
				if k == nil {
					return "<nil>"
				}
				if !member[renderKey(k)] {
					return "<not an input tuple: " + renderKey(k) + ">"
				}
				return k.GetObject()
			},
			func(s []script, errs []error) expectation {
				e := specOrderedMerge(s, errs, objKey, true)
				e.NoHead = true
				return e
			}, map[string]any{"cmp": "strings.Compare(object)"})
	}
}

// Merge with the comparator used by internal/check/bottom_up.go (never reports equality) on sorted
// inputs with duplicates: a plain sorted merge, nothing dropped.
func caseMergeNoDedup(cc *caseCtx) {
	base := genInputs(cc.r, 2, func(r *rand.Rand, l int) []elem { return genSorted(r, l, objKey) })
	for _, inj := range injectionsFor(base, nil) {
		runIter(cc, "merge_nodedup", base, nil, inj, keysOf,
			func(_ *env, ins []*obs[*openfgav1.TupleKey]) storage.Iterator[*openfgav1.TupleKey] {
				return iterator.Merge[*openfgav1.TupleKey](ins[0], ins[1], func(a, b *openfgav1.TupleKey) int {
					if a.GetObject() < b.GetObject() {
						return -1
					}
					return 1
				})
			},
			func(k *openfgav1.TupleKey) string {
				if k == nil {
					return "<nil>"
				}
				return k.GetObject()
			},
			func(s []script, errs []error) expectation {
				e := specOrderedMerge(s, errs, objKey, false)
				e.NoHead = true
				return e
			}, map[string]any{"cmp": "a<b ? -1 : 1"})
	}
}

// Validate: yields what the validator accepts, reports the validator's error where it occurs.
func caseValidate(cc *caseCtx) {
	base := genInputs(cc.r, 1, genList)
	mix := [][2]int{{0, 0}, {40, 0}, {100, 0}, {30, 10}, {0, 20}}[cc.r.Intn(5)]
	vf := verdictFn(cc.r.Int63(), mix[0], mix[1])
	nilValidator := cc.r.Intn(6) == 0
	if nilValidator {
		vf = func(elem) verdict { return vPass }
	}
	for _, inj := range injectionsFor(base, nil) {
		runIter(cc, "validate", base, nil, inj, tuplesOf,
			func(_ *env, ins []*obs[*openfgav1.Tuple]) storage.Iterator[*openfgav1.Tuple] {
				if nilValidator {
					return iterator.Validate[*openfgav1.Tuple](ins[0], nil)
				}
				return iterator.Validate[*openfgav1.Tuple](ins[0], func(t *openfgav1.Tuple) (bool, error) {
					e := elemOfKey(t.GetKey())
					switch vf(e) {
					case vPass:
						return true, nil
					case vReject:
						return false, nil
					}
					return false, filterErrOf(e)
				})
			}, renderTuple,
			func(s []script, errs []error) expectation { return specValidate(s[0], errs[0], vf, filterErrOf) },
			map[string]any{"pct_reject": mix[0], "pct_err": mix[1], "nil_validator": nilValidator})
	}
}

// Error[T](err): every Next/Head reports err.
func caseError(cc *caseCtx) {
	err := &injectedErr{what: fmt.Sprintf("error iterator %d", cc.r.Intn(1000))}
	runIter(cc, "error", [][]elem{nil}, []bool{true}, injection{None: true}, stringsOf,
		func(*env, []*obs[string]) storage.Iterator[string] { return iterator.Error[string](err) },
		renderString,
		func([]script, []error) expectation { return exact(nil, termErr, err) }, nil)
}
