package c23

import (
	"context"
	"errors"
	"fmt"
	"math/rand"
	"runtime"
	"sort"
	"sync"
	"sync/atomic"
	"time"

	"github.com/openfga/openfga/internal/iterator"
	"github.com/openfga/openfga/pkg/storage"
	"github.com/openfga/openfga/verifharness/vk"
)

// Channel-based adapters of internal/iterator: FromChannel, Stream/Streams, ToChannel,
// FanInIteratorChannels, Drain, SkipTo, Stream.SkipToTargetObject, NextItemInSliceStreams.

const leakWait = 10 * time.Second

// waitStopped waits until every iterator was stopped. Stops performed by background drain goroutines
// are asynchronous, so a bounded wait is needed; running out of time is inconclusive, not a violation.
func waitStopped[T any](ins []*obs[T]) bool {
	bound := leakWait
	if waitTimedOut.Load() {
		bound = 100 * time.Millisecond // the run is already inconclusive; do not spend 10 s per case
	}
	deadline := time.Now().Add(bound)
	for {
		all := true
		for _, in := range ins {
			if in != nil && !in.isStopped() {
				all = false
				break
			}
		}
		if all {
			return true
		}
		if time.Now().After(deadline) {
			waitTimedOut.Store(true)
			return false
		}
		runtime.Gosched()
		time.Sleep(50 * time.Microsecond)
	}
}

var waitTimedOut atomic.Bool

// checkReceivedStopped: an inner iterator the adapter has already used (it is the adapter's current
// iterator, or an exhausted earlier one) is stopped synchronously by the adapter's Stop; only the
// iterators still queued in the channel are stopped by the background drain.
func checkReceivedStopped[T any](ins []*obs[T]) string {
	for _, in := range ins {
		if in == nil {
			continue
		}
		n, h, _, _, p := in.stats()
		if n+h > 0 && !in.isStopped() {
			return fmt.Sprintf("inner iterator %s had been received and used by the adapter (Next=%d Head=%d pos=%d) but was not stopped by the adapter's Stop", in.name, n, h, p)
		}
	}
	return ""
}

// inconclusive records a wait that ran out of time; the run then ends as inconclusive (exit 2),
// never as a violation.
func inconclusive(c *vk.Ctx, reason string) {
	c.Inconclusive(reason)
	c.Count("inconclusive_timeouts", 1)
}

func jitter(r *rand.Rand) {
	switch r.Intn(6) {
	case 0:
		runtime.Gosched()
	case 1:
		time.Sleep(time.Duration(r.Intn(30)) * time.Microsecond)
	}
}

// objectsOf renders the elements as object strings (the channel adapters carry strings).
func objectsOf(es []elem) []string {
	out := make([]string, len(es))
	for i, e := range es {
		out[i] = e.Obj
	}
	return out
}

func specSequentialObjects(ins []script, errs []error) expectation {
	return specSequentialR(ins, errs, objKey)
}

// produce sends one message per input (iterator, or an error message for an input that fails at
// position 0, or an empty message for nil inputs) from a goroutine with jitter, then closes.
func produce(seed int64, ins []*obs[string], asErrMsg []bool, capacity int) chan *iterator.Msg {
	ch := make(chan *iterator.Msg, capacity)
	r := rand.New(rand.NewSource(seed))
	go func() {
		defer close(ch)
		for i, in := range ins {
			jitter(r)
			switch {
			case in == nil:
				ch <- &iterator.Msg{}
			case asErrMsg[i]:
				ch <- &iterator.Msg{Err: in.err}
			default:
				ch <- &iterator.Msg{Iter: in}
			}
		}
	}()
	return ch
}

// errMsgChoice: inputs that fail at position 0 may be delivered as an error message instead of an
// iterator; the specified consumer-visible sequence is the same. Such inputs are never handed to the
// adapter, so the harness marks them stopped.
func errMsgChoice(r *rand.Rand, ins []*obs[string]) []bool {
	out := make([]bool, len(ins))
	for i, in := range ins {
		if in != nil && in.term == termErr && len(in.items) == 0 && r.Intn(2) == 0 {
			out[i] = true
			in.Stop()
		}
	}
	return out
}

// FromChannel: the iterators received from the channel are exhausted one after the other; an error
// message is reported when it is received. A cancelled context ends the iteration (with the context
// error, or ErrIteratorDone once the channel is closed - both are accepted).
func caseFromChannel(cc *caseCtx) {
	n := cc.r.Intn(5)
	base := genInputs(cc.r, n, genList)
	nils := genNils(cc.r, n)
	for _, inj := range injectionsFor(base, nils) {
		seed := cc.r.Int63()
		capacity := []int{0, 1, 8}[cc.r.Intn(3)]
		runIterOpt(cc, "from_channel", base, nils, inj, objectsOf,
			func(_ *env, ins []*obs[string]) storage.Iterator[string] {
				return iterator.FromChannel(produce(seed, ins, errMsgChoice(rand.New(rand.NewSource(seed)), ins), capacity))
			}, renderString,
			func(s []script, errs []error) expectation {
				e := specSequentialObjects(s, errs)
				if e.Term == termCancel {
					e.Term = termCancelOrDone
				}
				e.OneShotErr = true
				return e
			}, map[string]any{"chan_cap": capacity}, true)
	}
}

// streamGlue is harness-side glue that follows the documented protocol of Stream/Streams
// (Stream.Next/Head serve the current buffer and report ErrIteratorDone when it is exhausted;
// Streams.CleanDone fetches the next iterator from the source and drops streams whose source is
// closed) and presents it as one iterator, so that the generic driver can consume it.
type streamGlue struct {
	ss *iterator.Streams
	s  *iterator.Stream
}

func (g *streamGlue) refill(ctx context.Context) error {
	active, err := g.ss.CleanDone(ctx)
	if err != nil {
		return err
	}
	if len(active) == 0 {
		return storage.ErrIteratorDone
	}
	return nil
}

func (g *streamGlue) Next(ctx context.Context) (string, error) {
	for {
		v, err := g.s.Next(ctx)
		if err == nil || !errors.Is(err, storage.ErrIteratorDone) {
			return v, err
		}
		if err := g.refill(ctx); err != nil {
			return "", err
		}
	}
}

func (g *streamGlue) Head(ctx context.Context) (string, error) {
	for {
		v, err := g.s.Head(ctx)
		if err == nil || !errors.Is(err, storage.ErrIteratorDone) {
			return v, err
		}
		if err := g.refill(ctx); err != nil {
			return "", err
		}
	}
}

func (g *streamGlue) Stop()           { g.ss.Stop() }
func (g *streamGlue) IsOrdered() bool { return g.s.IsOrdered() }

// Stream/Streams with a single stream: "aggregates multiple iterators that are sent to a source channel
// into one iterator".
func caseStream(cc *caseCtx) {
	n := cc.r.Intn(5)
	base := genInputs(cc.r, n, genList)
	nils := make([]bool, n)
	for _, inj := range injectionsFor(base, nils) {
		seed := cc.r.Int63()
		capacity := []int{0, 1, 8}[cc.r.Intn(3)]
		runIterOpt(cc, "stream", base, nils, inj, objectsOf,
			func(_ *env, ins []*obs[string]) storage.Iterator[string] {
				ch := produce(seed, ins, errMsgChoice(rand.New(rand.NewSource(seed)), ins), capacity)
				s := iterator.NewStream(0, ch)
				return &streamGlue{ss: iterator.NewStreams([]*iterator.Stream{s}), s: s}
			}, renderString,
			func(s []script, errs []error) expectation {
				e := specSequentialObjects(s, errs)
				if e.Term == termCancel {
					e.Term = termCancelOrDone
				}
				e.OneShotErr = true
				return e
			}, map[string]any{"chan_cap": capacity}, true)
	}
}

func runChannels(c *vk.Ctx) {
	bases := c.Pick(60, 600)
	for _, ar := range []struct {
		name string
		fn   func(cc *caseCtx)
		mult int
	}{
		{"from_channel", caseFromChannel, 1},
		{"stream", caseStream, 1},
		{"streams_multi", caseStreamsMulti, 8},
		{"skip_to", caseSkipTo, 2},
		{"next_item_in_slice_streams", caseNextItem, 8},
		{"to_channel", caseToChannel, 2},
		{"fan_in", caseFanIn, 6},
		{"drain", caseDrain, 8},
	} {
		cc := &caseCtx{c: c, r: c.Rand("channel/" + ar.name)}
		for b := 0; b < bases*ar.mult; b++ {
			ar.fn(cc)
		}
		c.Logf("channel adapter %-28s done", ar.name)
	}
}

func reportCase(c *vk.Ctx, adapter, class, sig string, nontrivial bool, fail string, witness map[string]any, sample bool) {
	c.Case(adapter+"|"+sig, nontrivial)
	c.Count("cases/"+adapter, 1)
	if fail != "" {
		witness["adapter"] = adapter
		c.Violation("c23-"+adapter+"-"+class, adapter+"|"+class+"|"+firstWords(fail, 6), adapter+": "+fail, witness)
		return
	}
	if sample {
		witness["adapter"] = adapter
		c.Sample(witness)
	}
}

// Streams with several streams, consumed with the loop of the fast-path resolvers: CleanDone, then
// Drain every active stream ("Drain all item in the stream's buffer and return these items"), until no
// stream is active. Each stream must deliver the concatenation of its own iterators.
func caseStreamsMulti(cc *caseCtx) {
	c := cc.c
	nStreams := 1 + cc.r.Intn(3)
	e := newEnv()
	defer e.cancel()
	var all []*obs[string]
	var streams []*iterator.Stream
	want := make([][]string, nStreams)
	shape := ""
	var inputs [][]script
	for s := 0; s < nStreams; s++ {
		n := cc.r.Intn(4)
		base := genInputs(cc.r, n, genList)
		ins := make([]*obs[string], n)
		var scs []script
		for i := range base {
			sc := script{Items: base[i], Term: termDone}
			scs = append(scs, sc)
			ins[i] = mkObs(e, i, sc, objectsOf)
			want[s] = append(want[s], objectsOf(base[i])...)
		}
		inputs = append(inputs, scs)
		all = append(all, ins...)
		streams = append(streams, iterator.NewStream(s, produce(cc.r.Int63(), ins, make([]bool, n), cc.r.Intn(3))))
		shape += fmt.Sprintf("%d:%s,", n, lenBucket(len(want[s])))
	}
	got := make([][]string, nStreams)
	fail := ""
	func() {
		defer func() {
			if r := recover(); r != nil {
				fail = fmt.Sprintf("panic: %v", r)
			}
		}()
		ss := iterator.NewStreams(streams)
		for rounds := 0; ss.GetActiveStreamsCount() > 0; rounds++ {
			if rounds > 64 {
				fail = "Streams never became inactive although every source is closed and drained"
				return
			}
			active, err := ss.CleanDone(e.ctx)
			if err != nil {
				fail = fmt.Sprintf("CleanDone reported %v without any error in the sources", err)
				return
			}
			for _, s := range active {
				items, err := s.Drain(e.ctx)
				if err != nil {
					fail = fmt.Sprintf("Drain of stream %d reported %v", s.Idx(), err)
					return
				}
				got[s.Idx()] = append(got[s.Idx()], items...)
			}
		}
		ss.Stop()
	}()
	if fail == "" {
		for s := range want {
			if fmt.Sprint(got[s]) != fmt.Sprint(want[s]) {
				fail = fmt.Sprintf("stream %d delivered %v, its source iterators hold %v", s, got[s], want[s])
				break
			}
		}
	}
	class := "sequence"
	if fail == "" && !waitStopped(all) {
		inconclusive(c, "streams_multi: source iterators not stopped within the wait bound")
	}
	reportCase(c, "streams_multi", class, shape, len(all) > 0, fail,
		map[string]any{"inputs": inputs, "got": got, "want": want}, cc.r.Intn(3000) == 0)
}

// SkipTo / Stream.SkipToTargetObject: afterwards the iterator's remaining sequence is the input
// without its longest prefix of values < target.
func caseSkipTo(cc *caseCtx) {
	c := cc.c
	list := genList(cc.r, genLen(cc.r))
	if cc.r.Intn(2) == 0 {
		sort.SliceStable(list, func(i, j int) bool { return list[i].Obj < list[j].Obj })
	}
	viaStream := cc.r.Intn(2) == 0
	target := fmt.Sprintf("doc:%02d", cc.r.Intn(9))
	invalidTarget := viaStream && cc.r.Intn(10) == 0
	if invalidTarget {
		target = "notanobject"
	}
	for _, inj := range injectionsFor([][]elem{list}, nil) {
		sc := applyInjection([][]elem{list}, nil, inj)[0]
		e := newEnv()
		in := mkObs(e, 0, sc, objectsOf)
		items := objectsOf(sc.Items)
		rest := specSkipTo(items, target)
		// the terminal event is met only if every value is < target
		wantErr := termDone // nil
		if len(rest) == 0 && sc.Term == termErr {
			wantErr = termErr
		}
		var err error
		fail := ""
		adapter := "skip_to"
		func() {
			defer func() {
				if r := recover(); r != nil {
					fail = fmt.Sprintf("panic: %v", r)
				}
			}()
			if viaStream {
				adapter = "stream_skip_to_target"
				ch := make(chan *iterator.Msg, 1)
				ch <- &iterator.Msg{Iter: in}
				close(ch)
				s := iterator.NewStream(0, ch)
				if _, err2 := iterator.NewStreams([]*iterator.Stream{s}).CleanDone(e.ctx); err2 != nil {
					fail = fmt.Sprintf("CleanDone: %v", err2)
					return
				}
				err = s.SkipToTargetObject(e.ctx, target)
			} else {
				err = iterator.SkipTo(e.ctx, in, target)
			}
		}()
		if fail == "" {
			switch {
			case invalidTarget:
				if err == nil {
					fail = "SkipToTargetObject accepted an invalid target object"
				}
				rest = items
			case wantErr == termErr && !errors.Is(err, in.err):
				fail = fmt.Sprintf("returned %v, expected the iterator's error %v", err, in.err)
			case wantErr == termDone && err != nil:
				fail = fmt.Sprintf("returned %v, expected nil (done and cancellation are not errors here)", err)
			}
		}
		if fail == "" {
			// what is left in the inner iterator (read directly from the fake, with a fresh context)
			var left []string
			if !in.isStopped() {
				for {
					v, err := in.Next(context.Background())
					if err != nil {
						break
					}
					left = append(left, v)
				}
			}
			if in.isStopped() && len(rest) > 0 {
				fail = fmt.Sprintf("the iterator was stopped although values >= target remain: %v", rest)
			} else if fmt.Sprint(left) != fmt.Sprint(rest) {
				fail = fmt.Sprintf("after skipping to %q the iterator holds %v, expected %v", target, left, rest)
			}
		}
		e.cancel()
		injSig := "none"
		if !inj.None {
			injSig = fmt.Sprintf("%s@%s", inj.Kind, posClass(inj.Pos, len(list)))
		}
		reportCase(c, adapter, "sequence", fmt.Sprintf("len=%s|rest=%s|inj=%s|invalid=%v", lenBucket(len(items)), lenBucket(len(rest)), injSig, invalidTarget),
			len(list) > 0, fail, map[string]any{"input": sc, "target": target, "expected_rest": rest, "returned": errStr(err)}, cc.r.Intn(3000) == 0)
	}
}

// NextItemInSliceStreams: "will advance all streamSlices specified in streamToProcess and return the
// item advanced. Assumption is that the stream slices first item is identical".
func caseNextItem(cc *caseCtx) {
	c := cc.c
	nStreams := 1 + cc.r.Intn(4)
	common := fmt.Sprintf("doc:%02d", cc.r.Intn(9))
	e := newEnv()
	defer e.cancel()
	var streams []*iterator.Stream
	var ins []*obs[string]
	var process []int
	seconds := map[int]string{}
	for s := 0; s < nStreams; s++ {
		selected := cc.r.Intn(3) > 0
		items := []string{fmt.Sprintf("doc:%02d", cc.r.Intn(9))}
		if selected {
			items[0] = common
			process = append(process, s)
		}
		for k := cc.r.Intn(3); k > 0; k-- {
			items = append(items, fmt.Sprintf("doc:%02d", 10+cc.r.Intn(9)))
		}
		if selected && len(items) > 1 {
			seconds[s] = items[1]
		}
		if !selected {
			seconds[s] = items[0]
		}
		in := &obs[string]{name: fmt.Sprintf("s%d", s), items: items, env: e, ordered: true}
		ins = append(ins, in)
		ch := make(chan *iterator.Msg, 1)
		ch <- &iterator.Msg{Iter: in}
		close(ch)
		streams = append(streams, iterator.NewStream(s, ch))
	}
	fail := ""
	var got string
	func() {
		defer func() {
			if r := recover(); r != nil {
				fail = fmt.Sprintf("panic: %v", r)
			}
		}()
		ss := iterator.NewStreams(streams)
		active, err := ss.CleanDone(e.ctx)
		if err != nil || len(active) != nStreams {
			fail = fmt.Sprintf("CleanDone returned %d active streams, err=%v; expected %d", len(active), err, nStreams)
			return
		}
		if len(process) == 0 {
			return
		}
		got, err = iterator.NextItemInSliceStreams(e.ctx, active, process)
		if err != nil {
			fail = fmt.Sprintf("NextItemInSliceStreams reported %v", err)
			return
		}
		if got != common {
			fail = fmt.Sprintf("NextItemInSliceStreams returned %q, the common first item is %q", got, common)
			return
		}
		for s, st := range active {
			h, err := st.Head(e.ctx)
			want, has := seconds[s]
			if has && (err != nil || h != want) {
				fail = fmt.Sprintf("after the call stream %d has head (%q,%v), expected %q", s, h, err, want)
				return
			}
			if !has && !errors.Is(err, storage.ErrIteratorDone) {
				fail = fmt.Sprintf("after the call stream %d has head (%q,%v), expected ErrIteratorDone", s, h, err)
				return
			}
		}
		ss.Stop()
	}()
	reportCase(c, "next_item_in_slice_streams", "sequence", fmt.Sprintf("streams=%d|selected=%d", nStreams, len(process)), len(process) > 0, fail,
		map[string]any{"common": common, "process": process, "got": got}, false)
}

// ToChannel: the values of the iterator arrive in order; a failure arrives as a message with Err;
// ErrIteratorDone or cancellation close the channel.
func caseToChannel(cc *caseCtx) {
	c := cc.c
	list := genList(cc.r, genLen(cc.r))
	batch := []int{0, 1, 3, 100}[cc.r.Intn(4)]
	for _, inj := range injectionsFor([][]elem{list}, nil) {
		sc := applyInjection([][]elem{list}, nil, inj)[0]
		e := newEnv()
		in := mkObs(e, 0, sc, objectsOf)
		want := objectsOf(sc.Items)
		var got []string
		fail := ""
		closed := false
		var gotErr error
		func() {
			defer func() {
				if r := recover(); r != nil {
					fail = fmt.Sprintf("panic: %v", r)
				}
			}()
			out := iterator.ToChannel[string](e.ctx, in, batch)
			timeout := time.After(leakWait)
			for !closed && gotErr == nil {
				select {
				case m, ok := <-out:
					if !ok {
						closed = true
					} else if m.Err != nil {
						gotErr = m.Err
					} else {
						got = append(got, m.Value)
					}
				case <-timeout:
					inconclusive(c, "to_channel: channel neither delivered nor closed within the wait bound")
					return
				}
			}
			// the consumer is finished: cancel and wait for the producer goroutine to close the channel
			e.cancel()
			for !closed {
				select {
				case _, ok := <-out:
					closed = !ok
				case <-timeout:
					inconclusive(c, "to_channel: channel not closed after cancellation within the wait bound")
					return
				}
			}
		}()
		if fail == "" && closed {
			switch sc.Term {
			case termDone:
				if gotErr != nil || fmt.Sprint(got) != fmt.Sprint(want) {
					fail = fmt.Sprintf("received %v (err %v) then close; the iterator holds %v", got, gotErr, want)
				}
			case termErr:
				if !errors.Is(gotErr, in.err) || fmt.Sprint(got) != fmt.Sprint(want) {
					fail = fmt.Sprintf("received %v then err %v; expected %v then %v", got, gotErr, want, in.err)
				}
			case termCancel:
				// sends race with the cancellation: a prefix of the values, no error message is required
				if len(got) > len(want) || fmt.Sprint(got) != fmt.Sprint(want[:len(got)]) {
					fail = fmt.Sprintf("received %v, not a prefix of %v", got, want)
				}
			}
		}
		e.cancel()
		in.Stop()
		injSig := "none"
		if !inj.None {
			injSig = fmt.Sprintf("%s@%s", inj.Kind, posClass(inj.Pos, len(list)))
		}
		reportCase(c, "to_channel", "sequence", fmt.Sprintf("len=%s|batch=%d|inj=%s", lenBucket(len(want)), batch, injSig), len(list) > 0, fail,
			map[string]any{"input": sc, "batch": batch, "got": got, "got_err": errStr(gotErr)}, cc.r.Intn(3000) == 0)
	}
}

// FanInIteratorChannels: every message of every input channel is forwarded exactly once, in the order
// of its own channel; when the context is cancelled a message may instead be dropped, and then its
// iterator is stopped; the output closes once all inputs are closed.
func caseFanIn(cc *caseCtx) {
	c := cc.c
	nChans := cc.r.Intn(5)
	cancelAfter := -1
	if cc.r.Intn(3) == 0 {
		cancelAfter = cc.r.Intn(8)
	}
	e := newEnv()
	defer e.cancel()
	type sent struct {
		ch, idx int
		it      *obs[string]
		err     error
	}
	var allSent [][]*sent
	byMsg := map[*iterator.Msg]*sent{}
	var chans []<-chan *iterator.Msg
	var msgs [][]*iterator.Msg
	total := 0
	for ch := 0; ch < nChans; ch++ {
		n := cc.r.Intn(6)
		var row []*sent
		var mrow []*iterator.Msg
		for i := 0; i < n; i++ {
			s := &sent{ch: ch, idx: i}
			m := &iterator.Msg{}
			if cc.r.Intn(5) == 0 {
				s.err = &injectedErr{what: fmt.Sprintf("msg %d/%d", ch, i)}
				m.Err = s.err
			} else {
				s.it = &obs[string]{name: fmt.Sprintf("c%dm%d", ch, i), items: []string{fmt.Sprintf("doc:%d", i)}, env: e}
				m.Iter = s.it
			}
			byMsg[m] = s
			row = append(row, s)
			mrow = append(mrow, m)
			total++
		}
		allSent = append(allSent, row)
		msgs = append(msgs, mrow)
	}
	var wg sync.WaitGroup
	for ch := 0; ch < nChans; ch++ {
		in := make(chan *iterator.Msg, cc.r.Intn(3))
		chans = append(chans, in)
		seed := cc.r.Int63()
		wg.Add(1)
		go func(row []*iterator.Msg) {
			defer wg.Done()
			defer close(in)
			r := rand.New(rand.NewSource(seed))
			for _, m := range row {
				jitter(r)
				in <- m
			}
		}(msgs[ch])
	}
	fail := ""
	received := map[*sent]int{}
	lastIdx := map[int]int{}
	func() {
		defer func() {
			if r := recover(); r != nil {
				fail = fmt.Sprintf("panic: %v", r)
			}
		}()
		out := iterator.FanInIteratorChannels(e.ctx, chans)
		timeout := time.After(leakWait)
		n := 0
		for {
			if cancelAfter >= 0 && n == cancelAfter {
				e.cancel()
			}
			select {
			case m, ok := <-out:
				if !ok {
					return
				}
				n++
				s := byMsg[m]
				if s == nil {
					fail = "received a message that was never sent"
					return
				}
				received[s]++
				if prev, seen := lastIdx[s.ch]; seen && prev >= s.idx {
					fail = fmt.Sprintf("messages of input channel %d arrived out of order (%d after %d)", s.ch, s.idx, prev)
					return
				}
				lastIdx[s.ch] = s.idx
			case <-timeout:
				inconclusive(c, "fan_in: output not closed within the wait bound")
				fail = "-"
				return
			}
		}
	}()
	wg.Wait()
	if fail == "-" {
		return
	}
	dropped := 0
	if fail == "" {
		for _, row := range allSent {
			for _, s := range row {
				switch {
				case received[s] > 1:
					fail = fmt.Sprintf("message %d of input %d was delivered %d times", s.idx, s.ch, received[s])
				case received[s] == 1 && s.it != nil && s.it.isStopped():
					fail = fmt.Sprintf("message %d of input %d was delivered and its iterator was also stopped by the fan-in", s.idx, s.ch)
				case received[s] == 0 && cancelAfter < 0:
					fail = fmt.Sprintf("message %d of input %d was lost although the context was never cancelled", s.idx, s.ch)
				case received[s] == 0 && s.it != nil && !s.it.isStopped():
					fail = fmt.Sprintf("message %d of input %d was dropped after cancellation but its iterator was not stopped", s.idx, s.ch)
				}
				if received[s] == 0 {
					dropped++
				}
			}
		}
	}
	c.Count("fan_in_messages", total)
	c.Count("fan_in_dropped_after_cancel", dropped)
	reportCase(c, "fan_in", "conservation", fmt.Sprintf("chans=%d|msgs=%s|cancel=%v|dropped=%v", nChans, lenBucket(total), cancelAfter >= 0, dropped > 0), total > 0, fail,
		map[string]any{"chans": nChans, "total": total, "cancel_after": cancelAfter, "dropped": dropped}, false)
}

// Drain: stops the iterator of every message until the channel is closed; the returned WaitGroup
// is done afterwards. Drain(nil) returns a WaitGroup that does not block.
func caseDrain(cc *caseCtx) {
	c := cc.c
	n := cc.r.Intn(8)
	e := newEnv()
	defer e.cancel()
	var its []*obs[string]
	fail := ""
	func() {
		defer func() {
			if r := recover(); r != nil {
				fail = fmt.Sprintf("panic: %v", r)
			}
		}()
		if n == 0 && cc.r.Intn(2) == 0 {
			iterator.Drain(nil).Wait()
			return
		}
		ch := make(chan *iterator.Msg, cc.r.Intn(3))
		seed := cc.r.Int63()
		var msgs []*iterator.Msg
		for i := 0; i < n; i++ {
			switch cc.r.Intn(4) {
			case 0:
				msgs = append(msgs, &iterator.Msg{Err: &injectedErr{what: "drained"}})
			default:
				it := &obs[string]{name: fmt.Sprintf("m%d", i), items: []string{"doc:1"}, env: e}
				its = append(its, it)
				msgs = append(msgs, &iterator.Msg{Iter: it})
			}
		}
		go func() {
			r := rand.New(rand.NewSource(seed))
			for _, m := range msgs {
				jitter(r)
				ch <- m
			}
			close(ch)
		}()
		iterator.Drain(ch).Wait()
		for _, it := range its {
			if !it.isStopped() {
				fail = fmt.Sprintf("iterator %s was not stopped when the WaitGroup of Drain was done", it.name)
				return
			}
		}
	}()
	reportCase(c, "drain", "stop-propagation", fmt.Sprintf("msgs=%d|iters=%d", n, len(its)), n > 0, fail, map[string]any{"msgs": n}, false)
}
