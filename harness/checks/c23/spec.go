package c23

import (
	"sort"
	"strings"
)

// Pure slice-level specifications of the adapters, written from their doc comments and the
// storage.Iterator contract. None of them calls code under test.

// expectation is what a consumer of the adapter must observe.
//   - the values it obtains are Seq[0], Seq[1], ... in this order;
//   - the terminal event (Term/TermErr) is reported after at least Min and at most len(Seq) values
//     (Min < len(Seq) only for merging adapters, which may need to look one element ahead);
//   - Head never consumes; repeated Head gives the same answer; Head then Next agree.
type expectation struct {
	Seq     []string `json:"seq"`
	Min     int      `json:"min"`
	Term    termKind `json:"term"`
	TermErr error    `json:"-"`
	TermStr string   `json:"term_err,omitempty"`
	NoHead  bool     `json:"no_head,omitempty"` // Head documented as unsupported: its result is not judged
	// OneShotErr: the failure may be a one-shot event (an error message received from a channel), so
	// nothing is demanded from the calls that follow the one that reported it.
	OneShotErr bool `json:"one_shot_err,omitempty"`
}

func exact(seq []string, term termKind, err error) expectation {
	e := expectation{Seq: seq, Min: len(seq), Term: term, TermErr: err}
	if err != nil {
		e.TermStr = err.Error()
	}
	return e
}

// specSequential: "yields all the values from all iterators", "sources are exhausted sequentially"
// (combined iterator); "first yields all items from iter1, then all items from iter2" (Concat);
// iterators received from a channel one after the other (FromChannel).
// An input failing at position k: everything before it, then the failure.
func specSequential(ins []script, errs []error) expectation {
	return specSequentialR(ins, errs, elem.String)
}

func specSequentialR(ins []script, errs []error, render func(elem) string) expectation {
	var seq []string
	for i, in := range ins {
		if in.Nil {
			continue
		}
		for _, e := range in.Items {
			seq = append(seq, render(e))
		}
		if in.Term != termDone {
			return exact(seq, in.Term, errs[i])
		}
	}
	return exact(seq, termDone, nil)
}

// specFilter: "filters out all tuples that don't meet the filter" - order preserved.
func specFilter(in script, err error, keep func(elem) bool) expectation {
	var seq []string
	for _, e := range in.Items {
		if keep(e) {
			seq = append(seq, e.String())
		}
	}
	return exact(seq, in.Term, err)
}

type verdict int

const (
	vPass verdict = iota
	vReject
	vError
)

// specLastError: condition filters: "Errors will be treated as false. If none of the tuples are valid
// AND there are errors, Next() will return the last error." A failure of the inner iterator itself is
// reported where it occurs.
func specLastError(in script, err error, verdictOf func(elem) verdict, filterErr func(elem) error) expectation {
	var seq []string
	var last error
	for _, e := range in.Items {
		switch verdictOf(e) {
		case vPass:
			seq = append(seq, e.String())
		case vError:
			last = filterErr(e)
		}
	}
	if in.Term != termDone {
		return exact(seq, in.Term, err)
	}
	if len(seq) == 0 && last != nil {
		return exact(seq, termErr, last)
	}
	return exact(seq, termDone, nil)
}

// specValidate: the validating iterator yields the values its validator accepts, skips the ones it
// rejects and reports the validator's error at the element where it occurs.
func specValidate(in script, err error, verdictOf func(elem) verdict, valErr func(elem) error) expectation {
	var seq []string
	for _, e := range in.Items {
		switch verdictOf(e) {
		case vPass:
			seq = append(seq, e.String())
		case vError:
			return exact(seq, termErr, valErr(e))
		}
	}
	return exact(seq, in.Term, err)
}

// specOrderedMerge: "combines a list of iterators into a single ordered iterator. All the input
// iterators must be individually ordered already according to mapper. Iterators can yield the same
// value (as defined by mapper) multiple times, but it will only be returned once."
// The result is compared on mapper keys (which of several equal tuples is returned is not specified).
// distinct=false: plain sorted merge (Merge with a comparator that never reports equality).
// An input failing at position k: every key strictly below the last key read from that input must
// have been yielded, nothing above that key may be yielded (it cannot be known to be next).
func specOrderedMerge(ins []script, errs []error, keyOf func(elem) string, distinct bool) expectation {
	var all []string
	bound, failing := "", -1
	for i, in := range ins {
		if in.Nil {
			continue
		}
		for _, e := range in.Items {
			all = append(all, keyOf(e))
		}
		if in.Term != termDone {
			failing = i
		}
	}
	sort.Strings(all)
	if distinct {
		all = dedupSorted(all)
	}
	if failing < 0 {
		return exact(all, termDone, nil)
	}
	f := ins[failing]
	if len(f.Items) == 0 {
		return exact(nil, f.Term, errs[failing])
	}
	bound = keyOf(f.Items[len(f.Items)-1])
	var seq []string
	min := 0
	for _, k := range all {
		if k < bound {
			min++
		}
		if k <= bound {
			seq = append(seq, k)
		}
	}
	e := exact(seq, f.Term, errs[failing])
	e.Min = min
	return e
}

func dedupSorted(in []string) []string {
	var out []string
	for i, s := range in {
		if i == 0 || s != in[i-1] {
			out = append(out, s)
		}
	}
	return out
}

// specSkipTo: "If current head >= target, we're done. Otherwise advance the iterator": the longest
// prefix of values < target is dropped.
func specSkipTo(in []string, target string) []string {
	i := 0
	for i < len(in) && in[i] < target {
		i++
	}
	return in[i:]
}

// specUserset: "UsersetKind is a mapper that returns the userset ID from the tuple's user field";
// a user that is neither a userset nor a typed wildcard is an error ("should never happen").
func specUserset(user string) (string, bool) {
	if i := strings.Index(user, "#"); i >= 0 {
		return user[:i], true
	}
	if strings.HasSuffix(user, ":*") {
		return user, true
	}
	return "", false
}
