package c23

import (
	"context"
	"errors"
	"fmt"
	"math/rand"
	"runtime/debug"

	"github.com/openfga/openfga/pkg/storage"
)

// pattern is the seeded consumer behaviour of one case.
type pattern struct {
	HeadPct   int   `json:"head_pct"`   // probability (percent) that the next operation is Head
	Seed      int64 `json:"seed"`       // PRNG seed of the Head/Next choice
	StopAfter int   `json:"stop_after"` // -1: consume until the terminal event; else Stop after this many operations
	// CancelAfter (shared-iterator clones only): cancel the consumer's own context before this
	// operation; 0 = never. Afterwards context.Canceled is an acceptable answer to every call.
	CancelAfter int `json:"cancel_after,omitempty"`
}

// driveHooks lets a concurrent workload interleave consumers.
type driveHooks struct {
	cancel   func()        // cancels the consumer's own context
	yield    func()        // called before every operation
	progress func(pos int) // called after every value obtained with Next
}

type step struct {
	Op  string `json:"op"`
	Val string `json:"val,omitempty"`
	Err string `json:"err,omitempty"`
}

type driveResult struct {
	Steps    []step `json:"steps"`
	Fail     string `json:"fail,omitempty"`
	Panic    string `json:"panic,omitempty"`
	Yielded  int    `json:"yielded"`
	Terminal string `json:"terminal,omitempty"` // "", "done", "err", "cancel"
	Heads    int    `json:"heads"`
	NOps     int    `json:"n_ops"`
}

func termMatches(exp expectation, err error) bool {
	switch exp.Term {
	case termDone:
		return errors.Is(err, storage.ErrIteratorDone)
	case termErr:
		return err != nil && exp.TermErr != nil && (errors.Is(err, exp.TermErr) || err.Error() == exp.TermErr.Error())
	case termCancel:
		return errors.Is(err, context.Canceled)
	case termAnyErr:
		return err != nil && !errors.Is(err, storage.ErrIteratorDone)
	case termCancelOrDone:
		return errors.Is(err, context.Canceled) || errors.Is(err, storage.ErrIteratorDone)
	}
	return false
}

func errStr(err error) string {
	if err == nil {
		return ""
	}
	return err.Error()
}

// driveAndCheck consumes the adapter with the seeded Head/Next pattern and decides, operation by
// operation, whether what it returns is what the expectation demands. It never calls the adapter
// after its terminal event except for one probe (Done must be repeated). It always calls Stop once.
func driveAndCheck[T any](ctx context.Context, it storage.Iterator[T], render func(T) string, exp expectation, pat pattern, hooks *driveHooks) (res driveResult) {
	defer func() {
		if r := recover(); r != nil {
			res.Panic = fmt.Sprintf("%v\n%s", r, debug.Stack())
			res.Fail = "panic escaped from the adapter: " + fmt.Sprint(r)
		}
	}()
	r := rand.New(rand.NewSource(pat.Seed))
	pos := 0
	total := len(exp.Seq)
	maxOps := 4*total + 24
	consecutiveHeads := 0
	selfCancelled := false
	rec := func(op string, v T, err error) {
		s := step{Op: op, Err: errStr(err)}
		if err == nil {
			s.Val = render(v)
		}
		res.Steps = append(res.Steps, s)
		res.NOps++
	}
	failf := func(format string, a ...any) driveResult {
		res.Fail = fmt.Sprintf(format, a...)
		res.Yielded = pos
		return res
	}
	terminalKind := func(err error) string {
		switch {
		case errors.Is(err, storage.ErrIteratorDone):
			return "done"
		case errors.Is(err, context.Canceled):
			return "cancel"
		}
		return "err"
	}
	stopNow := func() {
		it.Stop()
		res.Steps = append(res.Steps, step{Op: "Stop"})
	}

	for ops := 0; ops < maxOps; ops++ {
		if pat.StopAfter >= 0 && ops >= pat.StopAfter {
			break
		}
		if hooks != nil && hooks.yield != nil {
			hooks.yield()
		}
		if pat.CancelAfter > 0 && ops == pat.CancelAfter && hooks != nil && hooks.cancel != nil {
			hooks.cancel()
			selfCancelled = true
			res.Steps = append(res.Steps, step{Op: "cancel-own-context"})
		}
		doHead := r.Intn(100) < pat.HeadPct && consecutiveHeads < 3
		if doHead {
			consecutiveHeads++
			res.Heads++
			v, err := it.Head(ctx)
			rec("Head", v, err)
			if exp.NoHead {
				continue // Head is documented as unsupported here; only "does not consume" is judged (by what follows)
			}
			if err == nil {
				if pos >= total {
					return failf("Head returned %q after the complete expected sequence (%d values)", render(v), total)
				}
				if got := render(v); got != exp.Seq[pos] {
					return failf("Head returned %q, expected value #%d = %q", got, pos, exp.Seq[pos])
				}
				continue
			}
			if selfCancelled && errors.Is(err, context.Canceled) {
				res.Terminal = "cancel"
				break
			}
			if pos < exp.Min {
				return failf("Head reported %q after %d values, but %d values must be yielded first (next expected %q)", err, pos, exp.Min, exp.Seq[pos])
			}
			if !termMatches(exp, err) {
				return failf("Head reported %q after %d values, expected terminal %s %s", err, pos, exp.Term, exp.TermStr)
			}
			if exp.OneShotErr && exp.Term == termErr {
				res.Terminal = terminalKind(err)
				break
			}
			// Head showed the terminal event; Next must not produce a value now.
			v2, err2 := it.Next(ctx)
			rec("Next", v2, err2)
			if err2 == nil {
				return failf("Next returned %q although Head had just reported %q", render(v2), err)
			}
			if selfCancelled && errors.Is(err2, context.Canceled) {
				res.Terminal = "cancel"
				break
			}
			if !termMatches(exp, err2) {
				return failf("Next reported %q after Head reported %q; expected terminal %s %s", err2, err, exp.Term, exp.TermStr)
			}
			res.Terminal = terminalKind(err2)
			break
		}
		consecutiveHeads = 0
		v, err := it.Next(ctx)
		rec("Next", v, err)
		if err == nil {
			if pos >= total {
				return failf("Next returned %q after the complete expected sequence (%d values)", render(v), total)
			}
			if got := render(v); got != exp.Seq[pos] {
				return failf("Next returned %q, expected value #%d = %q", got, pos, exp.Seq[pos])
			}
			pos++
			if hooks != nil && hooks.progress != nil {
				hooks.progress(pos)
			}
			continue
		}
		if selfCancelled && errors.Is(err, context.Canceled) {
			res.Terminal = "cancel"
			break
		}
		if pos < exp.Min {
			return failf("Next reported %q after %d values, but %d values must be yielded first (next expected %q)", err, pos, exp.Min, exp.Seq[pos])
		}
		if !termMatches(exp, err) {
			return failf("Next reported %q after %d values, expected terminal %s %s", err, pos, exp.Term, exp.TermStr)
		}
		res.Terminal = terminalKind(err)
		if exp.Term == termDone && !selfCancelled {
			v3, err3 := it.Next(ctx)
			rec("Next", v3, err3)
			if !errors.Is(err3, storage.ErrIteratorDone) {
				return failf("Next after ErrIteratorDone returned (%q, %v); no more items are available so it must be ErrIteratorDone", render(v3), err3)
			}
		}
		break
	}
	res.Yielded = pos
	if res.Terminal == "" && pat.StopAfter < 0 {
		return failf("no terminal event after %d operations and %d values", maxOps, pos)
	}
	stopNow()
	return res
}

// checkStopped verifies Stop propagation: every inner iterator handed to the adapter was stopped.
func checkStopped[T any](ins []*obs[T]) string {
	for _, in := range ins {
		if in == nil {
			continue
		}
		if !in.isStopped() {
			n, h, _, _, p := in.stats()
			return fmt.Sprintf("inner iterator %s was never stopped after the adapter's Stop (Next=%d Head=%d pos=%d)", in.name, n, h, p)
		}
	}
	return ""
}
