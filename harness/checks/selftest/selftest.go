// Package selftest is a smoke test of the harness plumbing (not a property check).
package selftest

import (
	"github.com/anishathalye/porcupine"
	"github.com/openfga/openfga/internal/verifhook"
	"github.com/openfga/openfga/verifharness/vk"
)

func init() {
	vk.Register("SELFTEST", "exploration", func(c *vk.Ctx) {
		_ = porcupine.Ok
		c.SetRule("smoke")
		c.Case("a", true)
		c.Case("b", true)
		c.Sample(map[string]any{"hooks": verifhook.Enabled})
	})
}
