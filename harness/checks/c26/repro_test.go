package c26

import (
	"context"
	"os"
	"testing"

	openfgav1 "github.com/openfga/api/proto/openfga/v1"
	parser "github.com/openfga/language/pkg/go/transformer"

	"github.com/openfga/openfga/pkg/authclaims"
	"github.com/openfga/openfga/pkg/server"
	"github.com/openfga/openfga/pkg/storage/memory"
)

// Minimal reproduction of finding C26-liststores-empty-grant-returns-all (public API only):
//
//	cd harness && C26_REPRO=1 go test -tags verif -run TestReproListStoresEmptyGrant ./checks/c26/
//
// The test FAILS while the defect is present (skipped unless C26_REPRO is set, so that a plain
// `go test ./...` of the harness stays green).
func TestReproListStoresEmptyGrant(t *testing.T) {
	if os.Getenv("C26_REPRO") == "" {
		t.Skip("set C26_REPRO=1 to run the reproduction")
	}
	ds := memory.New()
	defer ds.Close()
	bg := context.Background()

	// 1. plain server: create the access-control store and two ordinary stores
	plain := server.MustNewServerWithOpts(server.WithDatastore(ds))
	ac, err := plain.CreateStore(bg, &openfgav1.CreateStoreRequest{Name: "access-control"})
	if err != nil {
		t.Fatal(err)
	}
	m, err := plain.WriteAuthorizationModel(bg, &openfgav1.WriteAuthorizationModelRequest{StoreId: ac.GetId(), SchemaVersion: "1.1",
		TypeDefinitions: parser.MustTransformDSLToProto(acModelDSL).GetTypeDefinitions()})
	if err != nil {
		t.Fatal(err)
	}
	for _, n := range []string{"tenant-a", "tenant-b"} {
		if _, err := plain.CreateStore(bg, &openfgav1.CreateStoreRequest{Name: n}); err != nil {
			t.Fatal(err)
		}
	}
	// 2. the only grant: client "lister" may call ListStores. It has can_call_get_store on NO store.
	if _, err := plain.Write(bg, &openfgav1.WriteRequest{StoreId: ac.GetId(), AuthorizationModelId: m.GetAuthorizationModelId(),
		Writes: &openfgav1.WriteRequestWrites{TupleKeys: []*openfgav1.TupleKey{
			{Object: "system:fga", Relation: "can_call_list_stores", User: "application:lister"}}}}); err != nil {
		t.Fatal(err)
	}

	// 3. server with access control on the same datastore
	srv := server.MustNewServerWithOpts(server.WithDatastore(ds), server.WithExperimentals("enable-access-control"),
		server.WithAccessControlParams(true, ac.GetId(), m.GetAuthorizationModelId(), "oidc"))
	ctx := authclaims.ContextWithAuthClaims(bg, &authclaims.AuthClaims{ClientID: "lister"})

	resp, err := srv.ListStores(ctx, &openfgav1.ListStoresRequest{})
	if err != nil {
		t.Fatalf("ListStores: %v", err)
	}
	for _, st := range resp.GetStores() {
		if _, gerr := srv.GetStore(ctx, &openfgav1.GetStoreRequest{StoreId: st.GetId()}); gerr != nil {
			t.Errorf("ListStores returned store %s (%q) although GetStore on it is refused for the same caller: %v", st.GetId(), st.GetName(), gerr)
		}
	}
}
