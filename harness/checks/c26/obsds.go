package c26

import (
	"context"
	"errors"
	"sync"
	"sync/atomic"

	openfgav1 "github.com/openfga/api/proto/openfga/v1"

	"github.com/openfga/openfga/pkg/storage"
)

// Datastore call classes recorded by the observing layer.
const (
	clTupleRead   = "tuple_read"
	clTupleWrite  = "tuple_write"
	clChangeRead  = "changelog_read"
	clAssertRead  = "assertion_read"
	clAssertWrite = "assertion_write"
	clModelRead   = "model_read"
	clModelWrite  = "model_write"
	clStoreGet    = "store_get"
	clStoreCreate = "store_create"
	clStoreDelete = "store_delete"
	clStoreList   = "store_list"
)

// dsEvent is one datastore call made on behalf of a traced request.
type dsEvent struct {
	Method string `json:"method"`
	Class  string `json:"class"`
	Store  string `json:"store"`
}

// fault is the error-injection plan of one request: it applies to datastore calls on FailStore only.
type fault struct {
	Store string // the access-control store
	Mode  string // "", "all", "nth"
	N     int64  // for "nth": the 1-based index of the failing call of the selected scope
	Scope string // "tuple" (tuple reads) or "model" (model reads)
	At    string // "call" (the datastore call fails) or "iter" (the returned iterator fails on first use)
}

// trace travels in the request context (values survive context.WithoutCancel, which is all the
// server's datastore context wrapper applies) and collects the datastore calls of that request.
type trace struct {
	mu       sync.Mutex
	events   []dsEvent
	fault    fault
	counter  atomic.Int64
	injected atomic.Int64
}

type traceKey struct{}

func withTrace(ctx context.Context, t *trace) context.Context {
	return context.WithValue(ctx, traceKey{}, t)
}

func traceOf(ctx context.Context) *trace {
	t, _ := ctx.Value(traceKey{}).(*trace)
	return t
}

func (t *trace) snapshot() []dsEvent {
	t.mu.Lock()
	defer t.mu.Unlock()
	return append([]dsEvent{}, t.events...)
}

var errInjected = errors.New("c26: injected datastore failure")

// obsDS is the observing / fault-injecting datastore layer placed directly above the backend.
type obsDS struct {
	storage.OpenFGADatastore
	untagged atomic.Int64
	calls    atomic.Int64
}

func newObsDS(inner storage.OpenFGADatastore) *obsDS { return &obsDS{OpenFGADatastore: inner} }

// note records the call and reports whether (and how) it must fail.
func (d *obsDS) note(ctx context.Context, method, class, store string) (failCall, failIter bool) {
	d.calls.Add(1)
	t := traceOf(ctx)
	if t == nil {
		d.untagged.Add(1)
		return false, false
	}
	t.mu.Lock()
	t.events = append(t.events, dsEvent{Method: method, Class: class, Store: store})
	t.mu.Unlock()
	f := t.fault
	if f.Mode == "" || store != f.Store {
		return false, false
	}
	switch f.Scope {
	case "tuple":
		if class != clTupleRead {
			return false, false
		}
	case "model":
		if class != clModelRead {
			return false, false
		}
	default:
		return false, false
	}
	n := t.counter.Add(1)
	if f.Mode == "nth" && n != f.N {
		return false, false
	}
	t.injected.Add(1)
	if f.At == "iter" {
		return false, true
	}
	return true, false
}

// failIter is a tuple iterator that fails on every use until it is stopped; after Stop it reports
// ErrIteratorDone, as the Iterator contract requires.
type failIter struct {
	inner   storage.TupleIterator
	stopped atomic.Bool
}

func (f *failIter) Next(context.Context) (*openfgav1.Tuple, error) {
	if f.stopped.Load() {
		return nil, storage.ErrIteratorDone
	}
	return nil, errInjected
}
func (f *failIter) Head(context.Context) (*openfgav1.Tuple, error) {
	if f.stopped.Load() {
		return nil, storage.ErrIteratorDone
	}
	return nil, errInjected
}
func (f *failIter) Stop() {
	f.stopped.Store(true)
	f.inner.Stop()
}
func (f *failIter) IsOrdered() bool { return f.inner.IsOrdered() }

func (d *obsDS) iter(it storage.TupleIterator, err error, failIt bool) (storage.TupleIterator, error) {
	if err != nil || !failIt {
		return it, err
	}
	return &failIter{inner: it}, nil
}

func (d *obsDS) Read(ctx context.Context, store string, filter storage.ReadFilter, options storage.ReadOptions) (storage.TupleIterator, error) {
	fc, fi := d.note(ctx, "Read", clTupleRead, store)
	if fc {
		return nil, errInjected
	}
	it, err := d.OpenFGADatastore.Read(ctx, store, filter, options)
	return d.iter(it, err, fi)
}

func (d *obsDS) ReadPage(ctx context.Context, store string, filter storage.ReadFilter, options storage.ReadPageOptions) ([]*openfgav1.Tuple, string, error) {
	fc, fi := d.note(ctx, "ReadPage", clTupleRead, store)
	if fc || fi {
		return nil, "", errInjected
	}
	return d.OpenFGADatastore.ReadPage(ctx, store, filter, options)
}

func (d *obsDS) ReadUserTuple(ctx context.Context, store string, filter storage.ReadUserTupleFilter, options storage.ReadUserTupleOptions) (*openfgav1.Tuple, error) {
	fc, fi := d.note(ctx, "ReadUserTuple", clTupleRead, store)
	if fc || fi {
		return nil, errInjected
	}
	return d.OpenFGADatastore.ReadUserTuple(ctx, store, filter, options)
}

func (d *obsDS) ReadUsersetTuples(ctx context.Context, store string, filter storage.ReadUsersetTuplesFilter, options storage.ReadUsersetTuplesOptions) (storage.TupleIterator, error) {
	fc, fi := d.note(ctx, "ReadUsersetTuples", clTupleRead, store)
	if fc {
		return nil, errInjected
	}
	it, err := d.OpenFGADatastore.ReadUsersetTuples(ctx, store, filter, options)
	return d.iter(it, err, fi)
}

func (d *obsDS) ReadStartingWithUser(ctx context.Context, store string, filter storage.ReadStartingWithUserFilter, options storage.ReadStartingWithUserOptions) (storage.TupleIterator, error) {
	fc, fi := d.note(ctx, "ReadStartingWithUser", clTupleRead, store)
	if fc {
		return nil, errInjected
	}
	it, err := d.OpenFGADatastore.ReadStartingWithUser(ctx, store, filter, options)
	return d.iter(it, err, fi)
}

func (d *obsDS) Write(ctx context.Context, store string, dl storage.Deletes, w storage.Writes, opts ...storage.TupleWriteOption) error {
	d.note(ctx, "Write", clTupleWrite, store)
	return d.OpenFGADatastore.Write(ctx, store, dl, w, opts...)
}

func (d *obsDS) ReadAuthorizationModel(ctx context.Context, store string, id string) (*openfgav1.AuthorizationModel, error) {
	fc, fi := d.note(ctx, "ReadAuthorizationModel", clModelRead, store)
	if fc || fi {
		return nil, errInjected
	}
	return d.OpenFGADatastore.ReadAuthorizationModel(ctx, store, id)
}

func (d *obsDS) ReadAuthorizationModels(ctx context.Context, store string, options storage.ReadAuthorizationModelsOptions) ([]*openfgav1.AuthorizationModel, string, error) {
	fc, fi := d.note(ctx, "ReadAuthorizationModels", clModelRead, store)
	if fc || fi {
		return nil, "", errInjected
	}
	return d.OpenFGADatastore.ReadAuthorizationModels(ctx, store, options)
}

func (d *obsDS) FindLatestAuthorizationModel(ctx context.Context, store string) (*openfgav1.AuthorizationModel, error) {
	fc, fi := d.note(ctx, "FindLatestAuthorizationModel", clModelRead, store)
	if fc || fi {
		return nil, errInjected
	}
	return d.OpenFGADatastore.FindLatestAuthorizationModel(ctx, store)
}

func (d *obsDS) WriteAuthorizationModel(ctx context.Context, store string, model *openfgav1.AuthorizationModel) error {
	d.note(ctx, "WriteAuthorizationModel", clModelWrite, store)
	return d.OpenFGADatastore.WriteAuthorizationModel(ctx, store, model)
}

func (d *obsDS) CreateStore(ctx context.Context, store *openfgav1.Store) (*openfgav1.Store, error) {
	d.note(ctx, "CreateStore", clStoreCreate, store.GetId())
	return d.OpenFGADatastore.CreateStore(ctx, store)
}

func (d *obsDS) DeleteStore(ctx context.Context, id string) error {
	d.note(ctx, "DeleteStore", clStoreDelete, id)
	return d.OpenFGADatastore.DeleteStore(ctx, id)
}

func (d *obsDS) GetStore(ctx context.Context, id string) (*openfgav1.Store, error) {
	d.note(ctx, "GetStore", clStoreGet, id)
	return d.OpenFGADatastore.GetStore(ctx, id)
}

func (d *obsDS) ListStores(ctx context.Context, options storage.ListStoresOptions) ([]*openfgav1.Store, string, error) {
	d.note(ctx, "ListStores", clStoreList, "")
	return d.OpenFGADatastore.ListStores(ctx, options)
}

func (d *obsDS) WriteAssertions(ctx context.Context, store, modelID string, assertions []*openfgav1.Assertion) error {
	d.note(ctx, "WriteAssertions", clAssertWrite, store)
	return d.OpenFGADatastore.WriteAssertions(ctx, store, modelID, assertions)
}

func (d *obsDS) ReadAssertions(ctx context.Context, store, modelID string) ([]*openfgav1.Assertion, error) {
	d.note(ctx, "ReadAssertions", clAssertRead, store)
	return d.OpenFGADatastore.ReadAssertions(ctx, store, modelID)
}

func (d *obsDS) ReadChanges(ctx context.Context, store string, filter storage.ReadChangesFilter, options storage.ReadChangesOptions) ([]*openfgav1.TupleChange, string, error) {
	d.note(ctx, "ReadChanges", clChangeRead, store)
	return d.OpenFGADatastore.ReadChanges(ctx, store, filter, options)
}
