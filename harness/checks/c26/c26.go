// Package c26: API access control allows exactly what the control store grants.
//
// A real in-process server with `enable-access-control` runs over a datastore wrapped by an
// observing / fault-injecting layer. The access-control store holds the documented FGA-on-FGA
// model and a seeded grant set; every store-scoped RPC, CreateStore and ListStores is called for
// every kind of caller identity. The expected outcome comes from the reference semantics
// (harness/ref) evaluated on the access-control store's own model and tuples, never from the
// server's Check.
package c26

import (
	"context"
	"encoding/json"
	"errors"
	"fmt"
	"math/rand"
	"os"
	"sort"
	"strings"
	"sync"
	"time"

	openfgav1 "github.com/openfga/api/proto/openfga/v1"
	parser "github.com/openfga/language/pkg/go/transformer"
	"google.golang.org/grpc/codes"
	"google.golang.org/grpc/status"
	"google.golang.org/protobuf/types/known/wrapperspb"

	"github.com/openfga/openfga/pkg/authclaims"
	"github.com/openfga/openfga/pkg/server"
	"github.com/openfga/openfga/pkg/storage"
	"github.com/openfga/openfga/verifharness/drive"
	"github.com/openfga/openfga/verifharness/ref"
	"github.com/openfga/openfga/verifharness/vk"
)

func init() { vk.Register("C26", "exploration", run) }

// Finding ids (stable: one per distinct kind of defect).
const (
	fListAll       = "C26-liststores-empty-grant-returns-all"
	fListExceeds   = "C26-liststores-exceeds-grants"
	fListMissing   = "C26-liststores-missing-granted-store"
	fAllowed       = "C26-ungranted-call-allowed"
	fTouched       = "C26-denied-call-touched-store-data"
	fNotForbidden  = "C26-denied-call-not-forbidden-error"
	fWronglyDenied = "C26-granted-call-denied"
	fErrAllowed    = "C26-decision-error-did-not-deny"
	fPanic         = "C26-panic"
)

// forbiddenCode is the documented API error code of an authorization failure (AuthErrorCode.forbidden = 1600).
var forbiddenCode = codes.Code(openfgav1.AuthErrorCode_forbidden)

// acModelDSL is the documented FGA-on-FGA model of the access-control store (the one the
// repository's own tests and docs use).
const acModelDSL = `
model
  schema 1.1

type system
  relations
    define can_call_create_stores: [application, application:*] or admin
    define can_call_list_stores: [application, application:*] or admin
    define admin: [application]

type application

type module
  relations
    define can_call_write: [application] or writer or writer from store
    define store: [store]
    define writer: [application]

type store
  relations
    define system: [system]
    define creator: [application]
    define can_call_delete_store: [application] or admin
    define can_call_get_store: [application] or admin
    define can_call_check: [application] or reader
    define can_call_expand: [application] or reader
    define can_call_list_objects: [application] or reader
    define can_call_list_users: [application] or reader
    define can_call_read: [application] or reader
    define can_call_read_assertions: [application] or reader or model_writer
    define can_call_read_authorization_models: [application] or reader or model_writer
    define can_call_read_changes: [application] or reader
    define can_call_write: [application] or writer
    define can_call_write_assertions: [application] or model_writer
    define can_call_write_authorization_models: [application] or model_writer
    define model_writer: [application] or admin
    define reader: [application] or admin
    define writer: [application] or admin
    define admin: [application] or creator or admin from system
`

// ---- target stores ----

func directRel(module string) (*openfgav1.Userset, *openfgav1.RelationMetadata) {
	return &openfgav1.Userset{Userset: &openfgav1.Userset_This{}},
		&openfgav1.RelationMetadata{Module: module, DirectlyRelatedUserTypes: []*openfgav1.RelationReference{{Type: "user"}}}
}

func typeDef(name, module string, rels map[string]string) *openfgav1.TypeDefinition {
	td := &openfgav1.TypeDefinition{Type: name, Relations: map[string]*openfgav1.Userset{},
		Metadata: &openfgav1.Metadata{Module: module, Relations: map[string]*openfgav1.RelationMetadata{}}}
	for rel, relModule := range rels {
		us, md := directRel(relModule)
		td.Relations[rel] = us
		td.Metadata.Relations[rel] = md
	}
	return td
}

// targetTypeDefs is the model of every target store: one type without a module, three types in
// three modules, and a relation of docA that was added by module modB (relation-level module).
func targetTypeDefs() []*openfgav1.TypeDefinition {
	return []*openfgav1.TypeDefinition{
		{Type: "user"},
		typeDef("plain", "", map[string]string{"viewer": ""}),
		typeDef("docA", "modA", map[string]string{"viewer": "", "editor": "", "ext": "modB"}),
		typeDef("docB", "modB", map[string]string{"viewer": ""}),
		typeDef("docC", "modC", map[string]string{"viewer": ""}),
	}
}

// moduleOf is the harness's own statement of which module a tuple's (type, relation) belongs to
// ("" = no module); authored together with targetTypeDefs, not read back from the server.
func moduleOf(objType, rel string) (string, bool) {
	switch objType + "#" + rel {
	case "plain#viewer":
		return "", true
	case "docA#viewer", "docA#editor":
		return "modA", true
	case "docA#ext", "docB#viewer":
		return "modB", true
	case "docC#viewer":
		return "modC", true
	}
	return "", false // not in the model
}

type wt struct{ Obj, Rel, User string }

type writeVariant struct {
	Name    string
	Writes  []wt
	Deletes []wt
}

var (
	tP  = wt{"plain:w1", "viewer", "user:w"}
	tA1 = wt{"docA:w1", "viewer", "user:w"}
	tA2 = wt{"docA:w2", "editor", "user:w"}
	tAX = wt{"docA:w1", "ext", "user:w"}
	tB  = wt{"docB:w1", "viewer", "user:w"}
	tC  = wt{"docC:w1", "viewer", "user:w"}
)

var writeVariants = []writeVariant{
	{Name: "plain", Writes: []wt{tP}},
	{Name: "A", Writes: []wt{tA1}},
	{Name: "A+A", Writes: []wt{tA1, tA2}},
	{Name: "A/delA", Writes: []wt{tA1}, Deletes: []wt{tA2}},
	{Name: "delA", Deletes: []wt{tA1}},
	{Name: "AextB", Writes: []wt{tAX}},
	{Name: "AextB+B", Writes: []wt{tAX, tB}},
	{Name: "B", Writes: []wt{tB}},
	{Name: "C/delC", Writes: []wt{tC}, Deletes: []wt{{"docC:w2", "viewer", "user:w"}}},
	{Name: "A+AextB", Writes: []wt{tA1, tAX}},
	{Name: "A+B", Writes: []wt{tA1, tB}},
	{Name: "B+A", Writes: []wt{tB, tA1}},
	{Name: "A/delB", Writes: []wt{tA1}, Deletes: []wt{tB}},
	{Name: "A+B+C", Writes: []wt{tA1, tB, tC}},
	{Name: "A+plain", Writes: []wt{tA1, tP}},
	{Name: "plain+A", Writes: []wt{tP, tA1}},
	{Name: "B/delplain", Writes: []wt{tB}, Deletes: []wt{tP}},
	{Name: "unknown-type", Writes: []wt{{"ghost:1", "viewer", "user:w"}}},
	{Name: "A+unknown-relation", Writes: []wt{tA1, {"docA:w1", "nope", "user:w"}}},
}

// footprint returns the set of modules the request spans, whether a tuple without module is
// present, and whether every tuple's (type, relation) exists in the model.
func (v writeVariant) footprint() (mods []string, unmoduled, valid bool) {
	set := map[string]bool{}
	valid = true
	for _, t := range append(append([]wt{}, v.Writes...), v.Deletes...) {
		typ, _ := ref.SplitObject(t.Obj)
		m, ok := moduleOf(typ, t.Rel)
		if !ok {
			valid = false
			continue
		}
		if m == "" {
			unmoduled = true
			continue
		}
		set[m] = true
	}
	for m := range set {
		mods = append(mods, m)
	}
	sort.Strings(mods)
	return mods, unmoduled, valid
}

func (v writeVariant) request(t *target) *openfgav1.WriteRequest {
	req := &openfgav1.WriteRequest{StoreId: t.ID, AuthorizationModelId: t.ModelID}
	if len(v.Writes) > 0 {
		req.Writes = &openfgav1.WriteRequestWrites{OnDuplicate: "ignore"}
		for _, x := range v.Writes {
			req.Writes.TupleKeys = append(req.Writes.TupleKeys, &openfgav1.TupleKey{Object: x.Obj, Relation: x.Rel, User: x.User})
		}
	}
	if len(v.Deletes) > 0 {
		req.Deletes = &openfgav1.WriteRequestDeletes{OnMissing: "ignore"}
		for _, x := range v.Deletes {
			req.Deletes.TupleKeys = append(req.Deletes.TupleKeys, &openfgav1.TupleKeyWithoutCondition{Object: x.Obj, Relation: x.Rel, User: x.User})
		}
	}
	return req
}

type target struct {
	ID      string
	Name    string
	ModelID string
	Kind    string // "regular", "victim", "ac", "created"
	Alive   bool
}

type identity struct {
	Label     string
	Kind      string // client, ghost, weird, empty, subject-only, noclaims
	ClientID  string
	HasClaims bool
	Subject   string
}

func (id identity) apply(ctx context.Context) context.Context {
	if !id.HasClaims {
		return ctx
	}
	return authclaims.ContextWithAuthClaims(ctx, &authclaims.AuthClaims{ClientID: id.ClientID, Subject: id.Subject,
		Scopes: map[string]bool{"read": true, "write": true}})
}

func (id identity) identified() bool { return id.HasClaims && id.ClientID != "" }

// ---- world ----

type worldCfg struct {
	Backend    string
	V2         bool
	QueryCache bool
}

func (w worldCfg) name() string {
	b := w.Backend
	if b == "" {
		b = "memory"
	}
	s := b
	if w.V2 {
		s += ",v2"
	}
	if w.QueryCache {
		s += ",qcache"
	}
	return s
}

type world struct {
	c   *vk.Ctx
	idx int
	r   *rand.Rand
	cfg worldCfg

	setup *drive.Srv
	ac    *drive.Srv
	obs   *obsDS

	acStore   string
	acModelID string
	acRef     *ref.Model
	acTuples  []*openfgav1.TupleKey

	targets []*target
	ids     []identity
	shapes  map[string]string // client|store -> grant shape label
	sysShp  map[string]string // client -> system-level shape

	evalMu    sync.Mutex
	evalCache map[string]bool
	table     []*rpcSpec
}

func tk(object, relation, user string) *openfgav1.TupleKey {
	return &openfgav1.TupleKey{Object: object, Relation: relation, User: user}
}

func app(client string) string { return "application:" + client }
func storeObj(id string) string { return "store:" + id }
func moduleObj(store, module string) string {
	return "module:" + store + "|" + module
}

const systemObj = "system:fga"

// granted evaluates the reference semantics on the access-control store's model and tuples plus
// the given contextual tuples.
func (w *world) granted(client, object, relation string, contextual ...*openfgav1.TupleKey) bool {
	var sb strings.Builder
	sb.WriteString(client + "\x00" + object + "\x00" + relation)
	for _, t := range contextual {
		sb.WriteString("\x00" + t.GetObject() + "#" + t.GetRelation() + "@" + t.GetUser())
	}
	key := sb.String()
	w.evalMu.Lock()
	defer w.evalMu.Unlock()
	if v, ok := w.evalCache[key]; ok {
		return v
	}
	all := append(append([]*openfgav1.TupleKey{}, w.acTuples...), contextual...)
	cs := ref.NewCase(w.acRef, all, nil, app(client), systemObj, object)
	v := cs.Eval(app(client)).K(object, relation) == ref.T
	w.evalCache[key] = v
	return v
}

func systemLink(store string) *openfgav1.TupleKey { return tk(storeObj(store), "system", systemObj) }

// mayCall is the statement's condition for a store-scoped call: the access-control store grants
// the caller the relation on the store (the store being part of the system).
func (w *world) mayCall(id identity, store, relation string) bool {
	if !id.identified() {
		return false
	}
	return w.granted(id.ClientID, storeObj(store), relation, systemLink(store))
}

// mayWrite: the store grant, or, for a write confined to exactly one module, the grant on that module.
func (w *world) mayWrite(id identity, store string, v writeVariant) bool {
	if !id.identified() {
		return false
	}
	if w.mayCall(id, store, relWrite) {
		return true
	}
	mods, unmoduled, valid := v.footprint()
	if !valid || unmoduled || len(mods) != 1 {
		return false
	}
	mo := moduleObj(store, mods[0])
	return w.granted(id.ClientID, mo, relWrite, tk(mo, "store", storeObj(store)), systemLink(store))
}

func (w *world) maySystem(id identity, relation string) bool {
	if !id.identified() {
		return false
	}
	return w.granted(id.ClientID, systemObj, relation)
}

func (w *world) shape(id identity, store string) string {
	if !id.identified() {
		return "-"
	}
	if s, ok := w.shapes[id.ClientID+"|"+store]; ok {
		return s
	}
	return "none"
}

// ---- world construction ----

var clientIDs = []string{"client-0", "client-1", "client-2", "client-3"}

func buildWorld(c *vk.Ctx, idx int, cfg worldCfg) (*world, error) {
	w := &world{c: c, idx: idx, cfg: cfg, r: c.Rand(fmt.Sprintf("world-%d", idx)), shapes: map[string]string{},
		sysShp: map[string]string{}, evalCache: map[string]bool{}, table: storeRPCs()}
	setup, err := drive.New(drive.Cfg{Backend: cfg.Backend})
	if err != nil {
		return nil, err
	}
	w.setup = setup
	fail := func(err error) (*world, error) { setup.Close(); return nil, err }

	acProto := parser.MustTransformDSLToProto(acModelDSL)
	if w.acStore, err = setup.CreateStore("access-control"); err != nil {
		return fail(err)
	}
	if w.acModelID, err = setup.WriteModel(w.acStore, acProto); err != nil {
		return fail(fmt.Errorf("access-control model: %w", err))
	}
	w.acRef = ref.NewModel(acProto, nil)
	w.targets = append(w.targets, &target{ID: w.acStore, Name: "access-control", ModelID: w.acModelID, Kind: "ac", Alive: true})

	tm := &openfgav1.AuthorizationModel{SchemaVersion: "1.1", TypeDefinitions: targetTypeDefs()}
	names := []string{"alpha", "beta", "alpha", "victim-0", "victim-1"} // two stores share a name (name filter)
	for i, n := range names {
		kind := "regular"
		if strings.HasPrefix(n, "victim") {
			kind = "victim"
		}
		id, err := setup.CreateStore(n)
		if err != nil {
			return fail(err)
		}
		mid, err := setup.WriteModel(id, tm)
		if err != nil {
			return fail(fmt.Errorf("target model: %w", err))
		}
		base := []*openfgav1.TupleKey{tk("docA:1", "viewer", probeUser), tk("docB:1", "viewer", probeUser), tk("plain:1", "viewer", probeUser)}
		if err := setup.WriteTuples(id, mid, base); err != nil {
			return fail(fmt.Errorf("target tuples: %w", err))
		}
		_ = i
		w.targets = append(w.targets, &target{ID: id, Name: n, ModelID: mid, Kind: kind, Alive: true})
	}

	w.generateGrants()
	if err := setup.WriteTuples(w.acStore, w.acModelID, w.acTuples); err != nil {
		return fail(fmt.Errorf("grant tuples: %w", err))
	}

	w.ids = nil
	for _, cl := range clientIDs {
		w.ids = append(w.ids, identity{Label: cl, Kind: "client", ClientID: cl, HasClaims: true, Subject: "sub-" + cl})
	}
	w.ids = append(w.ids,
		identity{Label: "ghost", Kind: "ghost", ClientID: "client-unknown", HasClaims: true, Subject: "sub-ghost"},
		identity{Label: "weird-space", Kind: "weird", ClientID: "client 0", HasClaims: true},
		identity{Label: "weird-userset", Kind: "weird", ClientID: "client-0#admin", HasClaims: true},
		identity{Label: "empty", Kind: "empty", ClientID: "", HasClaims: true},
		identity{Label: "subject-only", Kind: "empty", ClientID: "", HasClaims: true, Subject: "client-0"},
		identity{Label: "noclaims", Kind: "noclaims"},
	)

	ac, obs, err := w.newACServer()
	if err != nil {
		return fail(err)
	}
	w.ac, w.obs = ac, obs
	return w, nil
}

func (w *world) newACServer() (*drive.Srv, *obsDS, error) {
	var obs *obsDS
	srv, err := drive.NewShared(drive.Cfg{
		Backend: w.cfg.Backend, V2: w.cfg.V2, QueryCache: w.cfg.QueryCache, AuthZen: true,
		Experimentals: []string{"enable-access-control"},
		WrapDS: func(ds storage.OpenFGADatastore) storage.OpenFGADatastore {
			obs = newObsDS(ds)
			return obs
		},
		Extra: []server.OpenFGAServiceV1Option{
			server.WithAccessControlParams(true, w.acStore, w.acModelID, "oidc"),
			server.WithAuthzenBaseURL("https://pdp.example"),
		},
	}, w.setup)
	return srv, obs, err
}

func (w *world) close() {
	if w.ac != nil {
		w.ac.Close()
	}
	w.setup.Close()
}

func (w *world) add(shapeKey, shape string, t *openfgav1.TupleKey) {
	for _, x := range w.acTuples {
		if x.GetObject() == t.GetObject() && x.GetRelation() == t.GetRelation() && x.GetUser() == t.GetUser() {
			return
		}
	}
	w.acTuples = append(w.acTuples, t)
	if shapeKey != "" {
		if old := w.shapes[shapeKey]; old == "" {
			w.shapes[shapeKey] = shape
		} else if !strings.Contains(old, shape) {
			w.shapes[shapeKey] = old + "+" + shape
		}
	}
}

// generateGrants draws the grant set of the world.
func (w *world) generateGrants() {
	r := w.r
	roles := []string{"reader", "writer", "model_writer", "admin", "creator"}
	mods := []string{"modA", "modB", "modC", "modZ"}

	// system level
	for ci, cl := range clientIDs {
		var s string
		switch x := r.Intn(10); {
		case x < 3:
			s = "none"
		case x < 5:
			s = "list"
			w.add("", "", tk(systemObj, relListStores, app(cl)))
		case x < 6:
			s = "create"
			w.add("", "", tk(systemObj, relCreateStore, app(cl)))
		case x < 8:
			s = "list+create"
			w.add("", "", tk(systemObj, relListStores, app(cl)))
			w.add("", "", tk(systemObj, relCreateStore, app(cl)))
		default:
			s = "sysadmin"
			w.add("", "", tk(systemObj, "admin", app(cl)))
		}
		// the last client of even worlds may list stores but is granted nothing else (the shape the
		// ListStores filter must handle: permitted to list, nothing to see)
		if ci == len(clientIDs)-1 && w.idx%2 == 0 {
			s = "list"
			w.dropClient(cl)
			w.add("", "", tk(systemObj, relListStores, app(cl)))
		}
		w.sysShp[cl] = s
	}
	if r.Intn(6) == 0 {
		w.add("", "", tk(systemObj, relListStores, "application:*"))
		w.sysShp["*"] = "list-public"
	}
	if r.Intn(8) == 0 {
		w.add("", "", tk(systemObj, relCreateStore, "application:*"))
		w.sysShp["*"] += "create-public"
	}

	// store level
	for _, t := range w.targets {
		if r.Intn(10) < 3 {
			w.add("", "", systemLink(t.ID)) // stored link: system admins inherit without the contextual tuple
		}
		for ci, cl := range clientIDs {
			if ci == len(clientIDs)-1 && w.idx%2 == 0 {
				continue
			}
			key := cl + "|" + t.ID
			so := storeObj(t.ID)
			x := r.Intn(100)
			if t.Kind == "ac" && x < 50 {
				x = 0
			}
			switch {
			case x < 30:
				// none
			case x < 60:
				n := 0
				for _, rel := range storeRelations {
					if r.Intn(100) < 35 {
						w.add(key, "direct", tk(so, rel, app(cl)))
						n++
					}
				}
				if n == 0 {
					w.add(key, "direct", tk(so, storeRelations[r.Intn(len(storeRelations))], app(cl)))
				}
			case x < 85:
				role := roles[r.Intn(len(roles))]
				w.add(key, role, tk(so, role, app(cl)))
			default:
				role := roles[r.Intn(3)]
				w.add(key, role, tk(so, role, app(cl)))
				for _, rel := range storeRelations {
					if r.Intn(100) < 20 {
						w.add(key, "direct", tk(so, rel, app(cl)))
					}
				}
			}
			if t.Kind == "victim" && r.Intn(100) < 35 {
				w.add(key, "direct", tk(so, relDeleteStore, app(cl)))
			}
			// module level
			if t.Kind == "regular" && r.Intn(100) < 45 {
				for n := 1 + r.Intn(2); n > 0; n-- {
					m := mods[r.Intn(len(mods))]
					mo := moduleObj(t.ID, m)
					if r.Intn(2) == 0 {
						w.add(key, "module-direct", tk(mo, relWrite, app(cl)))
					} else {
						w.add(key, "module-writer", tk(mo, "writer", app(cl)))
					}
				}
			}
		}
	}
	// a module linked (stored tuple) to ANOTHER store: `writer from store` then follows that link too
	if r.Intn(3) == 0 {
		var reg []*target
		for _, t := range w.targets {
			if t.Kind == "regular" {
				reg = append(reg, t)
			}
		}
		a, b := reg[r.Intn(len(reg))], reg[r.Intn(len(reg))]
		w.add("", "", tk(moduleObj(a.ID, mods[r.Intn(3)]), "store", storeObj(b.ID)))
		w.sysShp["cross-link"] = "yes"
	}
	r.Shuffle(len(w.acTuples), func(i, j int) { w.acTuples[i], w.acTuples[j] = w.acTuples[j], w.acTuples[i] })
}

func (w *world) dropClient(cl string) {
	var keep []*openfgav1.TupleKey
	for _, t := range w.acTuples {
		if t.GetUser() != app(cl) {
			keep = append(keep, t)
		}
	}
	w.acTuples = keep
}

// ---- one observed call ----

type observed struct {
	Err      error
	Events   []dsEvent
	Injected int64
	Hung     bool
}

func (w *world) invoke(srv *server.Server, id identity, f fault, fn func(ctx context.Context, s *server.Server) error) observed {
	tr := &trace{fault: f}
	ctx := id.apply(withTrace(context.Background(), tr))
	var err error
	ok := drive.Watch(90*time.Second, func() {
		err = drive.Guard(func() error { return fn(ctx, srv) })
	})
	if !ok {
		return observed{Hung: true}
	}
	return observed{Err: err, Events: tr.snapshot(), Injected: tr.injected.Load()}
}

func codeName(err error) string {
	if err == nil {
		return "OK"
	}
	if s := asSoft(err); s != nil {
		return fmt.Sprintf("soft%v", s.statuses)
	}
	return drive.CodeOf(err)
}

// isForbidden: the call was refused with the documented authorization error.
func isForbidden(err error) bool {
	if err == nil {
		return false
	}
	if s := asSoft(err); s != nil {
		// the AuthZEN short-circuit variant reports an item's failure as an HTTP status inside the
		// response; this server maps its authorization error class (16xx) to 401
		for _, st := range s.statuses {
			if st != 401 && st != 403 {
				return false
			}
		}
		return true
	}
	st, ok := status.FromError(err)
	return ok && st.Code() == forbiddenCode
}

type verdictIn struct {
	RPC        string
	ID         identity
	Target     *target // nil for system-level calls
	Shape      string
	Expect     bool // reference: the caller may make this call
	OneWay     bool // judge only "got through ⇒ granted" (request is not valid, or the identity string is not a valid user)
	Fault      fault
	Valid      bool     // the request is valid by construction: a denial must be the forbidden error
	Forbidden  []string // datastore call classes a denied call must not have made on Target
	SystemCall string   // "CreateStore" / "ListStores": datastore class that must not occur at all when denied
	Extra      map[string]any
}

func faultName(f fault) string {
	if f.Mode == "" {
		return "none"
	}
	return f.Mode + "/" + f.Scope + "/" + f.At
}

// judge is the oracle for one call.
func (w *world) judge(in verdictIn, ob observed) {
	c := w.c
	fn := faultName(in.Fault)
	if ob.Hung {
		c.Inconclusive("call did not return within 90s: " + in.RPC)
		return
	}
	expect := in.Expect
	errorForced := false
	if in.Fault.Mode == "all" && ob.Injected > 0 {
		// every read of the deciding store failed: no grant can have been established
		expect = false
		errorForced = true
	}
	oneWay := in.OneWay || (in.Fault.Mode != "" && !errorForced)

	c.Case(fmt.Sprintf("%s|id=%s|shape=%s|exp=%v|fault=%s", in.RPC, in.ID.Kind, in.Shape, expect, fn), in.RPC != "GetConfiguration")
	pfx := "rpc." + in.RPC + "."
	if expect {
		c.Count(pfx+"expected_allow", 1)
	} else {
		c.Count(pfx+"expected_deny", 1)
	}
	forb := isForbidden(ob.Err)
	if in.Fault.Mode == "" && in.ID.Kind == "client" && (strings.HasPrefix(in.RPC, "Write/mods=1") || strings.HasPrefix(in.RPC, "Write/mods=2")) && strings.Contains(in.Shape, "module") && c.Counter("sampled."+in.RPC+fmt.Sprint(expect)) == 0 {
		c.Count("sampled."+in.RPC+fmt.Sprint(expect), 1)
		c.Sample(map[string]any{"rpc": in.RPC, "identity": in.ID.ClientID, "grant_shape": in.Shape, "reference_allows": expect, "observed": codeName(ob.Err),
			"write": in.Extra["write_variant"], "modules": in.Extra["modules"], "datastore_calls": ob.Events})
	}
	switch {
	case ob.Err == nil:
		c.Count(pfx+"observed_ok", 1)
	case forb:
		c.Count(pfx+"observed_forbidden", 1)
	default:
		c.Count(pfx+"observed_other_error", 1)
		c.Seen("other_error_codes", in.RPC+":"+codeName(ob.Err))
	}
	if ob.Injected > 0 {
		c.Count("fault.injected_errors", int(ob.Injected))
		c.Count("fault.calls_with_injection", 1)
	}

	witness := func() map[string]any {
		m := map[string]any{
			"world": w.idx, "config": w.cfg.name(), "rpc": in.RPC, "identity": in.ID, "grant_shape": in.Shape,
			"reference_allows": in.Expect, "fault": in.Fault, "injected_errors": ob.Injected,
			"error": drive.ErrDetail(ob.Err), "code": codeName(ob.Err), "datastore_calls": ob.Events,
			"access_control_store": w.acStore, "access_control_model": acModelDSL, "grant_tuples": tupleStrings(w.acTuples),
		}
		if in.Target != nil {
			m["target_store"] = in.Target
		}
		for k, v := range in.Extra {
			m[k] = v
		}
		return m
	}
	key := func(kind string) string {
		return fmt.Sprintf("%s|%s|%s|%s|%s", kind, in.RPC, in.ID.Kind, in.Shape, fn)
	}

	var pe *drive.PanicError
	if asPanic(ob.Err, &pe) {
		c.Violation(fPanic, key("panic"), fmt.Sprintf("%s panicked: %v", in.RPC, pe.Value), witness())
		return
	}

	if !expect {
		// (1) must not get through
		if ob.Err == nil {
			id := fAllowed
			what := fmt.Sprintf("%s succeeded for identity %q (%s) although the access-control store does not grant it (grant shape %s, fault %s)", in.RPC, in.ID.ClientID, in.ID.Kind, in.Shape, fn)
			if errorForced {
				id = fErrAllowed
				what = fmt.Sprintf("%s succeeded for %q although every tuple read of the access-control store failed while deciding (%d injected errors)", in.RPC, in.ID.ClientID, ob.Injected)
			}
			c.Violation(id, key("allowed"), what, witness())
		} else if !forb {
			// got an error that is not the authorization error: for a request that is valid by
			// construction that means the call passed authorization and failed later, or the denial is
			// reported under another class
			if in.Valid {
				c.Violation(fNotForbidden, key("notforbidden"), fmt.Sprintf("%s for a caller without grant failed with %s instead of the forbidden error (code %d)", in.RPC, codeName(ob.Err), int(forbiddenCode)), witness())
			} else {
				c.Count("denied_invalid_request_other_error", 1)
			}
		}
		// (2) must not have touched the target's data
		var touched []dsEvent
		for _, e := range ob.Events {
			if in.Target != nil && in.Target.ID != w.acStore && e.Store == in.Target.ID && contains(in.Forbidden, e.Class) {
				touched = append(touched, e)
			}
			if in.SystemCall == "CreateStore" && e.Class == clStoreCreate {
				touched = append(touched, e)
			}
			if in.SystemCall == "ListStores" && e.Class == clStoreList {
				touched = append(touched, e)
			}
		}
		c.Count("denied.calls_monitored_for_data_touch", 1)
		if len(touched) > 0 {
			wit := witness()
			wit["forbidden_datastore_calls"] = touched
			c.Violation(fTouched, key("touched"), fmt.Sprintf("%s was not authorized for %q (%s) but the request made datastore calls on the target store: %v", in.RPC, in.ID.ClientID, in.ID.Kind, touched), wit)
		}
		// allowed: model reads of the target (module extraction); record what denied calls did do
		for _, e := range ob.Events {
			if in.Target != nil && e.Store == in.Target.ID && in.Target.ID != w.acStore {
				c.Seen("denied_call_target_datastore_methods", e.Method)
				c.Count("denied.target_store_datastore_call."+e.Method, 1)
			}
		}
		return
	}

	// expect == true
	if oneWay {
		c.Count("oneway.not_judged_for_denial", 1)
		return
	}
	if forb {
		c.Violation(fWronglyDenied, key("denied"), fmt.Sprintf("%s was refused as forbidden for %q although the access-control store grants it (grant shape %s)", in.RPC, in.ID.ClientID, in.Shape), witness())
		return
	}
	if ob.Err != nil && in.Valid {
		// not an authorization matter: recorded only
		c.Count("allowed.valid_request_failed_other", 1)
	}
}

func asPanic(err error, pe **drive.PanicError) bool { return errors.As(err, pe) }

func tupleStrings(ts []*openfgav1.TupleKey) []string {
	out := make([]string, 0, len(ts))
	for _, t := range ts {
		out = append(out, t.GetObject()+"#"+t.GetRelation()+"@"+t.GetUser())
	}
	sort.Strings(out)
	return out
}

func contains(xs []string, x string) bool {
	for _, y := range xs {
		if x == y {
			return true
		}
	}
	return false
}

// ---- phases ----

// matrix: every store-scoped RPC × identity × target store.
func (w *world) matrix(f fault, sampleEvery int) {
	n := 0
	for _, t := range w.targets {
		for _, id := range w.ids {
			for _, spec := range w.table {
				if t.Kind == "ac" && (!spec.OnACOK || f.Mode != "") {
					continue
				}
				if (t.Kind == "victim" || t.Kind == "created") && spec.Method != "GetStore" && spec.name() != "Read/all" {
					continue // victims are for the delete phase; stores created during the run have no model
				}
				if spec.Method == "DeleteStore" {
					// on a store that must survive, only callers the reference denies are driven
					if spec.Relation != "" && w.mayCall(id, t.ID, spec.Relation) {
						continue
					}
					if f.Mode == "nth" {
						continue // a partial failure may legitimately let a granted caller through
					}
				}
				n++
				if sampleEvery > 1 && (n+w.idx)%sampleEvery != 0 {
					continue
				}
				w.storeCall(spec, id, t, f)
			}
			for _, v := range writeVariants {
				n++
				if sampleEvery > 1 && (n+w.idx)%sampleEvery != 0 {
					continue
				}
				if t.Kind != "regular" {
					continue
				}
				w.writeCall(v, id, t, f)
			}
		}
	}
}

func (w *world) storeCall(spec *rpcSpec, id identity, t *target, f fault) {
	ob := w.invoke(w.ac.S, id, f, func(ctx context.Context, s *server.Server) error { return spec.Call(ctx, s, t) })
	if spec.Relation == "" {
		// no relation documented: only observe
		w.c.Case(spec.name()+"|unjudged", false)
		w.c.Count("rpc."+spec.name()+".driven_unjudged", 1)
		for _, e := range ob.Events {
			w.c.Seen("unjudged_rpc_datastore_methods", spec.name()+":"+e.Method)
		}
		return
	}
	w.judge(verdictIn{RPC: spec.name(), ID: id, Target: t, Shape: w.shape(id, t.ID), Expect: w.mayCall(id, t.ID, spec.Relation),
		OneWay: id.Kind == "weird", Fault: f, Valid: true, Forbidden: spec.Forbidden,
		Extra: map[string]any{"relation": spec.Relation}}, ob)
}

func (w *world) writeCall(v writeVariant, id identity, t *target, f fault) {
	mods, unmoduled, valid := v.footprint()
	ob := w.invoke(w.ac.S, id, f, func(ctx context.Context, s *server.Server) error {
		_, err := s.Write(ctx, v.request(t))
		return err
	})
	shape := w.shape(id, t.ID)
	foot := fmt.Sprintf("mods=%d", len(mods))
	if unmoduled {
		foot += "+unmoduled"
	}
	if !valid {
		foot += "+invalid"
	}
	w.c.Seen("write_footprints", foot)
	w.judge(verdictIn{RPC: "Write/" + foot, ID: id, Target: t, Shape: shape, Expect: w.mayWrite(id, t.ID, v),
		OneWay: id.Kind == "weird" || !valid, Fault: f, Valid: valid, Forbidden: dataClasses,
		Extra: map[string]any{"write_variant": v, "modules": mods, "relation": relWrite}}, ob)
}

// liveStores returns the ids of the stores that exist.
func (w *world) liveStores(name string) map[string]bool {
	out := map[string]bool{}
	for _, t := range w.targets {
		if t.Alive && (name == "" || t.Name == name) {
			out[t.ID] = true
		}
	}
	return out
}

// listStores: ListStores (all pages) for every identity; the result set is compared with the
// reference.
func (w *world) listStores(phase string, f fault) {
	pageSizes := []int32{0, 1, 2, 3}
	for _, id := range w.ids {
		ps := pageSizes[w.r.Intn(len(pageSizes))]
		name := ""
		if w.r.Intn(4) == 0 {
			name = []string{"alpha", "beta", "nosuch"}[w.r.Intn(3)]
		}
		expect := w.maySystem(id, relListStores)
		got := map[string]bool{}
		pages := 0
		var all observed
		token := ""
		for {
			ob := w.invoke(w.ac.S, id, f, func(ctx context.Context, s *server.Server) error {
				req := &openfgav1.ListStoresRequest{ContinuationToken: token, Name: name}
				if ps > 0 {
					req.PageSize = wrapperspb.Int32(ps)
				}
				resp, err := s.ListStores(ctx, req)
				if err != nil {
					return err
				}
				for _, st := range resp.GetStores() {
					got[st.GetId()] = true
				}
				token = resp.GetContinuationToken()
				return nil
			})
			pages++
			all.Events = append(all.Events, ob.Events...)
			all.Injected += ob.Injected
			all.Err, all.Hung = ob.Err, ob.Hung
			if ob.Err != nil || ob.Hung || token == "" || pages > 40 {
				break
			}
		}
		if pages > 40 {
			w.c.Inconclusive("ListStores pagination did not terminate within 40 pages")
			continue
		}
		sysShape := "-"
		if id.identified() {
			sysShape = w.sysShp[id.ClientID]
			if sysShape == "" {
				sysShape = "none"
			}
		}
		w.judge(verdictIn{RPC: "ListStores", ID: id, Shape: "sys:" + sysShape, Expect: expect, OneWay: id.Kind == "weird", Fault: f,
			Valid: true, SystemCall: "ListStores", Extra: map[string]any{"phase": phase, "page_size": ps, "name_filter": name}}, all)
		if all.Err != nil || all.Hung {
			continue
		}
		if !id.identified() {
			continue // already a violation above when it succeeded
		}
		// the set
		live := w.liveStores(name)
		lower, upper := map[string]bool{}, map[string]bool{}
		for sid := range live {
			if w.granted(id.ClientID, storeObj(sid), relGetStore) {
				lower[sid] = true
			}
			if w.granted(id.ClientID, storeObj(sid), relGetStore, systemLink(sid)) {
				upper[sid] = true
			}
		}
		w.c.Case(fmt.Sprintf("ListStores-set|granted=%s|live=%s|ps=%d|name=%v|fault=%s", sizeClass(len(lower)), sizeClass(len(live)), ps, name != "", faultName(f)), true)
		w.c.Count("liststores.result_sets_compared", 1)
		w.c.Count("liststores.pages", pages)
		if len(lower) == 0 {
			w.c.Count("liststores.caller_may_list_but_get_none", 1)
			if len(upper) == 0 && len(live) > 0 && sameSet(got, live) {
				w.c.Count("liststores.returned_all_to_caller_with_no_store."+w.cfg.name(), 1)
			}
		}
		var extra, missing []string
		for sid := range got {
			if !upper[sid] {
				extra = append(extra, sid)
			}
		}
		for sid := range lower {
			if !got[sid] {
				missing = append(missing, sid)
			}
		}
		sort.Strings(extra)
		sort.Strings(missing)
		wit := func() map[string]any {
			return map[string]any{"world": w.idx, "config": w.cfg.name(), "identity": id, "phase": phase, "page_size": ps, "name_filter": name,
				"returned": keys(got), "reference_can_call_get_store_stored_tuples": keys(lower), "reference_may_get_store": keys(upper),
				"existing_stores": keys(live), "not_permitted_but_returned": extra, "permitted_but_missing": missing,
				"fault": f, "access_control_store": w.acStore, "access_control_model": acModelDSL, "grant_tuples": tupleStrings(w.acTuples)}
		}
		if len(extra) > 0 {
			fid := fListExceeds
			what := fmt.Sprintf("ListStores returned %d store(s) the caller %q may not get: %v", len(extra), id.ClientID, extra)
			if len(lower) == 0 && len(upper) == 0 && sameSet(got, live) {
				fid = fListAll
				what = fmt.Sprintf("ListStores returned ALL %d existing stores to %q, who may call ListStores but has can_call_get_store on no store (an empty accessible-id list is treated as 'no filter')", len(got), id.ClientID)
			}
			w.c.Violation(fid, fmt.Sprintf("%s|%s|%s", fid, id.Kind, faultName(f)), what, wit())
		}
		if len(missing) > 0 && f.Mode == "" {
			w.c.Violation(fListMissing, fmt.Sprintf("%s|%s", fListMissing, id.Kind), fmt.Sprintf("ListStores omitted %d store(s) on which the access-control store grants %q can_call_get_store: %v", len(missing), id.ClientID, missing), wit())
		}
	}
}

func sameSet(a, b map[string]bool) bool {
	if len(a) != len(b) {
		return false
	}
	for k := range a {
		if !b[k] {
			return false
		}
	}
	return true
}

func keys(m map[string]bool) []string {
	out := make([]string, 0, len(m))
	for k := range m {
		out = append(out, k)
	}
	sort.Strings(out)
	return out
}

func sizeClass(n int) string {
	switch {
	case n == 0:
		return "0"
	case n == 1:
		return "1"
	case n <= 3:
		return "2-3"
	}
	return "4+"
}

// createStores: CreateStore for every identity.
func (w *world) createStores(f fault) {
	for i, id := range w.ids {
		name := fmt.Sprintf("created-%d", i)
		var newID string
		ob := w.invoke(w.ac.S, id, f, func(ctx context.Context, s *server.Server) error {
			resp, err := s.CreateStore(ctx, &openfgav1.CreateStoreRequest{Name: name})
			if err == nil {
				newID = resp.GetId()
			}
			return err
		})
		if newID != "" {
			w.targets = append(w.targets, &target{ID: newID, Name: name, Kind: "created", Alive: true})
		}
		sysShape := "-"
		if id.identified() {
			sysShape = w.sysShp[id.ClientID]
		}
		w.judge(verdictIn{RPC: "CreateStore", ID: id, Shape: "sys:" + sysShape, Expect: w.maySystem(id, relCreateStore), OneWay: id.Kind == "weird",
			Fault: f, Valid: true, SystemCall: "CreateStore"}, ob)
	}
}

// deleteVictims: DeleteStore on the sacrificial stores for every identity in a seeded order.
func (w *world) deleteVictims() {
	var del *rpcSpec
	for _, s := range w.table {
		if s.Method == "DeleteStore" {
			del = s
		}
	}
	for _, t := range w.targets {
		if t.Kind != "victim" {
			continue
		}
		order := w.r.Perm(len(w.ids))
		for _, i := range order {
			id := w.ids[i]
			expect := w.mayCall(id, t.ID, relDeleteStore)
			w.storeCall(del, id, t, fault{})
			if expect {
				t.Alive = false // an authorized delete removes the store (a later one is a no-op)
			}
		}
		// the reference's view of existence must agree with the datastore before ListStores is compared
		_, err := w.setup.DS.GetStore(context.Background(), t.ID)
		exists := err == nil
		if exists != t.Alive {
			if exists {
				w.c.Count("delete.victim_survived_authorized_delete", 1)
			}
			t.Alive = exists
		}
	}
}

// freshServerModelFault: a newly built server whose first read of the access-control model fails
// must deny (nothing is cached yet).
func (w *world) freshServerModelFault() {
	srv, _, err := w.newACServer()
	if err != nil {
		w.c.HarnessError("fresh access-control server: %v", err)
		return
	}
	defer srv.Close()
	f := fault{Store: w.acStore, Mode: "all", Scope: "model", At: "call"}
	spec := w.table[w.r.Intn(6)]
	var t *target
	for _, x := range w.targets {
		if x.Kind == "regular" {
			t = x
			break
		}
	}
	for _, id := range w.ids[:len(clientIDs)] {
		ob := w.invoke(srv.S, id, f, func(ctx context.Context, s *server.Server) error { return spec.Call(ctx, s, t) })
		w.judge(verdictIn{RPC: spec.name(), ID: id, Target: t, Shape: w.shape(id, t.ID), Expect: w.mayCall(id, t.ID, spec.Relation),
			Fault: f, Valid: true, Forbidden: spec.Forbidden}, ob)
	}
}

func runWorld(c *vk.Ctx, idx int, cfg worldCfg, faultSample int) {
	w, err := buildWorld(c, idx, cfg)
	if err != nil {
		c.HarnessError("world %d (%s): %v", idx, cfg.name(), err)
		return
	}
	defer w.close()
	c.Seen("configs", cfg.name())
	for _, s := range w.shapes {
		c.Seen("grant_shapes", s)
		c.Count("grant_shape."+s, 1)
	}
	for k, s := range w.sysShp {
		c.Seen("system_grant_shapes", s)
		_ = k
	}
	c.Count("grant_tuples_total", len(w.acTuples))
	if idx == 0 {
		c.Sample(map[string]any{"world": 0, "config": cfg.name(), "grant_tuples": tupleStrings(w.acTuples), "store_shapes": w.shapes, "system_shapes": w.sysShp})
	}

	none := fault{}
	w.matrix(none, 1)
	w.listStores("initial", none)
	w.createStores(none)
	w.listStores("after-create", none)
	w.deleteVictims()
	w.listStores("after-delete", none)

	if !cfg.QueryCache {
		// every tuple read of the access-control store fails: everything must be denied
		for _, at := range []string{"call", "iter"} {
			all := fault{Store: w.acStore, Mode: "all", Scope: "tuple", At: at}
			w.matrix(all, faultSample)
			w.listStores("fault-all-"+at, all)
			w.createStores(all)
		}
		// only the n-th read fails: a call may get through only if the reference grants it
		for n := int64(1); n <= 3; n++ {
			nth := fault{Store: w.acStore, Mode: "nth", N: n, Scope: "tuple", At: []string{"call", "iter"}[int(n)%2]}
			w.matrix(nth, faultSample*2)
			w.listStores(fmt.Sprintf("fault-nth-%d", n), nth)
		}
		w.freshServerModelFault()
	}
	c.Count("datastore.calls_observed", int(w.obs.calls.Load()))
	c.Count("datastore.calls_without_request_tag", int(w.obs.untagged.Load()))
}

// replayWorld returns the world index recorded in the witness being replayed (-1: run everything).
func replayWorld(c *vk.Ctx) int {
	if c.Replay == "" {
		return -1
	}
	b, err := os.ReadFile(c.Replay)
	if err != nil {
		return -1
	}
	var doc struct {
		Witness struct {
			World *int `json:"world"`
		} `json:"witness"`
	}
	if json.Unmarshal(b, &doc) != nil || doc.Witness.World == nil {
		return -1
	}
	return *doc.Witness.World
}

func run(c *vk.Ctx) {
	c.SetRule("per world (seeded): a real server with enable-access-control over memory/sqlite (v1 and weighted-graph Check, with/without query cache), an access-control store with the documented FGA-on-FGA model, 3 regular + 2 sacrificial target stores with a modular model (type- and relation-level modules), 4 clients with a drawn grant set (none / random subset of can_call_* / role reader|writer|model_writer|admin|creator / mixed; system admin, list, create, public wildcards; module writer / can_call_write; stored system links; a module linked to another store). " +
			"Every store-scoped RPC (table checked against reflection over *server.Server), 19 Write variants spanning 0-3 modules, CreateStore and ListStores (all pages, page sizes, name filter) are called for each client, an unknown client, two ill-formed client ids, an empty client id, claims with only a subject, and no claims; then with every / the n-th tuple read of the access-control store failing (at the call or at the iterator), and on a fresh server whose access-control model read fails. " +
			"Oracle: harness/ref evaluated on the access-control store's own model and tuples (+ the documented contextual tuples system:fga system store:X and store:X store module:X|m); an observing datastore attributes every datastore call to its request through the context. " +
			"distinct_nontrivial = distinct (RPC or write footprint, identity kind, grant shape on that store, expected outcome, fault mode)")
	c.Assume("harness/ref is the reference semantics of OpenFGA models; the access-control model is the documented one (copied from the repository's tests/docs), parsed by the language module's DSL transformer")
	c.Assume("the relation per API method is the documented can_call_<method> naming restated by hand; AuthZEN wrappers are held to the relation of the method they delegate to")
	c.Assume("request context values reach the datastore (the server's context wrapper is context.WithoutCancel); datastore calls made after a request returned are not attributed")
	c.Assume("the identity is what authclaims carries (authentication itself is C27)")

	table := storeRPCs()
	rpcs, scoped, missing := checkCoverage(table)
	c.Extra("server_rpc_methods", rpcs)
	c.Extra("server_store_scoped_rpc_methods", scoped)
	missing, stubs := probeStubs(missing)
	c.Extra("server_unimplemented_stub_methods", stubs)
	if len(missing) > 0 {
		c.HarnessError("exported RPC methods of *server.Server not covered by the C26 table (a handler was added: extend the table): %v", missing)
		return
	}
	if len(scoped) < 15 {
		c.HarnessError("reflection found only %d store-scoped RPC methods: the enumeration is broken", len(scoped))
		return
	}

	var cfgs []worldCfg
	nMem := c.Pick(12, 120)
	for i := 0; i < nMem; i++ {
		cfgs = append(cfgs, worldCfg{Backend: "memory", V2: i%3 == 1, QueryCache: i%5 == 4})
	}
	for i := 0; i < c.Pick(2, 16); i++ {
		cfgs = append(cfgs, worldCfg{Backend: "sqlite", V2: i%2 == 1})
	}
	faultSample := c.Pick(3, 2)

	only := replayWorld(c)
	sem := make(chan struct{}, 6)
	var wg sync.WaitGroup
	for i, cfg := range cfgs {
		if only >= 0 && i != only {
			continue
		}
		wg.Add(1)
		sem <- struct{}{}
		go func(i int, cfg worldCfg) {
			defer wg.Done()
			defer func() { <-sem }()
			runWorld(c, i, cfg, faultSample)
		}(i, cfg)
	}
	wg.Wait()
	c.Extra("worlds", len(cfgs))
}
