package c26

import (
	"context"
	"errors"
	"fmt"
	"reflect"
	"sort"
	"sync"

	authzenv1 "github.com/openfga/api/proto/authzen/v1"
	openfgav1 "github.com/openfga/api/proto/openfga/v1"
	"google.golang.org/grpc/codes"
	"google.golang.org/grpc/metadata"
	"google.golang.org/grpc/status"
	"google.golang.org/protobuf/proto"
	"google.golang.org/protobuf/types/known/wrapperspb"

	"github.com/openfga/openfga/pkg/server"
	"github.com/openfga/openfga/pkg/storage/memory"
	"github.com/openfga/openfga/verifharness/drive"
)

// The documented relation of every API method (docs of the access-control feature and the
// FGA-on-FGA model: one can_call_<method> relation per method, the two model-read methods share
// one, Check/BatchCheck share one, ListObjects/StreamedListObjects share one). Restated here by
// hand; it is NOT read from internal/authz.
const (
	relCheck       = "can_call_check"
	relExpand      = "can_call_expand"
	relListObjects = "can_call_list_objects"
	relListUsers   = "can_call_list_users"
	relRead        = "can_call_read"
	relReadAssert  = "can_call_read_assertions"
	relReadModels  = "can_call_read_authorization_models"
	relReadChanges = "can_call_read_changes"
	relWrite       = "can_call_write"
	relWriteAssert = "can_call_write_assertions"
	relWriteModels = "can_call_write_authorization_models"
	relGetStore    = "can_call_get_store"
	relDeleteStore = "can_call_delete_store"
	relCreateStore = "can_call_create_stores"
	relListStores  = "can_call_list_stores"
)

var storeRelations = []string{relCheck, relExpand, relListObjects, relListUsers, relRead, relReadAssert, relReadModels,
	relReadChanges, relWrite, relWriteAssert, relWriteModels, relGetStore, relDeleteStore}

// errSoft is returned by the AuthZEN short-circuit variant when the response carried no decision
// but only per-item errors (that RPC reports authorization failures inside a 200 response).
type errSoft struct {
	statuses []int
}

func (e *errSoft) Error() string { return fmt.Sprintf("every evaluation item failed: http statuses %v", e.statuses) }

// rpcSpec is one row of the RPC table.
type rpcSpec struct {
	Method   string // exported method of *server.Server
	Variant  string
	Relation string // documented relation ("" = no relation exists for this method: not judged)
	Derived  bool   // AuthZEN wrapper: relation is the one of the method it delegates to
	Mutating bool   // changes the target store when it gets through
	OnACOK   bool   // may be aimed at the access-control store itself
	// classes of datastore calls on the target store that a denied call must not have made
	Forbidden []string
	Call      func(ctx context.Context, s *server.Server, t *target) error
}

func (r *rpcSpec) name() string {
	if r.Variant == "" {
		return r.Method
	}
	return r.Method + "/" + r.Variant
}

var dataClasses = []string{clTupleRead, clTupleWrite, clChangeRead, clAssertRead, clAssertWrite, clModelWrite, clStoreDelete}
var dataAndMeta = append(append([]string{}, dataClasses...), clStoreGet)

type collectStream struct {
	ctx context.Context
	mu  sync.Mutex
	n   int
}

func (s *collectStream) Send(*openfgav1.StreamedListObjectsResponse) error {
	s.mu.Lock()
	s.n++
	s.mu.Unlock()
	return nil
}
func (s *collectStream) SetHeader(metadata.MD) error  { return nil }
func (s *collectStream) SendHeader(metadata.MD) error { return nil }
func (s *collectStream) SetTrailer(metadata.MD)       {}
func (s *collectStream) Context() context.Context     { return s.ctx }
func (s *collectStream) SendMsg(any) error            { return nil }
func (s *collectStream) RecvMsg(any) error            { return nil }

const (
	probeUser   = "user:anne"
	probeObject = "docA:1"
	probeRel    = "viewer"
)

func azSubject() *authzenv1.Subject   { return &authzenv1.Subject{Type: "user", Id: "anne"} }
func azResource() *authzenv1.Resource { return &authzenv1.Resource{Type: "docA", Id: "1"} }
func azAction() *authzenv1.Action     { return &authzenv1.Action{Name: probeRel} }

func evalItems() []*authzenv1.EvaluationsItemRequest {
	return []*authzenv1.EvaluationsItemRequest{
		{Subject: azSubject(), Resource: azResource(), Action: azAction()},
		{Subject: azSubject(), Resource: &authzenv1.Resource{Type: "docB", Id: "1"}, Action: azAction()},
	}
}

// storeRPCs is the table of store-scoped RPCs (Write is handled separately: it has variants per
// module footprint).
func storeRPCs() []*rpcSpec {
	return []*rpcSpec{
		{Method: "Check", Relation: relCheck, OnACOK: false, Forbidden: dataClasses,
			Call: func(ctx context.Context, s *server.Server, t *target) error {
				_, err := s.Check(ctx, &openfgav1.CheckRequest{StoreId: t.ID, AuthorizationModelId: t.ModelID,
					TupleKey: &openfgav1.CheckRequestTupleKey{User: probeUser, Relation: probeRel, Object: probeObject}})
				return err
			}},
		{Method: "BatchCheck", Relation: relCheck, Forbidden: dataClasses,
			Call: func(ctx context.Context, s *server.Server, t *target) error {
				_, err := s.BatchCheck(ctx, &openfgav1.BatchCheckRequest{StoreId: t.ID, AuthorizationModelId: t.ModelID,
					Checks: []*openfgav1.BatchCheckItem{
						{CorrelationId: "a", TupleKey: &openfgav1.CheckRequestTupleKey{User: probeUser, Relation: probeRel, Object: probeObject}},
						{CorrelationId: "b", TupleKey: &openfgav1.CheckRequestTupleKey{User: probeUser, Relation: probeRel, Object: "docB:1"}},
					}})
				return err
			}},
		{Method: "ListObjects", Relation: relListObjects, Forbidden: dataClasses,
			Call: func(ctx context.Context, s *server.Server, t *target) error {
				_, err := s.ListObjects(ctx, &openfgav1.ListObjectsRequest{StoreId: t.ID, AuthorizationModelId: t.ModelID,
					Type: "docA", Relation: probeRel, User: probeUser})
				return err
			}},
		{Method: "StreamedListObjects", Relation: relListObjects, Forbidden: dataClasses,
			Call: func(ctx context.Context, s *server.Server, t *target) error {
				return s.StreamedListObjects(&openfgav1.StreamedListObjectsRequest{StoreId: t.ID, AuthorizationModelId: t.ModelID,
					Type: "docA", Relation: probeRel, User: probeUser}, &collectStream{ctx: ctx})
			}},
		{Method: "ListUsers", Relation: relListUsers, Forbidden: dataClasses,
			Call: func(ctx context.Context, s *server.Server, t *target) error {
				_, err := s.ListUsers(ctx, &openfgav1.ListUsersRequest{StoreId: t.ID, AuthorizationModelId: t.ModelID,
					Object: &openfgav1.Object{Type: "docA", Id: "1"}, Relation: probeRel,
					UserFilters: []*openfgav1.UserTypeFilter{{Type: "user"}}})
				return err
			}},
		{Method: "Expand", Relation: relExpand, Forbidden: dataClasses,
			Call: func(ctx context.Context, s *server.Server, t *target) error {
				_, err := s.Expand(ctx, &openfgav1.ExpandRequest{StoreId: t.ID, AuthorizationModelId: t.ModelID,
					TupleKey: &openfgav1.ExpandRequestTupleKey{Relation: probeRel, Object: probeObject}})
				return err
			}},
		{Method: "Read", Variant: "all", Relation: relRead, OnACOK: true, Forbidden: dataClasses,
			Call: func(ctx context.Context, s *server.Server, t *target) error {
				_, err := s.Read(ctx, &openfgav1.ReadRequest{StoreId: t.ID})
				return err
			}},
		{Method: "Read", Variant: "filtered", Relation: relRead, Forbidden: dataClasses,
			Call: func(ctx context.Context, s *server.Server, t *target) error {
				_, err := s.Read(ctx, &openfgav1.ReadRequest{StoreId: t.ID,
					TupleKey: &openfgav1.ReadRequestTupleKey{Object: probeObject}, PageSize: wrapperspb.Int32(2)})
				return err
			}},
		{Method: "ReadChanges", Relation: relReadChanges, OnACOK: true, Forbidden: dataClasses,
			Call: func(ctx context.Context, s *server.Server, t *target) error {
				_, err := s.ReadChanges(ctx, &openfgav1.ReadChangesRequest{StoreId: t.ID, PageSize: wrapperspb.Int32(5)})
				return err
			}},
		{Method: "WriteAssertions", Relation: relWriteAssert, Mutating: true, Forbidden: dataClasses,
			Call: func(ctx context.Context, s *server.Server, t *target) error {
				_, err := s.WriteAssertions(ctx, &openfgav1.WriteAssertionsRequest{StoreId: t.ID, AuthorizationModelId: t.ModelID,
					Assertions: []*openfgav1.Assertion{{TupleKey: &openfgav1.AssertionTupleKey{User: probeUser, Relation: probeRel, Object: probeObject}, Expectation: true}}})
				return err
			}},
		{Method: "ReadAssertions", Relation: relReadAssert, OnACOK: true, Forbidden: dataClasses,
			Call: func(ctx context.Context, s *server.Server, t *target) error {
				_, err := s.ReadAssertions(ctx, &openfgav1.ReadAssertionsRequest{StoreId: t.ID, AuthorizationModelId: t.ModelID})
				return err
			}},
		{Method: "WriteAuthorizationModel", Relation: relWriteModels, Mutating: true, Forbidden: dataClasses,
			Call: func(ctx context.Context, s *server.Server, t *target) error {
				_, err := s.WriteAuthorizationModel(ctx, &openfgav1.WriteAuthorizationModelRequest{StoreId: t.ID,
					SchemaVersion: "1.1", TypeDefinitions: targetTypeDefs()})
				return err
			}},
		{Method: "ReadAuthorizationModel", Relation: relReadModels, OnACOK: true, Forbidden: dataClasses,
			Call: func(ctx context.Context, s *server.Server, t *target) error {
				_, err := s.ReadAuthorizationModel(ctx, &openfgav1.ReadAuthorizationModelRequest{StoreId: t.ID, Id: t.ModelID})
				return err
			}},
		{Method: "ReadAuthorizationModels", Relation: relReadModels, OnACOK: true, Forbidden: dataClasses,
			Call: func(ctx context.Context, s *server.Server, t *target) error {
				_, err := s.ReadAuthorizationModels(ctx, &openfgav1.ReadAuthorizationModelsRequest{StoreId: t.ID, PageSize: wrapperspb.Int32(2)})
				return err
			}},
		{Method: "GetStore", Relation: relGetStore, OnACOK: true, Forbidden: dataAndMeta,
			Call: func(ctx context.Context, s *server.Server, t *target) error {
				_, err := s.GetStore(ctx, &openfgav1.GetStoreRequest{StoreId: t.ID})
				return err
			}},
		{Method: "DeleteStore", Relation: relDeleteStore, Mutating: true, Forbidden: dataAndMeta,
			Call: func(ctx context.Context, s *server.Server, t *target) error {
				_, err := s.DeleteStore(ctx, &openfgav1.DeleteStoreRequest{StoreId: t.ID})
				return err
			}},

		// AuthZEN wrappers (experimental flag "authzen"): they delegate to Check / BatchCheck /
		// ListUsers / StreamedListObjects, whose relation is therefore the one that must be held.
		{Method: "Evaluation", Relation: relCheck, Derived: true, Forbidden: dataClasses,
			Call: func(ctx context.Context, s *server.Server, t *target) error {
				_, err := s.Evaluation(ctx, &authzenv1.EvaluationRequest{StoreId: t.ID, Subject: azSubject(), Resource: azResource(), Action: azAction()})
				return err
			}},
		{Method: "Evaluations", Variant: "single", Relation: relCheck, Derived: true, Forbidden: dataClasses,
			Call: func(ctx context.Context, s *server.Server, t *target) error {
				_, err := s.Evaluations(ctx, &authzenv1.EvaluationsRequest{StoreId: t.ID, Subject: azSubject(), Resource: azResource(), Action: azAction()})
				return err
			}},
		{Method: "Evaluations", Variant: "execute_all", Relation: relCheck, Derived: true, Forbidden: dataClasses,
			Call: func(ctx context.Context, s *server.Server, t *target) error {
				_, err := s.Evaluations(ctx, &authzenv1.EvaluationsRequest{StoreId: t.ID, Evaluations: evalItems()})
				return err
			}},
		{Method: "Evaluations", Variant: "permit_on_first_permit", Relation: relCheck, Derived: true, Forbidden: dataClasses,
			Call: func(ctx context.Context, s *server.Server, t *target) error {
				return softEvaluations(ctx, s, t, authzenv1.EvaluationsSemantic_permit_on_first_permit)
			}},
		{Method: "Evaluations", Variant: "deny_on_first_deny", Relation: relCheck, Derived: true, Forbidden: dataClasses,
			Call: func(ctx context.Context, s *server.Server, t *target) error {
				return softEvaluations(ctx, s, t, authzenv1.EvaluationsSemantic_deny_on_first_deny)
			}},
		{Method: "SubjectSearch", Relation: relListUsers, Derived: true, Forbidden: dataClasses,
			Call: func(ctx context.Context, s *server.Server, t *target) error {
				_, err := s.SubjectSearch(ctx, &authzenv1.SubjectSearchRequest{StoreId: t.ID, Resource: azResource(), Action: azAction(),
					Subject: &authzenv1.SubjectFilter{Type: "user"}})
				return err
			}},
		{Method: "ResourceSearch", Relation: relListObjects, Derived: true, Forbidden: dataClasses,
			Call: func(ctx context.Context, s *server.Server, t *target) error {
				_, err := s.ResourceSearch(ctx, &authzenv1.ResourceSearchRequest{StoreId: t.ID, Subject: azSubject(), Action: azAction(),
					Resource: &authzenv1.ResourceFilter{Type: "docA"}})
				return err
			}},
		{Method: "ActionSearch", Relation: relCheck, Derived: true, Forbidden: dataClasses,
			Call: func(ctx context.Context, s *server.Server, t *target) error {
				_, err := s.ActionSearch(ctx, &authzenv1.ActionSearchRequest{StoreId: t.ID, Subject: azSubject(), Resource: azResource()})
				return err
			}},
		// Store-scoped but there is no relation for it and it reads no data (static URLs): driven and
		// monitored for datastore touches only.
		{Method: "GetConfiguration", Relation: "", Forbidden: dataAndMeta,
			Call: func(ctx context.Context, s *server.Server, t *target) error {
				_, err := s.GetConfiguration(ctx, &authzenv1.GetConfigurationRequest{StoreId: t.ID})
				return err
			}},
	}
}

// softEvaluations runs a short-circuit Evaluations request. That variant never fails as a whole:
// an authorization failure of an item is reported inside the item. A response in which every item
// carries an error and no decision is turned into *errSoft.
func softEvaluations(ctx context.Context, s *server.Server, t *target, sem authzenv1.EvaluationsSemantic) error {
	resp, err := s.Evaluations(ctx, &authzenv1.EvaluationsRequest{StoreId: t.ID, Evaluations: evalItems(),
		Options: &authzenv1.EvaluationsOptions{EvaluationsSemantic: sem}})
	if err != nil {
		return err
	}
	var statuses []int
	for _, it := range resp.GetEvaluations() {
		e := it.GetContext().GetFields()["error"].GetStructValue()
		if e == nil || it.GetDecision() {
			return nil // an item was evaluated: the call got through
		}
		statuses = append(statuses, int(e.GetFields()["status"].GetNumberValue()))
	}
	if len(statuses) == 0 {
		return nil
	}
	return &errSoft{statuses: statuses}
}

// systemMethods are the RPCs that are not store-scoped.
var systemMethods = map[string]bool{"CreateStore": true, "ListStores": true}

// writeMethod is covered by the write variants.
const writeMethod = "Write"

// checkCoverage enumerates the exported RPC-shaped methods of *server.Server by reflection and
// fails (harness error) when a store-scoped one is missing from the table, so that a newly added
// handler is noticed. It returns the list of methods found for the evidence.
func checkCoverage(table []*rpcSpec) (rpc []string, storeScoped []string, missing []string) {
	covered := map[string]bool{writeMethod: true}
	for _, r := range table {
		covered[r.Method] = true
	}
	for m := range systemMethods {
		covered[m] = true
	}
	protoMsg := reflect.TypeOf((*proto.Message)(nil)).Elem()
	typ := reflect.TypeOf(&server.Server{})
	for i := 0; i < typ.NumMethod(); i++ {
		m := typ.Method(i)
		isRPC, scoped := false, false
		for j := 1; j < m.Type.NumIn(); j++ {
			in := m.Type.In(j)
			if in.Implements(protoMsg) {
				isRPC = true
				if _, ok := in.MethodByName("GetStoreId"); ok {
					scoped = true
				}
			}
		}
		if !isRPC {
			continue
		}
		rpc = append(rpc, m.Name)
		if scoped {
			storeScoped = append(storeScoped, m.Name)
		}
		if !covered[m.Name] {
			missing = append(missing, m.Name)
		}
	}
	sort.Strings(rpc)
	sort.Strings(storeScoped)
	sort.Strings(missing)
	return rpc, storeScoped, missing
}

// probeStubs separates, among the uncovered methods, the ones promoted from the embedded
// Unimplemented*Server stubs: called with a zero request on a plain server they answer
// codes.Unimplemented without a single datastore call. Anything else stays "missing".
func probeStubs(missing []string) (still []string, stubs []string) {
	if len(missing) == 0 {
		return nil, nil
	}
	obs := newObsDS(memory.New())
	srv, err := server.NewServerWithOpts(server.WithDatastore(obs))
	if err != nil {
		return missing, nil
	}
	defer srv.Close()
	ctxType := reflect.TypeOf((*context.Context)(nil)).Elem()
	for _, name := range missing {
		m := reflect.ValueOf(srv).MethodByName(name)
		mt := m.Type()
		if mt.NumIn() != 2 || !mt.In(0).Implements(ctxType) || mt.In(1).Kind() != reflect.Ptr || mt.NumOut() != 2 {
			still = append(still, name)
			continue
		}
		tr := &trace{}
		var out []reflect.Value
		perr := drive.Guard(func() error {
			out = m.Call([]reflect.Value{reflect.ValueOf(withTrace(context.Background(), tr)), reflect.New(mt.In(1).Elem())})
			return nil
		})
		if perr != nil || len(out) != 2 {
			still = append(still, name)
			continue
		}
		e, _ := out[1].Interface().(error)
		if e != nil && status.Code(e) == codes.Unimplemented && len(tr.snapshot()) == 0 {
			stubs = append(stubs, name)
			continue
		}
		still = append(still, name)
	}
	return still, stubs
}

func asSoft(err error) *errSoft {
	var s *errSoft
	if errors.As(err, &s) {
		return s
	}
	return nil
}
