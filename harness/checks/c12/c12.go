// Package c12 decides property C12 "Writes are atomic and honour on_duplicate/on_missing".
//
//	(a) option semantics  : random Write histories through a real Server on memory + sqlite, every
//	                        attempt compared with a sequential model of tuple set + changelog;
//	(b) fault atomicity   : every driver call of the sqlite write transaction fails (statement error,
//	                        lost connection) or the process is SIGKILLed there; the database file is
//	                        reopened and must show exactly the pre-state or exactly the post-state;
//	(c) atomic visibility : concurrent group writers + single-statement readers; no torn group.
package c12

import (
	"context"
	"fmt"
	"os"
	"sort"
	"strings"

	"github.com/openfga/openfga/verifharness/checks/storekit"
	th "github.com/openfga/openfga/verifharness/checks/tuplehist"
	"github.com/openfga/openfga/verifharness/vk"
)

func init() {
	if spec := os.Getenv(childEnv); spec != "" {
		childMain(spec) // never returns
	}
	vk.Register("C12", "fault_enumeration", run)
}

func run(c *vk.Ctx) {
	c.RaceAnchors = []string{"pkg/storage/memory", "pkg/storage/sqlite", "pkg/storage/sqlcommon"}
	c.SetRule("(a) one case per Write attempt of a random history over the 6-tuple universe (5 condition variants); signature = backend|on_duplicate|on_missing|item kinds relative to the store state (delete existing/missing, write new/identical/other-condition)|validation rule broken|model outcome; non-trivial = >=2 items or a no-op/conflicting/invalid item. " +
		"(b) one case per (transaction shape, fault point k, fault mode): k ranges over EVERY driver call (open/begin/query/next/exec/commit/rollback) the un-faulted sqlite write transaction of that shape makes (cursor steps of long result sets sampled first/middle/last); modes: statement error before/after execution, connection lost before/after execution, SIGKILL of a child process before/after execution. " +
		"(c) one case per concurrent round; signature = backend|torn-free reads observed with k complete groups.")
	c.Assume("sqlite (modernc.org/sqlite, WAL, synchronous=NORMAL) itself implements transactions correctly and keeps committed transactions across a process kill; the check verifies openfga's use of it")
	c.Assume("a lost connection is modelled by closing the real driver connection (sqlite rolls the open transaction back) and answering driver.ErrBadConn; a failed COMMIT statement is modelled as aborting the transaction (sqlite semantics for I/O errors); COMMIT answering SQLITE_BUSY with the transaction left open is not modelled")
	c.Assume("the sequential model encodes the documented Write semantics: validation failure / missing delete / existing write fail the whole request; ignore options skip only no-op items; identical = same condition name and context")

	ctx := context.Background()
	dir, err := storekit.ScratchDir()
	if err != nil {
		c.HarnessError("%v", err)
		return
	}
	only := os.Getenv("VERIF_C12_ONLY") // development aid: subset of phases, e.g. "b"
	if only == "" || strings.Contains(only, "a") {
		runOptions(ctx, c, dir)
	}
	if only == "" || strings.Contains(only, "b") {
		runFaults(ctx, c, dir)
	}
	if only == "" || strings.Contains(only, "c") {
		runVisibility(ctx, c, dir)
	}
}

// ---------------------------------------------------------------------------------------------
// (a) option semantics

func itemKinds(m *th.Model, r th.Req) (sig string, interesting bool) {
	var k []string
	for _, t := range r.Deletes {
		if _, ok := m.T[t.Key()]; ok {
			k = append(k, "dE")
		} else {
			k = append(k, "dM")
			interesting = true
		}
	}
	for _, t := range r.Writes {
		c, ok := m.T[t.Key()]
		switch {
		case !ok && t.CondName == "":
			k = append(k, "wN")
		case !ok:
			k = append(k, "wNc")
		case c == t.Cond():
			k = append(k, "wS")
			interesting = true
		default:
			k = append(k, "wO")
			interesting = true
		}
	}
	sort.Strings(k)
	return strings.Join(k, ","), interesting || len(k) >= 2
}

type attemptWitness struct {
	Backend string            `json:"backend"`
	History int               `json:"history"`
	Step    int               `json:"step"`
	Req     th.Req            `json:"request"`
	ReqText string            `json:"request_text"`
	Prior   []th.Req          `json:"prior_requests"`
	Model   string            `json:"model_outcome"`
	Err     string            `json:"server_error,omitempty"`
	Pre     storekit.Snapshot `json:"store_before"`
	Post    storekit.Snapshot `json:"store_after"`
	WantT   []string          `json:"model_tuples"`
	WantLog []string          `json:"model_log"`
}

func sortedCopy(s []string) []string {
	o := append([]string(nil), s...)
	sort.Strings(o)
	return o
}

// checkAttempt compares one attempt with the model. m is the model AFTER Apply, pm before.
// It returns false when the history cannot be continued (store and model diverged).
func checkAttempt(c *vk.Ctx, w *attemptWitness, pm, m *th.Model, out th.Outcome, err error, panicked bool) bool {
	be := w.Backend
	if panicked {
		c.Violation("C12-write-panic", "panic|"+be, "Server.Write panicked: "+err.Error(), w)
		return false
	}
	accepted := err == nil
	switch {
	case accepted && !out.Accepted:
		c.Violation("C12-accepted-"+out.Reason, "acc|"+be+"|"+out.Reason,
			fmt.Sprintf("[%s] Write was accepted although the request must fail as a whole (%s): %s", be, out.Reason, w.ReqText), w)
		return false
	case !accepted && out.Accepted:
		id, key := "C12-rejected-valid", "rej|"+be+"|"+errClass(err)
		if strings.Contains(err.Error(), "different condition") && hasNilCtxDuplicate(pm, w.Req) {
			// the only "conflict" is an identical re-write of a tuple whose condition has no context
			id, key = "C12-ignore-nilctx-conflict", "nilctx|"+be
		}
		c.Violation(id, key,
			fmt.Sprintf("[%s] Write was rejected (%v) although every item is applicable under its options: %s", be, err, w.ReqText), w)
		if w.Post.Raw() != w.Pre.Raw() {
			c.Violation("C12-reject-changed-state", "rejchg|"+be, fmt.Sprintf("[%s] rejected Write changed the store: %s", be, w.ReqText), w)
			return false
		}
		// store unchanged: continue the history from the state before this request
		m.T, m.Log = pm.T, pm.Log
		return true
	case !accepted:
		if w.Post.Raw() != w.Pre.Raw() {
			c.Violation("C12-reject-changed-state", "rejchg|"+be+"|"+out.Reason,
				fmt.Sprintf("[%s] rejected Write (%s) changed tuples or changelog: %s", be, out.Reason, w.ReqText), w)
			return false
		}
		return true
	}
	// accepted, and the model accepted: exact effect
	if !storekit.EqualStrings(w.Post.SemTuples(), m.Tuples()) {
		c.Violation("C12-accept-wrong-tuples", "acct|"+be+"|"+sigOpts(w.Req),
			fmt.Sprintf("[%s] accepted Write left a tuple set different from the model: %s", be, w.ReqText), w)
		return false
	}
	got := w.Post.SemLog()
	nOld := len(pm.Log)
	okLog := len(got) == len(m.Log) && len(w.Post.Log) >= len(w.Pre.Log)
	if okLog { // old part untouched (with timestamps), new part = the model's entries (any order inside one request)
		for i := range w.Pre.Log {
			if w.Pre.Log[i] != w.Post.Log[i] {
				okLog = false
			}
		}
		okLog = okLog && storekit.EqualStrings(sortedCopy(got[nOld:]), sortedCopy(m.Log[nOld:]))
	}
	if !okLog {
		c.Violation("C12-accept-wrong-changelog", "accl|"+be+"|"+sigOpts(w.Req),
			fmt.Sprintf("[%s] accepted Write: changelog differs from the model (want %d new entries %v, old entries untouched): %s",
				be, len(m.Log)-nOld, m.Log[nOld:], w.ReqText), w)
		return false
	}
	return true
}

// hasNilCtxDuplicate: the request re-writes, with on_duplicate=ignore, a stored tuple whose
// condition has a name but no context, with exactly that condition.
func hasNilCtxDuplicate(pm *th.Model, r th.Req) bool {
	if !r.IgnoreDup() {
		return false
	}
	for _, t := range r.Writes {
		if c, ok := pm.T[t.Key()]; ok && c == t.Cond() && t.CondName != "" && t.CtxX == 0 {
			return true
		}
	}
	return false
}

func sigOpts(r th.Req) string { return "dup=" + r.OnDup + "|miss=" + r.OnMissing }

func errClass(err error) string {
	s := err.Error()
	if i := strings.Index(s, "desc = "); i >= 0 {
		s = s[i+7:]
	}
	if len(s) > 40 {
		s = s[:40]
	}
	return s
}

func runOptions(ctx context.Context, c *vk.Ctx, dir string) {
	histories := c.Pick(60, 1200)
	steps := c.Pick(24, 30)
	for _, be := range []string{"memory", "sqlite"} {
		root, err := th.OpenEnv(ctx, be, dir)
		if err != nil {
			c.HarnessError("open %s: %v", be, err)
			return
		}
		rng := c.Rand("options|" + be)
		for h := 0; h < histories; h++ {
			env, err := root.Fork(ctx)
			if err != nil {
				c.HarnessError("fork %s: %v", be, err)
				break
			}
			g := &th.Gen{R: rng}
			m := th.NewModel()
			pre, err := env.Dump(ctx)
			if err != nil {
				c.HarnessError("dump: %v", err)
				break
			}
			var prior []th.Req
			for s := 0; s < steps; s++ {
				r := g.Next(m)
				kinds, interesting := itemKinds(m, r)
				pm := m.Clone()
				out := m.Apply(r)
				werr, panicked := env.Write(ctx, r)
				post, derr := env.Dump(ctx)
				if derr != nil {
					c.HarnessError("dump after write: %v", derr)
					break
				}
				oc := "rejected:" + out.Reason
				if out.Accepted {
					oc = fmt.Sprintf("accepted(skipD=%d,skipW=%d)", min(out.SkipDelete, 1), min(out.SkipWrite, 1))
				}
				c.Case(strings.Join([]string{"opt", be, sigOpts(r), kinds, r.Invalid, oc}, "|"), interesting || r.Invalid != "")
				c.Count("a_attempts_"+be, 1)
				if out.Accepted {
					c.Count("a_model_accepted", 1)
					c.Count("a_noop_items_skipped", out.SkipDelete+out.SkipWrite)
				} else {
					c.Seen("a_reject_reasons", out.Reason)
					c.Count("a_model_rejected", 1)
				}
				if werr != nil {
					c.Seen("a_error_classes", errClass(werr))
				}
				w := &attemptWitness{Backend: be, History: h, Step: s, Req: r, ReqText: r.String(), Prior: prior, Model: oc,
					Pre: pre, Post: post, WantT: m.Tuples(), WantLog: m.Log}
				if werr != nil {
					w.Err = werr.Error()
				}
				if h == 0 && s < 4 && be == "sqlite" {
					c.Sample(map[string]any{"phase": "a", "backend": be, "request": r.String(), "model": oc, "error": w.Err, "tuples_after": post.SemTuples(), "log_len": len(post.Log)})
				}
				if !checkAttempt(c, w, pm, m, out, werr, panicked) {
					break
				}
				prior = append(prior, r)
				pre = post
			}
		}
		root.Close()
		c.Logf("(a) %s: %d histories done", be, histories)
	}
}
