package c12

import (
	"context"
	"fmt"
	"sort"
	"strings"
	"sync"
	"sync/atomic"

	"github.com/openfga/openfga/pkg/storage"

	"github.com/openfga/openfga/verifharness/checks/storekit"
	th "github.com/openfga/openfga/verifharness/checks/tuplehist"
	"github.com/openfga/openfga/verifharness/vk"
)

// ---------------------------------------------------------------------------------------------
// (c) atomic visibility
//
// Every Write of this phase writes or deletes whole groups (3 tuples of one object, one condition
// variant for all three). Whatever the interleaving and whichever requests fail, an atomic store
// only ever holds complete groups, so every single-statement read must see, per group, either no
// tuple or all three with the same condition, and every single ReadChanges page must hold, for the
// three tuples of a group, the same sequence of operations.

const groupSize = 3

var groupUsers = []string{"user:a", "user:b", "user:c"}

func groupTuples(g int, variant [2]any) []th.Tup { return objTuples(fmt.Sprintf("doc:g%d", g), variant) }

// markerTuples: the two marker groups doc:m0 / doc:m1. The store starts with m0; the only requests
// touching markers are swaps "delete m_i + write m_(1-i)" in one Write, so every atomic read must see
// exactly one complete marker group (a torn REQUEST shows none or both).
func markerTuples(i int) []th.Tup { return objTuples(fmt.Sprintf("doc:m%d", i), [2]any{"", 0}) }

func objTuples(obj string, variant [2]any) []th.Tup {
	out := make([]th.Tup, 0, groupSize)
	for _, u := range groupUsers {
		out = append(out, th.Tup{Object: obj, Relation: "viewer", User: u, CondName: variant[0].(string), CtxX: variant[1].(int)})
	}
	return out
}

var groupVariants = [][2]any{{"", 0}, {"c1", 1}, {"c1", 2}, {"c2", 1}}

type tornWitness struct {
	Backend string   `json:"backend"`
	Round   int      `json:"round"`
	Read    string   `json:"read_kind"`
	Group   string   `json:"group"`
	Seen    []string `json:"rows_of_group_in_this_read"`
	All     []string `json:"whole_read"`
}

func groupOf(key string) string { // doc:g1#viewer@user:a -> doc:g1
	if i := strings.Index(key, "#"); i >= 0 {
		return key[:i]
	}
	return key
}

// checkTupleRead judges one atomic read of the tuple set; returns the number of complete groups.
func checkTupleRead(c *vk.Ctx, be string, round int, kind string, rows []storekit.TupleRow) int {
	by := map[string][]storekit.TupleRow{}
	for _, r := range rows {
		by[groupOf(r.Key)] = append(by[groupOf(r.Key)], r)
	}
	complete := 0
	for g, rs := range by {
		ok := len(rs) == groupSize
		for _, r := range rs {
			ok = ok && r.Cond == rs[0].Cond
		}
		if ok {
			complete++
			continue
		}
		var seen, all []string
		for _, r := range rs {
			seen = append(seen, r.Sem())
		}
		for _, r := range rows {
			all = append(all, r.Sem())
		}
		c.Violation("C12-torn-read", "torn|"+be+"|"+kind,
			fmt.Sprintf("[%s] one %s returned %d of the %d tuples of group %s (or mixed conditions) while every Write writes/deletes whole groups: %v", be, kind, len(rs), groupSize, g, seen),
			tornWitness{Backend: be, Round: round, Read: kind, Group: g, Seen: seen, All: all})
	}
	if n0, n1 := len(by["doc:m0"]), len(by["doc:m1"]); (n0 == groupSize) == (n1 == groupSize) {
		var all []string
		for _, r := range rows {
			all = append(all, r.Sem())
		}
		c.Violation("C12-torn-request", "tornreq|"+be+"|"+kind,
			fmt.Sprintf("[%s] one %s saw %d tuples of marker group m0 and %d of m1; the markers are only ever swapped by a single Write (delete one, write the other), so exactly one must be visible", be, kind, n0, n1),
			tornWitness{Backend: be, Round: round, Read: kind, Group: "markers", All: all})
	}
	return complete
}

// checkLogRead judges one ReadChanges page that is known to start at the beginning of the log.
func checkLogRead(c *vk.Ctx, be string, round int, log []storekit.ChangeRow) {
	type seq = []string
	by := map[string]map[string]seq{}
	for _, e := range log {
		g := groupOf(e.Key)
		if by[g] == nil {
			by[g] = map[string]seq{}
		}
		by[g][e.Key] = append(by[g][e.Key], e.Op+"["+e.Cond+"]")
	}
	// marker conservation: per user, (writes-deletes) of m0 plus that of m1 is exactly 1
	for _, u := range groupUsers {
		bal := 0
		for _, obj := range []string{"doc:m0", "doc:m1"} {
			for _, e := range by[obj][storekit.BaseKey(obj, "viewer", u)] {
				if e[0] == 'W' {
					bal++
				} else {
					bal--
				}
			}
		}
		if bal != 1 {
			c.Violation("C12-torn-changelog", "tornlogreq|"+be,
				fmt.Sprintf("[%s] one ReadChanges call shows marker balance %d for %s (exactly one marker group exists at any time; a swap is one Write)", be, bal, u),
				tornWitness{Backend: be, Round: round, Read: "ReadChanges", Group: "markers"})
			break
		}
	}
	for g, keys := range by {
		var ref string
		ok := len(keys) == groupSize
		first := true
		for _, s := range keys {
			j := strings.Join(s, " ")
			if first {
				ref, first = j, false
			}
			ok = ok && j == ref
		}
		if ok {
			continue
		}
		var seen []string
		for k, s := range keys {
			seen = append(seen, k+": "+strings.Join(s, " "))
		}
		sort.Strings(seen)
		c.Violation("C12-torn-changelog", "tornlog|"+be,
			fmt.Sprintf("[%s] one ReadChanges call shows different histories for the tuples of group %s although they are always written/deleted together: %v", be, g, seen),
			tornWitness{Backend: be, Round: round, Read: "ReadChanges", Group: g, Seen: seen})
	}
}

func runVisibility(ctx context.Context, c *vk.Ctx, dir string) {
	rounds := c.Pick(2, 24)
	writers, readers := 6, 4
	opsPerWriter := c.Pick(70, 160)
	readsPerReader := c.Pick(120, 300)
	groups := 3
	for _, be := range []string{"memory", "sqlite"} {
		root, err := th.OpenEnv(ctx, be, dir)
		if err != nil {
			c.HarnessError("open %s: %v", be, err)
			return
		}
		for round := 0; round < rounds; round++ {
			env, err := root.Fork(ctx)
			if err != nil {
				c.HarnessError("fork: %v", err)
				break
			}
			if err, _ := env.Write(ctx, th.Req{Writes: markerTuples(0)}); err != nil {
				c.HarnessError("initial marker write: %v", err)
				break
			}
			var okWrites, failWrites, tupleReads, logReads, swaps atomic.Int64
			var maxComplete, writersActive, overlapped atomic.Int64
			writersActive.Store(int64(writers))
			var wg sync.WaitGroup
			for wi := 0; wi < writers; wi++ {
				wg.Add(1)
				go func(wi int) {
					defer wg.Done()
					defer writersActive.Add(-1)
					rng := c.Rand(fmt.Sprintf("vis|%s|%d|w%d", be, round, wi))
					for i := 0; i < opsPerWriter; i++ {
						var r th.Req
						g1, g2 := rng.Intn(groups), rng.Intn(groups)
						v := groupVariants[rng.Intn(len(groupVariants))]
						isSwap := false
						switch rng.Intn(6) {
						case 4, 5: // swap the markers (fails as a whole when the direction is wrong)
							i := rng.Intn(2)
							r.Deletes, r.Writes = markerTuples(i), markerTuples(1-i)
							isSwap = true
						case 0, 1:
							r.Writes = groupTuples(g1, v)
						case 2:
							r.Deletes = groupTuples(g1, v)
						case 3:
							if g1 == g2 {
								g2 = (g1 + 1) % groups
							}
							r.Deletes, r.Writes = groupTuples(g1, v), groupTuples(g2, v)
						}
						if !isSwap && rng.Intn(3) == 0 {
							r.OnDup = "ignore"
						}
						if !isSwap && rng.Intn(3) == 0 {
							r.OnMissing = "ignore"
						}
						err, panicked := env.Write(ctx, r)
						if isSwap && err == nil {
							swaps.Add(1)
						}
						if panicked {
							c.Violation("C12-write-panic", "panic|vis|"+be, "Server.Write panicked under concurrency: "+err.Error(), r)
							return
						}
						if err == nil {
							okWrites.Add(1)
						} else {
							failWrites.Add(1)
							c.Seen("c_error_classes", be+":"+errClass(err))
						}
					}
				}(wi)
			}
			for ri := 0; ri < readers; ri++ {
				wg.Add(1)
				go func(ri int) {
					defer wg.Done()
					for i := 0; i < readsPerReader; i++ {
						if writersActive.Load() > 0 {
							overlapped.Add(1)
						}
						switch (i + ri) % 3 {
						case 0: // one Read, fully consumed (one SELECT / one locked copy)
							rows, err := storekit.DumpTuples(ctx, env.DS, env.Store)
							if err != nil {
								c.Inconclusive("tuple read failed: " + errClass(err))
								continue
							}
							tupleReads.Add(1)
							var st []string
							for _, r := range rows {
								if strings.HasSuffix(r.Key, "@user:a") {
									st = append(st, groupOf(r.Key)+"["+r.Cond+"]")
								}
							}
							c.Seen("c_distinct_store_states_read_"+be, strings.Join(st, " "))
							n := int64(checkTupleRead(c, be, round, "Read", rows))
							if n > maxComplete.Load() {
								maxComplete.Store(n)
							}
						case 1: // one ReadPage large enough for the whole store
							tuples, _, err := env.DS.ReadPage(ctx, env.Store, storage.ReadFilter{}, storage.ReadPageOptions{Pagination: storage.PaginationOptions{PageSize: 100}})
							if err != nil {
								c.Inconclusive("ReadPage failed: " + errClass(err))
								continue
							}
							rows := make([]storekit.TupleRow, 0, len(tuples))
							for _, t := range tuples {
								k := t.GetKey()
								rows = append(rows, storekit.TupleRow{Key: storekit.BaseKey(k.GetObject(), k.GetRelation(), k.GetUser()), Cond: storekit.CondString(k.GetCondition())})
							}
							tupleReads.Add(1)
							checkTupleRead(c, be, round, "ReadPage", rows)
						case 2: // one ReadChanges call from the start of the log, page larger than the log can get
							page, _, err := env.DS.ReadChanges(ctx, env.Store, storage.ReadChangesFilter{}, storage.ReadChangesOptions{Pagination: storage.PaginationOptions{PageSize: 100000}})
							if err != nil {
								continue // empty log = ErrNotFound
							}
							log := make([]storekit.ChangeRow, 0, len(page))
							for _, ch := range page {
								log = append(log, storekit.ChangeRowOf(ch))
							}
							logReads.Add(1)
							checkLogRead(c, be, round, log)
						}
					}
				}(ri)
			}
			wg.Wait()
			// quiescent end state: per key, (#writes - #deletes) in the log is 0 or 1 and equals presence
			snap, err := env.Dump(ctx)
			if err != nil {
				c.HarnessError("final dump: %v", err)
				break
			}
			checkTupleRead(c, be, round, "final Read", snap.Tuples)
			checkLogRead(c, be, round, snap.Log)
			bal := map[string]int{}
			for _, e := range snap.Log {
				if e.Op == "W" {
					bal[e.Key]++
				} else {
					bal[e.Key]--
				}
			}
			present := map[string]bool{}
			for _, t := range snap.Tuples {
				present[t.Key] = true
			}
			for k, b := range bal {
				if (b != 0 && b != 1) || (b == 1) != present[k] {
					c.Violation("C12-log-tuple-mismatch", "bal|"+be,
						fmt.Sprintf("[%s] after concurrent group writes tuple %s has write/delete balance %d in the changelog but present=%v in the store", be, k, b, present[k]),
						map[string]any{"backend": be, "round": round, "tuples": snap.SemTuples(), "log": snap.SemLog()})
					break
				}
			}
			c.Case(fmt.Sprintf("vis|%s|maxgroups=%d|fail=%v", be, maxComplete.Load(), failWrites.Load() > 0), true)
			c.Count("c_reads_started_while_writers_active_"+be, int(overlapped.Load()))
			c.Count("c_marker_swaps_acknowledged_"+be, int(swaps.Load()))
			c.Count("c_writes_acknowledged_"+be, int(okWrites.Load()))
			c.Count("c_writes_rejected_"+be, int(failWrites.Load()))
			c.Count("c_atomic_tuple_reads_"+be, int(tupleReads.Load()))
			c.Count("c_atomic_changelog_reads_"+be, int(logReads.Load()))
			c.Count("c_final_log_entries_"+be, len(snap.Log))
		}
		root.Close()
		c.Logf("(c) %s: %d concurrent rounds done", be, rounds)
	}
}
