package c12

import (
	"context"
	"database/sql/driver"
	"encoding/json"
	"errors"
	"fmt"
	"os"
	"os/exec"
	"sort"
	"strings"
	"sync"
	"syscall"
	"time"

	openfgav1 "github.com/openfga/api/proto/openfga/v1"
	"github.com/oklog/ulid/v2"

	"github.com/openfga/openfga/pkg/storage"
	"github.com/openfga/openfga/pkg/storage/sqlcommon"

	"github.com/openfga/openfga/verifharness/checks/storekit"
	th "github.com/openfga/openfga/verifharness/checks/tuplehist"
	"github.com/openfga/openfga/verifharness/vk"
)

// ---------------------------------------------------------------------------------------------
// (b) fault atomicity on sqlite

const childEnv = "VERIF_C12_CHILD"

// shape is one transaction shape: a pre-state, one datastore-level Write and its options.
type shape struct {
	Name      string   `json:"name"`
	Pre       []th.Tup `json:"pre"`
	Deletes   []th.Tup `json:"deletes"`
	Writes    []th.Tup `json:"writes"`
	IgnoreDup bool     `json:"ignore_duplicate"`
	IgnoreMis bool     `json:"ignore_missing"`
	MaxTuples int      `json:"max_tuples_per_write"`
}

func (s shape) req() th.Req {
	r := th.Req{Deletes: s.Deletes, Writes: s.Writes}
	if s.IgnoreDup {
		r.OnDup = "ignore"
	}
	if s.IgnoreMis {
		r.OnMissing = "ignore"
	}
	return r
}

func dsWrite(ctx context.Context, ds storage.OpenFGADatastore, store string, s shape) error {
	var d storage.Deletes
	var w storage.Writes
	for _, t := range s.Deletes {
		d = append(d, t.ProtoNoCond())
	}
	for _, t := range s.Writes {
		w = append(w, t.Proto())
	}
	var opts []storage.TupleWriteOption
	if s.IgnoreDup {
		opts = append(opts, storage.WithOnDuplicateInsert(storage.OnDuplicateInsertIgnore))
	}
	if s.IgnoreMis {
		opts = append(opts, storage.WithOnMissingDelete(storage.OnMissingDeleteIgnore))
	}
	return ds.Write(ctx, store, d, w, opts...)
}

func dsOpts(s shape) []sqlcommon.DatastoreOption {
	if s.MaxTuples > 0 {
		return []sqlcommon.DatastoreOption{sqlcommon.WithMaxTuplesPerWrite(s.MaxTuples)}
	}
	return nil
}

func bulk(prefix string, n int, cond bool) []th.Tup {
	out := make([]th.Tup, 0, n)
	for i := 0; i < n; i++ {
		t := th.Tup{Object: fmt.Sprintf("doc:%s%03d", prefix, i), Relation: "viewer", User: "user:a"}
		if cond && i%3 == 0 {
			t.CondName, t.CtxX = "c1", 1+i%2
		}
		out = append(out, t)
	}
	return out
}

func u(i int, v int) th.Tup { return th.Universe[i].With(th.Universe[i].Variants[v]) }

func fixedShapes() []shape {
	return []shape{
		{Name: "write3", Writes: []th.Tup{u(0, 0), u(1, 1), u(4, 2)}},
		{Name: "delete2+write2", Pre: []th.Tup{u(0, 0), u(1, 1), u(2, 4)}, Deletes: []th.Tup{u(0, 0), u(1, 0)}, Writes: []th.Tup{u(3, 0), u(5, 1)}},
		{Name: "delete3", Pre: []th.Tup{u(0, 1), u(1, 0), u(4, 3)}, Deletes: []th.Tup{u(0, 0), u(1, 0), u(4, 0)}},
		{Name: "ignore-mixed", Pre: []th.Tup{u(0, 1), u(1, 0)}, IgnoreDup: true, IgnoreMis: true,
			Deletes: []th.Tup{u(1, 0), u(2, 0)}, Writes: []th.Tup{u(0, 1), u(3, 0), u(4, 1), u(5, 0)}},
		{Name: "all-noop", Pre: []th.Tup{u(0, 1)}, IgnoreDup: true, IgnoreMis: true, Deletes: []th.Tup{u(2, 0)}, Writes: []th.Tup{u(0, 1)}},
		{Name: "rejected-duplicate", Pre: []th.Tup{u(0, 1), u(1, 0)}, Deletes: []th.Tup{u(1, 0)}, Writes: []th.Tup{u(2, 0), u(0, 1)}},
		{Name: "multi-batch", MaxTuples: 1000, Pre: bulk("p", 110, true), Deletes: bulk("p", 110, false), Writes: bulk("n", 120, true)},
	}
}

// randomShape derives a shape from a random model state and a generated (well-formed) request.
func randomShape(c *vk.Ctx, i int) shape {
	rng := c.Rand(fmt.Sprintf("shape|%d", i))
	g := &th.Gen{R: rng, NoInvalid: true}
	m := th.NewModel()
	var pre []th.Tup
	for _, b := range th.Universe {
		if rng.Intn(2) == 0 {
			t := b.With(b.Variants[rng.Intn(len(b.Variants))])
			pre = append(pre, t)
			m.T[t.Key()] = t.Cond()
		}
	}
	r := g.Next(m)
	return shape{Name: fmt.Sprintf("random%d", i), Pre: pre, Deletes: r.Deletes, Writes: r.Writes, IgnoreDup: r.IgnoreDup(), IgnoreMis: r.IgnoreMissing()}
}

// opDesc is one driver call of the un-faulted transaction.
type opDesc struct {
	K    int    `json:"k"`
	Kind string `json:"kind"`
	SQL  string `json:"sql,omitempty"`
}

func sqlPrefix(s string) string {
	s = strings.Join(strings.Fields(s), " ")
	if len(s) > 48 {
		s = s[:48]
	}
	return s
}

var errInjected = errors.New("verif: injected statement failure")

// faultHook counts the driver calls made while armed and perturbs the k-th one.
type faultHook struct {
	mu         sync.Mutex
	armed      bool
	n          int
	ops        []opDesc
	cur        map[*storekit.Op]int
	k          int
	mode       string // err-before err-after bad-before bad-after kill-before kill-after
	fired      bool
	commitDone bool
}

func (h *faultHook) arm(k int, mode string) {
	h.mu.Lock()
	h.armed, h.n, h.ops, h.cur, h.k, h.mode, h.fired, h.commitDone = true, 0, nil, map[*storekit.Op]int{}, k, mode, false, false
	h.mu.Unlock()
}

func (h *faultHook) disarm() { h.mu.Lock(); h.armed = false; h.mu.Unlock() }

func kill() {
	_ = syscall.Kill(os.Getpid(), syscall.SIGKILL)
	time.Sleep(time.Hour)
}

func (h *faultHook) Before(op *storekit.Op) error {
	h.mu.Lock()
	defer h.mu.Unlock()
	if !h.armed || op.Kind == "close" {
		return nil
	}
	h.n++
	h.cur[op] = h.n
	h.ops = append(h.ops, opDesc{K: h.n, Kind: op.Kind, SQL: sqlPrefix(op.SQL)})
	if h.n != h.k || h.fired {
		return nil
	}
	switch h.mode {
	case "err-before":
		h.fired = true
		if op.Kind == "commit" {
			op.RollbackInner() // a COMMIT that fails with an error has aborted the transaction
		}
		return errInjected
	case "bad-before":
		h.fired = true
		op.BreakConn()
		return driver.ErrBadConn
	case "kill-before":
		kill()
	}
	return nil
}

func (h *faultHook) After(op *storekit.Op, err error) error {
	h.mu.Lock()
	defer h.mu.Unlock()
	if !h.armed || op.Kind == "close" {
		return err
	}
	if op.Kind == "commit" && err == nil {
		h.commitDone = true
	}
	n := h.cur[op]
	delete(h.cur, op)
	if n != h.k || h.fired {
		return err
	}
	switch h.mode {
	case "err-after":
		h.fired = true
		return errInjected
	case "bad-after":
		h.fired = true
		op.BreakConn()
		return driver.ErrBadConn
	case "kill-after":
		kill()
	}
	return err
}

// modesFor lists the fault modes that are meaningful for a driver call kind.
func modesFor(kind string, inProcess, quick bool) []string {
	if !inProcess {
		return []string{"kill-before", "kill-after"}
	}
	switch kind {
	case "rollback": // a ROLLBACK only fails when the connection is gone
		return []string{"bad-before", "bad-after"}
	case "open":
		return []string{"err-before", "bad-before"}
	case "begin":
		return []string{"err-before", "bad-before", "bad-after"}
	}
	if quick && (kind == "next" || kind == "query") { // read-only calls: one failure of each family
		return []string{"err-before", "bad-after"}
	}
	return []string{"err-before", "err-after", "bad-before", "bad-after"}
}

type faultWitness struct {
	Shape      shape             `json:"shape"`
	Ops        []opDesc          `json:"unfaulted_driver_calls"`
	K          int               `json:"k"`
	Mode       string            `json:"mode"`
	At         opDesc            `json:"fault_at"`
	WriteErr   string            `json:"write_error,omitempty"`
	CommitDone bool              `json:"real_commit_executed"`
	Allowed    []string          `json:"allowed_states"`
	Pre        storekit.Snapshot `json:"pre_state"`
	WantTuples []string          `json:"post_state_tuples"`
	WantLogNew []string          `json:"post_state_new_log_entries"`
	Got        storekit.Snapshot `json:"observed_after_reopen"`
	Followup   string            `json:"followup,omitempty"`
}

// template is a closed database file holding the shape's pre-state.
type template struct {
	s       shape
	path    string
	store   string
	pre     storekit.Snapshot
	postT   []string // model post-state (tuples)
	postNew []string // model's new log entries, sorted
	changes bool     // post != pre
	ops     []opDesc
}

func buildTemplate(ctx context.Context, dir string, s shape) (*template, error) {
	path := storekit.NewSqlitePath(dir)
	if err := storekit.MigrateSqlite(path); err != nil {
		return nil, err
	}
	ds, err := storekit.OpenSqliteFile(path, dsOpts(s)...)
	if err != nil {
		return nil, err
	}
	store := ulid.Make().String()
	if _, err := ds.CreateStore(ctx, &openfgav1.Store{Id: store, Name: "verif"}); err != nil {
		ds.Close()
		return nil, err
	}
	m := th.NewModel()
	if len(s.Pre) > 0 {
		if err := dsWrite(ctx, ds, store, shape{Writes: s.Pre}); err != nil {
			ds.Close()
			return nil, fmt.Errorf("pre-state: %w", err)
		}
		m.Apply(th.Req{Writes: s.Pre})
	}
	pre, err := storekit.Dump(ctx, ds, store)
	ds.Close()
	if err != nil {
		return nil, err
	}
	if !storekit.EqualStrings(pre.SemTuples(), m.Tuples()) {
		return nil, fmt.Errorf("pre-state of shape %s not as written", s.Name)
	}
	nOld := len(m.Log)
	m.Apply(s.req())
	t := &template{s: s, path: path, store: store, pre: pre, postT: m.Tuples(), postNew: sortedCopy(m.Log[nOld:])}
	t.changes = len(t.postNew) > 0
	return t, nil
}

// classify says whether the observed snapshot is exactly the pre-state or exactly the post-state.
func (t *template) classify(got storekit.Snapshot) string {
	if got.Raw() == t.pre.Raw() {
		if !t.changes {
			return "pre=post"
		}
		return "pre"
	}
	if !storekit.EqualStrings(got.SemTuples(), t.postT) || len(got.Log) != len(t.pre.Log)+len(t.postNew) {
		return "neither"
	}
	for i := range t.pre.Log {
		if got.Log[i].Sem() != t.pre.Log[i].Sem() || got.Log[i].TS != t.pre.Log[i].TS {
			return "neither"
		}
	}
	if !storekit.EqualStrings(sortedCopy(got.SemLog()[len(t.pre.Log):]), t.postNew) {
		return "neither"
	}
	return "post"
}

func (t *template) copyTo(dir string) (string, error) {
	p := storekit.NewSqlitePath(dir)
	return p, storekit.CopyFile(t.path, p)
}

func reopenDump(ctx context.Context, path, store string, s shape) (storekit.Snapshot, error) {
	ds, err := storekit.OpenSqliteFile(path, dsOpts(s)...)
	if err != nil {
		return storekit.Snapshot{}, err
	}
	defer ds.Close()
	return storekit.Dump(ctx, ds, store)
}

func removeDB(path string) {
	for _, suf := range []string{"", "-wal", "-shm", "-journal"} {
		_ = os.Remove(path + suf)
	}
}

// countRun executes the write un-faulted on a copy and records its driver calls.
func (t *template) countRun(ctx context.Context, c *vk.Ctx, dir string) error {
	p, err := t.copyTo(dir)
	if err != nil {
		return err
	}
	defer removeDB(p)
	h := &faultHook{}
	ds, _, err := storekit.OpenSqliteWrapped(p, h, dsOpts(t.s)...)
	if err != nil {
		return err
	}
	h.arm(0, "")
	werr := dsWrite(ctx, ds, t.store, t.s)
	h.disarm()
	t.ops = h.ops
	commit := h.commitDone
	ds.Close()
	got, err := reopenDump(ctx, p, t.store, t.s)
	if err != nil {
		return err
	}
	cls := t.classify(got)
	wantAccepted := th.NewModelFrom(t.s.Pre).Apply(t.s.req()).Accepted
	if (werr == nil) != wantAccepted || (wantAccepted && cls != "post" && cls != "pre=post") || (!wantAccepted && cls != "pre" && cls != "pre=post") {
		id := "C12-unfaulted-shape"
		if werr != nil && wantAccepted && cls == "pre" && strings.Contains(werr.Error(), "different condition") && hasNilCtxDuplicate(th.NewModelFrom(t.s.Pre), t.s.req()) {
			id = "C12-ignore-nilctx-conflict" // same defect as in phase (a), reached through a random shape
		}
		c.Violation(id, "unfaulted|"+t.s.Name,
			fmt.Sprintf("un-faulted datastore Write of shape %s: err=%v, model accepted=%v, state=%s", t.s.Name, werr, wantAccepted, cls),
			faultWitness{Shape: t.s, Ops: t.ops, CommitDone: commit, Pre: t.pre, WantTuples: t.postT, WantLogNew: t.postNew, Got: got})
		return errors.New("shape unusable")
	}
	return nil
}

// faultPoints selects the k values: every call, but of long runs of cursor steps only first/middle/last.
func faultPoints(ops []opDesc) []int {
	var ks []int
	for i := 0; i < len(ops); {
		if ops[i].Kind != "next" {
			ks = append(ks, ops[i].K)
			i++
			continue
		}
		j := i
		for j < len(ops) && ops[j].Kind == "next" && ops[j].SQL == ops[i].SQL {
			j++
		}
		if j-i <= 4 {
			for x := i; x < j; x++ {
				ks = append(ks, ops[x].K)
			}
		} else {
			ks = append(ks, ops[i].K, ops[(i+j)/2].K, ops[j-1].K)
		}
		i = j
	}
	return ks
}

var followupTuple = th.Tup{Object: "doc:followup", Relation: "viewer", User: "user:f"}

// inProcessRun injects the fault in this process and judges the reopened file.
func (t *template) inProcessRun(ctx context.Context, c *vk.Ctx, dir string, k int, mode string) {
	p, err := t.copyTo(dir)
	if err != nil {
		c.HarnessError("copy: %v", err)
		return
	}
	defer removeDB(p)
	h := &faultHook{}
	ds, _, err := storekit.OpenSqliteWrapped(p, h, dsOpts(t.s)...)
	if err != nil {
		c.HarnessError("open wrapped: %v", err)
		return
	}
	h.arm(k, mode)
	var werr error
	var panicked any
	func() {
		defer func() { panicked = recover() }()
		werr = dsWrite(ctx, ds, t.store, t.s)
	}()
	h.disarm()
	fired, commit := h.fired, h.commitDone
	at := opDesc{}
	if k-1 < len(t.ops) {
		at = t.ops[k-1]
	}
	w := faultWitness{Shape: t.s, Ops: t.ops, K: k, Mode: mode, At: at, CommitDone: commit, Pre: t.pre, WantTuples: t.postT, WantLogNew: t.postNew}
	if len(w.Shape.Pre) > 12 { // keep witnesses readable
		w.Shape.Pre, w.Shape.Deletes, w.Shape.Writes = w.Shape.Pre[:3], w.Shape.Deletes[:3], w.Shape.Writes[:3]
	}
	if werr != nil {
		w.WriteErr = werr.Error()
	}
	if panicked != nil {
		c.Violation("C12-fault-panic", "fpanic|"+t.s.Name, fmt.Sprintf("datastore Write panicked under fault %s at k=%d: %v", mode, k, panicked), w)
		ds.Close()
		return
	}
	if !fired {
		c.HarnessError("shape %s: fault k=%d %s never fired (%d calls seen)", t.s.Name, k, mode, h.n)
		ds.Close()
		return
	}
	// observe through an independent clean handle while the faulted datastore is still open
	got, err := reopenDump(ctx, p, t.store, t.s)
	if err != nil {
		c.HarnessError("reopen after fault: %v", err)
		ds.Close()
		return
	}
	w.Got = got
	cls := t.classify(got)
	var allowed []string
	switch {
	case werr == nil || commit: // acknowledged, or the real COMMIT went through
		allowed = []string{"post", "pre=post"}
	default:
		allowed = []string{"pre", "pre=post"}
	}
	w.Allowed = allowed
	sig := fmt.Sprintf("fault|%s|k=%d:%s|%s", t.s.Name, k, at.Kind, mode)
	c.Case(sig, true)
	c.Count("b_fault_runs_inprocess", 1)
	c.Seen("b_fault_points", fmt.Sprintf("%s|%d", t.s.Name, k))
	c.Seen("b_states_observed", cls)
	if werr != nil {
		c.Count("b_writes_failed", 1)
	} else {
		c.Count("b_writes_acknowledged_despite_fault", 1)
	}
	if cls != allowed[0] && cls != allowed[1] {
		id := "C12-partial-write"
		what := "neither the pre-state nor the post-state"
		if cls != "neither" {
			id = "C12-ack-mismatch"
			what = "the " + cls + "-state"
		}
		c.Violation(id, id+"|"+t.s.Name+"|"+at.Kind+"|"+mode,
			fmt.Sprintf("sqlite Write shape %s, fault %s at driver call k=%d (%s %q): Write returned %v, real COMMIT executed=%v, reopened database shows %s (allowed: %v)",
				t.s.Name, mode, k, at.Kind, at.SQL, werr, commit, what, allowed), w)
		ds.Close()
		return
	}
	// the faulted datastore must not carry the failed transaction into later work
	ferr := dsWrite(ctx, ds, t.store, shape{Writes: []th.Tup{followupTuple}})
	ds.Close()
	got2, err := reopenDump(ctx, p, t.store, t.s)
	if err != nil {
		c.HarnessError("reopen after follow-up: %v", err)
		return
	}
	if ferr != nil {
		c.Count("b_followup_write_failed", 1)
		w.Followup = "follow-up write failed: " + ferr.Error()
	}
	// remove the follow-up tuple from the observation and re-classify
	var rest storekit.Snapshot
	for _, tr := range got2.Tuples {
		if tr.Key != followupTuple.Key() {
			rest.Tuples = append(rest.Tuples, tr)
		}
	}
	for _, lr := range got2.Log {
		if lr.Key != followupTuple.Key() {
			rest.Log = append(rest.Log, lr)
		}
	}
	if cls2 := t.classify(rest); cls2 != cls {
		w.Got = got2
		c.Violation("C12-late-effect", "late|"+t.s.Name+"|"+at.Kind+"|"+mode,
			fmt.Sprintf("sqlite Write shape %s, fault %s at k=%d (%s): state was %s after the failed Write but %s after one more Write on the same datastore (failed transaction leaked into later work)",
				t.s.Name, mode, k, at.Kind, cls, cls2), w)
	}
}

// ---- child process (SIGKILL mode)

type childSpec struct {
	Path  string `json:"path"`
	Store string `json:"store"`
	Shape shape  `json:"shape"`
	K     int    `json:"k"`
	Mode  string `json:"mode"`
}

func childMain(specPath string) {
	b, err := os.ReadFile(specPath)
	if err != nil {
		fmt.Println("CHILD-ERROR", err)
		os.Exit(3)
	}
	var sp childSpec
	if err := json.Unmarshal(b, &sp); err != nil {
		fmt.Println("CHILD-ERROR", err)
		os.Exit(3)
	}
	h := &faultHook{}
	ds, _, err := storekit.OpenSqliteWrapped(sp.Path, h, dsOpts(sp.Shape)...)
	if err != nil {
		fmt.Println("CHILD-ERROR", err)
		os.Exit(3)
	}
	h.arm(sp.K, sp.Mode)
	werr := dsWrite(context.Background(), ds, sp.Store, sp.Shape)
	fmt.Printf("CHILD-SURVIVED calls=%d err=%v\n", h.n, werr)
	os.Exit(4)
}

func (t *template) killRun(ctx context.Context, c *vk.Ctx, dir string, k int, mode string) {
	p, err := t.copyTo(dir)
	if err != nil {
		c.HarnessError("copy: %v", err)
		return
	}
	defer removeDB(p)
	specPath := p + ".spec.json"
	b, _ := json.Marshal(childSpec{Path: p, Store: t.store, Shape: t.s, K: k, Mode: mode})
	if err := os.WriteFile(specPath, b, 0o644); err != nil {
		c.HarnessError("spec: %v", err)
		return
	}
	defer os.Remove(specPath)
	cctx, cancel := context.WithTimeout(ctx, 120*time.Second)
	defer cancel()
	cmd := exec.CommandContext(cctx, os.Args[0], "C12")
	cmd.Env = append(os.Environ(), childEnv+"="+specPath)
	out, err := cmd.CombinedOutput()
	killed := false
	var ee *exec.ExitError
	if errors.As(err, &ee) {
		if ws, ok := ee.Sys().(syscall.WaitStatus); ok && ws.Signaled() && ws.Signal() == syscall.SIGKILL && cctx.Err() == nil {
			killed = true
		}
	}
	if !killed {
		if cctx.Err() != nil {
			c.Inconclusive("kill-mode child timed out")
			return
		}
		c.HarnessError("kill-mode child for shape %s k=%d %s did not die by SIGKILL: err=%v out=%s", t.s.Name, k, mode, err, truncate(string(out), 400))
		return
	}
	got, err := reopenDump(ctx, p, t.store, t.s)
	at := opDesc{}
	if k-1 < len(t.ops) {
		at = t.ops[k-1]
	}
	w := faultWitness{Shape: t.s, Ops: t.ops, K: k, Mode: mode, At: at, Pre: t.pre, WantTuples: t.postT, WantLogNew: t.postNew, Got: got}
	if len(w.Shape.Pre) > 12 {
		w.Shape.Pre, w.Shape.Deletes, w.Shape.Writes = w.Shape.Pre[:3], w.Shape.Deletes[:3], w.Shape.Writes[:3]
	}
	if err != nil {
		c.Violation("C12-crash-unreadable", "unreadable|"+t.s.Name, fmt.Sprintf("database cannot be read back after SIGKILL at k=%d (%s %s): %v", k, at.Kind, mode, err), w)
		return
	}
	cls := t.classify(got)
	allowed := []string{"pre", "pre=post"}
	if at.Kind == "commit" && mode == "kill-after" {
		allowed = []string{"pre", "post", "pre=post"} // all-or-nothing; durability of the acknowledged commit is sqlite's business
	}
	w.Allowed = allowed
	c.Case(fmt.Sprintf("crash|%s|k=%d:%s|%s", t.s.Name, k, at.Kind, mode), true)
	c.Count("b_crash_runs_child_killed", 1)
	c.Seen("b_crash_points", fmt.Sprintf("%s|%d|%s", t.s.Name, k, mode))
	c.Seen("b_crash_states_observed", at.Kind+"/"+mode+"->"+cls)
	ok := false
	for _, a := range allowed {
		ok = ok || a == cls
	}
	if !ok {
		what := "neither the pre-state nor the post-state"
		if cls != "neither" {
			what = "the " + cls + "-state"
		}
		c.Violation("C12-crash-partial-write", "crash|"+t.s.Name+"|"+at.Kind+"|"+mode,
			fmt.Sprintf("sqlite Write shape %s: process SIGKILLed %s driver call k=%d (%s %q); reopened database shows %s (allowed: %v)",
				t.s.Name, strings.TrimPrefix(mode, "kill-"), k, at.Kind, at.SQL, what, allowed), w)
	}
}

func truncate(s string, n int) string {
	if len(s) > n {
		return s[:n]
	}
	return s
}

func runFaults(ctx context.Context, c *vk.Ctx, dir string) {
	shapes := fixedShapes()
	if c.Quick() { // quick tier: five fixed shapes; thorough: all seven + random ones
		var q []shape
		for _, s := range shapes {
			if s.Name != "delete3" && s.Name != "all-noop" {
				q = append(q, s)
			}
		}
		shapes = q
	}
	nRandom := c.Pick(1, 33)
	for i := 0; i < nRandom; i++ {
		shapes = append(shapes, randomShape(c, i))
	}
	var shapeEvidence []map[string]any
	type job struct {
		t    *template
		k    int
		mode string
		kill bool
	}
	var jobs []job
	nKill := 0
	for _, s := range shapes {
		t, err := buildTemplate(ctx, dir, s)
		if err != nil {
			c.HarnessError("template %s: %v", s.Name, err)
			continue
		}
		if err := t.countRun(ctx, c, dir); err != nil {
			continue
		}
		ks := faultPoints(t.ops)
		kinds := map[string]int{}
		for _, o := range t.ops {
			kinds[o.Kind]++
		}
		var kindList []string
		for k, n := range kinds {
			kindList = append(kindList, fmt.Sprintf("%s×%d", k, n))
		}
		sort.Strings(kindList)
		var points []string
		for _, k := range ks {
			points = append(points, fmt.Sprintf("%d:%s %s", k, t.ops[k-1].Kind, t.ops[k-1].SQL))
		}
		if len(points) > 24 {
			points = append(points[:24], fmt.Sprintf("… %d more", len(points)-24))
		}
		shapeEvidence = append(shapeEvidence, map[string]any{"shape": s.Name, "driver_calls": len(t.ops), "calls_by_kind": strings.Join(kindList, " "),
			"fault_points_enumerated": len(ks), "points": points, "deletes": len(s.Deletes), "writes": len(s.Writes), "pre": len(s.Pre), "changes_state": t.changes})
		c.Seen("b_transaction_shapes", strings.Join(kindList, " "))
		// quick tier: SIGKILL mode on two shapes (delete+write: every call; multi-batch: every exec and the commit); thorough: all shapes, every call
		withKill := !c.Quick() || s.Name == "delete2+write2" || s.Name == "multi-batch"
		for _, k := range ks {
			for _, mode := range modesFor(t.ops[k-1].Kind, true, c.Quick()) {
				jobs = append(jobs, job{t, k, mode, false})
			}
			if kind := t.ops[k-1].Kind; withKill && !(c.Quick() && s.Name == "multi-batch" && kind != "exec" && kind != "commit") {
				for _, mode := range modesFor(t.ops[k-1].Kind, false, c.Quick()) {
					jobs = append(jobs, job{t, k, mode, true})
					nKill++
				}
			}
		}
	}
	c.Logf("(b) %d shapes counted; %d in-process fault runs + %d kill-mode children to run", len(shapes), len(jobs)-nKill, nKill)
	var wg sync.WaitGroup
	sem := make(chan struct{}, 12)
	sort.SliceStable(jobs, func(i, j int) bool { return !jobs[i].kill && jobs[j].kill })
	loggedKill := false
	for _, j := range jobs {
		if j.kill && !loggedKill {
			loggedKill = true
			c.Logf("(b) in-process fault runs dispatched")
		}
		wg.Add(1)
		sem <- struct{}{}
		go func(j job) {
			defer wg.Done()
			defer func() { <-sem }()
			if j.kill {
				j.t.killRun(ctx, c, dir, j.k, j.mode)
			} else {
				j.t.inProcessRun(ctx, c, dir, j.k, j.mode)
			}
		}(j)
	}
	wg.Wait()
	for _, s := range shapeEvidence {
		if len(shapeEvidence) > 12 {
			delete(s, "points")
		}
	}
	c.Extra("b_shapes", shapeEvidence)
	c.Logf("(b) fault runs done")
}
