// Package c10: higher-consistency requests are never stale (write / cached-request / HC-request
// histories on every combination of cache flags, reference model on the state at call time).
package c10

import (
	"fmt"
	"math/bits"
	"math/rand"
	"sort"
	"strings"
	"time"

	openfgav1 "github.com/openfga/api/proto/openfga/v1"

	"github.com/openfga/openfga/verifharness/checks/sem"
	"github.com/openfga/openfga/verifharness/drive"
	"github.com/openfga/openfga/verifharness/gen"
	"github.com/openfga/openfga/verifharness/ref"
	"github.com/openfga/openfga/verifharness/vk"
)

func init() { vk.Register("C10", "exploration", run) }

type cfgSrv struct {
	name string
	s    *drive.Srv
	v2   bool
	twin *drive.Srv // same engine, no cache at all: tells engine deviations from staleness
}

func run(c *vk.Ctx) {
	c.SetRule("for every one of the 32 combinations of cache flags (query cache, check iterator cache, list-objects iterator cache, shared iterators, cache controller) and both engines, histories alternate default-consistency requests that warm the caches, Write / Delete of one tuple, and HIGHER_CONSISTENCY Check / BatchCheck / ListObjects / ListUsers requests; each higher-consistency answer must equal the reference on the store state at call time (the driver serialises writes and requests, so that state is known); " +
		"distinct_nontrivial = distinct (API, cache flag set, engine, rewrite skeleton, reference value) of higher-consistency requests issued right after a write that changed their reference answer, or whose reference value is not F")
	c.Assume("writes and requests are serialised by the driver: the state at call time is the model of acknowledged writes")
	c.Assume("reference semantics harness/ref")
	if !sem.Calibrate(c) {
		return
	}
	base, err := drive.New(drive.Cfg{})
	if err != nil {
		c.HarnessError("server: %v", err)
		return
	}
	defer base.Close()
	twinV2, err := drive.NewShared(drive.Cfg{V2: true}, base)
	if err != nil {
		c.HarnessError("server: %v", err)
		return
	}
	defer twinV2.Close()
	var servers []cfgSrv
	for mask := 0; mask < 32; mask++ {
		for _, v2 := range []bool{false, true} {
			cfg := drive.Cfg{V2: v2, QueryCache: mask&1 != 0, CheckIterCache: mask&2 != 0, LOIterCache: mask&4 != 0, SharedIter: mask&8 != 0, Controller: mask&16 != 0,
				ControllerTTL: time.Hour, LOEngine: []string{"classic", "pipeline"}[(bits.OnesCount(uint(mask))+b2i(v2))%2]}
			s, err := drive.NewShared(cfg, base)
			if err != nil {
				c.HarnessError("server %s: %v", cfg.Name(), err)
				return
			}
			defer s.Close()
			twin := base
			if v2 {
				twin = twinV2
			}
			servers = append(servers, cfgSrv{cfg.Name(), s, v2, twin})
		}
	}
	perCase := c.Pick(4, 8)
	sem.RunCases(c, base, "mem", c.Pick(48, 400), gen.Options{HierarchyEvery: 3}, 0, 8, func(i int, r *rand.Rand, p *sem.Prepared, _ []*openfgav1.TupleKey) {
		for k := 0; k < perCase; k++ {
			cs := servers[(i*perCase+k)%len(servers)]
			history(c, i, k, r, p, base, cs)
		}
	})
}

func history(c *vk.Ctx, i, k int, r *rand.Rand, p *sem.Prepared, base *drive.Srv, cs cfgSrv) {
	// own store for this (case, configuration): half of the valid tuples stored, the rest is the write pool
	var valid []*openfgav1.TupleKey
	for _, tk := range p.Case.Tuples {
		if p.Ref.ValidForRead(tk) {
			valid = append(valid, tk)
		}
	}
	if len(valid) < 2 {
		return
	}
	r.Shuffle(len(valid), func(a, b int) { valid[a], valid[b] = valid[b], valid[a] })
	state := map[string]*openfgav1.TupleKey{}
	var pool []*openfgav1.TupleKey
	var initial []*openfgav1.TupleKey
	for j, tk := range valid {
		if j%2 == 0 {
			initial = append(initial, tk)
			state[key(tk)] = tk
		} else {
			pool = append(pool, tk)
		}
	}
	store, err := base.CreateStore(fmt.Sprintf("%s-h%d", p.Case.Name, k))
	if err != nil {
		c.HarnessError("CreateStore: %v", err)
		return
	}
	pp, err := sem.Install(c, base, p.Case, store, initial)
	if err != nil {
		c.HarnessError("install: %v", err)
		return
	}
	// planner strategies: forced per history (the planner on its own rarely leaves its first choice
	// within one short history, which would leave the weight-2 / recursive strategies' reads unexplored)
	mode := []drive.Mode{"", "fast", "default", "fast"}[(i+k)%4]
	drive.ForceStore(store, mode)
	c.Count("histories_strategy_mode_"+string(mode), 1)
	subjects, ctxs, nodes := sem.RequestSpace(r, pp, 4, 2)
	rctx := ctxs[len(ctxs)-1]
	cur := func() []*openfgav1.TupleKey {
		var out []*openfgav1.TupleKey
		ks := make([]string, 0, len(state))
		for kk := range state {
			ks = append(ks, kk)
		}
		sort.Strings(ks)
		for _, kk := range ks {
			out = append(out, state[kk])
		}
		return out
	}
	rc := ref.NewCase(pp.Ref, cur(), rctx, sem.ExtraObjects(nodes, subjects)...)
	reqs := sem.SampleRequests(r, rc, nodes, subjects, 16)
	if len(reqs) == 0 {
		return
	}
	steps := c.Pick(10, 24)
	for step := 0; step < steps; step++ {
		// 0. plan the write / delete of this step first, so that the very requests judged after it are
		//    warmed before it (a cache can only serve a stale answer for a request it has seen)
		before := rc
		var changed *openfgav1.TupleKey
		isWrite := false
		// candidates: up to 3 writes from the pool and up to 3 deletes from the state; the one whose effect
		// flips the most answers on its own object (by the reference) is taken, so that most steps change
		// something a stale cache entry would get wrong
		type cand struct {
			tk    *openfgav1.TupleKey
			write bool
			flips []string // subjects whose answer on some relation of the object flips
			n     int
		}
		var cands []cand
		for j := 0; j < 3 && j < len(pool); j++ {
			cands = append(cands, cand{tk: pool[len(pool)-1-j], write: true})
		}
		if len(state) > 0 {
			ks := make([]string, 0, len(state))
			for kk := range state {
				ks = append(ks, kk)
			}
			sort.Strings(ks)
			for j := 0; j < 3 && j < len(ks); j++ {
				cands = append(cands, cand{tk: state[ks[r.Intn(len(ks))]]})
			}
		}
		best := -1
		for ci := range cands {
			cd := &cands[ci]
			var after []*openfgav1.TupleKey
			for _, tk := range cur() {
				if cd.write || key(tk) != key(cd.tk) {
					after = append(after, tk)
				}
			}
			if cd.write {
				after = append(after, cd.tk)
			}
			rcA := ref.NewCase(pp.Ref, after, rctx, sem.ExtraObjects(nodes, subjects)...)
			ct, _ := ref.SplitObject(cd.tk.GetObject())
			for _, u := range subjects {
				ea, eb := rcA.Eval(u), rc.Eval(u)
				fl := false
				for _, rel := range pp.Ref.RelationNames(ct) {
					if ea.K(cd.tk.GetObject(), rel) != eb.K(cd.tk.GetObject(), rel) {
						cd.n++
						fl = true
					}
				}
				if fl {
					cd.flips = append(cd.flips, u)
				}
			}
			if best < 0 || cd.n > cands[best].n {
				best = ci
			}
		}
		var flipSubjects []string
		if best >= 0 {
			changed, isWrite, flipSubjects = cands[best].tk, cands[best].write, cands[best].flips
			if cands[best].n > 0 {
				c.Count("steps_whose_change_flips_an_answer_on_its_object", 1)
			}
		}
		// focus requests: every relation of the changed object, for the subjects whose answers flip, the
		// tuple's user and two sampled subjects
		stepReqs := append([]sem.Request{}, reqs...)
		listSubj := reqs[step%len(reqs)].User
		if changed != nil {
			ct, _ := ref.SplitObject(changed.GetObject())
			fs := []string{subjects[step%len(subjects)], subjects[(step+1)%len(subjects)]}
			if len(flipSubjects) > 3 {
				flipSubjects = flipSubjects[:3]
			}
			fs = append(flipSubjects, fs...)
			if !ref.IsUserset(changed.GetUser()) && !ref.IsWildcard(changed.GetUser()) {
				fs = append(fs, changed.GetUser())
			}
			if len(flipSubjects) > 0 && !ref.IsWildcard(flipSubjects[0]) {
				listSubj = flipSubjects[0]
			}
			seen := map[string]bool{}
			for _, rq := range reqs {
				seen[rq.Object+"#"+rq.Relation+"@"+rq.User] = true
			}
			for _, rel := range pp.Ref.RelationNames(ct) {
				for _, u := range fs {
					if k := changed.GetObject() + "#" + rel + "@" + u; !seen[k] {
						seen[k] = true
						stepReqs = append(stepReqs, sem.Request{Object: changed.GetObject(), Relation: rel, User: u, Ctx: rctx})
					}
				}
			}
		}
		// 1. warm: default-consistency requests (answers not judged here)
		for _, rq := range stepReqs {
			cs.s.Check(drive.Req{Store: store, Object: rq.Object, Relation: rq.Relation, User: rq.User, Ctx: rctx})
		}
		if changed != nil {
			ct, _ := ref.SplitObject(changed.GetObject())
			for _, rel := range pp.Ref.RelationNames(ct) {
				cs.s.ListObjects(drive.Req{Store: store, Object: ct, Relation: rel, User: listSubj, Ctx: rctx})
				cs.s.ListUsers(drive.Req{Store: store, Object: changed.GetObject(), Relation: rel, Ctx: rctx}, "user", "")
				c.Count("warmed_list_requests", 2)
			}
		}
		// 2. the write or delete
		if changed != nil && isWrite {
			for pi, tk := range pool {
				if tk == changed {
					pool = append(pool[:pi:pi], pool[pi+1:]...)
					break
				}
			}
			if err := cs.s.WriteTuples(store, pp.ModelID, []*openfgav1.TupleKey{changed}); err != nil {
				c.HarnessError("write %s: %v", gen.TupleString(changed), err)
				return
			}
			state[key(changed)] = changed
			c.Count("writes", 1)
		} else if changed != nil {
			if err := cs.s.DeleteTuples(store, pp.ModelID, []*openfgav1.TupleKey{changed}); err != nil {
				c.HarnessError("delete %s: %v", gen.TupleString(changed), err)
				return
			}
			delete(state, key(changed))
			pool = append(pool, changed)
			c.Count("deletes", 1)
		}
		rc = ref.NewCase(pp.Ref, cur(), rctx, sem.ExtraObjects(nodes, subjects)...)
		// 3. higher-consistency requests: must see the new state
		var batch []drive.BatchItem
		for qi, rq := range stepReqs {
			kNew := rc.Eval(rq.User).K(rq.Object, rq.Relation)
			kOld := before.Eval(rq.User).K(rq.Object, rq.Relation)
			flipped := kNew != kOld
			if flipped {
				c.Count("hc_requests_whose_answer_was_changed_by_the_write", 1)
			}
			o := cs.s.Check(drive.Req{Store: store, Object: rq.Object, Relation: rq.Relation, User: rq.User, Ctx: rctx, HigherConsistency: true})
			c.Case(fmt.Sprintf("check|%s|%s|flipped=%v", cs.name, sem.ShapeOf(pp, rq, kNew), flipped), flipped || kNew != ref.F)
			judge(c, pp, cs, rc, "Check", rq, kNew, kOld, o, cur(), changed)
			if qi < 6 {
				batch = append(batch, drive.BatchItem{ID: fmt.Sprintf("b%d", qi), Object: rq.Object, Relation: rq.Relation, User: rq.User, Ctx: rctx})
			}
		}
		if res, err := cs.s.BatchCheck(store, "", batch, true); err == nil {
			for qi, it := range batch {
				rq := stepReqs[qi]
				kNew := rc.Eval(rq.User).K(rq.Object, rq.Relation)
				kOld := before.Eval(rq.User).K(rq.Object, rq.Relation)
				c.Case(fmt.Sprintf("batch|%s|%s", cs.name, sem.ShapeOf(pp, rq, kNew)), kNew != kOld || kNew != ref.F)
				judge(c, pp, cs, rc, "BatchCheck", rq, kNew, kOld, res[it.ID], cur(), changed)
			}
		}
		// list APIs on the relation of the changed tuple
		if changed != nil {
			t, _ := ref.SplitObject(changed.GetObject())
			subj := listSubj
			for _, lrel := range pp.Ref.RelationNames(t) {
				want, anyE := sem.RefListObjects(rc, t, lrel, subj)
				old, _ := sem.RefListObjects(before, t, lrel, subj)
				if !anyE {
					lo := cs.s.ListObjects(drive.Req{Store: store, Object: t, Relation: lrel, User: subj, Ctx: rctx, HigherConsistency: true})
					c.Case(fmt.Sprintf("lo|%s|%s|n=%d", cs.name, ref.Shape(pp.Ref.Rewrite(t, lrel)), len(want)), strings.Join(want, ",") != strings.Join(old, ",") || len(want) > 0)
					if !sem.Hung(c, cs.name, lo) && lo.Err == nil {
						got := append([]string{}, lo.Items...)
						sort.Strings(got)
						if strings.Join(got, ",") != strings.Join(want, ",") {
							stale := ""
							if strings.Join(got, ",") == strings.Join(old, ",") && strings.Join(old, ",") != strings.Join(want, ",") {
								stale = " (this is the answer for the state BEFORE the last write: stale)"
							}
							f := classifyList(pp, cs, rc, lrel, subj, got, want)
							c.Violation(f, fmt.Sprintf("lo|%s|%v", cs.name, stale != ""), fmt.Sprintf("HIGHER_CONSISTENCY ListObjects(%s, %s, %s) on %s = %v; reference on the current state %v%s", t, lrel, subj, cs.name, got, want, stale),
								witness(pp, cs.name, sem.Request{Object: t, Relation: lrel, User: subj, Ctx: rctx}, cur(), strings.Join(want, ","), strings.Join(got, ",")))
						}
					}
				}
				exp := sem.RefListUsers(rc, changed.GetObject(), lrel, "user", "")
				if !exp.AnyE && !pp.Ref.ReachesExclusion(t, lrel) {
					lu := cs.s.ListUsers(drive.Req{Store: store, Object: changed.GetObject(), Relation: lrel, Ctx: rctx, HigherConsistency: true}, "user", "")
					c.Case(fmt.Sprintf("lu|%s|%s|n=%d", cs.name, ref.Shape(pp.Ref.Rewrite(t, lrel)), len(exp.Concrete)), len(exp.Concrete) > 0)
					if lu.Err == nil {
						wild := false
						got := map[string]bool{}
						for _, u := range lu.Items {
							got[u] = true
							if ref.IsWildcard(u) {
								wild = true
							}
						}
						for _, u := range exp.Concrete {
							if !got[u] && !wild {
								c.Violation("", "lu-missing|"+cs.name, fmt.Sprintf("HIGHER_CONSISTENCY ListUsers(%s#%s, user) on %s omitted %s: got %v, reference %v", changed.GetObject(), lrel, cs.name, u, lu.Items, exp.Concrete),
									witness(pp, cs.name, sem.Request{Object: changed.GetObject(), Relation: lrel, User: "user", Ctx: rctx}, cur(), strings.Join(exp.Concrete, ","), strings.Join(lu.Items, ",")))
								break
							}
						}
						for u := range got {
							if kk := rc.Eval(u).K(changed.GetObject(), lrel); kk != ref.T {
								c.Violation("", "lu-unsound|"+cs.name, fmt.Sprintf("HIGHER_CONSISTENCY ListUsers(%s#%s, user) on %s returned %s whose reference value on the current state is %s", changed.GetObject(), lrel, cs.name, u, kk),
									witness(pp, cs.name, sem.Request{Object: changed.GetObject(), Relation: lrel, User: u, Ctx: rctx}, cur(), kk.String(), "returned"))
								break
							}
						}
					}
				}
			}
		}
	}
	c.SampleEvery(i*8+k, 40, func() any {
		return map[string]any{"case": p.Case.Name, "config": cs.name, "model": pp.Ref.DSL(), "initial_tuples": gen.TupleStrings(initial), "steps": steps, "requests_per_step": len(reqs)}
	})
}

func classifyList(p *sem.Prepared, cs cfgSrv, rc *ref.Case, rel, subj string, got, want []string) string {
	f := "?"
	in := func(xs []string, v string) bool {
		for _, y := range xs {
			if y == v {
				return true
			}
		}
		return false
	}
	for _, o := range append(append([]string{}, got...), want...) {
		if in(got, o) == in(want, o) {
			continue
		}
		kk := ref.F
		if in(want, o) {
			kk = ref.T
		}
		ff := sem.ClassifyCheck("C10", rc, sem.Request{Object: o, Relation: rel, User: subj, Ctx: rc.Context}, kk, drive.Outcome{Allowed: in(got, o)}, "fast")
		if f == "?" {
			f = ff
		} else if f != ff {
			f = ""
		}
	}
	if f == "?" {
		return ""
	}
	return f
}

func judge(c *vk.Ctx, p *sem.Prepared, cs cfgSrv, rc *ref.Case, api string, rq sem.Request, kNew, kOld ref.Tri, o drive.Outcome, state []*openfgav1.TupleKey, changed *openfgav1.TupleKey) {
	c.Count("hc_answers_"+api, 1)
	v := sem.JudgeCheck(kNew, rc.AnyUnevaluable(), o)
	if v == sem.Agree || v == sem.NotJudged {
		return
	}
	stale := ""
	if o.Err == nil && kOld != kNew && (kOld == ref.T) == o.Allowed && kOld != ref.E {
		stale = " — this is the answer for the state BEFORE the last write (stale)"
	}
	f := sem.ClassifyCheck("C10", rc, rq, kNew, o, "fast")
	if f == "" && cs.v2 {
		f = sem.ClassifyV2("C10", p, rc, rq, kNew, o)
	}
	if stale != "" {
		// the uncached twin of the same engine decides: if it answers the same, the deviation is the
		// engine's (attributed above); if it answers differently, a cache served the old state
		tw := cs.twin.Check(drive.Req{Store: p.Store, Object: rq.Object, Relation: rq.Relation, User: rq.User, Ctx: rq.Ctx, HigherConsistency: true})
		if !(tw.Err == nil && o.Err == nil && tw.Allowed == o.Allowed) {
			f = ""
		} else {
			stale = ""
		}
	}
	w := witness(p, cs.name, rq, state, kNew.String(), o.String())
	w["last_write"] = gen.TupleString(changed)
	c.Violation(f, fmt.Sprintf("%s|%s|%s|%s|stale=%v", api, cs.name, v, kNew, stale != ""),
		fmt.Sprintf("HIGHER_CONSISTENCY %s(%s#%s@%s, ctx=%s) on %s answered %s; reference on the state at call time: %s (before the last write: %s)%s", api, rq.Object, rq.Relation, rq.User, gen.CtxString(rq.Ctx), cs.name, o, kNew, kOld, stale), w)
}

func key(tk *openfgav1.TupleKey) string {
	return tk.GetObject() + "#" + tk.GetRelation() + "@" + tk.GetUser()
}
func typeOf(o string) string { t, _ := ref.SplitObject(o); return t }

func witness(p *sem.Prepared, cfg string, rq sem.Request, state []*openfgav1.TupleKey, want, got string) map[string]any {
	w := sem.Witness(p, cfg, "", rq, nil, want, got)
	w["state_at_call_time"] = gen.TupleStrings(state)
	return w
}

func b2i(b bool) int {
	if b {
		return 1
	}
	return 0
}
