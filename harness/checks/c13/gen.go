package c13

import (
	"fmt"
	"math"
	"math/rand"
	"sort"
	"strings"

	openfgav1 "github.com/openfga/api/proto/openfga/v1"
	"google.golang.org/protobuf/proto"
	"google.golang.org/protobuf/types/known/structpb"

	sf "github.com/openfga/openfga/verifharness/checks/c13/storagefilter"
)

// Master lists. Everything here is accepted by the server's tuple validation (ids and relations
// may not contain ':' '#' or blanks, so those cannot reach a datastore through the write path);
// '%' and '_' are special to SQL LIKE, case variants probe collation, several types share ids.
var (
	allTypes = []string{"doc", "docs", "Doc", "d_c", "d%c", "grp", "user"}
	allIDs   = []string{"1", "_", "%", "a", "A", "1%", "a|b"}
	allRels  = []string{"r1", "r_", "r%", "R1", "member"}
	allConds = []string{"c1", "c_", "c%", "C1"}
)

// universe is the small per-history world drawn from the master lists.
type universe struct {
	types []string // object types (also used as user types)
	ids   []string
	rels  []string
	users []string // objects, usersets and typed wildcards
	conds []string // condition names (without "")
}

func pickN(r *rand.Rand, from []string, n int) []string {
	p := r.Perm(len(from))
	out := make([]string, 0, n)
	for _, i := range p[:n] {
		out = append(out, from[i])
	}
	sort.Strings(out)
	return out
}

func newUniverse(r *rand.Rand) *universe {
	u := &universe{
		types: pickN(r, allTypes, 3),
		ids:   pickN(r, allIDs, 3),
		rels:  pickN(r, allRels, 3),
		conds: pickN(r, allConds, 2),
	}
	// users: for two user types, plain objects, usersets and the typed wildcard, sharing ids with
	// the objects (so that "grp:1", "grp:1#r1" and "grp:*" coexist).
	utypes := pickN(r, u.types, 2)
	if r.Intn(4) == 0 {
		// one type name is a prefix of the other: "doc:" must not select "docs:..." users/objects
		u.types = []string{"doc", "docs", u.types[r.Intn(len(u.types))]}
		if u.types[2] == "doc" || u.types[2] == "docs" {
			u.types[2] = "grp"
		}
		sort.Strings(u.types)
		utypes = []string{"doc", "docs"}
	}
	seen := map[string]bool{}
	add := func(s string) {
		if !seen[s] {
			seen[s] = true
			u.users = append(u.users, s)
		}
	}
	for _, t := range utypes {
		add(t + ":*")
		for _, id := range u.ids[:2] {
			add(t + ":" + id)
			add(t + ":" + id + "#" + u.rels[r.Intn(len(u.rels))])
		}
		add(t + ":" + u.ids[0] + "#" + u.rels[r.Intn(len(u.rels))])
	}
	add("user:" + u.ids[0])
	add("user:*")
	sort.Strings(u.users)
	return u
}

func (u *universe) randObject(r *rand.Rand) string {
	return u.types[r.Intn(len(u.types))] + ":" + u.ids[r.Intn(len(u.ids))]
}

// ---- condition contexts: every structpb kind ----------------------------------------------------

func randValue(r *rand.Rand, depth int) *structpb.Value {
	k := r.Intn(8)
	if depth >= 2 && k >= 6 {
		k = r.Intn(6)
	}
	switch k {
	case 0:
		return structpb.NewNullValue()
	case 1:
		nums := []float64{0, 1, -1.5, 0.1, 1e308, -1e-308, 9007199254740993, math.MaxInt64, math.Copysign(0, -1), 3.141592653589793}
		return structpb.NewNumberValue(nums[r.Intn(len(nums))])
	case 2:
		strs := []string{"", "x", "null", "%_", "üñí☃", "a\u0000b", "{\"k\":1}", strings.Repeat("z", 300)}
		return structpb.NewStringValue(strs[r.Intn(len(strs))])
	case 3:
		return structpb.NewBoolValue(r.Intn(2) == 0)
	case 4:
		return structpb.NewBoolValue(false)
	case 5:
		return structpb.NewNumberValue(float64(r.Intn(5)))
	case 6:
		return structpb.NewStructValue(randStruct(r, depth+1, false))
	default:
		n := r.Intn(4)
		l := &structpb.ListValue{}
		for i := 0; i < n; i++ {
			l.Values = append(l.Values, randValue(r, depth+1))
		}
		return structpb.NewListValue(l)
	}
}

func randStruct(r *rand.Rand, depth int, nonEmpty bool) *structpb.Struct {
	keys := []string{"k", "", "null", "a.b", "K", "ключ", "x y"}
	n := r.Intn(4)
	if nonEmpty && n == 0 {
		n = 1
	}
	s := &structpb.Struct{Fields: map[string]*structpb.Value{}}
	for i := 0; i < n; i++ {
		s.Fields[keys[r.Intn(len(keys))]] = randValue(r, depth)
	}
	return s
}

// allKindsStruct holds one value of every structpb kind (used at least once per history).
func allKindsStruct() *structpb.Struct {
	return &structpb.Struct{Fields: map[string]*structpb.Value{
		"null":   structpb.NewNullValue(),
		"num":    structpb.NewNumberValue(-12.5),
		"str":    structpb.NewStringValue("s"),
		"bool":   structpb.NewBoolValue(true),
		"false":  structpb.NewBoolValue(false),
		"zero":   structpb.NewNumberValue(0),
		"empty":  structpb.NewStringValue(""),
		"struct": structpb.NewStructValue(&structpb.Struct{Fields: map[string]*structpb.Value{"n": structpb.NewNullValue(), "e": structpb.NewStructValue(&structpb.Struct{})}}),
		"list":   structpb.NewListValue(&structpb.ListValue{Values: []*structpb.Value{structpb.NewNullValue(), structpb.NewNumberValue(1), structpb.NewListValue(&structpb.ListValue{})}}),
	}}
}

// ctxKind classifies a context for evidence.
func ctxKind(s *structpb.Struct) string {
	switch {
	case s == nil:
		return "nil"
	case len(s.GetFields()) == 0:
		return "empty"
	}
	return "fields"
}

func valueKinds(v *structpb.Value, into map[string]bool) {
	switch k := v.GetKind().(type) {
	case *structpb.Value_NullValue:
		into["null"] = true
	case *structpb.Value_NumberValue:
		into["number"] = true
	case *structpb.Value_StringValue:
		into["string"] = true
	case *structpb.Value_BoolValue:
		into["bool"] = true
	case *structpb.Value_StructValue:
		into["struct"] = true
		for _, f := range k.StructValue.GetFields() {
			valueKinds(f, into)
		}
	case *structpb.Value_ListValue:
		into["list"] = true
		for _, f := range k.ListValue.GetValues() {
			valueKinds(f, into)
		}
	}
}

// randCondition returns the condition to write (nil = unconditioned) with a context that is nil,
// empty or populated.
func randCondition(r *rand.Rand, u *universe, first *bool) *openfgav1.RelationshipCondition {
	if r.Intn(100) < 45 {
		return nil
	}
	c := &openfgav1.RelationshipCondition{Name: u.conds[r.Intn(len(u.conds))]}
	if !*first {
		*first = true
		c.Context = allKindsStruct()
		return c
	}
	switch r.Intn(6) {
	case 0:
		c.Context = nil
	case 1:
		c.Context = &structpb.Struct{}
	case 2:
		c.Context = allKindsStruct()
	default:
		c.Context = randStruct(r, 0, true)
	}
	return c
}

// expectedCondition is what a read must return for a written condition. The storage test-suite
// (pkg/storage/test/tuples.go: "tuples_with_nil_condition", "normalize_empty_context") documents
// the only normalisation: a nil condition stays nil, a nil or empty context reads back as an empty
// context; everything else must round-trip unchanged.
func expectedCondition(c *openfgav1.RelationshipCondition) *openfgav1.RelationshipCondition {
	if c == nil {
		return nil
	}
	out := proto.Clone(c).(*openfgav1.RelationshipCondition)
	if out.GetContext() == nil {
		out.Context = &structpb.Struct{}
	}
	return out
}

// ---- model and history ------------------------------------------------------------------------

type mtuple struct {
	sf.Tuple
	written *openfgav1.RelationshipCondition // as handed to Write
	cond    *openfgav1.RelationshipCondition // as a read must return it
}

type model struct {
	tuples map[string]*mtuple
}

func (m *model) sorted() []*mtuple {
	out := make([]*mtuple, 0, len(m.tuples))
	for _, t := range m.tuples {
		out = append(out, t)
	}
	sort.Slice(out, func(i, j int) bool { return out[i].Key() < out[j].Key() })
	return out
}

func (m *model) dump() []string {
	var out []string
	for _, t := range m.sorted() {
		s := t.Key()
		if t.Condition != "" {
			s += " [" + t.Condition + " ctx=" + ctxKind(t.written.GetContext()) + "]"
		}
		out = append(out, s)
	}
	return out
}

// batch is one ds.Write call.
type batch struct {
	deletes   []*openfgav1.TupleKeyWithoutCondition
	writes    []*openfgav1.TupleKey
	ignoreDup bool
	ignoreMis bool
	wantErr   bool // the batch is invalid: both backends must refuse it and stay unchanged
	kind      string
}

func (b *batch) String() string {
	var sb strings.Builder
	sb.WriteString(b.kind + ":")
	for _, d := range b.deletes {
		fmt.Fprintf(&sb, " -%s#%s@%s", d.GetObject(), d.GetRelation(), d.GetUser())
	}
	for _, w := range b.writes {
		fmt.Fprintf(&sb, " +%s#%s@%s", w.GetObject(), w.GetRelation(), w.GetUser())
		if w.GetCondition() != nil {
			fmt.Fprintf(&sb, "[%s ctx=%s]", w.GetCondition().GetName(), ctxKind(w.GetCondition().GetContext()))
		}
	}
	return sb.String()
}

// nextBatch draws a batch against the current model and applies it to the model when valid.
func nextBatch(r *rand.Rand, u *universe, m *model, density int, firstCtx *bool) *batch {
	b := &batch{kind: "plain"}
	n := 1 + r.Intn(6)
	if r.Intn(8) == 0 {
		n = 10 + r.Intn(30)
	}
	inBatch := map[string]bool{}
	existing := m.sorted()
	pDel := 15
	if len(existing) > density {
		pDel = 60
	}
	mode := r.Intn(100)
	switch {
	case mode < 4:
		b.kind, b.wantErr = "invalid", true
	case mode < 14:
		b.kind, b.ignoreDup, b.ignoreMis = "ignore", true, true
	}
	var delKeys []string
	var newTuples []*mtuple
	for i := 0; i < n; i++ {
		if len(existing) > 0 && r.Intn(100) < pDel {
			t := existing[r.Intn(len(existing))]
			if inBatch[t.Key()] {
				continue
			}
			inBatch[t.Key()] = true
			b.deletes = append(b.deletes, &openfgav1.TupleKeyWithoutCondition{Object: t.Object, Relation: t.Relation, User: t.User})
			delKeys = append(delKeys, t.Key())
			continue
		}
		t := sf.Tuple{Object: u.randObject(r), Relation: u.rels[r.Intn(len(u.rels))], User: u.users[r.Intn(len(u.users))]}
		if inBatch[t.Key()] || m.tuples[t.Key()] != nil {
			continue
		}
		inBatch[t.Key()] = true
		cond := randCondition(r, u, firstCtx)
		t.Condition = cond.GetName()
		b.writes = append(b.writes, &openfgav1.TupleKey{Object: t.Object, Relation: t.Relation, User: t.User, Condition: cond})
		newTuples = append(newTuples, &mtuple{Tuple: t, written: cond, cond: expectedCondition(cond)})
	}
	switch b.kind {
	case "invalid":
		// make it invalid: delete a missing tuple, or write an existing one
		if len(existing) > 0 && r.Intn(2) == 0 {
			t := existing[r.Intn(len(existing))]
			if !inBatch[t.Key()] {
				b.writes = append(b.writes, &openfgav1.TupleKey{Object: t.Object, Relation: t.Relation, User: t.User, Condition: t.written})
				return b
			}
		}
		for tries := 0; tries < 50; tries++ {
			t := sf.Tuple{Object: u.randObject(r), Relation: u.rels[r.Intn(len(u.rels))], User: u.users[r.Intn(len(u.users))]}
			if !inBatch[t.Key()] && m.tuples[t.Key()] == nil {
				b.deletes = append(b.deletes, &openfgav1.TupleKeyWithoutCondition{Object: t.Object, Relation: t.Relation, User: t.User})
				return b
			}
		}
		b.kind, b.wantErr = "plain", false
	case "ignore":
		// no-op members: re-write an existing tuple with the identical condition (only where the
		// written condition is stored verbatim, see report), delete a missing tuple.
		for _, t := range existing {
			if inBatch[t.Key()] || r.Intn(4) != 0 {
				continue
			}
			if t.written != nil && len(t.written.GetContext().GetFields()) == 0 {
				continue
			}
			inBatch[t.Key()] = true
			b.writes = append(b.writes, &openfgav1.TupleKey{Object: t.Object, Relation: t.Relation, User: t.User, Condition: t.written})
			if len(b.writes) > 6 {
				break
			}
		}
		for tries := 0; tries < 3; tries++ {
			t := sf.Tuple{Object: u.randObject(r), Relation: u.rels[r.Intn(len(u.rels))], User: u.users[r.Intn(len(u.users))]}
			if !inBatch[t.Key()] && m.tuples[t.Key()] == nil {
				inBatch[t.Key()] = true
				b.deletes = append(b.deletes, &openfgav1.TupleKeyWithoutCondition{Object: t.Object, Relation: t.Relation, User: t.User})
			}
		}
	}
	if len(b.deletes)+len(b.writes) == 0 {
		return nil
	}
	for _, k := range delKeys {
		delete(m.tuples, k)
	}
	for _, t := range newTuples {
		m.tuples[t.Key()] = t
	}
	return b
}

// ---- filter generation -------------------------------------------------------------------------

func (u *universe) randUserOtherThan(r *rand.Rand, not string) string {
	for i := 0; i < 5; i++ {
		if s := u.users[r.Intn(len(u.users))]; s != not {
			return s
		}
	}
	return "user:nobody"
}

// genConditions draws a Conditions list and its shape label.
func genConditions(r *rand.Rand, u *universe, base *mtuple) ([]string, string) {
	bc := ""
	if base != nil {
		bc = base.Condition
	}
	other := u.conds[r.Intn(len(u.conds))]
	switch k := r.Intn(100); {
	case k < 40:
		return nil, "cnil"
	case k < 50:
		return []string{""}, "cnone"
	case k < 62:
		if bc == "" {
			return []string{other}, "cnamed"
		}
		return []string{bc}, "cnamed"
	case k < 72:
		return []string{other, ""}, "cmixed"
	case k < 80:
		return []string{u.conds[0], u.conds[1]}, "cnamed2"
	case k < 87:
		return []string{other, "", other, ""}, "cdup"
	case k < 93:
		return []string{"zz"}, "cunknown"
	case k < 96:
		return []string{strings.ToUpper(other), strings.ToLower(other) + " "}, "ccase"
	default:
		return []string{}, "cempty"
	}
}

func typePrefix(s string) string { return sf.ObjectType(s) + ":" }

func plainObjectOf(user string) string {
	if i := strings.LastIndexByte(user, '#'); i >= 0 {
		return user[:i]
	}
	return user
}

func userShape(u string) string {
	switch {
	case u == "":
		return "u-"
	case strings.HasSuffix(u, ":"):
		return "utype"
	case strings.Contains(u, "#"):
		return "uset"
	case strings.HasSuffix(u, ":*"):
		return "uwild"
	}
	return "uobj"
}

func objShape(o string) string {
	switch {
	case o == "":
		return "o-"
	case strings.HasSuffix(o, ":"):
		return "otype"
	}
	return "oid"
}

func relShape(s string) string {
	if s == "" {
		return "r-"
	}
	return "r+"
}

func genReadFilter(r *rand.Rand, u *universe, base *mtuple) (sf.ReadFilter, string) {
	var f sf.ReadFilter
	b := sf.Tuple{Object: u.randObject(r), Relation: u.rels[r.Intn(len(u.rels))], User: u.users[r.Intn(len(u.users))]}
	if base != nil {
		b = base.Tuple
	}
	switch k := r.Intn(100); {
	case k < 22:
	case k < 45:
		f.Object = typePrefix(b.Object)
	case k < 88:
		f.Object = b.Object
	case k < 96:
		f.Object = u.randObject(r)
	default:
		f.Object = "nosuch:"
	}
	switch k := r.Intn(100); {
	case k < 40:
	case k < 85:
		f.Relation = b.Relation
	default:
		f.Relation = u.rels[r.Intn(len(u.rels))]
	}
	switch k := r.Intn(100); {
	case k < 28:
	case k < 58:
		f.User = b.User
	case k < 72:
		f.User = typePrefix(b.User)
	case k < 84:
		f.User = plainObjectOf(b.User) // "grp:1" where "grp:1#r1" may be stored
	case k < 96:
		f.User = u.randUserOtherThan(r, b.User)
	default:
		f.User = "nosuch:x"
	}
	var cs string
	f.Conditions, cs = genConditions(r, u, base)
	return f, objShape(f.Object) + "," + relShape(f.Relation) + "," + userShape(f.User) + "," + cs
}

func genUserTupleFilter(r *rand.Rand, u *universe, base *mtuple) (sf.ReadFilter, string) {
	b := sf.Tuple{Object: u.randObject(r), Relation: u.rels[r.Intn(len(u.rels))], User: u.users[r.Intn(len(u.users))]}
	shape := "random"
	if base != nil {
		b, shape = base.Tuple, "existing"
	}
	f := sf.ReadFilter{Object: b.Object, Relation: b.Relation, User: b.User}
	switch k := r.Intn(100); {
	case k < 60:
	case k < 68:
		f.Object, shape = u.randObject(r), shape+"/obj*"
	case k < 76:
		f.Relation, shape = u.rels[r.Intn(len(u.rels))], shape+"/rel*"
	case k < 84:
		f.User, shape = u.randUserOtherThan(r, b.User), shape+"/user*"
	case k < 90:
		f.User, shape = plainObjectOf(b.User), shape+"/user-plain"
	case k < 93:
		f.Object, shape = typePrefix(b.Object), shape+"/partial-obj"
	case k < 96:
		f.Relation, shape = "", shape+"/partial-rel"
	case k < 98:
		f.User, shape = typePrefix(b.User), shape+"/partial-user"
	default:
		f.User, shape = "", shape+"/partial-nouser"
	}
	var cs string
	f.Conditions, cs = genConditions(r, u, base)
	return f, shape + "," + userShape(f.User) + "," + cs
}

func refOf(user string) sf.TypeRef {
	t := sf.ObjectType(user)
	if i := strings.LastIndexByte(user, '#'); i >= 0 {
		return sf.TypeRef{Type: t, Relation: user[i+1:]}
	}
	if strings.HasSuffix(user, ":*") {
		return sf.TypeRef{Type: t, Wildcard: true}
	}
	return sf.TypeRef{Type: t}
}

func genUsersetFilter(r *rand.Rand, u *universe, base *mtuple) (sf.UsersetFilter, string) {
	b := sf.Tuple{Object: u.randObject(r), Relation: u.rels[r.Intn(len(u.rels))], User: u.users[r.Intn(len(u.users))]}
	if base != nil {
		b = base.Tuple
	}
	f := sf.UsersetFilter{Object: b.Object, Relation: b.Relation}
	oshape := "oid,r+"
	switch k := r.Intn(100); {
	case k < 88:
	case k < 92:
		f.Relation = u.rels[r.Intn(len(u.rels))]
	case k < 95:
		f.Object, oshape = typePrefix(b.Object), "otype,r+"
	case k < 98:
		f.Relation, oshape = "", "oid,r-"
	default:
		f.Object, f.Relation, oshape = "", "", "o-,r-"
	}
	n := 0
	if r.Intn(100) >= 25 {
		n = 1 + r.Intn(4)
	}
	kinds := map[string]bool{}
	for i := 0; i < n; i++ {
		var ref sf.TypeRef
		switch k := r.Intn(100); {
		case k < 35:
			ref = refOf(b.User)
		case k < 55:
			ref = sf.TypeRef{Type: sf.ObjectType(b.User), Wildcard: true}
		case k < 75:
			ref = refOf(u.users[r.Intn(len(u.users))])
		case k < 85:
			ref = sf.TypeRef{Type: u.types[r.Intn(len(u.types))], Relation: u.rels[r.Intn(len(u.rels))]}
		case k < 92:
			ref = sf.TypeRef{Type: "nosuch", Relation: u.rels[0]}
		default:
			ref = sf.TypeRef{Type: sf.ObjectType(b.User)}
		}
		switch {
		case ref.Wildcard:
			kinds["wild"] = true
		case ref.Relation != "":
			kinds["rel"] = true
		default:
			kinds["direct"] = true
		}
		f.AllowedTypes = append(f.AllowedTypes, ref)
	}
	rshape := "refs-none"
	if n > 0 {
		var ks []string
		for k := range kinds {
			ks = append(ks, k)
		}
		sort.Strings(ks)
		rshape = "refs-" + strings.Join(ks, "+")
		// accidental repeats are removed; a repeat is added on purpose in 15% of the filters
		seen := map[sf.TypeRef]bool{}
		uniq := f.AllowedTypes[:0]
		for _, ref := range f.AllowedTypes {
			if !seen[ref] {
				seen[ref] = true
				uniq = append(uniq, ref)
			}
		}
		f.AllowedTypes = uniq
		if r.Intn(100) < 15 {
			f.AllowedTypes = append(f.AllowedTypes, f.AllowedTypes[r.Intn(len(f.AllowedTypes))])
			r.Shuffle(len(f.AllowedTypes), func(i, j int) { f.AllowedTypes[i], f.AllowedTypes[j] = f.AllowedTypes[j], f.AllowedTypes[i] })
			rshape += "+dup"
		}
	}
	var cs string
	f.Conditions, cs = genConditions(r, u, base)
	return f, oshape + "," + rshape + "," + cs
}

func entryOf(user string) sf.ObjectRelation {
	if i := strings.LastIndexByte(user, '#'); i >= 0 {
		return sf.ObjectRelation{Object: user[:i], Relation: user[i+1:]}
	}
	return sf.ObjectRelation{Object: user}
}

func genStartingWithUserFilter(r *rand.Rand, u *universe, base *mtuple) (sf.StartingWithUserFilter, string) {
	b := sf.Tuple{Object: u.randObject(r), Relation: u.rels[r.Intn(len(u.rels))], User: u.users[r.Intn(len(u.users))]}
	if base != nil {
		b = base.Tuple
	}
	f := sf.StartingWithUserFilter{ObjectType: sf.ObjectType(b.Object), Relation: b.Relation}
	oshape := "t+,r+"
	switch k := r.Intn(100); {
	case k < 85:
	case k < 91:
		f.Relation = u.rels[r.Intn(len(u.rels))]
	case k < 95:
		f.ObjectType = u.types[r.Intn(len(u.types))]
	case k < 97:
		f.ObjectType = "nosuch"
	case k < 99:
		f.Relation, oshape = "", "t+,r-"
	default:
		f.ObjectType, oshape = "", "t-,r+"
	}
	n := 1 + r.Intn(4)
	if r.Intn(100) < 5 {
		n = 0 // an empty user filter selects nothing
	}
	kinds := map[string]bool{}
	for i := 0; i < n; i++ {
		var e sf.ObjectRelation
		switch k := r.Intn(100); {
		case k < 40:
			e = entryOf(b.User)
		case k < 55:
			e = sf.ObjectRelation{Object: typePrefix(b.User) + "*"}
		case k < 70:
			e = sf.ObjectRelation{Object: plainObjectOf(b.User)} // plain object where a userset may be stored
		case k < 92:
			e = entryOf(u.users[r.Intn(len(u.users))])
		case k < 97:
			e = sf.ObjectRelation{Object: "user:nobody"}
		default:
			e = sf.ObjectRelation{Object: b.User} // whole user string in Object (may contain '#')
		}
		switch {
		case strings.Contains(e.Object, "#"):
			kinds["hash-in-object"] = true
		case e.Relation != "":
			kinds["set"] = true
		case strings.HasSuffix(e.Object, ":*"):
			kinds["wild"] = true
		default:
			kinds["obj"] = true
		}
		f.UserFilter = append(f.UserFilter, e)
	}
	ushape := "users-none"
	if n > 0 {
		var ks []string
		for k := range kinds {
			ks = append(ks, k)
		}
		sort.Strings(ks)
		ushape = "users-" + strings.Join(ks, "+")
		seen := map[sf.ObjectRelation]bool{}
		uniq := f.UserFilter[:0]
		for _, e := range f.UserFilter {
			if !seen[e] {
				seen[e] = true
				uniq = append(uniq, e)
			}
		}
		f.UserFilter = uniq
		if r.Intn(100) < 12 {
			f.UserFilter = append(f.UserFilter, f.UserFilter[r.Intn(len(f.UserFilter))])
			r.Shuffle(len(f.UserFilter), func(i, j int) { f.UserFilter[i], f.UserFilter[j] = f.UserFilter[j], f.UserFilter[i] })
			ushape += "+dup"
		}
	}
	ishape := "ids-nil"
	switch k := r.Intn(100); {
	case k < 45:
	case k < 55:
		f.HasObjectIDs, ishape = true, "ids-empty"
	case k < 75:
		f.HasObjectIDs, f.ObjectIDs, ishape = true, []string{sf.ObjectID(b.Object)}, "ids-one"
	case k < 90:
		f.HasObjectIDs, f.ObjectIDs, ishape = true, []string{sf.ObjectID(b.Object), u.ids[r.Intn(len(u.ids))], "unknown-id"}, "ids-some+unknown"
	case k < 95:
		f.HasObjectIDs, f.ObjectIDs, ishape = true, append([]string{}, u.ids...), "ids-all"
	default:
		f.HasObjectIDs, f.ObjectIDs, ishape = true, []string{"unknown-id", "%", "_"}, "ids-unknown"
	}
	var cs string
	f.Conditions, cs = genConditions(r, u, base)
	return f, oshape + "," + ushape + "," + ishape + "," + cs
}
