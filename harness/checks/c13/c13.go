// Package c13 checks property C13 "Storage backends implement the same read semantics": identical
// write histories are applied to the in-memory and the sqlite datastore through ds.Write, then
// every read operation of storage.RelationshipTupleReader is issued with many filter shapes on
// both. Oracles: (1) the documentation band of package storagefilter, (2) memory == sqlite as
// multisets, (3) proto.Equal round trip of conditions and contexts, (4) ascending object IDs when
// ReadStartingWithUser is asked for sorted results.
package c13

import (
	"fmt"
	"math/rand"
	"sort"
	"strings"
	"sync"

	"github.com/oklog/ulid/v2"
	openfgav1 "github.com/openfga/api/proto/openfga/v1"
	"google.golang.org/protobuf/encoding/protojson"
	"google.golang.org/protobuf/proto"

	sf "github.com/openfga/openfga/verifharness/checks/c13/storagefilter"
	"github.com/openfga/openfga/verifharness/vk"
)

func init() { vk.Register("C13", "exploration", run) }

type tierCfg struct {
	histories   int
	checkpoints int // read rounds per history
	reads       int // Read filters per round
	pages       int
	userTuples  int
	usersets    int
	swu         int
	workers     int
}

func run(c *vk.Ctx) {
	cfg := tierCfg{histories: 48, checkpoints: 2, reads: 160, pages: 40, userTuples: 80, usersets: 140, swu: 180, workers: 8}
	if !c.Quick() {
		cfg = tierCfg{histories: 500, checkpoints: 3, reads: 260, pages: 70, userTuples: 120, usersets: 220, swu: 280, workers: 12}
	}
	c.SetRule("Each history draws a small universe (3 object types, 3 ids, 3 relations, ~12 users: objects, usersets, typed wildcards sharing ids; names with SQL-LIKE specials % _ and case variants), applies 6-40 ds.Write batches (writes with conditions whose contexts cover every structpb kind / nil / empty, deletes, re-writes, ignore-duplicate and ignore-missing batches, invalid batches that must fail atomically) to memory and sqlite, and at each checkpoint issues Read, ReadPage (walked to the end with page sizes 1,2,3,n-1,n,n+1,50), ReadUserTuple, ReadUsersetTuples and ReadStartingWithUser with filters derived from stored tuples (exact / generalised / near-miss / unknown values; condition lists nil,[\"\"],named,mixed,dup,empty; restriction lists rel/wildcard/direct/dup/unknown; user filters obj/userset/wildcard/dup; object-id sets nil/empty/subset/unknown; sorted flag; all three consistency preferences; Head-then-Next draining). signature = operation | filter shape | result-size class; a case is non-trivial when the store is non-empty and the documented band selects at least one tuple or misses one by exactly one filter component.")
	c.Assume("the model of the store contents (a map keyed by object#relation@user) is right about ds.Write: deletes before writes, atomic failure; a disagreement on Write outcomes is reported separately (C13-write-outcome) because reads are then incomparable")
	c.Assume("storagefilter encodes the doc comments of pkg/storage/storage.go; for nil/empty condition contexts it follows pkg/storage/test/tuples.go (normalize_empty_context, tuples_with_nil_condition); sorted = byte-wise ascending object id (assert_bytewise_ordering_of_tuples)")
	c.Assume("postgres and mysql are not exercised (no Docker); sqlite stands for the SQL family only where its code mirrors them")
	c.Assume("ids containing ':' or '#' are not generated: tuple validation refuses them before any datastore is reached")

	for id := range findings {
		if c.FindingStatus(id) == "fixed" {
			repaired[id] = true
		}
	}
	mem, sql, closeAll, err := openBackends(fmt.Sprintf("seed%d", c.Seed))
	if err != nil {
		c.HarnessError("cannot open backends: %v", err)
		return
	}
	defer closeAll()

	runScripted(c, mem, sql)

	jobs := make(chan int)
	var wg sync.WaitGroup
	for w := 0; w < cfg.workers; w++ {
		wg.Add(1)
		go func() {
			defer wg.Done()
			for h := range jobs {
				runHistory(c, &cfg, mem, sql, h)
			}
		}()
	}
	for h := 0; h < cfg.histories; h++ {
		jobs <- h
	}
	close(jobs)
	wg.Wait()

	reach := map[string]any{}
	for id, f := range findings {
		reach[id] = map[string]any{"side": f.side, "documentation": f.doc, "issued_by_production_callers": f.reachable, "what": f.what}
	}
	c.Extra("finding_catalogue", reach)
	c.Logf("done: %d histories", cfg.histories)
}

type hctx struct {
	c        *vk.Ctx
	h        int
	store    string
	u        *universe
	m        *model
	log      []string
	mem, sql *backend
	r        *rand.Rand
}

func runHistory(c *vk.Ctx, cfg *tierCfg, mem, sql *backend, h int) {
	r := c.Rand(fmt.Sprintf("history-%d", h))
	hc := &hctx{c: c, h: h, u: newUniverse(r), m: &model{tuples: map[string]*mtuple{}}, mem: mem, sql: sql, r: r}
	hc.store = ulid.MustNew(ulid.Now(), r).String()
	density := []int{0, 3, 12, 40, 120}[r.Intn(5)]
	nBatches := 6 + r.Intn(20)
	if density == 0 {
		nBatches = 0 // empty store
	}
	firstCtx := false
	per := nBatches / cfg.checkpoints
	for cp := 0; cp < cfg.checkpoints; cp++ {
		n := per
		if cp == cfg.checkpoints-1 {
			n = nBatches - per*(cfg.checkpoints-1)
		}
		for i := 0; i < n; i++ {
			before := hc.snapshotKeys()
			bt := nextBatch(r, hc.u, hc.m, density, &firstCtx)
			if bt == nil {
				continue
			}
			hc.log = append(hc.log, bt.String())
			c.Count("write_batches:"+bt.kind, 1)
			em, es := applyBatch(mem, hc.store, bt), applyBatch(sql, hc.store, bt)
			if (em != nil) != bt.wantErr || (es != nil) != bt.wantErr {
				c.Violation("C13-write-outcome", fmt.Sprintf("write|%s|%v|%v", bt.kind, em != nil, es != nil),
					fmt.Sprintf("ds.Write outcome differs from the model (batch kind %s, expected error=%v): memory err=%v, sqlite err=%v; reads of this history are not comparable", bt.kind, bt.wantErr, em, es),
					hc.witness(nil, nil, nil, map[string]any{"batch": bt.String(), "keys_before": before}))
				return
			}
			for _, w := range bt.writes {
				if w.GetCondition() != nil {
					c.Seen("written_context_shapes", ctxKind(w.GetCondition().GetContext()))
					kinds := map[string]bool{}
					for _, v := range w.GetCondition().GetContext().GetFields() {
						valueKinds(v, kinds)
					}
					for k := range kinds {
						c.Seen("written_context_value_kinds", k)
					}
				}
			}
		}
		hc.readRound(cfg)
	}
}

func (hc *hctx) snapshotKeys() []string {
	var ks []string
	for k := range hc.m.tuples {
		ks = append(ks, k)
	}
	sort.Strings(ks)
	return ks
}

func (hc *hctx) base() *mtuple {
	ts := hc.m.sorted()
	if len(ts) == 0 || hc.r.Intn(100) < 15 {
		return nil
	}
	return ts[hc.r.Intn(len(ts))]
}

// usersetBase prefers a stored tuple whose user is a userset or wildcard.
func (hc *hctx) usersetBase() *mtuple {
	var us []*mtuple
	for _, t := range hc.m.sorted() {
		if sf.IsUsersetUser(t.User) {
			us = append(us, t)
		}
	}
	if len(us) == 0 || hc.r.Intn(100) < 15 {
		return hc.base()
	}
	return us[hc.r.Intn(len(us))]
}

func (hc *hctx) readRound(cfg *tierCfg) {
	r := hc.r
	n := len(hc.m.tuples)
	for i := 0; i < cfg.reads; i++ {
		f, shape := genReadFilter(r, hc.u, hc.base())
		if i == 0 {
			f, shape = sf.ReadFilter{}, "o-,r-,u-,cnil"
		}
		pref, head := r.Intn(3), r.Intn(4) == 0
		in := &readInput{op: "Read", read: f}
		hc.judge(in, sf.Read(f), shape, fmt.Sprintf("pref=%d head=%v", pref, head), false,
			doRead(hc.mem, hc.store, f, pref, head), doRead(hc.sql, hc.store, f, pref, head))
	}
	sizes := []int{1, 2, 3, 50}
	for _, s := range []int{n - 1, n, n + 1} {
		if s > 0 {
			sizes = append(sizes, s)
		}
	}
	for i := 0; i < cfg.pages; i++ {
		f, shape := genReadFilter(r, hc.u, hc.base())
		if i%5 == 0 {
			f.Object, f.Relation, f.User = "", "", "" // the whole store, the longest walks
			shape = "o-,r-,u-," + shape[strings.LastIndex(shape, ",")+1:]
		}
		ps := sizes[r.Intn(len(sizes))]
		pref := r.Intn(3)
		in := &readInput{op: "ReadPage", read: f}
		bound := n/ps + 3
		hc.c.Seen("page_sizes", fmt.Sprint(ps))
		hc.judge(in, sf.Read(f), shape, fmt.Sprintf("pageSize=%d pref=%d", ps, pref), false,
			doReadPage(hc.mem, hc.store, f, ps, pref, bound), doReadPage(hc.sql, hc.store, f, ps, pref, bound))
	}
	for i := 0; i < cfg.userTuples; i++ {
		var b *mtuple
		if r.Intn(100) < 70 {
			b = hc.base()
		}
		f, shape := genUserTupleFilter(r, hc.u, b)
		pref := r.Intn(3)
		in := &readInput{op: "ReadUserTuple", read: f}
		hc.judge(in, sf.ReadUserTuple(f), shape, fmt.Sprintf("pref=%d", pref), false,
			doReadUserTuple(hc.mem, hc.store, f, pref), doReadUserTuple(hc.sql, hc.store, f, pref))
	}
	for i := 0; i < cfg.usersets; i++ {
		f, shape := genUsersetFilter(r, hc.u, hc.usersetBase())
		pref, head := r.Intn(3), r.Intn(4) == 0
		in := &readInput{op: "ReadUsersetTuples", userset: f}
		hc.judge(in, sf.ReadUsersetTuples(f), shape, fmt.Sprintf("pref=%d head=%v", pref, head), false,
			doReadUsersetTuples(hc.mem, hc.store, f, pref, head), doReadUsersetTuples(hc.sql, hc.store, f, pref, head))
	}
	for i := 0; i < cfg.swu; i++ {
		f, shape := genStartingWithUserFilter(r, hc.u, hc.base())
		sorted := r.Intn(2) == 0
		pref, head := r.Intn(3), r.Intn(4) == 0
		if sorted {
			shape += ",sorted"
		} else {
			shape += ",unsorted"
		}
		in := &readInput{op: "ReadStartingWithUser", swu: f}
		hc.judge(in, sf.ReadStartingWithUser(f), shape, fmt.Sprintf("sorted=%v pref=%d head=%v", sorted, pref, head), sorted,
			doReadStartingWithUser(hc.mem, hc.store, f, sorted, pref, head), doReadStartingWithUser(hc.sql, hc.store, f, sorted, pref, head))
	}
}

func sizeClass(n int) string {
	switch {
	case n == 0:
		return "0"
	case n == 1:
		return "1"
	case n <= 5:
		return "2-5"
	}
	return "6+"
}

func filterString(in *readInput) string {
	switch in.op {
	case "Read", "ReadPage", "ReadUserTuple":
		return fmt.Sprintf("%s{Object:%q Relation:%q User:%q Conditions:%s}", in.op, in.read.Object, in.read.Relation, in.read.User, condString(in.read.Conditions))
	case "ReadUsersetTuples":
		var refs []string
		for _, r := range in.userset.AllowedTypes {
			switch {
			case r.Wildcard:
				refs = append(refs, r.Type+":*")
			case r.Relation != "":
				refs = append(refs, r.Type+"#"+r.Relation)
			default:
				refs = append(refs, r.Type)
			}
		}
		return fmt.Sprintf("ReadUsersetTuples{Object:%q Relation:%q AllowedUserTypeRestrictions:%v Conditions:%s}", in.userset.Object, in.userset.Relation, refs, condString(in.userset.Conditions))
	}
	var us []string
	for _, e := range in.swu.UserFilter {
		us = append(us, fmt.Sprintf("{%q,%q}", e.Object, e.Relation))
	}
	ids := "nil"
	if in.swu.HasObjectIDs {
		ids = fmt.Sprintf("%q", in.swu.ObjectIDs)
	}
	return fmt.Sprintf("ReadStartingWithUser{ObjectType:%q Relation:%q UserFilter:%v ObjectIDs:%s Conditions:%s}", in.swu.ObjectType, in.swu.Relation, us, ids, condString(in.swu.Conditions))
}

func condString(c []string) string {
	if c == nil {
		return "nil"
	}
	return fmt.Sprintf("%q", c)
}

func (hc *hctx) witness(in *readInput, rm, rs *result, extra map[string]any) map[string]any {
	w := map[string]any{
		"history_index": hc.h, "store": hc.store,
		"universe":      map[string]any{"types": hc.u.types, "ids": hc.u.ids, "relations": hc.u.rels, "users": hc.u.users, "conditions": hc.u.conds},
		"write_batches": hc.log,
		"model_tuples":  hc.m.dump(),
	}
	if in != nil {
		w["read"] = filterString(in)
	}
	if rm != nil {
		w["memory_returned"] = resultDump(rm)
	}
	if rs != nil {
		w["sqlite_returned"] = resultDump(rs)
	}
	for k, v := range extra {
		w[k] = v
	}
	return w
}

func resultDump(r *result) any {
	switch {
	case r.panicked != "":
		return "PANIC " + r.panicked
	case r.err != nil:
		return "ERROR " + r.err.Error()
	case r.notFound:
		return "ErrNotFound"
	}
	ks := r.keys()
	if ks == nil {
		ks = []string{}
	}
	return ks
}

func counts(r *result) map[string]int {
	m := map[string]int{}
	for _, k := range r.keys() {
		m[k]++
	}
	return m
}

// judge applies the oracles to one read executed on both backends.
func (hc *hctx) judge(in *readInput, spec *sf.Spec, shape, opts string, sorted bool, rm, rs *result) {
	c := hc.c
	tuples := hc.m.sorted()
	c.Count("reads:"+in.op, 1)
	c.Seen("options", in.op+" "+opts)

	// documented band over the model
	lower, upper, near := 0, 0, false
	for _, t := range tuples {
		if spec.Lower(t.Tuple) {
			lower++
		}
		if spec.Upper(t.Tuple) {
			upper++
		} else if spec.NearMiss(t.Tuple) {
			near = true
		}
	}
	specified := len(spec.Unspecified) == 0
	class := "exact"
	switch {
	case !specified:
		class = "unspecified-input"
	case len(spec.Ambiguous) > 0 || spec.DupEntries:
		class = "ambiguous-input"
	}
	c.Count("judgement:"+in.op+":"+class, 1)
	sizeOf := len(rs.tuples)
	if specified {
		sizeOf = upper
	}
	c.Case(in.op+"|"+shape+"|"+sizeClass(sizeOf), len(tuples) > 0 && (upper > 0 && specified || near))
	c.SampleEvery(int(c.Counter("reads:"+in.op)), 3001, func() any {
		return map[string]any{"read": filterString(in), "options": opts, "store_size": len(tuples), "documented_band": [2]int{lower, upper}, "memory": resultDump(rm), "sqlite": resultDump(rs)}
	})

	keyBase := in.op + "|" + shape
	for _, br := range []struct {
		b *backend
		r *result
	}{{hc.mem, rm}, {hc.sql, rs}} {
		name, r := br.b.name, br.r
		if r.panicked != "" {
			c.Violation("C13-"+in.op+"-"+name+"-panic", keyBase+"|panic|"+name, name+" panicked on "+filterString(in)+": "+firstLine(r.panicked), hc.witness(in, rm, rs, map[string]any{"stack": r.panicked}))
			return
		}
		if r.err != nil {
			if specified {
				c.Violation("C13-"+in.op+"-"+name+"-error", keyBase+"|error|"+name, name+" returned an error for a documented input "+filterString(in)+": "+r.err.Error(), hc.witness(in, rm, rs, nil))
			} else {
				c.Count("unspecified_input_errors:"+in.op+":"+name, 1)
			}
			continue
		}
		if r.headBad != "" {
			c.Violation("C13-"+in.op+"-"+name+"-head", keyBase+"|head|"+name, name+" iterator Head/Next contract broken on "+filterString(in)+": "+r.headBad, hc.witness(in, rm, rs, nil))
		}
		if r.pageOver {
			c.Violation("C13-ReadPage-"+name+"-page-too-long", keyBase+"|pageover|"+name, name+" ReadPage returned more tuples than PageSize ("+opts+")", hc.witness(in, rm, rs, nil))
		}
		// (3) round trip of every returned tuple, (1) documentation band
		got := counts(r)
		var problems []string
		for _, t := range r.tuples {
			k := t.GetKey()
			key := k.GetObject() + "#" + k.GetRelation() + "@" + k.GetUser()
			mt := hc.m.tuples[key]
			if mt == nil {
				problems = append(problems, "returned a tuple that is not in the store: "+key)
				continue
			}
			c.Count("roundtrip_checked", 1)
			if !proto.Equal(k.GetCondition(), mt.cond) {
				c.Violation("C13-"+in.op+"-"+name+"-condition-roundtrip", keyBase+"|roundtrip|"+name,
					fmt.Sprintf("%s %s returned %s with condition %s but %s was written (expected %s)", name, in.op, key, pj(k.GetCondition()), pj(mt.written), pj(mt.cond)),
					hc.witness(in, rm, rs, nil))
			}
		}
		if specified {
			for _, t := range tuples {
				n := got[t.Key()]
				switch {
				case n == 0 && spec.Lower(t.Tuple) && !(in.op == "ReadUserTuple"):
					problems = append(problems, "missing "+t.Key())
				case n > 0 && !spec.Upper(t.Tuple):
					problems = append(problems, "returned "+t.Key()+", which the filter does not select")
				case n > spec.MaxCopies(t.Tuple):
					problems = append(problems, fmt.Sprintf("returned %s %d times", t.Key(), n))
				}
			}
			if in.op == "ReadUserTuple" {
				switch {
				case lower > 0 && r.notFound:
					problems = append(problems, "ErrNotFound although the tuple exists and passes the filter")
				case upper == 0 && !r.notFound:
					problems = append(problems, "a tuple was returned although none matches exactly")
				}
			}
		}
		if sorted && len(r.tuples) > 1 {
			var objs []string
			for _, t := range r.tuples {
				objs = append(objs, t.GetKey().GetObject())
			}
			c.Count("sorted_results_checked", 1)
			if ok, at := sf.SortedAscending(objs); !ok {
				c.Violation("C13-RSWU-"+name+"-not-sorted", keyBase+"|unsorted|"+name,
					fmt.Sprintf("%s ReadStartingWithUser(WithResultsSortedAscending) returned objects out of order at index %d: %v", name, at, objs), hc.witness(in, rm, rs, nil))
			}
		}
		if len(problems) > 0 {
			hc.report(in, spec, name, keyBase, problems, got, tuples, rm, rs)
		}
	}

	// (2) memory == sqlite as multisets
	if rm.err != nil || rs.err != nil || rm.panicked != "" || rs.panicked != "" {
		return
	}
	c.Count("cross_compared:"+in.op, 1)
	gm, gs := counts(rm), counts(rs)
	if sameCounts(gm, gs) && rm.notFound == rs.notFound {
		return
	}
	diff := diffCounts(gm, gs)
	if !specified && spec.EmptyListOnly && len(spec.Unspecified) == 1 {
		c.Violation("C13-"+in.op+"-divergence-empty-filter-list", keyBase+"|diverge-empty-list",
			fmt.Sprintf("memory and sqlite disagree on %s (empty filter list): %s", filterString(in), diff), hc.witness(in, rm, rs, nil))
		return
	}
	if !specified {
		// precondition-breaking input: never judged, only recorded
		c.Count("divergence_on_unspecified_input:"+in.op, 1)
		c.Count("divergence_on_unspecified_input:"+in.op+": "+spec.Unspecified[0], 1)
		c.Seen("divergence_on_unspecified_input_shapes", in.op+"|"+shape)
		return
	}
	fm, okm := attribute("memory", in, tuples, gm)
	fs, oks := attribute("sqlite", in, tuples, gs)
	if !okm || !oks || len(fm)+len(fs) == 0 {
		c.Violation("C13-"+in.op+"-divergence-unexplained", keyBase+"|diverge",
			fmt.Sprintf("memory and sqlite disagree on %s: %s (documented band selects %d..%d tuples)", filterString(in), diff, lower, upper), hc.witness(in, rm, rs, nil))
		return
	}
	for _, id := range append(fm, fs...) {
		f := findings[id]
		c.Count("divergence:"+id, 1)
		if f.doc == "contradicts" {
			continue // already reported by the band check of the offending side
		}
		if f.reachable {
			c.Violation(id, id, fmt.Sprintf("memory and sqlite return different tuples for %s: %s. Documentation is silent here; %s", filterString(in), diff, f.what), hc.witness(in, rm, rs, nil))
		} else {
			c.Seen("unreachable_divergences", id)
		}
	}
}

// report turns band problems of one backend into violations, named by a deviation model when one
// reproduces the observation.
func (hc *hctx) report(in *readInput, spec *sf.Spec, name, keyBase string, problems []string, got map[string]int, tuples []*mtuple, rm, rs *result) {
	c := hc.c
	sort.Strings(problems)
	text := strings.Join(problems, "; ")
	fired, ok := attribute(name, in, tuples, got)
	var ids []string
	if ok {
		for _, id := range fired {
			if findings[id].doc == "contradicts" {
				ids = append(ids, id)
			}
		}
	}
	sort.Strings(ids)
	if len(ids) == 0 {
		c.Violation("C13-"+in.op+"-"+name+"-outside-documented-filter", keyBase+"|band|"+name,
			fmt.Sprintf("%s answers %s outside the documented meaning of the filter: %s", name, filterString(in), text), hc.witness(in, rm, rs, nil))
		return
	}
	for _, id := range ids {
		c.Count("band_violation:"+id, 1)
		c.Violation(id, id, fmt.Sprintf("%s answers %s outside the documented meaning of the filter: %s. %s", name, filterString(in), text, findings[id].what), hc.witness(in, rm, rs, nil))
	}
}

func diffCounts(m, s map[string]int) string {
	var onlyM, onlyS, mult []string
	for k, v := range m {
		switch {
		case s[k] == 0:
			onlyM = append(onlyM, k)
		case s[k] != v:
			mult = append(mult, fmt.Sprintf("%s x%d/x%d", k, v, s[k]))
		}
	}
	for k := range s {
		if m[k] == 0 {
			onlyS = append(onlyS, k)
		}
	}
	sort.Strings(onlyM)
	sort.Strings(onlyS)
	sort.Strings(mult)
	return fmt.Sprintf("only memory %v, only sqlite %v, multiplicity memory/sqlite %v", onlyM, onlyS, mult)
}

func firstLine(s string) string {
	if i := strings.IndexByte(s, '\n'); i >= 0 {
		return s[:i]
	}
	return s
}

func pj(c *openfgav1.RelationshipCondition) string {
	if c == nil {
		return "<nil>"
	}
	b, err := protojson.Marshal(c)
	if err != nil {
		return c.String()
	}
	return string(b)
}
