package c13

import (
	"context"
	"errors"
	"fmt"
	"runtime/debug"

	openfgav1 "github.com/openfga/api/proto/openfga/v1"

	"github.com/openfga/openfga/pkg/storage"

	sf "github.com/openfga/openfga/verifharness/checks/c13/storagefilter"
)

// result is what one backend returned for one read.
type result struct {
	tuples   []*openfgav1.Tuple
	err      error  // unexpected error (ErrNotFound of ReadUserTuple is not an error here)
	notFound bool   // ReadUserTuple returned storage.ErrNotFound
	panicked string // stack of an escaped panic
	pages    int
	pageOver bool // a page held more than PageSize tuples
	headBad  string
}

func (r *result) keys() []string {
	out := make([]string, 0, len(r.tuples))
	for _, t := range r.tuples {
		k := t.GetKey()
		out = append(out, k.GetObject()+"#"+k.GetRelation()+"@"+k.GetUser())
	}
	return out
}

var prefs = []openfgav1.ConsistencyPreference{
	openfgav1.ConsistencyPreference_UNSPECIFIED,
	openfgav1.ConsistencyPreference_MINIMIZE_LATENCY,
	openfgav1.ConsistencyPreference_HIGHER_CONSISTENCY,
}

func guard(res *result, fn func()) {
	defer func() {
		if p := recover(); p != nil {
			res.panicked = fmt.Sprintf("%v\n%s", p, debug.Stack())
		}
	}()
	fn()
}

// drain consumes an iterator. With useHead it first calls Head twice (documented: "Calling Head()
// continuously without calling Next() will yield the same result ... a subsequent call to Next will
// not miss any results").
func drain(ctx context.Context, it storage.TupleIterator, useHead bool, res *result) {
	defer it.Stop()
	var head *openfgav1.Tuple
	var headErr error
	if useHead {
		h1, e1 := it.Head(ctx)
		h2, e2 := it.Head(ctx)
		if (e1 == nil) != (e2 == nil) || (e1 == nil && h1.GetKey().String() != h2.GetKey().String()) {
			res.headBad = fmt.Sprintf("two consecutive Head calls differ: (%v,%v) vs (%v,%v)", h1.GetKey(), e1, h2.GetKey(), e2)
		}
		head, headErr = h1, e1
	}
	first := true
	for i := 0; i < 100000; i++ {
		t, err := it.Next(ctx)
		if err != nil {
			if !errors.Is(err, storage.ErrIteratorDone) {
				res.err = err
			}
			if first && useHead && headErr == nil && res.headBad == "" {
				res.headBad = fmt.Sprintf("Head returned %v but Next returned %v", head.GetKey(), err)
			}
			return
		}
		if first && useHead && res.headBad == "" {
			if headErr != nil {
				res.headBad = fmt.Sprintf("Head returned error %v but Next returned %v", headErr, t.GetKey())
			} else if head.GetKey().String() != t.GetKey().String() {
				res.headBad = fmt.Sprintf("Head returned %v but first Next returned %v", head.GetKey(), t.GetKey())
			}
		}
		first = false
		res.tuples = append(res.tuples, t)
	}
	res.err = fmt.Errorf("iterator did not finish after 100000 items")
}

func toStorageReadFilter(f sf.ReadFilter) storage.ReadFilter {
	return storage.ReadFilter{Object: f.Object, Relation: f.Relation, User: f.User, Conditions: f.Conditions}
}

func doRead(b *backend, store string, f sf.ReadFilter, pref int, useHead bool) *result {
	res := &result{}
	guard(res, func() {
		ctx := context.Background()
		it, err := b.ds.Read(ctx, store, toStorageReadFilter(f), storage.ReadOptions{Consistency: storage.ConsistencyOptions{Preference: prefs[pref]}})
		if err != nil {
			res.err = err
			return
		}
		drain(ctx, it, useHead, res)
	})
	return res
}

func doReadPage(b *backend, store string, f sf.ReadFilter, pageSize int, pref int, bound int) *result {
	res := &result{}
	guard(res, func() {
		ctx := context.Background()
		token := ""
		for {
			res.pages++
			if res.pages > bound {
				res.err = fmt.Errorf("ReadPage walk did not end after %d pages of size %d", bound, pageSize)
				return
			}
			page, next, err := b.ds.ReadPage(ctx, store, toStorageReadFilter(f), storage.ReadPageOptions{
				Pagination:  storage.NewPaginationOptions(int32(pageSize), token),
				Consistency: storage.ConsistencyOptions{Preference: prefs[pref]},
			})
			if err != nil {
				res.err = err
				return
			}
			if len(page) > pageSize {
				res.pageOver = true
			}
			res.tuples = append(res.tuples, page...)
			if next == "" {
				return
			}
			token = next
		}
	})
	return res
}

func doReadUserTuple(b *backend, store string, f sf.ReadFilter, pref int) *result {
	res := &result{}
	guard(res, func() {
		t, err := b.ds.ReadUserTuple(context.Background(), store, toStorageReadFilter(f),
			storage.ReadUserTupleOptions{Consistency: storage.ConsistencyOptions{Preference: prefs[pref]}})
		switch {
		case errors.Is(err, storage.ErrNotFound):
			res.notFound = true
		case err != nil:
			res.err = err
		case t == nil:
			res.err = fmt.Errorf("ReadUserTuple returned (nil, nil)")
		default:
			res.tuples = []*openfgav1.Tuple{t}
		}
	})
	return res
}

func toRelationReference(r sf.TypeRef) *openfgav1.RelationReference {
	ref := &openfgav1.RelationReference{Type: r.Type}
	switch {
	case r.Wildcard:
		ref.RelationOrWildcard = &openfgav1.RelationReference_Wildcard{Wildcard: &openfgav1.Wildcard{}}
	case r.Relation != "":
		ref.RelationOrWildcard = &openfgav1.RelationReference_Relation{Relation: r.Relation}
	}
	return ref
}

func doReadUsersetTuples(b *backend, store string, f sf.UsersetFilter, pref int, useHead bool) *result {
	res := &result{}
	guard(res, func() {
		ctx := context.Background()
		sfilter := storage.ReadUsersetTuplesFilter{Object: f.Object, Relation: f.Relation, Conditions: f.Conditions}
		for _, r := range f.AllowedTypes {
			sfilter.AllowedUserTypeRestrictions = append(sfilter.AllowedUserTypeRestrictions, toRelationReference(r))
		}
		it, err := b.ds.ReadUsersetTuples(ctx, store, sfilter, storage.ReadUsersetTuplesOptions{Consistency: storage.ConsistencyOptions{Preference: prefs[pref]}})
		if err != nil {
			res.err = err
			return
		}
		drain(ctx, it, useHead, res)
	})
	return res
}

func doReadStartingWithUser(b *backend, store string, f sf.StartingWithUserFilter, sorted bool, pref int, useHead bool) *result {
	res := &result{}
	guard(res, func() {
		ctx := context.Background()
		sfilter := storage.ReadStartingWithUserFilter{ObjectType: f.ObjectType, Relation: f.Relation, Conditions: f.Conditions}
		for _, e := range f.UserFilter {
			sfilter.UserFilter = append(sfilter.UserFilter, &openfgav1.ObjectRelation{Object: e.Object, Relation: e.Relation})
		}
		if f.HasObjectIDs {
			sfilter.ObjectIDs = storage.NewSortedSet(f.ObjectIDs...)
		}
		it, err := b.ds.ReadStartingWithUser(ctx, store, sfilter, storage.ReadStartingWithUserOptions{
			Consistency:                storage.ConsistencyOptions{Preference: prefs[pref]},
			WithResultsSortedAscending: sorted,
		})
		if err != nil {
			res.err = err
			return
		}
		drain(ctx, it, useHead, res)
	})
	return res
}

func applyBatch(b *backend, store string, bt *batch) (err error) {
	defer func() {
		if p := recover(); p != nil {
			err = fmt.Errorf("PANIC in Write: %v\n%s", p, debug.Stack())
		}
	}()
	var opts []storage.TupleWriteOption
	if bt.ignoreDup {
		opts = append(opts, storage.WithOnDuplicateInsert(storage.OnDuplicateInsertIgnore))
	}
	if bt.ignoreMis {
		opts = append(opts, storage.WithOnMissingDelete(storage.OnMissingDeleteIgnore))
	}
	b.wmu.Lock()
	defer b.wmu.Unlock()
	return b.ds.Write(context.Background(), store, bt.deletes, bt.writes, opts...)
}
