package c13

import (
	"fmt"

	"github.com/oklog/ulid/v2"
	openfgav1 "github.com/openfga/api/proto/openfga/v1"

	sf "github.com/openfga/openfga/verifharness/checks/c13/storagefilter"
	"github.com/openfga/openfga/verifharness/vk"
)

// runScripted is history -1: a fixed store and a fixed list of reads, one per documented filter
// form plus the minimal reproduction of every catalogued divergence. It goes through exactly the
// same oracles as the random histories; it only guarantees that each of these inputs is observed on
// every seed.
func runScripted(c *vk.Ctx, mem, sql *backend) {
	r := c.Rand("scripted")
	hc := &hctx{c: c, h: -1, mem: mem, sql: sql, r: r, m: &model{tuples: map[string]*mtuple{}},
		u: &universe{types: []string{"doc", "docs", "group", "groups", "user"}, ids: []string{"1", "2", "g1"}, rels: []string{"member", "viewer", "editor"},
			users: []string{"user:a", "user:*", "group:g1", "group:g1#member", "group:*", "groups:g1", "groups:g1#member"}, conds: []string{"c1", "c2"}}}
	hc.store = ulid.MustNew(ulid.Now(), r).String()
	ctx := allKindsStruct()
	type w struct{ o, rel, u, cond string }
	var bt batch
	bt.kind = "scripted"
	for _, t := range []w{
		{"doc:1", "viewer", "user:a", ""},
		{"doc:1", "viewer", "user:*", "c1"},
		{"doc:1", "viewer", "group:g1", ""},
		{"doc:1", "viewer", "group:g1#member", "c1"},
		{"doc:1", "viewer", "group:*", ""},
		{"doc:2", "viewer", "group:g1#member", ""},
		{"doc:2", "editor", "user:a", "c2"},
		{"group:g1", "member", "user:a", ""},
		{"doc:1", "viewer", "groups:g1", ""},
		{"doc:1", "viewer", "groups:g1#member", "c2"},
		{"docs:1", "viewer", "user:a", ""},
	} {
		tk := &openfgav1.TupleKey{Object: t.o, Relation: t.rel, User: t.u}
		mt := &mtuple{Tuple: sf.Tuple{Object: t.o, Relation: t.rel, User: t.u, Condition: t.cond}}
		if t.cond != "" {
			tk.Condition = &openfgav1.RelationshipCondition{Name: t.cond, Context: ctx}
			mt.written, mt.cond = tk.Condition, expectedCondition(tk.Condition)
		}
		bt.writes = append(bt.writes, tk)
		hc.m.tuples[mt.Key()] = mt
	}
	hc.log = append(hc.log, bt.String())
	if em, es := applyBatch(mem, hc.store, &bt), applyBatch(sql, hc.store, &bt); em != nil || es != nil {
		c.HarnessError("scripted history: write failed: memory=%v sqlite=%v", em, es)
		return
	}
	defer func() {
		// Side observation, never judged (write semantics are not C13): re-writing an existing tuple
		// whose condition has a nil context with OnDuplicateInsertIgnore.
		tk := &openfgav1.TupleKey{Object: "doc:9", Relation: "viewer", User: "user:a", Condition: &openfgav1.RelationshipCondition{Name: "c1"}}
		first := &batch{kind: "probe", writes: []*openfgav1.TupleKey{tk}}
		again := &batch{kind: "probe", writes: []*openfgav1.TupleKey{tk}, ignoreDup: true}
		obs := map[string]string{}
		for _, b := range []*backend{mem, sql} {
			if err := applyBatch(b, hc.store, first); err != nil {
				obs[b.name] = "first write failed: " + err.Error()
				continue
			}
			obs[b.name] = fmt.Sprint(applyBatch(b, hc.store, again))
		}
		c.Extra("side_observation_rewrite_nil_context_with_on_duplicate_ignore", obs)
	}()
	group := sf.TypeRef{Type: "group", Relation: "member"}
	reads := []sf.ReadFilter{
		{},
		{Conditions: []string{"c1"}}, // C13-Read-mem-conditions-ignored-on-empty-key
		{Object: "doc:1"},
		{Object: "doc:"},
		{Object: "doc:", User: "user:a"},
		{Object: "doc:1", Relation: "viewer"},
		{Object: "doc:1", User: "group:g1"}, // C13-Read-sql-user-relation-ignored
		{Object: "doc:1", User: "group:g1#member"},
		{Object: "doc:1", User: "group:*"},
		{Object: "doc:1", User: "group:"},
		{Object: "doc:1", Relation: "viewer", User: "user:", Conditions: []string{""}},
		{Object: "doc:1", Relation: "viewer", Conditions: []string{"c1", ""}},
		{User: "user:a"},
	}
	for i, f := range reads {
		in := &readInput{op: "Read", read: f}
		hc.judge(in, sf.Read(f), fmt.Sprintf("scripted-%d", i), "pref=0 head=false", false, doRead(mem, hc.store, f, 0, false), doRead(sql, hc.store, f, 0, false))
		in = &readInput{op: "ReadPage", read: f}
		hc.judge(in, sf.Read(f), fmt.Sprintf("scripted-%d", i), "pageSize=2 pref=0", false, doReadPage(mem, hc.store, f, 2, 0, 10), doReadPage(sql, hc.store, f, 2, 0, 10))
	}
	for i, f := range []sf.ReadFilter{
		{Object: "doc:1", Relation: "viewer", User: "group:g1"},
		{Object: "doc:1", Relation: "viewer", User: "group:g1#member"},
		{Object: "doc:1", Relation: "viewer", User: "group:g1#member", Conditions: []string{""}},
		{Object: "doc:1", Relation: "viewer", User: "group:g1#member", Conditions: []string{"c1"}},
		{Object: "doc:2", Relation: "viewer", User: "group:g1"},
		{Object: "doc:1", Relation: "viewer", User: "user:*", Conditions: []string{"c2", "c1"}},
	} {
		in := &readInput{op: "ReadUserTuple", read: f}
		hc.judge(in, sf.ReadUserTuple(f), fmt.Sprintf("scripted-%d", i), "pref=0", false, doReadUserTuple(mem, hc.store, f, 0), doReadUserTuple(sql, hc.store, f, 0))
	}
	for i, f := range []sf.UsersetFilter{
		{Object: "doc:1", Relation: "viewer"},
		{Object: "doc:1", Relation: "viewer", AllowedTypes: []sf.TypeRef{group}},
		{Object: "doc:1", Relation: "viewer", AllowedTypes: []sf.TypeRef{{Type: "user", Wildcard: true}}},
		{Object: "doc:1", Relation: "viewer", AllowedTypes: []sf.TypeRef{group, {Type: "group", Wildcard: true}}},
		{Object: "doc:1", Relation: "viewer", AllowedTypes: []sf.TypeRef{group, group}},                    // C13-RUT-mem-dup-restrictions-dup-rows
		{Object: "doc:1", Relation: "viewer", Conditions: []string{""}},                                    // C13-RUT-mem-conditions-ignored
		{Object: "doc:1", Relation: "viewer", AllowedTypes: []sf.TypeRef{group}, Conditions: []string{""}}, // C13-RUT-mem-conditions-ignored
		{Object: "doc:1", Relation: "viewer", AllowedTypes: []sf.TypeRef{{Type: "group"}}},                 // C13-RUT-direct-typeref
		{Object: "doc:1", Relation: "viewer", AllowedTypes: []sf.TypeRef{{Type: "nosuch", Relation: "member"}}},
	} {
		in := &readInput{op: "ReadUsersetTuples", userset: f}
		hc.judge(in, sf.ReadUsersetTuples(f), fmt.Sprintf("scripted-%d", i), "pref=0 head=false", false, doReadUsersetTuples(mem, hc.store, f, 0, false), doReadUsersetTuples(sql, hc.store, f, 0, false))
	}
	for i, f := range []sf.StartingWithUserFilter{
		{ObjectType: "doc", Relation: "viewer", UserFilter: []sf.ObjectRelation{{Object: "user:a"}}},
		{ObjectType: "doc", Relation: "viewer", UserFilter: []sf.ObjectRelation{{Object: "user:a"}, {Object: "user:*"}}},
		{ObjectType: "doc", Relation: "viewer", UserFilter: []sf.ObjectRelation{{Object: "group:g1", Relation: "member"}}},
		{ObjectType: "doc", Relation: "viewer", UserFilter: []sf.ObjectRelation{{Object: "group:g1"}}},                   // C13-RSWU-sql-user-relation-ignored
		{ObjectType: "doc", Relation: "viewer", UserFilter: []sf.ObjectRelation{{Object: "user:a"}, {Object: "user:a"}}}, // C13-RSWU-mem-dup-userfilter-dup-rows
		{ObjectType: "doc", Relation: "viewer", UserFilter: []sf.ObjectRelation{{Object: "user:a"}}, HasObjectIDs: true}, // C13-RSWU-empty-objectids
		{ObjectType: "doc", Relation: "viewer", UserFilter: []sf.ObjectRelation{{Object: "group:g1", Relation: "member"}}, HasObjectIDs: true, ObjectIDs: []string{"2", "zz"}},
		{ObjectType: "doc", Relation: "viewer", UserFilter: []sf.ObjectRelation{{Object: "group:g1", Relation: "member"}}, Conditions: []string{""}},
		{ObjectType: "doc", Relation: "viewer", UserFilter: []sf.ObjectRelation{{Object: "group:g1", Relation: "member"}, {Object: "user:*"}}, Conditions: []string{"c1"}},
	} {
		for _, sorted := range []bool{false, true} {
			in := &readInput{op: "ReadStartingWithUser", swu: f}
			hc.judge(in, sf.ReadStartingWithUser(f), fmt.Sprintf("scripted-%d,sorted=%v", i, sorted), fmt.Sprintf("sorted=%v pref=0 head=false", sorted), sorted,
				doReadStartingWithUser(mem, hc.store, f, sorted, 0, false), doReadStartingWithUser(sql, hc.store, f, sorted, 0, false))
		}
	}
}
