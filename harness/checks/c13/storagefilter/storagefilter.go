// Package storagefilter is a reference implementation of the *documented* meaning of the read
// filters of storage.RelationshipTupleReader. It is written from the doc comments in
// pkg/storage/storage.go (quoted below), from the wording of property C13 ("object, object type,
// relation, user, user type, userset type restrictions, wildcards, object-ID sets and condition
// names") and from nothing else: it imports no openfga package and shares no code with either
// backend.
//
// Because the documentation is silent or ambiguous about some inputs, a filter is compiled to a
// BAND rather than a single predicate:
//
//	Lower(t)  - t MUST be returned (true under every reasonable reading of the documentation)
//	Upper(t)  - t MAY be returned  (true under at least one reasonable reading)
//
// For documented inputs Lower == Upper. For inputs that break a documented precondition
// ("Mandatory", "Required", "at least one of Object or User must be specified") the band is
// [nothing, everything] and Spec.Unspecified says why: nothing is judged.
// Multiplicity: the documentation speaks of "the set of tuples"; a store holds a tuple at most once,
// so a tuple is expected exactly once - unless the caller repeated an entry in a filter list, where
// the documentation does not say whether the row may be repeated: then 1..MaxCopies(t) is allowed.
package storagefilter

import "strings"

// Tuple is one stored relationship tuple. Condition is the condition name, "" when the tuple has
// no condition ("Conditions can hold the empty value").
type Tuple struct {
	Object    string // "type:id"
	Relation  string
	User      string // "type:id" | "type:id#relation" | "type:*"
	Condition string
}

// Key is the identity of a tuple inside a store.
func (t Tuple) Key() string { return t.Object + "#" + t.Relation + "@" + t.User }

// ---- string forms ------------------------------------------------------------------------------

// splitObject splits "type:id" at the first colon.
func splitObject(s string) (typ, id string, ok bool) {
	i := strings.IndexByte(s, ':')
	if i < 0 {
		return "", s, false
	}
	return s[:i], s[i+1:], true
}

// splitUser splits "type:id#relation" into its parts (relation may be empty).
func splitUser(u string) (typ, id, rel string) {
	obj := u
	if i := strings.LastIndexByte(u, '#'); i >= 0 {
		obj, rel = u[:i], u[i+1:]
	}
	typ, id, _ = splitObject(obj)
	return
}

// ObjectType returns the type of "type:id".
func ObjectType(o string) string { t, _, _ := splitObject(o); return t }

// ObjectID returns the id of "type:id".
func ObjectID(o string) string { _, id, _ := splitObject(o); return id }

// IsTypedWildcard: "type:*".
func IsTypedWildcard(u string) bool {
	t, id, rel := splitUser(u)
	return t != "" && id == "*" && rel == "" && !strings.Contains(u, "#")
}

// IsUsersetUser reports whether a tuple's user makes it a "userset tuple" in the sense of the
// ReadUsersetTuples documentation: the example there lists both `user:*` and `group:eng#member`
// as userset tuples ("If allowedTypesForUser is empty, both tuples would be returned").
func IsUsersetUser(u string) bool {
	_, _, rel := splitUser(u)
	return rel != "" || IsTypedWildcard(u)
}

// ---- band --------------------------------------------------------------------------------------

// Component is one conjunct of a filter. A tuple is in the lower band when every component's Lower
// holds, in the upper band when every component's Upper holds.
type Component struct {
	Name  string
	Lower func(Tuple) bool
	Upper func(Tuple) bool
}

func exact(name string, p func(Tuple) bool) Component { return Component{name, p, p} }

// Spec is a compiled filter.
type Spec struct {
	Op          string
	Components  []Component
	Unspecified []string // non-empty: the input breaks a documented precondition; nothing is judged
	// EmptyListOnly: the only broken precondition is an empty filter list. What such a read selects is
	// not documented, but the backends must still agree on it (the property quantifies over "empty and
	// duplicate filter lists"): the cross-backend comparison is judged, the documentation band is not.
	EmptyListOnly bool
	Ambiguous   []string // reasons why Lower != Upper may hold (documentation silent on a detail)
	// copies returns how many entries of a caller-supplied list select t (>=1 when t is selected).
	copies func(Tuple) int
	// DupEntries: the caller repeated an entry in a filter list.
	DupEntries bool
}

// Lower reports whether t must be returned.
func (s *Spec) Lower(t Tuple) bool {
	if len(s.Unspecified) > 0 {
		return false
	}
	for _, c := range s.Components {
		if !c.Lower(t) {
			return false
		}
	}
	return true
}

// Upper reports whether t may be returned.
func (s *Spec) Upper(t Tuple) bool {
	if len(s.Unspecified) > 0 {
		return true
	}
	for _, c := range s.Components {
		if !c.Upper(t) {
			return false
		}
	}
	return true
}

// MaxCopies is the largest number of times t may appear in the result.
func (s *Spec) MaxCopies(t Tuple) int {
	if s.copies == nil {
		return 1
	}
	if n := s.copies(t); n > 1 {
		return n
	}
	return 1
}

// NearMiss reports whether t fails exactly one component (used only to label cases non-trivial).
func (s *Spec) NearMiss(t Tuple) bool {
	failed := 0
	for _, c := range s.Components {
		if !c.Upper(t) {
			failed++
		}
	}
	return failed == 1
}

// ---- condition names ---------------------------------------------------------------------------

// conditions compiles the `Conditions []string` field shared by every filter struct:
//
//	"Optional. It can be nil. If present, it will be used to filter the results. Conditions can
//	 hold the empty value"
//
// nil: no filtering. Non-empty list: the tuple's condition name must be in the list, "" standing
// for "no condition". A non-nil list of length 0 is ambiguous ("present" but nothing to filter
// by): lower band = nothing passes, upper band = everything passes.
func conditions(s *Spec, list []string) {
	if list == nil {
		return
	}
	if len(list) == 0 {
		s.Ambiguous = append(s.Ambiguous, "Conditions is non-nil but empty")
		s.Components = append(s.Components, Component{"conditions",
			func(Tuple) bool { return false }, func(Tuple) bool { return true }})
		return
	}
	set := map[string]bool{}
	for _, c := range list {
		set[c] = true
	}
	s.Components = append(s.Components, exact("conditions", func(t Tuple) bool { return set[t.Condition] }))
}

// ---- Read / ReadPage ---------------------------------------------------------------------------

// ReadFilter mirrors storage.ReadFilter.
type ReadFilter struct {
	Object     string
	Relation   string
	User       string
	Conditions []string
}

// Read compiles a ReadFilter for Read / ReadPage.
//
//	"Read the set of tuples associated with `store` and `tupleKey`, which may be nil or partially
//	 filled. If nil, Read will return an iterator over all the tuples in the given `store`. If the
//	 `tupleKey` is partially filled, it will return an iterator over those tuples which match the
//	 `tupleKey`. Note that at least one of `Object` or `User` (or both), must be specified in this
//	 case."
//
// Field forms (C13: "object, object type, relation, user, user type ... wildcards"):
//
//	Object "T:id" - that object; "T:" - every object of type T
//	Relation      - that relation
//	User "T:id", "T:id#rel", "T:*" - a tuple whose user IS that string (a typed wildcard is a
//	              literal user, and "T:id" is a different user from "T:id#rel");
//	              "T:" - every user of type T (objects, usersets and the wildcard of T)
func Read(f ReadFilter) *Spec {
	s := &Spec{Op: "Read"}
	if f.Object == "" && f.User == "" && f.Relation != "" {
		s.Unspecified = append(s.Unspecified, "only Relation set: 'at least one of Object or User must be specified'")
	}
	if f.Object != "" {
		typ, id, ok := splitObject(f.Object)
		switch {
		case !ok || typ == "":
			s.Unspecified = append(s.Unspecified, "Object is not of the form type:id or type:")
		case id == "":
			s.Components = append(s.Components, exact("objectType", func(t Tuple) bool { return ObjectType(t.Object) == typ }))
		default:
			o := f.Object
			s.Components = append(s.Components, exact("object", func(t Tuple) bool { return t.Object == o }))
		}
	}
	if f.Relation != "" {
		r := f.Relation
		s.Components = append(s.Components, exact("relation", func(t Tuple) bool { return t.Relation == r }))
	}
	if f.User != "" {
		typ, id, rel := splitUser(f.User)
		switch {
		case typ == "" || (id == "" && rel != ""):
			s.Unspecified = append(s.Unspecified, "User is not of the form type:, type:id, type:id#rel or type:*")
		case id == "":
			s.Components = append(s.Components, exact("userType", func(t Tuple) bool { ut, _, _ := splitUser(t.User); return ut == typ }))
		default:
			u := f.User
			s.Components = append(s.Components, exact("user", func(t Tuple) bool { return t.User == u }))
		}
	}
	conditions(s, f.Conditions)
	return s
}

// ReadUserTuple compiles a filter for ReadUserTuple.
//
//	"ReadUserTuple tries to return one tuple that matches the provided key exactly. If none is
//	 found, it must return [ErrNotFound]."
//
// All three of Object ("type:id"), Relation and User must be given for "exactly" to have a meaning;
// otherwise nothing is judged.
func ReadUserTuple(f ReadFilter) *Spec {
	s := &Spec{Op: "ReadUserTuple"}
	_, oid, ok := splitObject(f.Object)
	ut, uid, _ := splitUser(f.User)
	if !ok || oid == "" || f.Relation == "" || ut == "" || uid == "" {
		s.Unspecified = append(s.Unspecified, "key is not fully specified: 'matches the provided key exactly'")
	}
	o, r, u := f.Object, f.Relation, f.User
	s.Components = append(s.Components,
		exact("object", func(t Tuple) bool { return t.Object == o }),
		exact("relation", func(t Tuple) bool { return t.Relation == r }),
		exact("user", func(t Tuple) bool { return t.User == u }))
	conditions(s, f.Conditions)
	return s
}

// ---- ReadUsersetTuples -------------------------------------------------------------------------

// TypeRef mirrors openfgav1.RelationReference: {Type, Relation} ("group#member"),
// {Type, Wildcard} ("user:*") or {Type} alone (a direct type reference).
type TypeRef struct {
	Type     string
	Relation string
	Wildcard bool
}

// UsersetFilter mirrors storage.ReadUsersetTuplesFilter.
type UsersetFilter struct {
	Object       string    // "Required."
	Relation     string    // "Required."
	AllowedTypes []TypeRef // "Optional."
	Conditions   []string
}

// refMatches: does a restriction select a userset user?
func (r TypeRef) lower(u string) bool {
	ut, uid, urel := splitUser(u)
	switch {
	case r.Wildcard:
		return ut == r.Type && IsTypedWildcard(u)
	case r.Relation != "":
		return ut == r.Type && urel == r.Relation && uid != "*"
	}
	return false // a direct type reference selects no userset under the narrow reading
}

func (r TypeRef) upper(u string) bool {
	if r.Wildcard || r.Relation != "" {
		return r.lower(u)
	}
	ut, _, _ := splitUser(u)
	return ut == r.Type // broad reading: anything of that type
}

// ReadUsersetTuples compiles a UsersetFilter.
//
//	"ReadUsersetTuples returns all userset tuples for a specified object and relation. For
//	 example, given the following relationship tuples:
//	   document:doc1, viewer, user:*
//	   document:doc1, viewer, group:eng#member
//	 and the filter object=document:1, relation=viewer, allowedTypesForUser=[group#member]
//	 this method would return the tuple (document:doc1, viewer, group:eng#member)
//	 If allowedTypesForUser is empty, both tuples would be returned."
//
// A restriction {Type:T, Relation:r} selects users "T:<id>#r"; {Type:T, Wildcard} selects "T:*".
// The documentation does not say what a restriction with neither (a direct type reference) selects.
func ReadUsersetTuples(f UsersetFilter) *Spec {
	s := &Spec{Op: "ReadUsersetTuples"}
	_, oid, ok := splitObject(f.Object)
	if !ok || oid == "" || f.Relation == "" {
		s.Unspecified = append(s.Unspecified, "Object (type:id) and Relation are 'Required'")
	}
	o, r := f.Object, f.Relation
	s.Components = append(s.Components,
		exact("object", func(t Tuple) bool { return t.Object == o }),
		exact("relation", func(t Tuple) bool { return t.Relation == r }),
		exact("userset", func(t Tuple) bool { return IsUsersetUser(t.User) }))
	if len(f.AllowedTypes) > 0 {
		refs := append([]TypeRef(nil), f.AllowedTypes...)
		seen := map[TypeRef]bool{}
		for _, ref := range refs {
			if seen[ref] {
				s.DupEntries = true
			}
			seen[ref] = true
			if !ref.Wildcard && ref.Relation == "" {
				s.Ambiguous = append(s.Ambiguous, "AllowedUserTypeRestrictions holds a reference with neither relation nor wildcard")
			}
		}
		s.Components = append(s.Components, Component{"allowedTypes",
			func(t Tuple) bool {
				for _, ref := range refs {
					if ref.lower(t.User) {
						return true
					}
				}
				return false
			},
			func(t Tuple) bool {
				for _, ref := range refs {
					if ref.upper(t.User) {
						return true
					}
				}
				return false
			}})
		s.copies = func(t Tuple) int {
			n := 0
			for _, ref := range refs {
				if ref.upper(t.User) {
					n++
				}
			}
			return n
		}
	}
	conditions(s, f.Conditions)
	return s
}

// ---- ReadStartingWithUser ----------------------------------------------------------------------

// ObjectRelation mirrors openfgav1.ObjectRelation.
type ObjectRelation struct{ Object, Relation string }

func (o ObjectRelation) user() string {
	if o.Relation != "" {
		return o.Object + "#" + o.Relation
	}
	return o.Object
}

// StartingWithUserFilter mirrors storage.ReadStartingWithUserFilter. ObjectIDs == nil means absent;
// HasObjectIDs distinguishes an empty set from an absent one.
type StartingWithUserFilter struct {
	ObjectType   string           // "Mandatory."
	Relation     string           // "Mandatory."
	UserFilter   []ObjectRelation // "Mandatory."
	HasObjectIDs bool
	ObjectIDs    []string
	Conditions   []string
}

// ReadStartingWithUser compiles a StartingWithUserFilter.
//
//	"ReadStartingWithUser performs a reverse read of relationship tuples starting at one or more
//	 user(s) or userset(s) and filtered by object type and relation and possibly a list of object
//	 IDs. For example, given
//	   document:doc1, viewer, user:jon        document:doc2, viewer, group:eng#member
//	   document:doc3, editor, user:jon        document:doc4, viewer, group:eng#member
//	 ReadStartingWithUser for ['user:jon', 'group:eng#member'] filtered by 'document#viewer' and
//	 'document:doc1, document:doc2' would return ['document:doc1#viewer@user:jon',
//	 'document:doc2#viewer@group:eng#member']."
//
//	ObjectIDs: "Optional. It can be nil. If present, it will be sorted in ascending order. The
//	 datastore should return the intersection between this filter and what is in the database."
//
// A user filter entry {Object:"T:id"} is the user "T:id", {Object:"T:id", Relation:"r"} the userset
// "T:id#r", {Object:"T:*"} the typed wildcard; a tuple is selected when its user IS one of them.
// An ObjectIDs set that is present but empty: the literal reading (intersection with nothing) gives
// the lower band, "nothing to restrict by" gives the upper band.
func ReadStartingWithUser(f StartingWithUserFilter) *Spec {
	s := &Spec{Op: "ReadStartingWithUser"}
	if f.ObjectType == "" || f.Relation == "" || len(f.UserFilter) == 0 {
		s.Unspecified = append(s.Unspecified, "ObjectType, Relation and UserFilter are 'Mandatory'")
		s.EmptyListOnly = f.ObjectType != "" && f.Relation != ""
	}
	for _, uf := range f.UserFilter {
		typ, id, ok := splitObject(uf.Object)
		if !ok || typ == "" || id == "" {
			s.Unspecified = append(s.Unspecified, "a UserFilter entry is not of the form type:id")
		}
		if strings.Contains(uf.Object, "#") {
			s.Unspecified = append(s.Unspecified, "the Object of a UserFilter entry contains '#': an ObjectRelation carries the relation in its Relation field")
		}
	}
	ot, r := f.ObjectType, f.Relation
	users := map[string]int{}
	for _, uf := range f.UserFilter {
		users[uf.user()]++
		if users[uf.user()] > 1 {
			s.DupEntries = true
		}
	}
	s.Components = append(s.Components,
		exact("objectType", func(t Tuple) bool { return ObjectType(t.Object) == ot }),
		exact("relation", func(t Tuple) bool { return t.Relation == r }),
		exact("user", func(t Tuple) bool { return users[t.User] > 0 }))
	s.copies = func(t Tuple) int { return users[t.User] }
	if f.HasObjectIDs {
		ids := map[string]bool{}
		for _, id := range f.ObjectIDs {
			ids[id] = true
		}
		if len(ids) == 0 {
			s.Ambiguous = append(s.Ambiguous, "ObjectIDs is present but empty")
			s.Components = append(s.Components, Component{"objectIDs",
				func(Tuple) bool { return false }, func(Tuple) bool { return true }})
		} else {
			s.Components = append(s.Components, exact("objectIDs", func(t Tuple) bool { return ids[ObjectID(t.Object)] }))
		}
	}
	conditions(s, f.Conditions)
	return s
}

// SortedAscending is the ordering promise of ReadStartingWithUser:
//
//	"If ReadStartingWithUserOptions.WithResultsSortedAscending bool is enabled, the tuples returned
//	 must be sorted by one or more fields in them."
//
// All returned tuples share object type and relation, so the only field all callers can rely on is
// the object ID; the shared storage test-suite (pkg/storage/test/tuples.go,
// "assert_bytewise_ordering_of_tuples") pins it to byte-wise ascending object IDs.
func SortedAscending(objects []string) (bool, int) {
	for i := 1; i < len(objects); i++ {
		if ObjectID(objects[i-1]) > ObjectID(objects[i]) {
			return false, i
		}
	}
	return true, -1
}
