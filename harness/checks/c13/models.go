package c13

import (
	"strings"

	sf "github.com/openfga/openfga/verifharness/checks/c13/storagefilter"
)

// This file holds DEVIATION MODELS. They never decide anything: the verdict comes from the
// documentation band (package storagefilter) and from the memory-vs-sqlite comparison. Once a
// result has been found to leave the band, or the two backends have been found to differ, the
// models are used to *name* the defect: a finding is attributed only when the backend's observed
// result equals the result predicted with the deviation switched on AND switching that single
// deviation off changes the prediction for this very input (the deviation fired). Anything else
// stays an unattributed violation.

type finding struct {
	id        string
	side      string // which backend's behaviour the toggle describes
	doc       string // "contradicts" (the behaviour leaves the documented band) or "silent"
	reachable bool   // can production code of openfga issue an input on which it fires?
	what      string
}

var findings = map[string]*finding{
	"C13-RUT-mem-conditions-ignored": {side: "memory", doc: "contradicts", reachable: true,
		what: "memory.ReadUsersetTuples never applies filter.Conditions (the check sits after the append/continue), so tuples whose condition is not in the list are returned; sqlite filters them"},
	"C13-RUT-mem-dup-restrictions-dup-rows": {side: "memory", doc: "silent", reachable: true,
		what: "memory.ReadUsersetTuples returns a tuple once per matching entry of AllowedUserTypeRestrictions (inner loop has no break); sqlite returns it once"},
	"C13-RUT-direct-typeref": {side: "both", doc: "silent", reachable: false,
		what: "a restriction with neither relation nor wildcard selects the typed wildcard tuple in memory (GetRelation()==\"\" equals the wildcard's empty relation) and nothing in sqlite"},
	"C13-RSWU-mem-dup-userfilter-dup-rows": {side: "memory", doc: "silent", reachable: false,
		what: "memory.ReadStartingWithUser returns a tuple once per matching UserFilter entry (no break); sqlite returns it once"},
	"C13-RSWU-empty-objectids": {side: "both", doc: "silent", reachable: false,
		what: "a present but empty ObjectIDs set selects nothing in memory (Exists on the empty set) and is ignored by sqlite (Size()>0 guard)"},
	"C13-Read-mem-conditions-ignored-on-empty-key": {side: "memory", doc: "contradicts", reachable: false,
		what: "memory.read returns every tuple without looking at filter.Conditions when Object, Relation and User are all empty; sqlite applies the condition filter"},
	"C13-Read-sql-user-relation-ignored": {side: "sqlite", doc: "contradicts", reachable: true,
		what: "sqlite read() omits the user_relation predicate when filter.User has no '#relation', so User \"T:id\" also returns tuples whose user is the userset \"T:id#rel\"; memory matches the user string exactly"},
	"C13-RSWU-sql-user-relation-ignored": {side: "sqlite", doc: "contradicts", reachable: true,
		what: "sqlite ReadStartingWithUser omits the user_relation predicate for UserFilter entries without Relation, so {Object:\"T:id\"} also returns tuples whose user is \"T:id#rel\"; memory matches exactly"},
}

func init() {
	for id, f := range findings {
		f.id = id
	}
}

// toggles: all true = the backend as I understand its code.
type toggles map[string]bool

// repaired holds the ids whose known_findings.json entry says "fixed": their deviation is switched
// off in the backend model, so that the behaviour coming back would be an unexplained divergence.
var repaired = map[string]bool{}

func allOn() toggles {
	t := toggles{}
	for id := range findings {
		t[id] = !repaired[id]
	}
	return t
}

func (t toggles) without(id string) toggles {
	o := toggles{}
	for k, v := range t {
		o[k] = v
	}
	o[id] = false
	return o
}

// readInput is one read call in harness terms.
type readInput struct {
	op      string // Read, ReadPage, ReadUserTuple, ReadUsersetTuples, ReadStartingWithUser
	read    sf.ReadFilter
	userset sf.UsersetFilter
	swu     sf.StartingWithUserFilter
}

func condPass(list []string, c string) bool {
	if len(list) == 0 {
		return true
	}
	for _, x := range list {
		if x == c {
			return true
		}
	}
	return false
}

func userParts(u string) (typ, id, rel string) {
	obj := u
	if i := strings.LastIndexByte(u, '#'); i >= 0 {
		obj, rel = u[:i], u[i+1:]
	}
	if i := strings.IndexByte(obj, ':'); i >= 0 {
		return obj[:i], obj[i+1:], rel
	}
	return "", obj, rel
}

// predict returns key -> copies as the named backend is expected to answer a *specified* input.
func predict(backendName string, in *readInput, tuples []*mtuple, tg toggles) map[string]int {
	out := map[string]int{}
	mem := backendName == "memory"
	for _, t := range tuples {
		n := 0
		switch in.op {
		case "Read", "ReadPage":
			f := in.read
			if mem && f.Object == "" && f.Relation == "" && f.User == "" && tg["C13-Read-mem-conditions-ignored-on-empty-key"] {
				n = 1
				break
			}
			ok := true
			if f.Object != "" {
				if strings.HasSuffix(f.Object, ":") {
					ok = ok && sf.ObjectType(t.Object)+":" == f.Object
				} else {
					ok = ok && t.Object == f.Object
				}
			}
			if f.Relation != "" {
				ok = ok && t.Relation == f.Relation
			}
			if f.User != "" {
				ft, fid, frel := userParts(f.User)
				tt, tid, _ := userParts(t.User)
				switch {
				case fid == "" && frel == "":
					ok = ok && tt == ft
				case !mem && frel == "" && tg["C13-Read-sql-user-relation-ignored"]:
					ok = ok && tt == ft && tid == fid
				default:
					ok = ok && t.User == f.User
				}
			}
			if ok && condPass(f.Conditions, t.Condition) {
				n = 1
			}
		case "ReadUserTuple":
			f := in.read
			if t.Object == f.Object && t.Relation == f.Relation && t.User == f.User && condPass(f.Conditions, t.Condition) {
				n = 1
			}
		case "ReadUsersetTuples":
			f := in.userset
			if t.Object != f.Object || t.Relation != f.Relation || !sf.IsUsersetUser(t.User) {
				break
			}
			tt, tid, trel := userParts(t.User)
			matches := 0
			for _, ref := range f.AllowedTypes {
				switch {
				case ref.Wildcard:
					if tt == ref.Type && tid == "*" && trel == "" {
						matches++
					}
				case ref.Relation != "":
					if tt == ref.Type && trel == ref.Relation {
						matches++
					}
				default:
					if mem && tg["C13-RUT-direct-typeref"] && tt == ref.Type && trel == "" {
						matches++
					}
				}
			}
			switch {
			case len(f.AllowedTypes) == 0:
				n = 1
			case matches > 0 && mem && tg["C13-RUT-mem-dup-restrictions-dup-rows"]:
				n = matches
			case matches > 0:
				n = 1
			}
			if n > 0 && !(mem && tg["C13-RUT-mem-conditions-ignored"]) && !condPass(f.Conditions, t.Condition) {
				n = 0
			}
		case "ReadStartingWithUser":
			f := in.swu
			if sf.ObjectType(t.Object) != f.ObjectType || t.Relation != f.Relation {
				break
			}
			tt, tid, _ := userParts(t.User)
			matches := 0
			for _, e := range f.UserFilter {
				et, eid, _ := userParts(e.Object)
				switch {
				case e.Relation != "":
					if t.User == e.Object+"#"+e.Relation {
						matches++
					}
				case !mem && tg["C13-RSWU-sql-user-relation-ignored"]:
					if tt == et && tid == eid {
						matches++
					}
				default:
					if t.User == e.Object {
						matches++
					}
				}
			}
			switch {
			case matches > 0 && mem && tg["C13-RSWU-mem-dup-userfilter-dup-rows"]:
				n = matches
			case matches > 0:
				n = 1
			}
			if n > 0 && f.HasObjectIDs {
				in := false
				for _, id := range f.ObjectIDs {
					if id == sf.ObjectID(t.Object) {
						in = true
					}
				}
				switch {
				case len(f.ObjectIDs) == 0 && mem && tg["C13-RSWU-empty-objectids"]:
					n = 0
				case len(f.ObjectIDs) == 0:
				case !in:
					n = 0
				}
			}
			if n > 0 && !condPass(f.Conditions, t.Condition) {
				n = 0
			}
		}
		if n > 0 {
			out[t.Key()] = n
		}
	}
	return out
}

func sameCounts(a, b map[string]int) bool {
	if len(a) != len(b) {
		return false
	}
	for k, v := range a {
		if b[k] != v {
			return false
		}
	}
	return true
}

// attribute returns the findings that explain a backend's observed answer: the all-on model must
// reproduce it exactly; a finding fired when switching it off changes the prediction. ok=false:
// the models do not reproduce the observation.
func attribute(backendName string, in *readInput, tuples []*mtuple, observed map[string]int) (fired []string, ok bool) {
	on := allOn()
	if !sameCounts(predict(backendName, in, tuples, on), observed) {
		return nil, false
	}
	for id, f := range findings {
		if f.side != backendName && f.side != "both" {
			continue
		}
		if !sameCounts(predict(backendName, in, tuples, on.without(id)), observed) {
			fired = append(fired, id)
		}
	}
	return fired, true
}
