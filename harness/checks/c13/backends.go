package c13

import (
	"fmt"
	"os"
	"path/filepath"
	"sync"

	"github.com/pressly/goose/v3"

	"github.com/openfga/openfga/assets"
	"github.com/openfga/openfga/pkg/storage"
	"github.com/openfga/openfga/pkg/storage/memory"
	"github.com/openfga/openfga/pkg/storage/sqlcommon"
	"github.com/openfga/openfga/pkg/storage/sqlite"
)

// backend is one datastore under test.
type backend struct {
	name string
	ds   storage.OpenFGADatastore
	wmu  sync.Mutex // serialises writes (sqlite allows one writer; avoids SQLITE_BUSY noise)
}

var gooseMu sync.Mutex

// openBackends opens the in-memory datastore and a sqlite datastore on a real file under
// $VERIF_SCRATCH, migrated offline with the embedded goose migrations.
func openBackends(tag string) (mem, sql *backend, closeAll func(), err error) {
	scratch := os.Getenv("VERIF_SCRATCH")
	if scratch == "" {
		return nil, nil, nil, fmt.Errorf("VERIF_SCRATCH is not set")
	}
	path := filepath.Join(scratch, "c13-"+tag+".db")
	uri := "file:" + path + "?_pragma=journal_mode(WAL)&_pragma=busy_timeout(5000)&_pragma=synchronous(NORMAL)"

	gooseMu.Lock()
	goose.SetLogger(goose.NopLogger())
	goose.SetBaseFS(assets.EmbedMigrations)
	db, err := goose.OpenDBWithDriver("sqlite", uri)
	if err == nil {
		err = goose.Up(db, assets.SqliteMigrationDir)
		_ = db.Close()
	}
	gooseMu.Unlock()
	if err != nil {
		return nil, nil, nil, fmt.Errorf("sqlite migration: %w", err)
	}
	sds, err := sqlite.New(uri, sqlcommon.NewConfig(sqlcommon.WithMaxTuplesPerWrite(200)))
	if err != nil {
		return nil, nil, nil, fmt.Errorf("sqlite open: %w", err)
	}
	mds := memory.New(memory.WithMaxTuplesPerWrite(200))
	mem = &backend{name: "memory", ds: mds}
	sql = &backend{name: "sqlite", ds: sds}
	return mem, sql, func() { mds.Close(); sds.Close() }, nil
}
