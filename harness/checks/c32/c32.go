// Package c32: AuthZEN endpoints agree with the native API (differential monitor on one server).
package c32

import (
	"context"
	"errors"
	"fmt"
	"google.golang.org/grpc/metadata"
	"math/rand"
	"sort"
	"strings"

	authzenv1 "github.com/openfga/api/proto/authzen/v1"
	openfgav1 "github.com/openfga/api/proto/openfga/v1"
	"google.golang.org/protobuf/types/known/structpb"

	"github.com/openfga/openfga/verifharness/checks/sem"
	"github.com/openfga/openfga/verifharness/drive"
	"github.com/openfga/openfga/verifharness/gen"
	"github.com/openfga/openfga/verifharness/ref"
	"github.com/openfga/openfga/verifharness/vk"
)

func init() { vk.Register("C32", "exploration", run) }

func run(c *vk.Ctx) {
	c.SetRule("for object and typed-wildcard subjects of each seeded case's request space: Evaluation vs native Check; Evaluations (execute_all, deny_on_first_deny, permit_on_first_permit, item fields falling back to top-level fields) vs native Checks item by item including where short-circuiting must stop; SubjectSearch vs ListUsers; ResourceSearch vs StreamedListObjects; subject/resource/action properties are merged into the native request context with their documented prefixes; " +
		"distinct_nontrivial = distinct (endpoint, rewrite skeleton, reference value or size class, semantic, feature set) whose native answer is not a plain denial")
	c.Assume("differential against the native API of the same server; the reference semantics only supplies signatures and classifies differences")
	if !sem.Calibrate(c) {
		return
	}
	srv, err := drive.New(drive.Cfg{AuthZen: true, LOEngine: "pipeline"})
	if err != nil {
		c.HarnessError("server: %v", err)
		return
	}
	defer srv.Close()
	sem.RunCases(c, srv, "mem", c.Pick(80, 800), gen.Options{WideEvery: 4, AlgebraEvery: 5, HierarchyEvery: 6}, 0, 12, func(i int, r *rand.Rand, p *sem.Prepared, _ []*openfgav1.TupleKey) {
		oneCase(c, i, r, p, srv)
	})
}

func subjectOf(u string) *authzenv1.Subject {
	t, id := ref.SplitObject(u)
	return &authzenv1.Subject{Type: t, Id: id}
}

func resourceOf(o string) *authzenv1.Resource {
	t, id := ref.SplitObject(o)
	return &authzenv1.Resource{Type: t, Id: id}
}

func mergeCtx(ctx *structpb.Struct, prefix string, props map[string]any) *structpb.Struct {
	if ctx == nil && len(props) == 0 {
		return nil
	}
	m := map[string]any{}
	for k, v := range props {
		m[prefix+k] = v
	}
	if ctx != nil {
		for k, v := range ctx.AsMap() {
			m[k] = v
		}
	}
	s, _ := structpb.NewStruct(m)
	return s
}

func oneCase(c *vk.Ctx, i int, r *rand.Rand, p *sem.Prepared, srv *drive.Srv) {
	subjectsAll, ctxs, nodes := sem.RequestSpace(r, p, 0, 3)
	var subjects []string
	for _, s := range subjectsAll {
		if !ref.IsUserset(s) {
			subjects = append(subjects, s)
		}
	}
	ctx := context.Background()
	for _, rctx := range ctxs {
		rc := ref.NewCase(p.Ref, p.Stored, rctx, sem.ExtraObjects(nodes, subjects)...)
		reqs := sem.SampleRequests(r, rc, nodes, subjects, c.Pick(30, 60))
		props := map[string]any{}
		if r.Intn(2) == 0 {
			props["dept"] = "eng"
		}
		var propStruct *structpb.Struct
		if len(props) > 0 {
			propStruct, _ = structpb.NewStruct(props)
		}
		type native struct {
			o drive.Outcome
			k ref.Tri
		}
		natives := make([]native, len(reqs))
		for qi, rq := range reqs {
			k := rc.Eval(rq.User).K(rq.Object, rq.Relation)
			nctx := mergeCtx(rctx, "subject_", props)
			no := srv.Check(drive.Req{Store: p.Store, Object: rq.Object, Relation: rq.Relation, User: rq.User, Ctx: nctx})
			natives[qi] = native{no, k}
			sub := subjectOf(rq.User)
			sub.Properties = propStruct
			var dec bool
			err := drive.Guard(func() error {
				resp, err := srv.S.Evaluation(ctx, &authzenv1.EvaluationRequest{StoreId: p.Store, Subject: sub, Resource: resourceOf(rq.Object), Action: &authzenv1.Action{Name: rq.Relation}, Context: rctx})
				if err != nil {
					return err
				}
				dec = resp.GetDecision()
				return nil
			})
			c.Case("evaluation|"+sem.ShapeOf(p, rq, k), k != ref.F)
			c.Count("evaluation_compared", 1)
			if drive.CodeOf(err) == "PANIC" {
				c.Violation("", "panic|evaluation", "Evaluation panicked: "+err.Error(), nil)
				continue
			}
			if (err != nil) != (no.Err != nil) && rc.AnyUnevaluable() {
				c.Count("error_vs_decision_with_unevaluable_condition(not_judged)", 1)
				continue // evaluation order decides between failing and deciding: C01's acceptance relation
			}
			if (err != nil) != (no.Err != nil) || (err == nil && dec != no.Allowed) {
				// both go through the same engine: a difference means the engine's answer is not stable;
				// the side that disagrees with the reference is attributed to a known engine finding if its
				// deviation model explains it
				f := ""
				if err == nil && no.Err == nil {
					wrong := no
					if (k == ref.T) == no.Allowed {
						wrong = drive.Outcome{Allowed: dec}
					}
					f = sem.ClassifyCheck("C32", rc, rq, k, wrong, "")
				}
				c.Violation(f, fmt.Sprintf("evaluation|%s|%s", ref.Shape(p.Ref.Rewrite(typeOf(rq.Object), rq.Relation)), k),
					fmt.Sprintf("Evaluation(subject %s, resource %s, action %s, ctx=%s, subject props %v) = decision %v err=%v, native Check = %s", rq.User, rq.Object, rq.Relation, gen.CtxString(rctx), props, dec, err, no),
					wit(p, rq, no.String(), fmt.Sprintf("%v/%v", dec, err)))
			}
		}
		// Evaluations: three semantics over a window of items, top-level subject/action with per-item resource
		for _, semn := range []authzenv1.EvaluationsSemantic{authzenv1.EvaluationsSemantic_execute_all, authzenv1.EvaluationsSemantic_deny_on_first_deny, authzenv1.EvaluationsSemantic_permit_on_first_permit} {
			n := len(reqs)
			if n > 12 {
				n = 12
			}
			start := 0
			if len(reqs) > n {
				start = r.Intn(len(reqs) - n)
			}
			window := reqs[start : start+n]
			req := &authzenv1.EvaluationsRequest{StoreId: p.Store, Context: rctx, Options: &authzenv1.EvaluationsOptions{EvaluationsSemantic: semn}}
			for _, rq := range window {
				sub := subjectOf(rq.User)
				sub.Properties = propStruct
				req.Evaluations = append(req.Evaluations, &authzenv1.EvaluationsItemRequest{Subject: sub, Resource: resourceOf(rq.Object), Action: &authzenv1.Action{Name: rq.Relation}})
			}
			var resp *authzenv1.EvaluationsResponse
			err := drive.Guard(func() error {
				var err error
				resp, err = srv.S.Evaluations(ctx, req)
				return err
			})
			c.Case(fmt.Sprintf("evaluations|%s|n=%d|%s", semn, n, p.Features), true)
			c.Count("evaluations_batches", 1)
			if err != nil {
				c.Violation("", "evaluations-error|"+drive.CodeOf(err), fmt.Sprintf("Evaluations(%s, %d well-formed items) fails as a whole: %s", semn, n, drive.ErrDetail(err)), wit(p, window[0], "", err.Error()))
				continue
			}
			got := resp.GetEvaluations()
			if rc.AnyUnevaluable() {
				c.Count("evaluations_with_unevaluable_condition(not_judged)", 1)
				continue
			}
			// expected length and content from the native answers
			wantLen := n
			for k := 0; k < n; k++ {
				nat := natives[start+k]
				denied := nat.o.Err != nil || !nat.o.Allowed
				if semn == authzenv1.EvaluationsSemantic_deny_on_first_deny && denied {
					wantLen = k + 1
					break
				}
				if semn == authzenv1.EvaluationsSemantic_permit_on_first_permit && !denied {
					wantLen = k + 1
					break
				}
			}
			if len(got) != wantLen {
				c.Violation("", "evaluations-length|"+semn.String(), fmt.Sprintf("Evaluations(%s) returned %d results for %d items; the native answers imply %d", semn, len(got), n, wantLen), wit(p, window[0], fmt.Sprint(wantLen), fmt.Sprint(len(got))))
				continue
			}
			for k := 0; k < len(got); k++ {
				nat := natives[start+k]
				want := nat.o.Err == nil && nat.o.Allowed
				if got[k].GetDecision() != want {
					rq := window[k]
					f := ""
					if nat.o.Err == nil {
						wrong := nat.o
						if (nat.k == ref.T) == nat.o.Allowed {
							wrong = drive.Outcome{Allowed: got[k].GetDecision()}
						}
						f = sem.ClassifyCheck("C32", rc, rq, nat.k, wrong, "")
					}
					c.Violation(f, fmt.Sprintf("evaluations-item|%s|%s", semn, nat.k),
						fmt.Sprintf("Evaluations(%s) item %d (subject %s, resource %s, action %s) = %v, native Check = %s", semn, k, rq.User, rq.Object, rq.Relation, got[k].GetDecision(), nat.o), wit(p, rq, nat.o.String(), fmt.Sprint(got[k].GetDecision())))
				}
				c.Count("evaluations_items_compared", 1)
			}
		}
		evaluationsInheritance(c, r, p, srv, rc, rctx, ctxs, reqs)
		// searches
		searches := 0
		for _, nd := range nodes {
			if searches >= c.Pick(10, 25) || r.Intn(3) != 0 {
				continue
			}
			searches++
			lu := srv.ListUsers(drive.Req{Store: p.Store, Object: nd[0], Relation: nd[1], Ctx: rctx}, "user", "")
			var got []string
			err := drive.Guard(func() error {
				resp, err := srv.S.SubjectSearch(ctx, &authzenv1.SubjectSearchRequest{StoreId: p.Store, Resource: resourceOf(nd[0]), Action: &authzenv1.Action{Name: nd[1]}, Subject: &authzenv1.SubjectFilter{Type: "user"}, Context: rctx})
				if err != nil {
					return err
				}
				for _, s := range resp.GetResults() {
					got = append(got, s.GetType()+":"+s.GetId())
				}
				return nil
			})
			c.Case(fmt.Sprintf("subjectsearch|%s|n=%d", ref.Shape(p.Ref.Rewrite(typeOf(nd[0]), nd[1])), len(lu.Items)), len(lu.Items) > 0)
			compareSets(c, p, rc, rc.AnyUnevaluable(), "SubjectSearch", nd[0], nd[1], "user", got, err, lu)
		}
		searches = 0
		for _, t := range p.Ref.TypeNames() {
			for _, rel := range p.Ref.RelationNames(t) {
				for _, subj := range subjects {
					if searches >= c.Pick(10, 25) || r.Intn(3) != 0 || ref.IsWildcard(subj) {
						continue
					}
					searches++
					lo := srv.StreamedListObjects(drive.Req{Store: p.Store, Object: t, Relation: rel, User: subj, Ctx: rctx})
					if sem.Hung(c, "native StreamedListObjects", lo) {
						continue
					}
					var got []string
					err := guardWatched(c, "ResourceSearch", func() error {
						resp, err := srv.S.ResourceSearch(ctx, &authzenv1.ResourceSearchRequest{StoreId: p.Store, Subject: subjectOf(subj), Action: &authzenv1.Action{Name: rel}, Resource: &authzenv1.ResourceFilter{Type: t}, Context: rctx})
						if err != nil {
							return err
						}
						for _, s := range resp.GetResults() {
							got = append(got, s.GetType()+":"+s.GetId())
						}
						return nil
					})
					c.Case(fmt.Sprintf("resourcesearch|%s|n=%d", ref.Shape(p.Ref.Rewrite(t, rel)), len(lo.Items)), len(lo.Items) > 0)
					compareSets(c, p, rc, rc.AnyUnevaluable(), "ResourceSearch", t, rel, subj, got, err, lo)
				}
			}
		}
	}
	c.SampleEvery(i, 15, func() any {
		return map[string]any{"case": p.Case.Name, "model": p.Ref.DSL(), "stored": gen.TupleStrings(p.Stored)}
	})
}

func compareSets(c *vk.Ctx, p *sem.Prepared, rc *ref.Case, unevaluable bool, api, a, b, x string, got []string, err error, native drive.ListOutcome) {
	c.Count(strings.ToLower(api)+"_compared", 1)
	if errors.Is(err, drive.ErrHung) {
		return
	}
	if drive.CodeOf(err) == "PANIC" {
		c.Violation("", "panic|"+api, api+" panicked: "+err.Error(), nil)
		return
	}
	if (err != nil) != (native.Err != nil) && unevaluable {
		c.Count("search_error_vs_result_with_unevaluable_condition(not_judged)", 1)
		return
	}
	if (err != nil) != (native.Err != nil) {
		c.Violation("", "search-error|"+api, fmt.Sprintf("%s(%s, %s, %s): err=%v but the native call err=%v", api, a, b, x, err, native.Err), wit(p, sem.Request{Object: a, Relation: b, User: x}, fmt.Sprint(native.Err), fmt.Sprint(err)))
		return
	}
	if err != nil {
		return
	}
	g := append([]string{}, got...)
	n := append([]string{}, native.Items...)
	sort.Strings(g)
	sort.Strings(n)
	if strings.Join(g, ",") != strings.Join(n, ",") {
		// same engine on both sides: the answer is unstable; attribute each differing element to a known
		// engine finding when its deviation model explains the side that disagrees with the reference
		f := "?"
		in := func(xs []string, v string) bool {
			for _, y := range xs {
				if y == v {
					return true
				}
			}
			return false
		}
		for _, v := range append(append([]string{}, g...), n...) {
			if in(g, v) == in(n, v) {
				continue
			}
			var rq sem.Request
			if api == "ResourceSearch" {
				rq = sem.Request{Object: v, Relation: b, User: x, Ctx: rc.Context}
			} else {
				rq = sem.Request{Object: a, Relation: b, User: v, Ctx: rc.Context}
			}
			k := rc.Eval(rq.User).K(rq.Object, rq.Relation)
			ff := sem.ClassifyCheck("C32", rc, rq, k, drive.Outcome{Allowed: k != ref.T}, "")
			if f == "?" {
				f = ff
			} else if f != ff {
				f = ""
			}
		}
		if f == "?" {
			f = ""
		}
		if f == "" && api == "SubjectSearch" {
			// ListUsers' exclusion bookkeeping (listed under C06) makes the answer depend on message order: two
			// calls can differ. Attributed when each side is the reference answer or exactly what the
			// executable model of that bookkeeping predicts (or the model is order-dependent here).
			exp := sem.RefListUsers(rc, a, b, x, "")
			wantLU := append([]string{}, exp.Concrete...)
			if exp.Wildcard {
				wantLU = append(wantLU, x+":*")
			}
			sort.Strings(wantLU)
			all := !exp.AnyE
			for _, side := range [][]string{g, n} {
				if strings.Join(side, ",") == strings.Join(wantLU, ",") {
					continue
				}
				if ff, _ := sem.ClassifyListUsersByModel("C32", p, rc, a, b, x, "", side, false); ff == "" {
					all = false
				}
			}
			if all {
				f = "C32-" + sem.FindingListUsersExclusion
			}
		}
		c.Violation(f, "search-diff|"+api, fmt.Sprintf("%s(%s, %s, %s) = %v but the native call = %v", api, a, b, x, g, n), wit(p, sem.Request{Object: a, Relation: b, User: x}, strings.Join(n, ","), strings.Join(g, ",")))
	}
}

func typeOf(o string) string { t, _ := ref.SplitObject(o); return t }

func wit(p *sem.Prepared, rq sem.Request, want, got string) map[string]any {
	w := sem.Witness(p, "memory,authzen", "", rq, nil, want, got)
	sem.AddWire(w, p, nil, rq.Ctx)
	return w
}

// guardWatched is drive.Guard under the same request watchdog the drive's list calls use: an abandoned
// call is reported as drive.ErrHung (inconclusive; termination is C20/C21's subject).
func guardWatched(c *vk.Ctx, api string, f func() error) error {
	var err error
	if !drive.Watch(drive.HangAfter, func() { err = drive.Guard(f) }) {
		c.Inconclusive(api + " abandoned by the watchdog after " + drive.HangAfter.String())
		return drive.ErrHung
	}
	return err
}

// evaluationsInheritance exercises what the plain Evaluations block does not: items that leave out
// subject / resource / action / context and inherit the REQUEST-level value (not a neighbour's), items
// with an explicit empty context (no context at all, not the request-level one), items with their own
// context, and the Openfga-Authorization-Model-Id header naming an older model of the store. Every item
// is compared with the native Check of its effective request; an item is judged only when the native
// Check and the reference agree on a decision (or the native Check fails and the reference value is not T).
func evaluationsInheritance(c *vk.Ctx, r *rand.Rand, p *sem.Prepared, srv *drive.Srv, rc *ref.Case, rctx *structpb.Struct, ctxs []*structpb.Struct, reqs []sem.Request) {
	if len(reqs) < 3 {
		return
	}
	rels := func(o string) []string { return p.Ref.RelationNames(typeOf(o)) }
	has := func(xs []string, x string) bool {
		for _, y := range xs {
			if y == x {
				return true
			}
		}
		return false
	}
	empty := &structpb.Struct{Fields: map[string]*structpb.Value{}}
	for si, semn := range []authzenv1.EvaluationsSemantic{authzenv1.EvaluationsSemantic_execute_all, authzenv1.EvaluationsSemantic_deny_on_first_deny, authzenv1.EvaluationsSemantic_permit_on_first_permit} {
		d := reqs[r.Intn(len(reqs))] // request-level defaults
		// older model through the header: the permissive earlier model of the store (no conditions there
		// matter: only item shapes 0-3 are used with it)
		useHeader := p.PermID != "" && r.Intn(3) == 0
		model := ""
		ctx := context.Background()
		if useHeader {
			model = p.PermID
			ctx = metadata.NewIncomingContext(ctx, metadata.Pairs("openfga-authorization-model-id", p.PermID))
		}
		req := &authzenv1.EvaluationsRequest{StoreId: p.Store, Context: rctx, Subject: subjectOf(d.User), Resource: resourceOf(d.Object), Action: &authzenv1.Action{Name: d.Relation},
			Options: &authzenv1.EvaluationsOptions{EvaluationsSemantic: semn}}
		type eff struct {
			rq    sem.Request
			shape int
		}
		var effs []eff
		n := 4 + r.Intn(5)
		for k := 0; k < n; k++ {
			w := reqs[r.Intn(len(reqs))]
			item := &authzenv1.EvaluationsItemRequest{}
			e := sem.Request{Object: d.Object, Relation: d.Relation, User: d.User, Ctx: rctx}
			shape := r.Intn(6)
			if useHeader && shape > 3 {
				shape = r.Intn(4)
			}
			switch shape {
			case 1: // only the resource
				if !has(rels(w.Object), d.Relation) {
					shape = 0
				}
			case 3: // only the action
				if !has(rels(d.Object), w.Relation) {
					shape = 0
				}
			case 5:
				if len(ctxs) < 2 {
					shape = 0
				}
			}
			switch shape {
			case 0, 4, 5:
				item.Subject, item.Resource, item.Action = subjectOf(w.User), resourceOf(w.Object), &authzenv1.Action{Name: w.Relation}
				e.User, e.Object, e.Relation = w.User, w.Object, w.Relation
				if shape == 4 {
					item.Context, e.Ctx = empty, empty
				}
				if shape == 5 {
					oc := ctxs[r.Intn(len(ctxs))]
					if oc == nil {
						oc = empty
					}
					item.Context, e.Ctx = oc, oc
				}
			case 1:
				item.Resource, e.Object = resourceOf(w.Object), w.Object
			case 2:
				item.Subject, e.User = subjectOf(w.User), w.User
			case 3:
				item.Action, e.Relation = &authzenv1.Action{Name: w.Relation}, w.Relation
			}
			req.Evaluations = append(req.Evaluations, item)
			effs = append(effs, eff{e, shape})
		}
		var resp *authzenv1.EvaluationsResponse
		err := drive.Guard(func() error {
			var err error
			resp, err = srv.S.Evaluations(ctx, req)
			return err
		})
		c.Case(fmt.Sprintf("evaluations-inherit|%s|header=%v|%d", semn, useHeader, si), true)
		c.Count("evaluations_inheritance_batches", 1)
		if err != nil {
			c.Count("evaluations_inheritance_batches_failing_as_a_whole(not_judged)", 1)
			continue
		}
		got := resp.GetEvaluations()
		// native answers of the effective requests, in order, with the short-circuit rule
		rcs := map[string]*ref.Case{}
		for k, e := range effs {
			if k >= len(got) {
				break
			}
			no := srv.Check(drive.Req{Store: p.Store, Model: model, Object: e.rq.Object, Relation: e.rq.Relation, User: e.rq.User, Ctx: e.rq.Ctx})
			want := no.Err == nil && no.Allowed
			c.Count(fmt.Sprintf("evaluations_inheritance_items_shape%d", e.shape), 1)
			judged := useHeader // the permissive model has no rewrites and no conditions in play: the native answer is stable
			if !useHeader {
				key := gen.CtxString(e.rq.Ctx)
				rcI, ok := rcs[key]
				if !ok {
					rcI = ref.NewCase(p.Ref, p.Stored, e.rq.Ctx, sem.ExtraObjects(nil, []string{e.rq.Object, e.rq.User})...)
					rcs[key] = rcI
				}
				kI := rcI.Eval(e.rq.User).K(e.rq.Object, e.rq.Relation)
				// judged when native and reference agree on a decision, or the native call fails and the
				// reference does not say T (so a 'true' from AuthZEN cannot be the engine's other face)
				judged = (no.Err == nil && kI != ref.E && (kI == ref.T) == no.Allowed) || (no.Err != nil && kI != ref.T)
			}
			if judged && got[k].GetDecision() != want {
				c.Violation("", fmt.Sprintf("evaluations-inherit|%s|shape%d|header=%v", semn, e.shape, useHeader),
					fmt.Sprintf("Evaluations(%s, request-level subject %s resource %s action %s ctx %s, model header %q) item %d (shape %d: effective subject %s, resource %s, action %s, ctx %s) = %v, native Check of the effective request = %s",
						semn, d.User, d.Object, d.Relation, gen.CtxString(rctx), model, k, e.shape, e.rq.User, e.rq.Object, e.rq.Relation, gen.CtxString(e.rq.Ctx), got[k].GetDecision(), no),
					wit(p, e.rq, no.String(), fmt.Sprint(got[k].GetDecision())))
				break
			}
			// the short-circuit position is judged through the items: a batch cut too early or too late
			// shows as a missing / extra item below
			stop := (semn == authzenv1.EvaluationsSemantic_deny_on_first_deny && !want) || (semn == authzenv1.EvaluationsSemantic_permit_on_first_permit && want)
			if judged && stop && len(got) != k+1 {
				c.Violation("", "evaluations-inherit-length|"+semn.String(), fmt.Sprintf("Evaluations(%s) returned %d results although item %d decides the batch (native %s)", semn, len(got), k, no), wit(p, e.rq, fmt.Sprint(k+1), fmt.Sprint(len(got))))
				break
			}
			if !judged || stop {
				break // later items depend on an unjudged / deciding one
			}
		}
	}
}
