// Package srvkit opens real in-process openfga servers on the two backends that can run offline
// (memory, sqlite on a real file) in the same configuration cmd/run wires up: the memory backend
// with the string ("ulid|type") continuation-token serializer, sqlite with the SQL (JSON) one.
package srvkit

import (
	"fmt"
	"os"
	"path/filepath"
	"sync"
	"sync/atomic"

	"github.com/pressly/goose/v3"

	"github.com/openfga/openfga/assets"
	"github.com/openfga/openfga/pkg/encoder"
	"github.com/openfga/openfga/pkg/encrypter"
	"github.com/openfga/openfga/pkg/server"
	"github.com/openfga/openfga/pkg/storage"
	"github.com/openfga/openfga/pkg/storage/memory"
	"github.com/openfga/openfga/pkg/storage/sqlcommon"
	"github.com/openfga/openfga/pkg/storage/sqlite"
)

// TokenKey is the AES-GCM key string of the encrypted-token configurations.
const TokenKey = "verif-c14-token-key"

// Backend names.
const (
	Memory = "memory"
	Sqlite = "sqlite"
)

// Config selects a backend and token encoding.
type Config struct {
	Backend string
	// Encrypted: wrap continuation tokens in the AES-GCM token encoder (server option WithTokenEncoder),
	// as cmd/run does when a token encrypter key is configured.
	Encrypted bool
}

func (c Config) String() string {
	s := c.Backend
	if c.Encrypted {
		s += "+gcm"
	}
	return s
}

// Instance is a running server and its datastore.
type Instance struct {
	Cfg    Config
	Server *server.Server
	DS     storage.OpenFGADatastore
	path   string
}

// Close stops the server, closes the datastore and removes the sqlite file.
func (i *Instance) Close() {
	i.Server.Close()
	i.DS.Close()
	if i.path != "" {
		_ = os.RemoveAll(filepath.Dir(i.path))
	}
}

var (
	seq      atomic.Int64
	gooseMu  sync.Mutex
	template string // path of a migrated, empty sqlite database file (copied per instance)
)

func scratch() (string, error) {
	d := os.Getenv("VERIF_SCRATCH")
	if d == "" {
		return "", fmt.Errorf("VERIF_SCRATCH is not set")
	}
	return d, nil
}

func sqliteURI(path string) string {
	return fmt.Sprintf("file:%s?_pragma=journal_mode(WAL)&_pragma=busy_timeout(5000)&_pragma=synchronous(NORMAL)", path)
}

// migratedTemplate runs the goose migrations (embedded assets, offline) once per process on a file
// opened in rollback-journal mode and returns its path; instances start from a byte copy of it.
func migratedTemplate() (string, error) {
	gooseMu.Lock()
	defer gooseMu.Unlock()
	if template != "" {
		return template, nil
	}
	root, err := scratch()
	if err != nil {
		return "", err
	}
	dir := filepath.Join(root, "sqlite-template")
	if err := os.MkdirAll(dir, 0o755); err != nil {
		return "", err
	}
	path := filepath.Join(dir, "template.db")
	db, err := goose.OpenDBWithDriver("sqlite", fmt.Sprintf("file:%s?_pragma=busy_timeout(5000)", path))
	if err != nil {
		return "", err
	}
	goose.SetLogger(goose.NopLogger())
	goose.SetBaseFS(assets.EmbedMigrations)
	if err := goose.Up(db, assets.SqliteMigrationDir); err != nil {
		_ = db.Close()
		return "", fmt.Errorf("goose up: %w", err)
	}
	if err := db.Close(); err != nil {
		return "", err
	}
	template = path
	return template, nil
}

// Open starts a server on a fresh, empty datastore.
func Open(cfg Config, extra ...server.OpenFGAServiceV1Option) (*Instance, error) {
	inst := &Instance{Cfg: cfg}
	var ser encoder.ContinuationTokenSerializer
	switch cfg.Backend {
	case Memory:
		inst.DS = memory.New()
		ser = encoder.NewStringContinuationTokenSerializer()
	case Sqlite:
		tpl, err := migratedTemplate()
		if err != nil {
			return nil, err
		}
		root, _ := scratch()
		dir := filepath.Join(root, fmt.Sprintf("sqlite-%d", seq.Add(1)))
		if err := os.MkdirAll(dir, 0o755); err != nil {
			return nil, err
		}
		b, err := os.ReadFile(tpl)
		if err != nil {
			return nil, err
		}
		inst.path = filepath.Join(dir, "database.db")
		if err := os.WriteFile(inst.path, b, 0o644); err != nil {
			return nil, err
		}
		ds, err := sqlite.New(sqliteURI(inst.path), sqlcommon.NewConfig(
			sqlcommon.WithMaxTuplesPerWrite(100),
			sqlcommon.WithMaxTypesPerAuthorizationModel(100),
		))
		if err != nil {
			return nil, err
		}
		inst.DS = ds
		ser = sqlcommon.NewSQLContinuationTokenSerializer()
	default:
		return nil, fmt.Errorf("unknown backend %q", cfg.Backend)
	}
	opts := []server.OpenFGAServiceV1Option{
		server.WithDatastore(inst.DS),
		server.WithContinuationTokenSerializer(ser),
	}
	if cfg.Encrypted {
		enc, err := encrypter.NewGCMEncrypter(TokenKey)
		if err != nil {
			return nil, err
		}
		opts = append(opts, server.WithTokenEncoder(encoder.NewTokenEncoder(enc, encoder.NewBase64Encoder())))
	}
	opts = append(opts, extra...)
	s, err := server.NewServerWithOpts(opts...)
	if err != nil {
		inst.DS.Close()
		return nil, err
	}
	inst.Server = s
	return inst, nil
}
