// Package c06: ListUsers returns exactly the permitted users (reference-model monitor on sets).
package c06

import (
	"fmt"
	"github.com/openfga/openfga/pkg/storage"
	"math/rand"
	"sort"
	"strings"
	"time"

	openfgav1 "github.com/openfga/api/proto/openfga/v1"

	"github.com/openfga/openfga/verifharness/checks/sem"
	"github.com/openfga/openfga/verifharness/drive"
	"github.com/openfga/openfga/verifharness/gen"
	"github.com/openfga/openfga/verifharness/ref"
	"github.com/openfga/openfga/verifharness/vk"
)

func init() { vk.Register("C06", "exploration", run) }

// luDeadline is the ListUsers deadline of the servers under test. An answer that took at least
// 80% of it is treated as deadline-truncated: only soundness is judged for it (the statement
// requires completeness only when the deadline does not apply). Using elapsed time this way can only
// weaken the judgement, never create an alarm.
const luDeadline = 1500 * time.Millisecond

func run(c *vk.Ctx) {
	c.SetRule("for every object, relation and user filter (each object type; each userset type#relation defined in the model) of each seeded case, ListUsers is compared with the reference: every returned entry matches the filter, is returned once, and holds the relation when evaluated individually as a Check subject (K=T); " +
		"without limit, every concrete user of the filter type in the universe with K=T is returned or covered by a returned typed wildcard; with a result limit only soundness and the bound are judged; " +
		"distinct_nontrivial = distinct (rewrite skeleton, filter kind, size class of the reference set, wildcard expected, feature set) with a non-empty reference answer")
	c.Assume("reference semantics harness/ref; generous ListUsers deadline")
	if !sem.Calibrate(c) {
		return
	}
	if c.Replay != "" {
		sem.ReplayListUsers(c, c.Replay)
		return
	}
	base, err := drive.New(drive.Cfg{LUDeadline: luDeadline})
	if err != nil {
		c.HarnessError("server: %v", err)
		return
	}
	defer base.Close()
	limited, err := drive.NewShared(drive.Cfg{LUMax: 2, ReadsLU: 1, Breadth: 1, LUDeadline: luDeadline}, base)
	if err != nil {
		c.HarnessError("server: %v", err)
		return
	}
	defer limited.Close()
	// a server whose 60 ms ListUsers deadline expires while reads (25 ms each) of the deeper branches are
	// still under way: partial results must stay sound (a truncated subtracted branch must not let
	// excluded users through)
	var ods *drive.ObsDS
	slow, err := drive.NewShared(drive.Cfg{LUDeadline: 60 * time.Millisecond, WrapDS: func(ds storage.OpenFGADatastore) storage.OpenFGADatastore {
		ods = drive.NewObsDS(ds)
		return ods
	}}, base)
	if err != nil {
		c.HarnessError("server: %v", err)
		return
	}
	defer slow.Close()
	ods.ReadLatency.Store(int64(25 * time.Millisecond))
	slowSrv = slow
	sem.RunCases(c, base, "mem", c.Pick(180, 1800), gen.Options{WideEvery: 4, AlgebraEvery: 3, HierarchyEvery: 6}, 4, 12, func(i int, r *rand.Rand, p *sem.Prepared, contextual []*openfgav1.TupleKey) {
		oneCase(c, i, r, p, contextual, base, limited)
	})
}

func oneCase(c *vk.Ctx, i int, r *rand.Rand, p *sem.Prepared, contextual []*openfgav1.TupleKey, base, limited *drive.Srv) {
	_, ctxs, nodes := sem.RequestSpace(r, p, 0, 2)
	all := p.AllTuples(contextual)
	type filter struct{ t, rel string }
	filters := []filter{{"user", ""}}
	if _, ok := p.Ref.Types["group"]; ok {
		filters = append(filters, filter{"group", ""})
	}
	for _, t := range p.Ref.TypeNames() {
		for _, rel := range p.Ref.RelationNames(t) {
			filters = append(filters, filter{t, rel})
		}
	}
	for _, rctx := range ctxs {
		var extra []string
		for _, n := range nodes {
			extra = append(extra, n[0])
		}
		for _, id := range p.Case.IDsOf("user") {
			extra = append(extra, "user:"+id)
		}
		rc := ref.NewCase(p.Ref, all, rctx, extra...)
		for _, n := range nodes {
			for fi, f := range filters {
				if fi >= 2 && r.Intn(3) != 0 {
					continue // sample the userset filters
				}
				exp := sem.RefListUsers(rc, n[0], n[1], f.t, f.rel)
				rq := drive.Req{Store: p.Store, Object: n[0], Relation: n[1], Ctx: rctx, Contextual: contextual}
				t0 := time.Now()
				lo := base.ListUsers(rq, f.t, f.rel)
				if time.Since(t0) > luDeadline*8/10 {
					c.Count("answers_taking_the_whole_deadline(soundness_only)", 1)
					c.Seen("slow_shapes", ref.Shape(p.Ref.Rewrite(typeOf(n[0]), n[1])))
					judge(c, p, rc, contextual, "deadline", 1<<30, n, f.t, f.rel, exp, lo)
					continue
				}
				judge(c, p, rc, contextual, "default", 0, n, f.t, f.rel, exp, lo)
				if (len(exp.Concrete) > 1 || exp.Wildcard) && r.Intn(2) == 0 {
					judge(c, p, rc, contextual, "limit2", 2, n, f.t, f.rel, exp, limited.ListUsers(rq, f.t, f.rel))
				}
			}
		}
	}
	if p.Case.Features["exclusion"] && slowSrv != nil {
		rc := ref.NewCase(p.Ref, all, nil, sem.ExtraObjects(nodes, nil)...)
		n := 0
		for _, nd := range nodes {
			if !p.Ref.ReachesExclusion(typeOf(nd[0]), nd[1]) || strings.HasSuffix(nd[0], ":zz") {
				continue
			}
			exp := sem.RefListUsers(rc, nd[0], nd[1], "user", "")
			lo := slowSrv.ListUsers(drive.Req{Store: p.Store, Object: nd[0], Relation: nd[1], Contextual: contextual}, "user", "")
			c.Count("deadline_truncated_requests_on_exclusion_relations", 1)
			judge(c, p, rc, contextual, "deadline-60ms", 1<<30, nd, "user", "", exp, lo)
			if n++; n >= 6 {
				break
			}
		}
	}
	c.SampleEvery(i, 20, func() any {
		return map[string]any{"case": p.Case.Name, "model": p.Ref.DSL(), "stored": gen.TupleStrings(p.Stored), "contextual": gen.TupleStrings(contextual), "filters": len(filters)}
	})
}

var slowSrv *drive.Srv

func typeOf(o string) string { t, _ := ref.SplitObject(o); return t }

func sizeClass(n int) string {
	switch {
	case n == 0:
		return "0"
	case n == 1:
		return "1"
	case n <= 3:
		return "2-3"
	}
	return "4+"
}

func judge(c *vk.Ctx, p *sem.Prepared, rc *ref.Case, contextual []*openfgav1.TupleKey, cfg string, limit int, n [2]string, ft, fr string, exp sem.ListUsersExpectation, lo drive.ListOutcome) {
	typ, _ := ref.SplitObject(n[0])
	shape := ref.Shape(p.Ref.Rewrite(typ, n[1]))
	fkind := "type"
	if fr != "" {
		fkind = "userset"
	}
	c.Case(fmt.Sprintf("%s|%s|%s|wild=%v|%s|%s", shape, fkind, sizeClass(len(exp.Concrete)), exp.Wildcard, cfg, p.Features), len(exp.Concrete) > 0 || exp.Wildcard)
	c.Count("answers", 1)
	wit := func(got []string) map[string]any {
		w := sem.Witness(p, cfg, "", sem.Request{Object: n[0], Relation: n[1], User: ft + "#" + fr, Ctx: rc.Context}, contextual, fmt.Sprintf("concrete=%v wildcard=%v", exp.Concrete, exp.Wildcard), strings.Join(got, ","))
		sem.AddWire(w, p, contextual, rc.Context)
		if pred, m := sem.PredictListUsers(rc, n[0], n[1], ft, fr); m != nil {
			w["algorithm_model_prediction"] = map[string]any{"users": pred, "determinate": m.Determinate(), "order_dependent": m.Nondet}
		}
		return w
	}
	if lo.Code == "PANIC" {
		c.Violation("", "panic", "ListUsers panicked: "+lo.Err.Error(), map[string]any{"stack": lo.Panic, "model": p.Ref.DSL()})
		return
	}
	if lo.Err != nil {
		c.Count("answers_error", 1)
		if exp.AnyE || rc.AnyUnevaluable() || sem.IsDepthError(lo.Err) {
			return
		}
		c.Violation(sem.ClassifyListUsersError("C06", p, typ, n[1], ft, fr, lo.Err), "error|"+drive.CodeOf(lo.Err)+"|"+fkind, fmt.Sprintf("ListUsers(%s#%s, filter %s#%s, ctx=%s) fails although nothing is unevaluable: %s", n[0], n[1], ft, fr, gen.CtxString(rc.Context), drive.ErrDetail(lo.Err)), wit(nil))
		return
	}
	got := lo.Items
	seen := map[string]bool{}
	wild := false
	for _, u := range got {
		if seen[u] {
			c.Violation("", "dup|"+fkind, fmt.Sprintf("ListUsers(%s#%s, filter %s#%s) returned %s twice: %v", n[0], n[1], ft, fr, u, got), wit(got))
		}
		seen[u] = true
		// filter match
		uo, ur := ref.UserParts(u)
		ut, _ := ref.SplitObject(uo)
		if ut != ft || ur != fr {
			c.Violation("", "filter|"+fkind, fmt.Sprintf("ListUsers(%s#%s, filter %s#%s) returned %s, which does not match the filter", n[0], n[1], ft, fr, u), wit(got))
			continue
		}
		if ref.IsWildcard(u) {
			wild = true
		}
		k, ok := exp.Values[u]
		if !ok {
			k = rc.Eval(u).K(n[0], n[1])
		}
		if k != ref.T {
			f := sem.ClassifyCheck("C06", rc, sem.Request{Object: n[0], Relation: n[1], User: u, Ctx: rc.Context}, k, drive.Outcome{Allowed: true}, "default")
			if f == "" {
				f = byModel(c, p, rc, n, ft, fr, got, limit > 0)
			}
			c.Violation(f, fmt.Sprintf("unsound|%s|%s|%s", shape, ref.UserKind(u), k),
				fmt.Sprintf("ListUsers(%s#%s, filter %s#%s, ctx=%s) returned %s whose reference value as a Check subject is %s; got %v, reference concrete=%v wildcard=%v", n[0], n[1], ft, fr, gen.CtxString(rc.Context), u, k, got, exp.Concrete, exp.Wildcard), wit(got))
		}
	}
	if limit > 0 {
		if len(got) > limit {
			c.Violation("", "over-limit", fmt.Sprintf("ListUsers with result limit %d returned %d users: %v", limit, len(got), got), wit(got))
		}
		return
	}
	if wild {
		return // every concrete user of the type is covered by the returned wildcard
	}
	var missing []string
	for _, u := range exp.Concrete {
		if !seen[u] {
			missing = append(missing, u)
		}
	}
	if len(missing) > 0 {
		sort.Strings(missing)
		f := "?"
		for _, u := range missing {
			ff := sem.ClassifyCheck("C06", rc, sem.Request{Object: n[0], Relation: n[1], User: u, Ctx: rc.Context}, ref.T, drive.Outcome{Allowed: false}, "default")
			if f == "?" {
				f = ff
			} else if f != ff {
				f = ""
			}
		}
		if f == "?" {
			f = ""
		}
		if f == "" {
			f = byModel(c, p, rc, n, ft, fr, got, false)
		}
		c.Violation(f, fmt.Sprintf("incomplete|%s|%s", shape, fkind),
			fmt.Sprintf("ListUsers(%s#%s, filter %s#%s, ctx=%s) omitted %v although they hold the relation and no wildcard was returned; got %v, reference concrete=%v wildcard=%v", n[0], n[1], ft, fr, gen.CtxString(rc.Context), missing, got, exp.Concrete, exp.Wildcard), wit(got))
	}
}

// byModel attributes a deviating answer to the listed exclusion-bookkeeping finding through the
// executable model of the implementation's algorithm (sem/lumodel.go) and books what the model decided.
func byModel(c *vk.Ctx, p *sem.Prepared, rc *ref.Case, n [2]string, ft, fr string, got []string, truncated bool) string {
	f, notDecided := sem.ClassifyListUsersByModel("C06", p, rc, n[0], n[1], ft, fr, got, truncated)
	switch {
	case f != "" && notDecided:
		c.Count("exclusion_deviations_not_decided_by_the_algorithm_model(order-dependent)", 1)
	case f != "":
		c.Count("exclusion_deviations_reproduced_by_the_algorithm_model", 1)
	default:
		c.Count("deviations_the_algorithm_model_does_not_reproduce", 1)
	}
	return f
}
