package c22

import (
	"context"
	"math/rand"
	"runtime"
	"sync"
	"sync/atomic"
	"time"
)

// ---------------------------------------------------------------------------------------------
// Logical goroutines, the global yield hook and the per-scenario clocks.
//
// Synchronisation discipline (matters for the race detector, which only reports accesses that
// are NOT ordered by happens-before): the hooks that sit INSIDE the queues' critical windows
// (claimed / published / recycled / swapped / linked) touch only goroutine-local state
// (own PRNG, own trace slice, time.Now) and inject Gosched / Sleep, neither of which creates a
// happens-before edge between scenario goroutines. Shared atomics are used only at the client
// boundary (call / return stamps of the history) and at the beforePark points, which are outside
// the queues' locks and windows.
// ---------------------------------------------------------------------------------------------

const (
	stRunning  int32 = iota
	stParkHint       // passed a beforePark hook, has not reported anything since
	stDone
)

type traceEv struct {
	G     int    `json:"g"`
	Point string `json:"pt"`
	Nano  int64  `json:"ns"`              // time.Since(scenario start); orders the interleaving signature only
	Stamp int64  `json:"stamp,omitempty"` // value of the history clock (only for call/ret/beforePark events)
}

type lgor struct {
	sc    *scenario
	idx   int
	role  string // "P0", "C1", "ctl", "main", "drain"
	rng   *rand.Rand
	state atomic.Int32
	goid  atomic.Int64

	curKind atomic.Int32 // opKind+1 of the operation in flight, 0 = none
	curCtx  atomic.Int32 // index+1 of the cancellable context of the operation in flight, 0 = background

	ops   []opRec   // owner-only until joined
	trace []traceEv // owner-only until joined

	inject    bool          // random Gosched/sleep/gates at yield points
	holdParks int           // directed schedules: block at the first n beforePark hooks until released
	holdPoint string        // directed schedules: block once at this in-window point until released
	held      atomic.Int32  // number of holds currently in effect (read by the runner / other goroutines)
	release   chan struct{} // closed by the controller / runner
}

type scenario struct {
	sp      *spec
	start   time.Time
	clock   atomic.Int64 // history stamps (one monotonic counter)
	events  atomic.Int64 // progress counter used by gates (op boundaries and beforePark hooks)
	lgs     []*lgor
	wg      sync.WaitGroup
	ctxs    []context.Context
	cancels []context.CancelFunc
	cancelT []atomic.Int64 // stamp taken just before cancel() was called, 0 = never

	closed     atomic.Bool // a Close call has returned
	sentOK     atomic.Int32
	recvOK     atomic.Int32
	prodDone   atomic.Int32
	grew       atomic.Bool
	holdFailed atomic.Bool
}

func (sc *scenario) stamp() int64 { return sc.clock.Add(1) }

func (sc *scenario) newLG(role string, seed int64, inject bool) *lgor {
	lg := &lgor{sc: sc, idx: len(sc.lgs), role: role, rng: rand.New(rand.NewSource(seed)), inject: inject,
		release: make(chan struct{})}
	sc.lgs = append(sc.lgs, lg)
	return lg
}

// ---- goroutine-id registry: open addressed table written only at registration and cleared by the
// runner after the scenario (so look-ups never add happens-before edges between scenario goroutines).

const regSize = 1 << 14

var regTable [regSize]atomic.Pointer[lgor]

func goid() int64 {
	var buf [64]byte
	n := runtime.Stack(buf[:], false)
	// "goroutine 123 [running]:"
	var id int64
	for i := len("goroutine "); i < n; i++ {
		ch := buf[i]
		if ch < '0' || ch > '9' {
			break
		}
		id = id*10 + int64(ch-'0')
	}
	return id
}

func (lg *lgor) register() {
	id := goid()
	lg.goid.Store(id)
	i := int(id) & (regSize - 1)
	for k := 0; k < regSize; k++ {
		if regTable[(i+k)&(regSize-1)].CompareAndSwap(nil, lg) {
			return
		}
	}
	panic("c22: goroutine registry full")
}

func (lg *lgor) unregister() {
	i := int(lg.goid.Load()) & (regSize - 1)
	for k := 0; k < regSize; k++ {
		p := &regTable[(i+k)&(regSize-1)]
		if p.Load() == lg {
			p.Store(nil)
			return
		}
	}
}

func lookupLG() *lgor {
	id := goid()
	i := int(id) & (regSize - 1)
	for k := 0; k < 64; k++ { // bounded probe; registrations are sparse
		lg := regTable[(i+k)&(regSize-1)].Load()
		if lg == nil {
			// a cleared slot may precede ours only if an older scenario was cleaned up in between;
			// keep probing a little.
			continue
		}
		if lg.goid.Load() == id {
			return lg
		}
	}
	return nil
}

// ---- the yield hook -------------------------------------------------------------------------

func isParkPoint(p string) bool {
	switch p {
	case "mpmc.send.beforePark", "mpmc.recv.beforePark", "mpsc.recv.beforePark":
		return true
	}
	return false
}

func yieldHook(point string) {
	lg := lookupLG()
	if lg == nil {
		return
	}
	lg.onYield(point)
}

func (lg *lgor) note(point string, stamp int64) {
	lg.trace = append(lg.trace, traceEv{G: lg.idx, Point: point, Nano: int64(time.Since(lg.sc.start)), Stamp: stamp})
}

func (lg *lgor) onYield(point string) {
	sc := lg.sc
	park := isParkPoint(point)
	if park {
		lg.state.Store(stRunning)
		lg.note(point, sc.stamp())
		sc.events.Add(1)
	} else {
		lg.note(point, 0)
	}

	// directed holds
	if park && lg.holdParks > 0 {
		lg.holdParks--
		lg.hold()
	} else if !park && lg.holdPoint == point {
		lg.holdPoint = ""
		lg.hold()
	} else if lg.inject {
		lg.perturb(park)
	}

	if park {
		lg.note("→select", 0)
		lg.state.Store(stParkHint)
	}
}

// hold blocks until the scenario's script releases this goroutine (bounded: 3 s of wall clock, after
// which the scenario is marked inconclusive - never a verdict).
func (lg *lgor) hold() {
	lg.held.Add(1)
	t := time.NewTimer(3 * time.Second)
	select {
	case <-lg.release:
	case <-t.C:
		lg.sc.holdFailed.Store(true)
	}
	t.Stop()
	lg.held.Add(-1)
	lg.note("released", 0)
}

// perturb injects a seeded delay. Inside critical windows only Gosched / Sleep are used; at the
// park points (outside every lock) a gate may additionally wait until other goroutines of the
// scenario made progress.
func (lg *lgor) perturb(park bool) {
	sp := lg.sc.sp
	r := lg.rng.Intn(100)
	if park {
		switch {
		case r < sp.ParkGatePct:
			lg.gate(1+lg.rng.Intn(4), 48)
		case r < sp.ParkGatePct+20:
			lg.yieldN(1 + lg.rng.Intn(3))
		case r < sp.ParkGatePct+30:
			pause(time.Duration(5+lg.rng.Intn(60)) * time.Microsecond)
		}
		return
	}
	switch {
	case r < sp.WinYieldPct:
		lg.yieldN(1 + lg.rng.Intn(3))
	case r < sp.WinYieldPct+sp.WinSleepPct:
		pause(time.Duration(2+lg.rng.Intn(80)) * time.Microsecond)
	}
}

// pause yields the processor for about d without going through the timer wheel (time.Sleep has a
// granularity of 1-2 ms on the build machines, which would dominate the run time).
func pause(d time.Duration) {
	t0 := time.Now()
	for {
		runtime.Gosched()
		if time.Since(t0) >= d {
			return
		}
	}
}

func (lg *lgor) yieldN(n int) {
	for i := 0; i < n; i++ {
		runtime.Gosched()
	}
}

// gate waits until k further progress events happened in the scenario, or a bounded number of
// rounds elapsed (so that a gate can never dead-lock the scenario).
func (lg *lgor) gate(k int, spins int) {
	target := lg.sc.events.Load() + int64(k)
	for i := 0; i < spins && lg.sc.events.Load() < target; i++ {
		pause(5 * time.Microsecond)
	}
}

// ---- history recording at the client boundary ----------------------------------------------------

type opRec struct {
	Client  string `json:"client"`
	Cid     int    `json:"-"`
	Kind    string `json:"op"`             // Send Recv TryRecv Close Grow
	Item    int    `json:"item,omitempty"` // sent item / received item
	Arg     int    `json:"arg,omitempty"`  // Grow argument
	Ok      bool   `json:"ok"`
	Call    int64  `json:"call"`
	Ret     int64  `json:"ret"`           // 0 = never returned
	Ctx     int    `json:"ctx,omitempty"` // index+1 of the cancellable context, 0 = background
	Via     string `json:"via,omitempty"` // "Seq" when issued through the iterator
	Cancel  int64  `json:"cancelled_at,omitempty"`
	PostRun bool   `json:"post,omitempty"` // issued by the harness after the concurrent phase
}

const (
	kSend int32 = iota + 1
	kRecv
	kTryRecv
	kClose
	kGrow
)

// begin stamps the call; end stamps the return. Both are progress events.
func (lg *lgor) begin(kind int32, ctxIdx int) int64 {
	lg.curCtx.Store(int32(ctxIdx))
	lg.curKind.Store(kind)
	lg.state.Store(stRunning)
	s := lg.sc.stamp()
	lg.sc.events.Add(1)
	lg.note("call", s)
	return s
}

func (lg *lgor) end() int64 {
	s := lg.sc.stamp()
	lg.sc.events.Add(1)
	lg.state.Store(stRunning)
	lg.curKind.Store(0)
	lg.note("ret", s)
	return s
}

func (lg *lgor) record(o opRec) {
	o.Client = lg.role
	o.Cid = lg.idx
	lg.ops = append(lg.ops, o)
}

func (sc *scenario) ctxFor(idx int) context.Context {
	if idx == 0 {
		return context.Background()
	}
	return sc.ctxs[idx-1]
}

func (sc *scenario) cancel(idx int) {
	if idx <= 0 || idx > len(sc.cancels) {
		return
	}
	if sc.cancelT[idx-1].Load() == 0 {
		sc.cancelT[idx-1].CompareAndSwap(0, sc.stamp())
	}
	sc.cancels[idx-1]()
	sc.events.Add(1)
}

func (sc *scenario) makeCtxs(n int) {
	sc.ctxs = make([]context.Context, n)
	sc.cancels = make([]context.CancelFunc, n)
	sc.cancelT = make([]atomic.Int64, n)
	for i := 0; i < n; i++ {
		sc.ctxs[i], sc.cancels[i] = context.WithCancel(context.Background())
	}
}

func (sc *scenario) releaseAllCtx() {
	for _, c := range sc.cancels {
		c()
	}
}
