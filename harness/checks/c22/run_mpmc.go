package c22

import (
	"fmt"
	"runtime/debug"
	"sync/atomic"
	"time"

	"github.com/openfga/openfga/internal/containers/mpmc"
)

// item ids are never the zero value: (producer+1)*100 + seq ; the harness pre-fill uses producer 8,
// its post-close probe producer 9.
func itemID(p, seq int) int { return (p+1)*100 + seq }

type outcome struct {
	sp          *spec
	hist        []opRec
	trace       []traceEv
	stuck       []stuckFact
	judged      *quiesceFacts
	panics      []string
	inconcl     []string
	abandoned   bool
	finalCap    int
	parkedLegal int
}

// quiesceFacts is what the runner saw at the logically stable state.
type quiesceFacts struct {
	Stamp       int64        `json:"stamp"`
	AllDone     bool         `json:"all_done"`
	Closed      bool         `json:"closed"`
	SentOK      int          `json:"sent_ok"`
	RecvOK      int          `json:"recv_ok"`
	Size        int          `json:"size_reported"`
	Capacity    int          `json:"capacity_reported"`
	Parked      []parkedInfo `json:"parked,omitempty"`
	Samples     int          `json:"samples"`
	DumpExcerpt string       `json:"dump_excerpt,omitempty"`
}

type parkedInfo struct {
	G        int    `json:"g"`
	Role     string `json:"role"`
	Status   string `json:"status"`
	In       string `json:"in"` // "mpmc.Recv", "mpmc.Send", "mpsc.Recv", "other"
	Ctx      int    `json:"ctx,omitempty"`
	CtxState string `json:"ctx_state,omitempty"`
}

type stuckFact struct {
	FindingClass string     `json:"class"` // "recv", "send", "closed", "cancelled", "deadlock", "mpsc-recv"
	Who          parkedInfo `json:"who"`
	What         string     `json:"what"`
}

func (sc *scenario) spawn(lg *lgor, out *outcome, body func()) {
	sc.wg.Add(1)
	go func() {
		defer sc.wg.Done()
		lg.register()
		defer func() {
			if r := recover(); r != nil {
				out.addPanic(fmt.Sprintf("%s: panic: %v\n%s", lg.role, r, debug.Stack()))
			}
			lg.state.Store(stDone)
		}()
		body()
	}()
}

var panicMu = make(chan struct{}, 1)

func (o *outcome) addPanic(s string) {
	panicMu <- struct{}{}
	o.panics = append(o.panics, s)
	<-panicMu
}

// waitUntil polls cond with Gosched/short sleeps, bounded by wall clock (only ever used to sequence
// a scripted schedule or to decide "inconclusive", never inside a verdict).
func waitUntil(d time.Duration, cond func() bool) bool {
	deadline := time.Now().Add(d)
	for i := 0; ; i++ {
		if cond() {
			return true
		}
		if time.Now().After(deadline) {
			return false
		}
		pause(10 * time.Microsecond)
	}
}

func (sc *scenario) heldCount() int {
	n := 0
	for _, lg := range sc.lgs {
		n += int(lg.held.Load())
	}
	return n
}

func (sc *scenario) parkHintCount() int {
	n := 0
	for _, lg := range sc.lgs {
		if lg.state.Load() == stParkHint {
			n++
		}
	}
	return n
}

func (sc *scenario) releaseHolds() {
	for _, lg := range sc.lgs {
		select {
		case <-lg.release:
		default:
			close(lg.release)
		}
	}
}

// startSequencing implements StartGate / WaitHeld / WaitParked of a goroutine.
func (sc *scenario) startSequencing(lg *lgor, gate int, waitHeld bool, waitParked int) {
	if waitHeld && sc.sp.WaitHeld > 0 {
		if !waitUntil(3*time.Second, func() bool { return sc.heldCount() >= sc.sp.WaitHeld }) {
			sc.holdFailed.Store(true)
		}
	}
	if waitParked > 0 {
		if !waitUntil(3*time.Second, func() bool { return sc.parkHintCount() >= waitParked }) {
			sc.holdFailed.Store(true)
		}
		pause(300 * time.Microsecond) // let them actually park (sequencing only)
	}
	if gate > 0 {
		lg.gate(gate, 40)
	}
}

func (sc *scenario) runCtl(lg *lgor, steps []ctlStep, do func(st ctlStep)) {
	for _, st := range steps {
		if st.Act == "release" {
			if !waitUntil(3*time.Second, func() bool {
				done := int(sc.sentOK.Load()) - sc.sp.Prefill + int(sc.recvOK.Load())
				return sc.heldCount() >= sc.sp.WaitHeld && done >= sc.sp.ReleaseAft
			}) {
				sc.holdFailed.Store(true)
			}
			if sc.sp.CancelBeforeRelease > 0 {
				sc.cancel(sc.sp.CancelBeforeRelease)
			}
			sc.releaseHolds()
			continue
		}
		for i := 0; i < 160 && sc.events.Load() < int64(st.After); i++ {
			pause(5 * time.Microsecond)
		}
		do(st)
	}
}

func runMPMC(sp *spec) *outcome {
	out := &outcome{sp: sp}
	sc := &scenario{sp: sp, start: time.Now()}
	sc.makeCtxs(sp.NCtx)
	q := mpmc.MustQueue[int](sp.Cap, sp.Ext)

	mainLG := sc.newLG("main", sp.Seed, false)
	mainLG.register()
	defer func() {
		for _, lg := range sc.lgs {
			if lg.goid.Load() != 0 {
				lg.unregister()
			}
		}
	}()

	// pre-fill (sequential, cannot block: Prefill ≤ Cap)
	for k := 0; k < sp.Prefill; k++ {
		it := itemID(8, k)
		call := mainLG.begin(kSend, 0)
		ok := q.Send(sc.ctxFor(0), it)
		ret := mainLG.end()
		if ok {
			sc.sentOK.Add(1)
		}
		mainLG.record(opRec{Kind: "Send", Item: it, Ok: ok, Call: call, Ret: ret})
	}

	inject := sp.ParkGatePct+sp.WinYieldPct+sp.WinSleepPct > 0
	var starts []func() // all logical goroutines are created before the first one starts

	for pi := range sp.Producers {
		ps := sp.Producers[pi]
		pidx := pi
		lg := sc.newLG(fmt.Sprintf("P%d", pi), sp.Seed+int64(101*(pi+1)), inject)
		lg.holdParks, lg.holdPoint = ps.HoldParks, ps.HoldPoint
		starts = append(starts, func() {
			sc.spawn(lg, out, func() {
				defer sc.prodDone.Add(1)
				sc.startSequencing(lg, ps.StartGate, ps.WaitHeld, ps.WaitParked)
				for si, st := range ps.Sends {
					it := itemID(pidx, si)
					call := lg.begin(kSend, st.Ctx)
					ok := q.Send(sc.ctxFor(st.Ctx), it)
					if ok {
						sc.sentOK.Add(1)
					}
					ret := lg.end()
					lg.record(opRec{Kind: "Send", Item: it, Ok: ok, Call: call, Ret: ret, Ctx: st.Ctx})
				}
			})
		})
	}

	for ci := range sp.Consumers {
		cs := sp.Consumers[ci]
		lg := sc.newLG(fmt.Sprintf("C%d", ci), sp.Seed+int64(7001*(ci+1)), inject)
		lg.holdParks = cs.HoldParks
		starts = append(starts, func() {
			sc.spawn(lg, out, func() {
				sc.startSequencing(lg, cs.StartGate, cs.WaitHeld, 0)
				if cs.Mode == "seq" {
					consumeSeqMPMC(sc, lg, q, cs)
					return
				}
				for k := 0; k < cs.N; k++ {
					cx := cs.Ctxs[k]
					call := lg.begin(kRecv, cx)
					v, ok := q.Recv(sc.ctxFor(cx))
					if ok {
						sc.recvOK.Add(1)
					}
					ret := lg.end()
					lg.record(opRec{Kind: "Recv", Item: v, Ok: ok, Call: call, Ret: ret, Ctx: cx})
					if !ok && cx == 0 {
						return // closed and drained
					}
				}
			})
		})
	}

	ctl := sc.newLG("ctl", sp.Seed+99991, false)
	starts = append(starts, func() {
		sc.spawn(ctl, out, func() {
			sc.runCtl(ctl, sp.Ctl, func(st ctlStep) {
				switch st.Act {
				case "cancel":
					sc.cancel(st.Arg)
				case "grow":
					call := ctl.begin(kGrow, 0)
					err := q.Grow(st.Arg)
					sc.grew.Store(true)
					ret := ctl.end()
					ctl.record(opRec{Kind: "Grow", Arg: st.Arg, Ok: err == nil, Call: call, Ret: ret})
				case "close":
					call := ctl.begin(kClose, 0)
					q.Close()
					sc.closed.Store(true)
					ret := ctl.end()
					ctl.record(opRec{Kind: "Close", Ok: true, Call: call, Ret: ret})
				}
			})
		})
	})
	for _, f := range starts {
		f()
	}

	// ---- logically stable state and the stuck-state oracle
	facts, why := sc.awaitQuiescence(func() (int, int, bool) {
		var size, capy int
		ok := withTimeout(out, time.Second, func() { size, capy = q.Size(), q.Capacity() })
		return size, capy, ok
	})
	if why != "" {
		out.inconcl = append(out.inconcl, why)
	}
	out.judged = facts
	if sc.holdFailed.Load() {
		out.inconcl = append(out.inconcl, "scripted hold timed out")
	}
	sc.releaseHolds()

	// ---- resolution: Close wakes everything that is legally parked
	{
		call := mainLG.begin(kClose, 0)
		closedOK := withTimeout(out, 3*time.Second, func() { q.Close() })
		if !closedOK {
			out.inconcl = append(out.inconcl, "Close did not return")
			out.abandoned = true
			return out
		}
		sc.closed.Store(true)
		ret := mainLG.end()
		mainLG.record(opRec{Kind: "Close", Ok: true, Call: call, Ret: ret, PostRun: true})
	}
	if !sc.join(3 * time.Second) {
		// still not returning after Close: establish the stuck state logically, then force out.
		f2, _ := sc.awaitQuiescence(func() (int, int, bool) { return 0, 0, true })
		if f2 != nil && !f2.AllDone && len(f2.Parked) > 0 {
			f2.Closed = true
			out.judged = f2
		} else {
			out.inconcl = append(out.inconcl, "goroutines did not return after Close")
		}
		for i := range sc.cancels {
			sc.cancel(i + 1)
		}
		if !sc.join(2 * time.Second) {
			out.abandoned = true
			out.inconcl = append(out.inconcl, "goroutines abandoned")
			return out
		}
	}

	// ---- drain and probe (sequential, by the harness)
	drainOK := withTimeout(out, 3*time.Second, func() {
		for k := 0; k < sp.totalSends()+2; k++ {
			call := mainLG.begin(kRecv, 0)
			v, ok := q.Recv(sc.ctxFor(0))
			ret := mainLG.end()
			mainLG.record(opRec{Kind: "Recv", Item: v, Ok: ok, Call: call, Ret: ret, PostRun: true})
			if !ok {
				break
			}
		}
		it := itemID(9, 0)
		call := mainLG.begin(kSend, 0)
		ok := q.Send(sc.ctxFor(0), it)
		ret := mainLG.end()
		mainLG.record(opRec{Kind: "Send", Item: it, Ok: ok, Call: call, Ret: ret, PostRun: true})
		out.finalCap = q.Capacity()
	})
	if !drainOK {
		out.abandoned = true
		out.inconcl = append(out.inconcl, "post-close drain blocked")
		return out
	}
	sc.releaseAllCtx()
	sc.collect(out)
	return out
}

func consumeSeqMPMC(sc *scenario, lg *lgor, q *mpmc.Queue[int], cs consSpec) {
	cx := cs.SeqCtx
	call := lg.begin(kRecv, cx)
	n := 0
	broke := false
	var closeCall int64
	for v := range q.Seq(sc.ctxFor(cx)) {
		sc.recvOK.Add(1)
		ret := lg.end()
		lg.record(opRec{Kind: "Recv", Item: v, Ok: true, Call: call, Ret: ret, Ctx: cx, Via: "Seq"})
		n++
		if cs.BreakAfter > 0 && n >= cs.BreakAfter {
			broke = true
			closeCall = lg.begin(kClose, 0)
			break
		}
		call = lg.begin(kRecv, cx)
	}
	sc.closed.Store(true)
	end := lg.end()
	if broke {
		lg.record(opRec{Kind: "Close", Ok: true, Call: closeCall, Ret: end, Via: "Seq"})
		return
	}
	// the iterator ended by itself: its last Recv returned !ok and then it closed the queue. The two
	// are given the same (widened) interval - a relaxation, never a restriction.
	lg.record(opRec{Kind: "Recv", Ok: false, Call: call, Ret: end, Ctx: cx, Via: "Seq"})
	lg.record(opRec{Kind: "Close", Ok: true, Call: call, Ret: end, Via: "Seq"})
}

func (sc *scenario) join(d time.Duration) bool {
	done := make(chan struct{})
	go func() { sc.wg.Wait(); close(done) }()
	t := time.NewTimer(d)
	defer t.Stop()
	select {
	case <-done:
		return true
	case <-t.C:
		return false
	}
}

// withTimeout runs f (a harness-side call into the queue) in a helper goroutine so that a call
// that never returns cannot hang the runner; a panic escaping from the queue is recorded.
func withTimeout(out *outcome, d time.Duration, f func()) bool {
	done := make(chan struct{})
	var finished atomic.Bool
	go func() {
		defer func() {
			if r := recover(); r != nil && out != nil {
				out.addPanic(fmt.Sprintf("main: panic: %v\n%s", r, debug.Stack()))
			}
			finished.Store(true)
			close(done)
		}()
		f()
	}()
	t := time.NewTimer(d)
	defer t.Stop()
	select {
	case <-done:
		return true
	case <-t.C:
		return finished.Load()
	}
}

// collect merges the per-goroutine records (only after every goroutine was joined).
func (sc *scenario) collect(out *outcome) {
	for _, lg := range sc.lgs {
		out.hist = append(out.hist, lg.ops...)
		out.trace = append(out.trace, lg.trace...)
	}
	for i := range out.hist {
		o := &out.hist[i]
		if o.Ctx > 0 {
			o.Cancel = sc.cancelT[o.Ctx-1].Load()
		}
	}
}
