package c22

import (
	"fmt"
	"math/rand"
	"sort"
	"strings"
)

// spec is one generated scenario: a small concurrent program over one queue. It is the replayable
// part of a witness (the schedule itself is only steered - by Seed - not fully determined).
type spec struct {
	Kind  string `json:"kind"`  // "mpmc" | "mpsc"
	Shape string `json:"shape"` // "random", "wake", "fill", "directed-…"
	Seed  int64  `json:"seed"`  // seeds the per-goroutine hook PRNGs
	Cap   int    `json:"cap,omitempty"`
	Ext   int    `json:"ext,omitempty"`

	Prefill   int        `json:"prefill,omitempty"` // items sent by the harness before the goroutines start
	Producers []prodSpec `json:"producers"`
	Consumers []consSpec `json:"consumers"`
	Ctl       []ctlStep  `json:"ctl,omitempty"`
	NCtx      int        `json:"nctx,omitempty"` // number of cancellable contexts

	ParkGatePct int `json:"park_gate_pct"`
	WinYieldPct int `json:"win_yield_pct"`
	WinSleepPct int `json:"win_sleep_pct"`

	// mpsc only
	CloseBy     string `json:"close_by,omitempty"`     // "ctl" (right after the producers are done, concurrently with the consumer) | "harness" (at quiescence)
	OffContract bool   `json:"off_contract,omitempty"` // Close concurrent with Send: outside the documented contract, never judged unless C22_OFFCONTRACT_STRICT=1

	// directed schedules
	WaitHeld            int `json:"wait_held,omitempty"`             // producers/consumers marked WaitHeld start only once this many goroutines are held (bounded wait)
	ReleaseAft          int `json:"release_after,omitempty"`         // controller releases all holds once this many operations have returned (bounded wait)
	CancelBeforeRelease int `json:"cancel_before_release,omitempty"` // context (index+1) cancelled by the controller just before it releases the holds
}

type prodSpec struct {
	Sends      []sendStep `json:"sends"`
	StartGate  int        `json:"start_gate,omitempty"`
	HoldParks  int        `json:"hold_parks,omitempty"`
	HoldPoint  string     `json:"hold_point,omitempty"`
	WaitHeld   bool       `json:"wait_held,omitempty"`
	WaitParked int        `json:"wait_parked,omitempty"` // start only once this many goroutines passed a beforePark hook (bounded wait)
}

type sendStep struct {
	Ctx int `json:"ctx,omitempty"` // index+1 of a cancellable context
}

type consSpec struct {
	Mode       string `json:"mode"` // mpmc: "recv" | "seq" ; mpsc: "script"
	N          int    `json:"n,omitempty"`
	Ctxs       []int  `json:"ctxs,omitempty"`        // per Recv: index+1 of a cancellable context (0 = background)
	BreakAfter int    `json:"break_after,omitempty"` // seq: break (closing the queue) after this many items, 0 = never
	SeqCtx     int    `json:"seq_ctx,omitempty"`
	Script     []cOp  `json:"script,omitempty"` // mpsc
	StartGate  int    `json:"start_gate,omitempty"`
	HoldParks  int    `json:"hold_parks,omitempty"`
	WaitHeld   bool   `json:"wait_held,omitempty"`
}

type cOp struct {
	Op  string `json:"op"` // "recv" | "try" | "seq"
	Ctx int    `json:"ctx,omitempty"`
	N   int    `json:"n,omitempty"` // seq: break after n items (0 = run to the end)
}

type ctlStep struct {
	After int    `json:"after"` // progress-event threshold (bounded wait)
	Act   string `json:"act"`   // "cancel" | "grow" | "close" | "release"
	Arg   int    `json:"arg,omitempty"`
}

func (sp *spec) totalSends() int {
	n := sp.Prefill
	for _, p := range sp.Producers {
		n += len(p.Sends)
	}
	return n
}

func (sp *spec) hasGrow() bool {
	for _, s := range sp.Ctl {
		if s.Act == "grow" {
			return true
		}
	}
	return false
}

// capBound is an upper bound of the capacity the queue can ever reach (0 = unbounded): every
// automatic extension doubles it, at most Ext times; Grow(n) raises it to n.
func (sp *spec) capBound() int {
	if sp.Kind != "mpmc" || sp.Ext < 0 {
		return 0
	}
	b := sp.Cap
	for _, s := range sp.Ctl {
		if s.Act == "grow" && s.Arg > b && s.Arg&(s.Arg-1) == 0 {
			b = s.Arg
		}
	}
	return b << uint(sp.Ext)
}

// shapeSig is the generation-side part of a case signature.
func (sp *spec) shapeSig() string {
	var sends []string
	for _, p := range sp.Producers {
		sends = append(sends, fmt.Sprint(len(p.Sends)))
	}
	var cons []string
	for _, c := range sp.Consumers {
		switch c.Mode {
		case "seq":
			cons = append(cons, fmt.Sprintf("q%d/%d", c.N, c.BreakAfter))
		case "script":
			var b strings.Builder
			for _, o := range c.Script {
				b.WriteString(o.Op[:1])
			}
			cons = append(cons, b.String())
		default:
			cons = append(cons, fmt.Sprint(c.N))
		}
	}
	var acts []string
	for _, s := range sp.Ctl {
		acts = append(acts, s.Act[:2])
	}
	sort.Strings(acts)
	return fmt.Sprintf("%s/%s c%d e%d pre%d P[%s] C[%s] ctl[%s] ctx%d", sp.Kind, sp.Shape, sp.Cap, sp.Ext, sp.Prefill,
		strings.Join(sends, ","), strings.Join(cons, ","), strings.Join(acts, ","), sp.NCtx)
}

func pick[T any](r *rand.Rand, xs ...T) T { return xs[r.Intn(len(xs))] }

func genIntensity(r *rand.Rand, sp *spec) {
	sp.ParkGatePct = pick(r, 0, 20, 40, 60, 80)
	sp.WinYieldPct = pick(r, 0, 10, 25, 40)
	sp.WinSleepPct = pick(r, 0, 5, 15, 30)
}

// genMPMC draws one random scenario for the bounded MPMC queue (≤ ~24 operations in the concurrent
// phase). Three shapes: "random" (everything mixed), "wake" (more receive demand than items: ends
// with parked receivers), "fill" (more items than capacity and receive demand, no growth: ends with
// parked senders).
func genMPMC(r *rand.Rand) *spec {
	sp := &spec{Kind: "mpmc", Seed: r.Int63()}
	genIntensity(r, sp)
	sp.Cap = pick(r, 2, 2, 4, 8)
	sp.Ext = pick(r, 0, 0, 2, -1)
	sp.Shape = pick(r, "random", "random", "wake", "wake", "fill")
	nP := 1 + r.Intn(4)
	nC := 1 + r.Intn(3)
	budget := 24

	var totalSend, totalRecv int
	switch sp.Shape {
	case "wake":
		if nC < 2 && r.Intn(4) != 0 {
			nC = 2 + r.Intn(2)
		}
		totalSend = 1 + r.Intn(6)
		totalRecv = totalSend + r.Intn(2*nC+1)
		if sp.Cap == 2 && r.Intn(2) == 0 {
			sp.Ext = pick(r, 0, -1)
		}
	case "fill":
		sp.Ext = 0
		if nP < 2 && r.Intn(4) != 0 {
			nP = 2 + r.Intn(3)
		}
		totalRecv = r.Intn(6)
		totalSend = sp.Cap + totalRecv + r.Intn(nP+1)
		if totalSend > 14 {
			totalSend = 14
		}
	default:
		totalSend = 1 + r.Intn(10)
		totalRecv = r.Intn(12)
	}
	if totalSend < nP {
		nP = totalSend
	}
	if totalSend+totalRecv > budget {
		totalRecv = budget - totalSend
	}
	if r.Intn(5) == 0 && sp.Cap >= 2 {
		sp.Prefill = r.Intn(sp.Cap + 1)
		if sp.Prefill > totalSend-nP {
			sp.Prefill = 0
		}
	}

	// distribute sends
	sp.Producers = make([]prodSpec, nP)
	left := totalSend - sp.Prefill
	for i := range sp.Producers {
		sp.Producers[i].Sends = append(sp.Producers[i].Sends, sendStep{})
		left--
	}
	for ; left > 0; left-- {
		i := r.Intn(nP)
		sp.Producers[i].Sends = append(sp.Producers[i].Sends, sendStep{})
	}
	// distribute receives
	sp.Consumers = make([]consSpec, nC)
	for i := range sp.Consumers {
		sp.Consumers[i].Mode = "recv"
	}
	for k := 0; k < totalRecv; k++ {
		sp.Consumers[r.Intn(nC)].N++
	}
	for i := range sp.Consumers {
		c := &sp.Consumers[i]
		c.Ctxs = make([]int, c.N)
		if sp.Shape == "random" && r.Intn(8) == 0 {
			c.Mode = "seq"
			if c.N == 0 {
				c.N = 1 + r.Intn(3)
			}
			if r.Intn(2) == 0 {
				c.BreakAfter = 1 + r.Intn(c.N)
			}
		}
	}

	// cancellable contexts (not in the pure wake/fill shapes half of the time, so that their final
	// states are decided by wake-ups alone)
	cancelPct := pick(r, 0, 0, 15, 30)
	if sp.Shape != "random" && r.Intn(2) == 0 {
		cancelPct = 0
	}
	newCtx := func() int { sp.NCtx++; return sp.NCtx }
	for i := range sp.Producers {
		for j := range sp.Producers[i].Sends {
			if r.Intn(100) < cancelPct {
				sp.Producers[i].Sends[j].Ctx = newCtx()
			}
		}
	}
	for i := range sp.Consumers {
		c := &sp.Consumers[i]
		if c.Mode == "seq" {
			if r.Intn(100) < cancelPct {
				c.SeqCtx = newCtx()
			}
			continue
		}
		for j := range c.Ctxs {
			if r.Intn(100) < cancelPct {
				c.Ctxs[j] = newCtx()
			}
		}
	}

	// start skew
	for i := range sp.Producers {
		sp.Producers[i].StartGate = pick(r, 0, 0, 1, 2, 4)
		if sp.Shape == "wake" {
			sp.Producers[i].StartGate = pick(r, 1, 2, 4, 6)
		}
	}
	for i := range sp.Consumers {
		sp.Consumers[i].StartGate = pick(r, 0, 0, 1, 2)
		if sp.Shape == "fill" {
			sp.Consumers[i].StartGate = pick(r, 2, 4, 8)
		}
	}

	// controller script
	expected := 2*(totalSend+totalRecv) + 4
	for k := 1; k <= sp.NCtx; k++ {
		if r.Intn(4) != 0 { // a quarter of the contexts is never cancelled
			sp.Ctl = append(sp.Ctl, ctlStep{After: r.Intn(expected + 1), Act: "cancel", Arg: k})
		}
	}
	if sp.Shape == "random" || r.Intn(6) == 0 {
		if r.Intn(3) == 0 {
			sp.Ctl = append(sp.Ctl, ctlStep{After: r.Intn(expected + 1), Act: "grow", Arg: pick(r, sp.Cap, sp.Cap*2, sp.Cap*4, 3, 0, 16)})
		}
		if r.Intn(3) == 0 {
			sp.Ctl = append(sp.Ctl, ctlStep{After: r.Intn(expected + 1), Act: "close"})
		}
	}
	sort.SliceStable(sp.Ctl, func(i, j int) bool { return sp.Ctl[i].After < sp.Ctl[j].After })
	return sp
}

// genMPSC draws one random scenario for the accumulator: 1–4 producers, exactly one consumer.
func genMPSC(r *rand.Rand) *spec {
	sp := &spec{Kind: "mpsc", Shape: "random", Seed: r.Int63()}
	genIntensity(r, sp)
	nP := 1 + r.Intn(4)
	totalSend := nP + r.Intn(10)
	sp.Producers = make([]prodSpec, nP)
	for i := range sp.Producers {
		sp.Producers[i].Sends = append(sp.Producers[i].Sends, sendStep{})
		sp.Producers[i].StartGate = pick(r, 0, 0, 1, 2, 4)
	}
	for left := totalSend - nP; left > 0; left-- {
		i := r.Intn(nP)
		sp.Producers[i].Sends = append(sp.Producers[i].Sends, sendStep{})
	}
	cancelPct := pick(r, 0, 0, 20, 40)
	nOps := 1 + r.Intn(totalSend+3)
	cs := consSpec{Mode: "script", StartGate: pick(r, 0, 0, 1, 3)}
	for k := 0; k < nOps; k++ {
		var o cOp
		switch x := r.Intn(10); {
		case x < 5:
			o.Op = "recv"
		case x < 8:
			o.Op = "try"
		default:
			o.Op = "seq"
			o.N = r.Intn(4) // 0 = to the end
		}
		if o.Op != "try" && r.Intn(100) < cancelPct {
			sp.NCtx++
			o.Ctx = sp.NCtx
		}
		cs.Script = append(cs.Script, o)
	}
	sp.Consumers = []consSpec{cs}
	sp.CloseBy = pick(r, "ctl", "ctl", "harness")
	expected := 2*(totalSend+nOps) + 4
	for k := 1; k <= sp.NCtx; k++ {
		if r.Intn(4) != 0 {
			sp.Ctl = append(sp.Ctl, ctlStep{After: r.Intn(expected + 1), Act: "cancel", Arg: k})
		}
	}
	sort.SliceStable(sp.Ctl, func(i, j int) bool { return sp.Ctl[i].After < sp.Ctl[j].After })
	if r.Intn(10) == 0 {
		sp.OffContract = true
		sp.Shape = "offcontract"
		sp.CloseBy = "ctl"
	}
	return sp
}

// ---- directed schedules (scripted with holds at the yield points) -------------------------------

// directedRecvWindow: nC receivers call Recv on an empty queue and are held at
// mpmc.recv.beforePark (after they saw "empty", before they select on the token channel); then the
// producers complete nS ≥ nC sends; then the receivers are released. A FIFO channel would hand an
// item to every receiver.
func directedRecvWindow(r *rand.Rand, nC, nS int) *spec {
	sp := &spec{Kind: "mpmc", Shape: fmt.Sprintf("directed-recv-window-%dx%d", nC, nS), Seed: r.Int63(),
		Cap: pick(r, 2, 4, 8), Ext: pick(r, 0, 2, -1)}
	if nS > sp.Cap && sp.Ext == 0 {
		sp.Cap = 8
	}
	for i := 0; i < nC; i++ {
		sp.Consumers = append(sp.Consumers, consSpec{Mode: "recv", N: 1, Ctxs: []int{0}, HoldParks: 1})
	}
	nP := 1 + r.Intn(2)
	if nP > nS {
		nP = nS
	}
	sp.Producers = make([]prodSpec, nP)
	for k := 0; k < nS; k++ {
		sp.Producers[k%nP].Sends = append(sp.Producers[k%nP].Sends, sendStep{})
	}
	for i := range sp.Producers {
		sp.Producers[i].WaitHeld = true
	}
	sp.WaitHeld = nC
	sp.ReleaseAft = nS
	sp.Ctl = []ctlStep{{Act: "release"}}
	return sp
}

// directedSendWindow: the queue (no growth) is pre-filled; nP senders call Send and are held at
// mpmc.send.beforePark; then the consumers complete nR ≥ nP receives; then the senders are released.
func directedSendWindow(r *rand.Rand, nP, nR int) *spec {
	sp := &spec{Kind: "mpmc", Shape: fmt.Sprintf("directed-send-window-%dx%d", nP, nR), Seed: r.Int63(),
		Cap: pick(r, 2, 4, 8), Ext: 0}
	if nR > sp.Cap {
		sp.Cap = 8
	}
	sp.Prefill = sp.Cap
	for i := 0; i < nP; i++ {
		sp.Producers = append(sp.Producers, prodSpec{Sends: []sendStep{{}}, HoldParks: 1})
	}
	nC := 1 + r.Intn(2)
	if nC > nR {
		nC = nR
	}
	sp.Consumers = make([]consSpec, nC)
	for i := range sp.Consumers {
		sp.Consumers[i].Mode = "recv"
		sp.Consumers[i].WaitHeld = true
	}
	for k := 0; k < nR; k++ {
		c := &sp.Consumers[k%nC]
		c.N++
		c.Ctxs = append(c.Ctxs, 0)
	}
	sp.WaitHeld = nP
	sp.ReleaseAft = nR
	sp.Ctl = []ctlStep{{Act: "release"}}
	return sp
}

// directedStalledPublisher: two receivers wait on the empty queue; sender A claims a slot and is
// held at mpmc.send.claimed (before publishing); sender B publishes the next slot and returns; then A
// is released. Both items are available afterwards and both receivers must end up with one.
func directedStalledPublisher(r *rand.Rand) *spec {
	sp := &spec{Kind: "mpmc", Shape: "directed-stalled-publisher", Seed: r.Int63(), Cap: pick(r, 2, 4, 8), Ext: pick(r, 0, -1)}
	sp.Consumers = []consSpec{
		{Mode: "recv", N: 1, Ctxs: []int{0}},
		{Mode: "recv", N: 1, Ctxs: []int{0}},
	}
	sp.Producers = []prodSpec{
		{Sends: []sendStep{{}}, HoldPoint: "mpmc.send.claimed", WaitParked: 2},
		{Sends: []sendStep{{}}, WaitHeld: true},
	}
	sp.WaitHeld = 1
	sp.ReleaseAft = 1 // B's send returned
	sp.Ctl = []ctlStep{{Act: "release"}}
	sp.ParkGatePct = 0
	return sp
}

// directedSendWindowCancel: as directedSendWindow with two senders, but the first sender's context is
// cancelled just before the release: a sender that consumed the wake-up token and then leaves
// because of its context must not strand the other sender while slots are free.
func directedSendWindowCancel(r *rand.Rand) *spec {
	sp := directedSendWindow(r, 2, 2)
	sp.Shape = "directed-send-window-cancel"
	sp.NCtx = 1
	sp.Producers[0].Sends[0].Ctx = 1
	sp.CancelBeforeRelease = 1
	return sp
}
