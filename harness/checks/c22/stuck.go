package c22

import (
	"fmt"
	"runtime"
	"strconv"
	"strings"
	"sync"
	"sync/atomic"
	"time"
)

// ---------------------------------------------------------------------------------------------
// M-stuck: a LOGICAL stuck-state criterion.
//
// A scenario is "settled" when every goroutine of it (producers, consumers, controller) has either
// finished its script or is, according to a goroutine dump (runtime.Stack(all) - a consistent
// stop-the-world snapshot), in a WAITING state (select / semacquire / …, never runnable, running
// or sleeping) with its innermost non-runtime frame inside the queue package. No timers or
// cancellers of the scenario are pending at that point (the controller has finished, contexts have
// no deadlines), and the runner itself does nothing. Hence nobody is left who could send a wake-up
// token: whatever is parked now stays parked until the harness acts. Several consecutive samples
// with an unchanged history clock are required for robustness, but the criterion is not one of
// elapsed time.
// ---------------------------------------------------------------------------------------------

type gInfo struct {
	status string
	frames []string
	raw    string
}

var dumpPool = sync.Pool{New: func() any { b := make([]byte, 512<<10); return &b }}

var dumpsTaken, dumpNanos, dumpBytes, snapshotsShared atomic.Int64

// snapshot is one parsed runtime.Stack(all) dump. Stop-the-world dumps cost milliseconds on the
// build machines, so concurrent runners share them: a runner asks for a snapshot that STARTED after
// the moment of its request, and whoever holds the lock first takes it for everybody waiting.
type snapshot struct {
	started time.Time
	infos   map[int64]gInfo
}

var (
	snapMu   sync.Mutex
	lastSnap *snapshot
)

func getSnapshot(notBefore time.Time) *snapshot {
	snapMu.Lock()
	defer snapMu.Unlock()
	if lastSnap != nil && lastSnap.started.After(notBefore) {
		snapshotsShared.Add(1)
		return lastSnap
	}
	s := &snapshot{started: time.Now()}
	s.infos = dumpGoroutines()
	dumpNanos.Add(int64(time.Since(s.started)))
	lastSnap = s
	return s
}

func dumpGoroutines() map[int64]gInfo {
	dumpsTaken.Add(1)
	bp := dumpPool.Get().(*[]byte)
	buf := *bp
	var n int
	for {
		n = runtime.Stack(buf, true)
		if n < len(buf) {
			break
		}
		buf = make([]byte, 2*len(buf))
	}
	*bp = buf
	dumpBytes.Add(int64(n))
	res := map[int64]gInfo{}
	s := string(buf[:n])
	dumpPool.Put(bp)
	for _, blk := range strings.Split(s, "\n\n") {
		if !strings.HasPrefix(blk, "goroutine ") {
			continue
		}
		nl := strings.IndexByte(blk, '\n')
		head := blk
		if nl >= 0 {
			head = blk[:nl]
		}
		sp := strings.IndexByte(head[10:], ' ')
		if sp < 0 {
			continue
		}
		id, err := strconv.ParseInt(head[10:10+sp], 10, 64)
		if err != nil {
			continue
		}
		lb, rb := strings.IndexByte(head, '['), strings.LastIndexByte(head, ']')
		status := ""
		if lb >= 0 && rb > lb {
			status = head[lb+1 : rb]
			if c := strings.IndexByte(status, ','); c >= 0 {
				status = status[:c]
			}
		}
		var frames []string
		if nl >= 0 {
			for _, ln := range strings.Split(blk[nl+1:], "\n") {
				if ln == "" || ln[0] == '\t' || strings.HasPrefix(ln, "created by ") {
					continue
				}
				frames = append(frames, ln)
			}
		}
		res[id] = gInfo{status: status, frames: frames, raw: blk}
	}
	return res
}

var waitingStatus = map[string]bool{
	"select": true, "chan receive": true, "chan send": true, "semacquire": true,
	"sync.Mutex.Lock": true, "sync.RWMutex.RLock": true, "sync.RWMutex.Lock": true,
	"sync.Cond.Wait": true, "select (no cases)": true, "sync.WaitGroup.Wait": true,
	"chan receive (nil chan)": true, "chan send (nil chan)": true,
}

func topUserFrame(frames []string) string {
	for _, f := range frames {
		if strings.HasPrefix(f, "runtime.") || strings.HasPrefix(f, "sync.") || strings.HasPrefix(f, "internal/") ||
			strings.HasPrefix(f, "sync/atomic.") || strings.HasPrefix(f, "context.") {
			continue
		}
		return f
	}
	return ""
}

func classifyFrame(f string) string {
	switch {
	case strings.Contains(f, "internal/containers/mpmc.(*Queue[") && strings.Contains(f, "]).Recv("):
		return "mpmc.Recv"
	case strings.Contains(f, "internal/containers/mpmc.(*Queue[") && strings.Contains(f, "]).Send("):
		return "mpmc.Send"
	case strings.Contains(f, "internal/containers/mpsc.(*Accumulator[") && strings.Contains(f, "]).Recv("):
		return "mpsc.Recv"
	case strings.Contains(f, "internal/containers/mpmc.") || strings.Contains(f, "internal/containers/mpsc."):
		return "queue-other"
	}
	return ""
}

// sample returns (settled, parked set). settled=false when some unfinished goroutine is not (yet)
// waiting inside the queue package.
func (sc *scenario) sample() (bool, []parkedInfo, string) {
	var live []*lgor
	for _, lg := range sc.lgs[1:] {
		if lg.state.Load() == stDone {
			continue
		}
		id := lg.goid.Load()
		if id == 0 {
			return false, nil, ""
		}
		live = append(live, lg)
	}
	if len(live) == 0 {
		return true, nil, ""
	}
	infos := getSnapshot(time.Now()).infos
	var parked []parkedInfo
	var excerpt strings.Builder
	for _, lg := range live {
		gi, ok := infos[lg.goid.Load()]
		if !ok {
			// finished between the state check and the dump
			if lg.state.Load() == stDone {
				continue
			}
			return false, nil, ""
		}
		if !waitingStatus[gi.status] {
			return false, nil, ""
		}
		in := classifyFrame(topUserFrame(gi.frames))
		if in == "" {
			return false, nil, ""
		}
		pi := parkedInfo{G: lg.idx, Role: lg.role, Status: gi.status, In: in, Ctx: int(lg.curCtx.Load())}
		if pi.Ctx > 0 {
			if sc.cancelT[pi.Ctx-1].Load() != 0 {
				pi.CtxState = "cancelled"
			} else {
				pi.CtxState = "live"
			}
		}
		parked = append(parked, pi)
		if excerpt.Len() < 6000 {
			raw := gi.raw
			if len(raw) > 1500 {
				raw = raw[:1500] + "…"
			}
			excerpt.WriteString(raw)
			excerpt.WriteString("\n\n")
		}
	}
	return true, parked, excerpt.String()
}

func sameParked(a, b []parkedInfo) bool {
	if len(a) != len(b) {
		return false
	}
	for i := range a {
		if a[i] != b[i] {
			return false
		}
	}
	return true
}

const stuckSamples = 3

// awaitQuiescence waits (bounded by wall clock → inconclusive, never a verdict) for the logically
// stable state and returns what holds there.
func (sc *scenario) awaitQuiescence(sizeCap func() (int, int, bool)) (*quiesceFacts, string) {
	deadline := time.Now().Add(5 * time.Second)
	for iter := 0; ; iter++ {
		allDone, hinted := true, true
		for _, lg := range sc.lgs[1:] {
			st := lg.state.Load()
			if st != stDone {
				allDone = false
				if st != stParkHint {
					hinted = false
				}
			}
		}
		if allDone {
			return &quiesceFacts{Stamp: sc.clock.Load(), AllDone: true, Closed: sc.closed.Load(),
				SentOK: int(sc.sentOK.Load()), RecvOK: int(sc.recvOK.Load())}, ""
		}
		if hinted {
			clk := sc.clock.Load()
			ok, parked, excerpt := sc.sample()
			n := 1
			for ok && n < stuckSamples {
				time.Sleep(50 * time.Microsecond)
				ok2, parked2, _ := sc.sample()
				if !ok2 || sc.clock.Load() != clk || !sameParked(parked, parked2) {
					ok = false
					break
				}
				n++
			}
			if ok && len(parked) == 0 {
				continue // everybody finished meanwhile
			}
			if ok {
				size, capy, got := sizeCap()
				if sc.clock.Load() != clk {
					continue
				}
				f := &quiesceFacts{Stamp: clk, Closed: sc.closed.Load(), SentOK: int(sc.sentOK.Load()),
					RecvOK: int(sc.recvOK.Load()), Size: size, Capacity: capy, Parked: parked, Samples: n, DumpExcerpt: excerpt}
				if !got {
					return f, "Size/Capacity did not return at the stable state"
				}
				return f, ""
			}
			time.Sleep(200 * time.Microsecond) // not settled yet: do not storm the process with stop-the-world dumps
		}
		if time.Now().After(deadline) {
			return nil, "stable state not reached within the watchdog"
		}
		if iter < 20 {
			pause(20 * time.Microsecond)
		} else {
			time.Sleep(100 * time.Microsecond)
		}
	}
}

// judgeStuck turns the facts of the stable state into stuck-state violations. It uses only
// harness-side knowledge for "item available" (sends that returned true minus receives that
// returned true - nothing is in flight at the stable state) and for "slot free".
func judgeStuck(sp *spec, f *quiesceFacts) (stuck []stuckFact, legal int) {
	if f == nil || f.AllDone {
		return nil, 0
	}
	outstanding := f.SentOK - f.RecvOK
	for _, p := range f.Parked {
		switch {
		case p.In == "queue-other":
			// blocked inside Close / Grow / Size / ... (operations that are documented not to wait for
			// anything but the internal lock) while nothing else can run. How a Recv/Send waits
			// (select, plain channel receive, condition variable) is deliberately NOT judged.
			stuck = append(stuck, stuckFact{FindingClass: "deadlock", Who: p,
				What: fmt.Sprintf("%s is blocked (%s) inside the queue package, outside Send/Recv, while no goroutine of the scenario can run", p.Role, p.Status)})
		case f.Closed:
			stuck = append(stuck, stuckFact{FindingClass: "closed", Who: p,
				What: fmt.Sprintf("%s is still parked in %s although Close has returned", p.Role, p.In)})
		case p.CtxState == "cancelled":
			stuck = append(stuck, stuckFact{FindingClass: "cancelled", Who: p,
				What: fmt.Sprintf("%s is still parked in %s although its context was cancelled", p.Role, p.In)})
		case (p.In == "mpmc.Recv" || p.In == "mpsc.Recv") && outstanding > 0:
			cl := "recv"
			if p.In == "mpsc.Recv" {
				cl = "mpsc-recv"
			}
			stuck = append(stuck, stuckFact{FindingClass: cl, Who: p,
				What: fmt.Sprintf("%s is parked in %s while %d item(s) are available (sent ok=%d, received=%d, Size()=%d) and no goroutine is left that could wake it",
					p.Role, p.In, outstanding, f.SentOK, f.RecvOK, f.Size)})
		case p.In == "mpmc.Send" && !sp.hasGrow() && sp.Ext >= 0 && outstanding < sp.Cap<<uint(sp.Ext):
			stuck = append(stuck, stuckFact{FindingClass: "send", Who: p,
				What: fmt.Sprintf("%s is parked in %s while only %d of %d slots are occupied (Size()=%d Capacity()=%d) and no goroutine is left that could wake it",
					p.Role, p.In, outstanding, sp.Cap<<uint(sp.Ext), f.Size, f.Capacity)})
		case p.In == "mpmc.Send" && sp.hasGrow() && f.Capacity > 0 && outstanding < f.Capacity:
			// Grow enlarged the buffer while a sender was parked; the documentation does not promise
			// that Grow wakes senders ("parks ... until a Recv frees a slot"), so this is not judged.
			growNotJudged.Add(1)
			legal++
		default:
			legal++
		}
	}
	return stuck, legal
}

var growNotJudged atomic.Int64
