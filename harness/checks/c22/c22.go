// Package c22 decides property C22 "Internal concurrent queues behave like FIFO channels" by
// observing many short concurrent executions of the real mpmc.Queue and mpsc.Accumulator:
// client-boundary histories are checked for linearizability against sequential models written
// from the documentation (porcupine), for conservation / exactly-once / per-producer order, and a
// logical stuck-state oracle (goroutine dumps, not elapsed time) decides lost wake-ups.
package c22

import (
	"encoding/json"
	"fmt"
	"hash/fnv"
	"os"
	"runtime"
	"runtime/debug"
	"sort"
	"strings"
	"sync"
	"sync/atomic"

	"github.com/anishathalye/porcupine"
	"github.com/openfga/openfga/internal/verifhook"
	"github.com/openfga/openfga/verifharness/vk"
)

const (
	findingRecv = "C22-mpmc-lost-wakeup-recv"
	findingSend = "C22-mpmc-lost-wakeup-send"
)

func init() { vk.Register("C22", "exploration", run) }

type job struct {
	sp    *spec
	group string // evidence bucket for interleaving diversity of a fixed program
}

func run(c *vk.Ctx) {
	c.RaceAnchors = []string{"internal/containers/mpmc", "internal/containers/mpsc"}
	c.SetRule("Each case is one short concurrent program (≤ ~24 operations in the concurrent phase, plus a sequential close/drain/probe " +
		"epilogue by the harness) over one real mpmc.Queue (capacity 2/4/8, extensions 0/2/unlimited, 1–4 producers, 1–3 consumers, Recv or Seq, " +
		"Grow, Close, per-operation cancellable contexts) or one real mpsc.Accumulator (1–4 producers, exactly one consumer running a script of " +
		"Recv/TryRecv/Seq, Close only after the producers are done). Programs are drawn from per-case PRNG streams (shapes: random, wake = more " +
		"receive demand than items, fill = more items than capacity, directed = scripted holds at the yield points); the schedule is steered by " +
		"seeded Gosched/sleep/gates injected at the verifhook yield points. A case is non-trivial when operations of different goroutines " +
		"overlapped in time; its signature is the program shape plus the observed outcome features (parks, growth, close, cancellations, " +
		"legally parked goroutines at the stable state).")
	c.Assume("porcupine v1.3.0 decides linearizability of the recorded history correctly; histories use one atomic counter stamped before the call and after the return")
	c.Assume("runtime.Stack(all=true) is a consistent snapshot and reports a goroutine as waiting ([select]/[semacquire]/…) only while it is parked")
	c.Assume("the verifhook yield points are the only instrumentation inside the queues; the injected delays do not change their semantics")
	c.Assume("mpsc: Close is invoked only after every producer returned from Send (documented precondition); Close concurrent with Send is exercised but not judged")

	if errs := oracleSelfTest(); len(errs) > 0 {
		for _, e := range errs {
			c.HarnessError("oracle self-test: %s", e)
		}
		return
	}
	c.Count("oracle_selftest_histories", 27)

	verifhook.SetYield(yieldHook)
	defer verifhook.SetYield(nil)

	if c.Replay != "" {
		replay(c)
		return
	}

	var jobs []job
	// directed schedules
	dr := c.Rand("directed")
	reps := c.Pick(5, 40)
	for k := 0; k < reps; k++ {
		for _, nc := range []int{2, 3} {
			for _, extra := range []int{0, 1} {
				jobs = append(jobs, job{sp: directedRecvWindow(dr, nc, nc+extra)})
				jobs = append(jobs, job{sp: directedSendWindow(dr, nc, nc+extra)})
			}
		}
		jobs = append(jobs, job{sp: directedStalledPublisher(dr)})
		for x := 0; x < 4; x++ {
			jobs = append(jobs, job{sp: directedSendWindowCancel(dr)})
		}
	}
	// fixed programs run repeatedly with different schedule seeds (measures schedule diversity)
	fixedReps := c.Pick(40, 300)
	for f := 0; f < 3; f++ {
		fr := c.Rand(fmt.Sprintf("fixed-%d", f))
		var base *spec
		if f < 2 {
			base = genMPMC(fr)
		} else {
			base = genMPSC(fr)
		}
		base.ParkGatePct, base.WinYieldPct, base.WinSleepPct = 40, 25, 15
		for k := 0; k < fixedReps; k++ {
			cp := *base
			cp.Seed = fr.Int63()
			jobs = append(jobs, job{sp: &cp, group: fmt.Sprintf("fixed_program_%d", f)})
		}
	}
	nMPMC := c.Pick(4000, 100000)
	nMPSC := c.Pick(1200, 30000)
	for i := 0; i < nMPMC; i++ {
		jobs = append(jobs, job{sp: genMPMC(c.Rand(fmt.Sprintf("mpmc-%d", i)))})
	}
	for i := 0; i < nMPSC; i++ {
		jobs = append(jobs, job{sp: genMPSC(c.Rand(fmt.Sprintf("mpsc-%d", i)))})
	}

	runJobs(c, jobs)
	c.Extra("max_ops_in_one_concurrent_phase", maxOps.Load())
	c.Count("goroutine_dumps_taken", int(dumpsTaken.Load()))
	c.Count("not_judged_sender_parked_with_free_slots_after_Grow", int(growNotJudged.Load()))
	c.Extra("goroutine_dump_total_ms", dumpNanos.Load()/1e6)
	c.Count("goroutine_dump_reused_by_another_runner", int(snapshotsShared.Load()))
	c.Extra("goroutine_dump_total_bytes", dumpBytes.Load())
	c.Extra("goroutines_at_end", runtime.NumGoroutine())
}

var abandonedTotal atomic.Int32
var maxOps atomic.Int32

func runJobs(c *vk.Ctx, jobs []job) {
	workers := 8
	if v := os.Getenv("C22_WORKERS"); v != "" {
		fmt.Sscan(v, &workers)
	}
	ch := make(chan job)
	var wg sync.WaitGroup
	for w := 0; w < workers; w++ {
		wg.Add(1)
		go func() {
			defer wg.Done()
			for j := range ch {
				runOne(c, j)
			}
		}()
	}
	cut := false
	for i, j := range jobs {
		if abandonedTotal.Load() >= 3 {
			cut = true
			c.Inconclusive(fmt.Sprintf("exploration cut short after %d of %d cases: goroutines had to be abandoned", i, len(jobs)))
			c.HarnessError("exploration cut short after %d of %d cases: operations of the queue under test neither returned nor parked (see the inconclusive reasons); the bounded workload was not completed", i, len(jobs))
			break
		}
		ch <- j
		if (i+1)%1000 == 0 {
			c.Logf("%d/%d cases, %d violations so far", i+1, len(jobs), c.Violations())
		}
	}
	close(ch)
	wg.Wait()
	_ = cut
}

func runOne(c *vk.Ctx, j job) {
	defer func() {
		if r := recover(); r != nil {
			st := string(debug.Stack())
			if strings.Contains(st, "internal/containers/mp") {
				c.Violation("", "panic:runner:"+fmt.Sprint(r), fmt.Sprintf("panic escaped from the queue into the harness runner: %v", r), map[string]any{"spec": j.sp, "stack": st})
			} else {
				c.HarnessError("runner panicked: %v\n%s", r, st)
			}
		}
	}()
	var out *outcome
	if j.sp.Kind == "mpmc" {
		out = runMPMC(j.sp)
	} else {
		out = runMPSC(j.sp)
	}
	process(c, j, out)
}

type witness struct {
	Spec    *spec         `json:"spec"`
	Facts   *quiesceFacts `json:"stable_state,omitempty"`
	Stuck   []stuckFact   `json:"stuck,omitempty"`
	History []opRec       `json:"history,omitempty"`
	Trace   []string      `json:"yield_trace,omitempty"`
	Note    string        `json:"note,omitempty"`
	Detail  string        `json:"detail,omitempty"`
}

func renderTrace(sp *spec, tr []traceEv, roles map[int]string) []string {
	out := make([]string, 0, len(tr))
	for _, e := range tr {
		s := fmt.Sprintf("%7dns %-4s %s", e.Nano, roles[e.G], e.Point)
		if e.Stamp != 0 {
			s += fmt.Sprintf(" @%d", e.Stamp)
		}
		out = append(out, s)
	}
	return out
}

func process(c *vk.Ctx, j job, out *outcome) {
	sp := out.sp
	kind := sp.Kind
	c.Count("cases_"+kind, 1)
	for _, r := range out.inconcl {
		c.Inconclusive(kind + ": " + r)
	}
	if out.abandoned {
		abandonedTotal.Add(1)
	}
	strictOff := os.Getenv("C22_OFFCONTRACT_STRICT") == "1"
	judgeThis := !sp.OffContract || strictOff

	sort.SliceStable(out.hist, func(a, b int) bool { return out.hist[a].Call < out.hist[b].Call })
	sort.SliceStable(out.trace, func(a, b int) bool { return out.trace[a].Nano < out.trace[b].Nano })
	roles := map[int]string{}
	for _, o := range out.hist {
		roles[o.Cid] = o.Client
	}
	for _, e := range out.trace {
		if _, ok := roles[e.G]; !ok {
			roles[e.G] = fmt.Sprintf("g%d", e.G)
		}
	}
	mkWitness := func(note, detail string) witness {
		return witness{Spec: sp, Facts: out.judged, Stuck: out.stuck, History: out.hist, Trace: renderTrace(sp, out.trace, roles), Note: note, Detail: detail}
	}
	report := func(findingID, key, what string, w witness) {
		if !judgeThis {
			c.Count("mpsc_offcontract_anomalies_not_judged", 1)
			return
		}
		c.Violation(findingID, key, what, w)
	}

	// ---- escaped panics
	for _, p := range out.panics {
		first := p
		if i := strings.IndexByte(p, '\n'); i > 0 {
			first = p[:i]
		}
		report("", "panic:"+kind+":"+first, "panic escaped from the queue: "+first, mkWitness("panic", p))
	}

	// ---- oracle 3: stuck states
	if out.judged != nil {
		if out.judged.AllDone {
			c.Count("stable_states_everything_returned", 1)
		} else {
			c.Count("stable_states_with_parked_goroutines", 1)
			c.Count("goroutine_dump_samples", out.judged.Samples)
		}
		stuck, legal := judgeStuck(sp, out.judged)
		out.stuck = stuck
		out.parkedLegal = legal
		c.Count("parked_legally_at_stable_state", legal)
		for _, s := range stuck {
			id := ""
			tag := "other"
			switch s.FindingClass {
			case "recv":
				if len(out.trace) > 0 && otherWokeDuring(out.trace, s.Who.G, "mpmc.recv.beforePark", out.judged.Stamp) {
					id, tag = findingRecv, "2recv"
				}
			case "send":
				if len(out.trace) > 0 && otherWokeDuring(out.trace, s.Who.G, "mpmc.send.beforePark", out.judged.Stamp) {
					id, tag = findingSend, "2send"
				}
			}
			c.Count("stuck_"+s.FindingClass+"_"+tag, 1)
			what := "lost wake-up / stuck state: " + s.What
			if id != "" {
				what += " [single-token wake-up channel: another goroutine of the same side consumed a token while this one was between its empty/full check and its park]"
			}
			report(id, fmt.Sprintf("stuck:%s:%s:%s", s.FindingClass, tag, shapeClass(sp)), what, mkWitness("stuck-state oracle", ""))
		}
	}

	if out.abandoned {
		c.Case(sp.shapeSig()+" | abandoned", false)
		return
	}

	// ---- oracle 1: linearizability
	res := checkLinearizable(kind, sp.capBound(), out.hist)
	c.Count("porcupine_"+string(res), 1)
	switch res {
	case porcupine.Illegal:
		report("", "lin:"+kind+":"+shapeClass(sp), fmt.Sprintf("%s history is not linearizable w.r.t. the sequential FIFO-with-close model (capacity bound %d)", kind, sp.capBound()), mkWitness("porcupine: Illegal", ""))
	case porcupine.Unknown:
		c.Inconclusive(kind + ": porcupine timeout")
	}

	// ---- oracle 2: conservation
	drained := false
	for _, o := range out.hist {
		if o.PostRun && o.Kind == "Recv" && !o.Ok && o.Ctx == 0 {
			drained = true
		}
	}
	var lin []linViolation
	lin = append(lin, checkConservation(sp, out.hist, drained)...)
	if kind == "mpsc" {
		lin = append(lin, checkTryRecv(out.hist)...)
	} else {
		lin = append(lin, checkGrow(out.hist)...)
	}
	for _, v := range lin {
		report("", "cons:"+kind+":"+v.Key+":"+shapeClass(sp), kind+": "+v.What, mkWitness("conservation oracle", v.What))
	}
	if drained {
		c.Count("histories_closed_and_fully_drained", 1)
	}

	// ---- evidence
	feat := observe(c, sp, out)
	nontrivial := feat.overlap
	sig := sp.shapeSig() + " | " + feat.String()
	c.Case(sig, nontrivial)
	isig := interleavingSig(out.trace)
	c.Seen("interleavings", sp.Kind+":"+isig)
	if j.group != "" {
		c.Seen("interleavings_"+j.group, isig)
		c.Count("runs_"+j.group, 1)
	}
	if nontrivial && (feat.parksRecv+feat.parksSend > 0) && len(out.hist) <= 16 {
		var st any
		if out.judged != nil {
			cp := *out.judged
			cp.DumpExcerpt = ""
			st = cp
		}
		c.Sample(map[string]any{"shape": sp.shapeSig(), "observed": feat.String(), "history": compactHistory(out.hist), "stable_state": st,
			"interleaving": interleavingSig(out.trace)})
	}
}

func shapeClass(sp *spec) string {
	if strings.HasPrefix(sp.Shape, "directed") {
		return "directed"
	}
	return sp.Shape
}

// otherWokeDuring is the (necessary) trace signature of the single-token defect for the stuck
// goroutine g: another goroutine of the same side passed its park point and made progress again
// (so it consumed a wake-up token or was woken) after g had begun the attempt that ended in its
// final park. A stuck state without that signature (e.g. one lonely receiver never woken) is a
// different defect and stays un-IDed.
func otherWokeDuring(trace []traceEv, g int, parkPoint string, upTo int64) bool {
	var aR int64 = -1
	var lastStamped int64
	found := false
	for _, e := range trace { // per goroutine the trace is in program order (stable sort by time)
		if e.G != g || e.Stamp == 0 || e.Stamp > upTo {
			continue
		}
		if e.Point == parkPoint {
			aR = lastStamped
			found = true
		}
		lastStamped = e.Stamp
	}
	if !found {
		return false
	}
	parkedAt := map[int]int64{}
	byG := map[int][]traceEv{}
	for _, e := range trace {
		if e.G != g && e.Stamp != 0 {
			byG[e.G] = append(byG[e.G], e)
		}
	}
	for og, evs := range byG {
		sort.Slice(evs, func(i, j int) bool { return evs[i].Stamp < evs[j].Stamp })
		for _, e := range evs {
			if b, ok := parkedAt[og]; ok && e.Stamp > b && e.Stamp > aR && e.Stamp <= upTo {
				return true
			}
			if e.Point == parkPoint {
				parkedAt[og] = e.Stamp
			}
		}
	}
	return false
}

type features struct {
	overlap              bool
	parksRecv, parksSend int
	grown, closedEarly   bool
	cancelHit            int
	sendFail, recvFail   int
	drainedAfterClose    int
	legalParked          int
	nOps                 int
	seqUsed, tryEmpty    bool
	producers, consumers int
}

func (f features) String() string {
	b := func(x bool) int {
		if x {
			return 1
		}
		return 0
	}
	return fmt.Sprintf("ovl%d pr%d ps%d grow%d early%d canc%d sf%d rf%d dac%d lp%d seq%d te%d", b(f.overlap), min(f.parksRecv, 3), min(f.parksSend, 3),
		b(f.grown), b(f.closedEarly), min(f.cancelHit, 2), min(f.sendFail, 2), min(f.recvFail, 2), min(f.drainedAfterClose, 2), min(f.legalParked, 3), b(f.seqUsed), b(f.tryEmpty))
}

func observe(c *vk.Ctx, sp *spec, out *outcome) features {
	var f features
	f.legalParked = out.parkedLegal
	var firstClose int64
	for _, o := range out.hist {
		if o.Kind == "Close" && (firstClose == 0 || o.Ret < firstClose) {
			firstClose = o.Ret
		}
	}
	conc := 0
	for _, o := range out.hist {
		okS := "fail"
		if o.Ok {
			okS = "ok"
		}
		c.Count("op_"+o.Kind+"_"+okS, 1)
		if !o.PostRun {
			conc++
		}
		if o.Via == "Seq" {
			f.seqUsed = true
		}
		switch o.Kind {
		case "Send":
			if !o.Ok {
				f.sendFail++
				if o.Ctx > 0 && o.Cancel != 0 && o.Cancel < o.Ret {
					f.cancelHit++
					c.Count("send_failed_with_cancelled_ctx", 1)
				} else {
					c.Count("send_failed_after_close", 1)
				}
			}
		case "Recv", "TryRecv":
			if !o.Ok {
				f.recvFail++
				if o.Kind == "TryRecv" {
					f.tryEmpty = true
				} else if o.Ctx > 0 && o.Cancel != 0 && o.Cancel < o.Ret {
					f.cancelHit++
					c.Count("recv_failed_with_cancelled_ctx", 1)
				}
			} else if firstClose != 0 && o.Call > firstClose {
				f.drainedAfterClose++
				c.Count("items_received_after_close_returned", 1)
			}
		case "Close":
			if !o.PostRun {
				f.closedEarly = true
				c.Count("close_during_concurrent_phase", 1)
			}
		}
	}
	f.nOps = conc
	c.Count("ops_in_concurrent_phases", conc)
	for {
		m := maxOps.Load()
		if int32(conc) <= m || maxOps.CompareAndSwap(m, int32(conc)) {
			break
		}
	}
	// overlap of operations of different goroutines
	for i := 0; i < len(out.hist) && !f.overlap; i++ {
		a := out.hist[i]
		if a.PostRun {
			continue
		}
		for k := i + 1; k < len(out.hist); k++ {
			b := out.hist[k]
			if b.Call > a.Ret {
				break
			}
			if !b.PostRun && b.Cid != a.Cid {
				f.overlap = true
				break
			}
		}
	}
	for _, e := range out.trace {
		if strings.HasPrefix(e.Point, "mp") && !strings.HasPrefix(e.Point, "→") {
			c.Count("yield_"+e.Point, 1)
		}
		switch e.Point {
		case "mpmc.recv.beforePark", "mpsc.recv.beforePark":
			f.parksRecv++
		case "mpmc.send.beforePark":
			f.parksSend++
		}
	}
	if sp.Kind == "mpmc" && out.finalCap > sp.Cap {
		f.grown = true
		c.Count("queues_whose_capacity_grew", 1)
	}
	c.Seen("producers_x_consumers", fmt.Sprintf("%s %dx%d", sp.Kind, len(sp.Producers), len(sp.Consumers)))
	c.Seen("queue_configs", fmt.Sprintf("%s cap%d ext%d", sp.Kind, sp.Cap, sp.Ext))
	return f
}

func interleavingSig(tr []traceEv) string {
	h := fnv.New64a()
	for _, e := range tr {
		fmt.Fprintf(h, "%d:%s;", e.G, e.Point)
	}
	return fmt.Sprintf("%016x", h.Sum64())
}

func compactHistory(hist []opRec) []string {
	var out []string
	for _, o := range hist {
		s := fmt.Sprintf("[%d,%d] %s %s", o.Call, o.Ret, o.Client, o.Kind)
		switch o.Kind {
		case "Send":
			s += fmt.Sprintf("(%d)=%v", o.Item, o.Ok)
		case "Recv", "TryRecv":
			if o.Ok {
				s += fmt.Sprintf("=%d", o.Item)
			} else {
				s += "=!ok"
			}
		case "Grow":
			s += fmt.Sprintf("(%d)=%v", o.Arg, o.Ok)
		}
		if o.Ctx > 0 {
			s += fmt.Sprintf(" ctx%d", o.Ctx)
			if o.Cancel != 0 {
				s += fmt.Sprintf("(cancelled@%d)", o.Cancel)
			}
		}
		if o.Via != "" {
			s += " via " + o.Via
		}
		out = append(out, s)
	}
	return out
}

// replay re-runs the program of a witness file (the schedule is steered by the same seeds but not
// fully determined, so it is repeated).
func replay(c *vk.Ctx) {
	b, err := os.ReadFile(c.Replay)
	if err != nil {
		c.HarnessError("cannot read replay file: %v", err)
		return
	}
	var doc struct {
		Witness struct {
			Spec *spec `json:"spec"`
		} `json:"witness"`
	}
	if err := json.Unmarshal(b, &doc); err != nil || doc.Witness.Spec == nil {
		c.HarnessError("replay file has no spec: %v", err)
		return
	}
	var jobs []job
	for i := 0; i < 300; i++ {
		cp := *doc.Witness.Spec
		jobs = append(jobs, job{sp: &cp})
	}
	runJobs(c, jobs)
}
