package c22

import (
	"fmt"
	"sort"
	"time"

	"github.com/anishathalye/porcupine"
)

// ---------------------------------------------------------------------------------------------
// Oracle 1: linearizability (porcupine) against sequential models written from the documentation.
// ---------------------------------------------------------------------------------------------

type pin struct {
	kind      string // Send Recv TryRecv Close Grow
	item      int
	cancelled bool // the operation's context was cancelled before the operation returned
}

type pout struct {
	ok   bool
	item int
}

// mpmc: a FIFO queue with close.
//
//	Send ok   : legal iff not closed (and, when the capacity is bounded by B, fewer than B items) → append
//	Send !ok  : legal iff closed, or the operation's context was cancelled
//	Recv ok v : legal iff v is the head → pop (also after close: items sent before close can be drained)
//	Recv !ok  : legal iff closed and empty, or the operation's context was cancelled
//	Close     : always legal, idempotent
//	Grow      : always legal, no effect on contents
type mpmcState struct {
	closed bool
	items  string // two bytes per item
}

func enc(it int) string { return string([]byte{byte(it >> 8), byte(it)}) }

func mpmcModel(bound int) porcupine.Model {
	return porcupine.Model{
		Init: func() interface{} { return mpmcState{} },
		Step: func(state, input, output interface{}) (bool, interface{}) {
			st := state.(mpmcState)
			in := input.(pin)
			out := output.(pout)
			switch in.kind {
			case "Send":
				if out.ok {
					if st.closed {
						return false, st
					}
					if bound > 0 && len(st.items)/2 >= bound {
						return false, st
					}
					return true, mpmcState{closed: st.closed, items: st.items + enc(in.item)}
				}
				return st.closed || in.cancelled, st
			case "Recv":
				if out.ok {
					if len(st.items) < 2 || st.items[:2] != enc(out.item) {
						return false, st
					}
					return true, mpmcState{closed: st.closed, items: st.items[2:]}
				}
				return (st.closed && len(st.items) == 0) || in.cancelled, st
			case "Close":
				return true, mpmcState{closed: true, items: st.items}
			case "Grow":
				return true, st
			}
			return false, st
		},
		DescribeOperation: func(input, output interface{}) string {
			return fmt.Sprintf("%+v -> %+v", input, output)
		},
	}
}

// mpsc: the documentation promises insertion order through one consumer; the property demands
// FIFO per producer and exactly-once. Every producer sends its items in increasing sequence, so
// the state per producer is the half-open range [lo,hi) of items sent and not yet received.
//
//	Send ok     : legal iff not closed → hi++ (the harness sends seq = hi)
//	Send !ok    : legal iff closed
//	Recv ok v   : legal iff v is the oldest outstanding item of its producer → lo++
//	Recv !ok    : legal iff (closed and nothing outstanding) or the context was cancelled
//	TryRecv ok v: as Recv ok
//	TryRecv !ok : always legal here (judged by the linear oracle below: an unlinked concurrent Send may hide later items)
//	Close       : always legal
type mpscState struct {
	closed bool
	lo, hi [10]uint8
}

func prodOf(item int) (p, seq int) { return item/100 - 1, item % 100 }

func mpscModel() porcupine.Model {
	return porcupine.Model{
		Init: func() interface{} { return mpscState{} },
		Step: func(state, input, output interface{}) (bool, interface{}) {
			st := state.(mpscState)
			in := input.(pin)
			out := output.(pout)
			switch in.kind {
			case "Send":
				if out.ok {
					if st.closed {
						return false, st
					}
					p, seq := prodOf(in.item)
					if p < 0 || p >= len(st.hi) || int(st.hi[p]) != seq {
						return false, st // the harness numbers a producer's items 0,1,2,… and Sends fail only once closed
					}
					st.hi[p] = uint8(seq + 1)
					return true, st
				}
				return st.closed, st
			case "Recv", "TryRecv":
				if out.ok {
					p, seq := prodOf(out.item)
					if p < 0 || p >= len(st.lo) || st.lo[p] == st.hi[p] || int(st.lo[p]) != seq {
						return false, st
					}
					st.lo[p]++
					return true, st
				}
				if in.kind == "TryRecv" {
					return true, st
				}
				if in.cancelled {
					return true, st
				}
				if !st.closed {
					return false, st
				}
				for p := range st.lo {
					if st.lo[p] != st.hi[p] {
						return false, st
					}
				}
				return true, st
			case "Close":
				st.closed = true
				return true, st
			}
			return false, st
		},
		DescribeOperation: func(input, output interface{}) string {
			return fmt.Sprintf("%+v -> %+v", input, output)
		},
	}
}

func toPorcupine(hist []opRec) []porcupine.Operation {
	ops := make([]porcupine.Operation, 0, len(hist))
	for _, o := range hist {
		if o.Ret == 0 {
			continue
		}
		cancelled := o.Ctx > 0 && o.Cancel != 0 && o.Cancel < o.Ret
		in := pin{kind: o.Kind, cancelled: cancelled}
		out := pout{ok: o.Ok}
		switch o.Kind {
		case "Send":
			in.item = o.Item
		case "Recv", "TryRecv":
			if o.Ok {
				out.item = o.Item
			}
		}
		ops = append(ops, porcupine.Operation{ClientId: o.Cid, Input: in, Call: o.Call, Output: out, Return: o.Ret})
	}
	return ops
}

const porcupineTimeout = 3 * time.Second

func checkLinearizable(kind string, bound int, hist []opRec) porcupine.CheckResult {
	var m porcupine.Model
	if kind == "mpmc" {
		m = mpmcModel(bound)
	} else {
		m = mpscModel()
	}
	res, _ := porcupine.CheckOperationsVerbose(m, toPorcupine(hist), porcupineTimeout)
	return res
}

// ---------------------------------------------------------------------------------------------
// Oracle 2 (linear time): conservation / exactly-once / per-producer order / TryRecv.
// ---------------------------------------------------------------------------------------------

type linViolation struct {
	Key  string
	What string
}

func checkConservation(sp *spec, hist []opRec, fullyDrained bool) []linViolation {
	var vs []linViolation
	type sendInfo struct {
		ok        bool
		call, ret int64
	}
	sent := map[int]sendInfo{}
	for _, o := range hist {
		if o.Kind == "Send" {
			sent[o.Item] = sendInfo{ok: o.Ok, call: o.Call, ret: o.Ret}
		}
	}
	type recvInfo struct{ call, ret int64 }
	got := map[int]recvInfo{}
	for _, o := range hist {
		if (o.Kind != "Recv" && o.Kind != "TryRecv") || !o.Ok {
			continue
		}
		s, known := sent[o.Item]
		switch {
		case !known:
			vs = append(vs, linViolation{"phantom", fmt.Sprintf("received item %d that was never sent", o.Item)})
			continue
		case !s.ok:
			vs = append(vs, linViolation{"delivered-failed-send", fmt.Sprintf("received item %d although its Send returned false (ownership stays with the caller on failure)", o.Item)})
		case s.call > o.Ret:
			vs = append(vs, linViolation{"from-the-future", fmt.Sprintf("received item %d before its Send was invoked", o.Item)})
		}
		if _, dup := got[o.Item]; dup {
			vs = append(vs, linViolation{"duplicate", fmt.Sprintf("item %d received twice", o.Item)})
		}
		got[o.Item] = recvInfo{o.Call, o.Ret}
	}
	if fullyDrained {
		var lost []int
		for it, s := range sent {
			if s.ok {
				if _, ok := got[it]; !ok {
					lost = append(lost, it)
				}
			}
		}
		sort.Ints(lost)
		if len(lost) > 0 {
			vs = append(vs, linViolation{"lost", fmt.Sprintf("items %v were sent successfully but never received although the queue was closed and drained until Recv returned false", lost)})
		}
	}
	// per-producer order: a producer's sends are sequential, so item a (sent first) is enqueued
	// before item b; b's receive therefore cannot have completed before a's receive was invoked.
	byProd := map[int][]int{}
	for it := range got {
		p, _ := prodOf(it)
		byProd[p] = append(byProd[p], it)
	}
	for p, items := range byProd {
		sort.Ints(items)
		for i := 0; i < len(items); i++ {
			for j := i + 1; j < len(items); j++ {
				a, b := got[items[i]], got[items[j]]
				if b.ret < a.call {
					vs = append(vs, linViolation{"producer-order", fmt.Sprintf("producer %d: item %d was received (returned at %d) before the receive of the earlier item %d was even invoked (%d)", p, items[j], b.ret, items[i], a.call)})
				}
			}
		}
		_ = p
	}
	// a later item of a producer was received while an earlier successfully sent item of the same
	// producer is never received (after a full drain this is covered by "lost"; before, it is an
	// overtaking that FIFO forbids only once the drain is complete - so only judged when drained).
	return vs
}

// checkTryRecv (mpsc): TryRecv may report "empty" only if the queue is empty or a Send is in flight
// (a Send that has swapped the head but not yet linked its node hides later nodes from the
// consumer). When a successfully sent, not yet received item is certainly reachable (see below),
// "empty" contradicts "returns false if the queue is empty".
func checkTryRecv(hist []opRec) []linViolation {
	var vs []linViolation
	var sends, consumer []opRec
	for _, o := range hist {
		switch o.Kind {
		case "Send":
			sends = append(sends, o)
		case "Recv", "TryRecv":
			consumer = append(consumer, o)
		}
	}
	sort.Slice(consumer, func(i, j int) bool { return consumer[i].Call < consumer[j].Call })
	received := map[int]bool{}
	for _, o := range consumer {
		if o.Ok {
			received[o.Item] = true
			continue
		}
		if o.Kind != "TryRecv" {
			continue
		}
		// item Y is certainly reachable by the consumer when every Send that may precede it in the
		// list (invoked before Y's Send returned) had returned - hence linked its node - before the
		// TryRecv was invoked.
		var avail []int
		for _, y := range sends {
			if !y.Ok || y.Ret == 0 || y.Ret > o.Call || received[y.Item] {
				continue
			}
			reachable := true
			for _, x := range sends {
				if x.Call < y.Ret && (x.Ret == 0 || x.Ret > o.Call) {
					reachable = false
					break
				}
			}
			if reachable {
				avail = append(avail, y.Item)
			}
		}
		if len(avail) > 0 {
			sort.Ints(avail)
			vs = append(vs, linViolation{"tryrecv-empty", fmt.Sprintf("TryRecv [%d,%d] reported empty although items %v had been sent successfully (and every Send that could precede them had returned) and were not yet received", o.Call, o.Ret, avail)})
		}
	}
	return vs
}

// checkGrow: Grow(n) returns an error exactly when n is not a power of two (documented).
func checkGrow(hist []opRec) []linViolation {
	var vs []linViolation
	for _, o := range hist {
		if o.Kind != "Grow" {
			continue
		}
		pow2 := o.Arg > 0 && o.Arg&(o.Arg-1) == 0
		if pow2 != o.Ok {
			vs = append(vs, linViolation{"grow-error", fmt.Sprintf("Grow(%d) returned ok=%v", o.Arg, o.Ok)})
		}
	}
	return vs
}

// ---------------------------------------------------------------------------------------------
// Self-test of the oracles on hand-written histories: the checkers must reject what they exist to
// reject, otherwise the run is a harness error.
// ---------------------------------------------------------------------------------------------

func oracleSelfTest() []string {
	var errs []string
	seq := func(ops ...opRec) []opRec {
		t := int64(0)
		for i := range ops {
			if ops[i].Call == 0 {
				t++
				ops[i].Call = t
				t++
				ops[i].Ret = t
			}
			ops[i].Cid = i % 3
		}
		return ops
	}
	expect := func(name string, kind string, bound int, h []opRec, want porcupine.CheckResult) {
		if got := checkLinearizable(kind, bound, h); got != want {
			errs = append(errs, fmt.Sprintf("%s: porcupine said %s, want %s", name, got, want))
		}
	}
	S := func(it int, ok bool) opRec { return opRec{Kind: "Send", Item: it, Ok: ok} }
	R := func(it int, ok bool) opRec { return opRec{Kind: "Recv", Item: it, Ok: ok} }
	T := func(it int, ok bool) opRec { return opRec{Kind: "TryRecv", Item: it, Ok: ok} }
	C := opRec{Kind: "Close", Ok: true}

	expect("fifo ok", "mpmc", 0, seq(S(100, true), S(101, true), R(100, true), R(101, true), C, R(0, false), S(102, false)), porcupine.Ok)
	expect("drain after close", "mpmc", 0, seq(S(100, true), C, R(100, true), R(0, false)), porcupine.Ok)
	expect("reordered", "mpmc", 0, seq(S(100, true), S(101, true), R(101, true), R(100, true)), porcupine.Illegal)
	expect("lost before close-empty", "mpmc", 0, seq(S(100, true), C, R(0, false)), porcupine.Illegal)
	expect("recv false while open", "mpmc", 0, seq(S(100, true), R(100, true), R(0, false)), porcupine.Illegal)
	expect("send ok after close", "mpmc", 0, seq(C, S(100, true)), porcupine.Illegal)
	expect("send false while open", "mpmc", 0, seq(S(100, false)), porcupine.Illegal)
	expect("dup", "mpmc", 0, seq(S(100, true), R(100, true), R(100, true)), porcupine.Illegal)
	expect("over capacity", "mpmc", 2, seq(S(100, true), S(101, true), S(102, true)), porcupine.Illegal)
	canc := seq(opRec{Kind: "Recv", Ok: false, Ctx: 1})
	canc[0].Cancel = 1
	canc[0].Call, canc[0].Ret = 2, 3
	expect("cancelled recv", "mpmc", 0, canc, porcupine.Ok)
	// concurrent sends may be received in either order
	conc := []opRec{
		{Kind: "Send", Item: 100, Ok: true, Call: 1, Ret: 4, Cid: 0},
		{Kind: "Send", Item: 200, Ok: true, Call: 2, Ret: 3, Cid: 1},
		{Kind: "Recv", Item: 100, Ok: true, Call: 5, Ret: 6, Cid: 2},
		{Kind: "Recv", Item: 200, Ok: true, Call: 7, Ret: 8, Cid: 2},
	}
	expect("concurrent sends", "mpmc", 0, conc, porcupine.Ok)

	expect("mpsc per-producer ok (interleaved)", "mpsc", 0, seq(S(100, true), S(200, true), S(101, true), R(200, true), T(100, true), R(101, true), T(0, false), C, R(0, false), S(102, false)), porcupine.Ok)
	expect("mpsc producer order broken", "mpsc", 0, seq(S(100, true), S(101, true), R(101, true), R(100, true)), porcupine.Illegal)
	expect("mpsc closed with outstanding", "mpsc", 0, seq(S(100, true), C, R(0, false)), porcupine.Illegal)
	expect("mpsc send ok after close", "mpsc", 0, seq(C, S(100, true)), porcupine.Illegal)
	expect("mpsc recv false while open", "mpsc", 0, seq(R(0, false)), porcupine.Illegal)

	if v := checkConservation(nil, seq(S(100, true), R(100, true), R(100, true)), false); len(v) == 0 {
		errs = append(errs, "conservation: duplicate not detected")
	}
	if v := checkConservation(nil, seq(S(100, true), S(101, true), R(101, true), C, R(0, false)), true); len(v) == 0 {
		errs = append(errs, "conservation: loss not detected")
	}
	if v := checkConservation(nil, seq(S(100, true), R(555, true)), false); len(v) == 0 {
		errs = append(errs, "conservation: phantom not detected")
	}
	if v := checkConservation(nil, seq(S(100, false), R(100, true)), false); len(v) == 0 {
		errs = append(errs, "conservation: delivery of a failed send not detected")
	}
	if v := checkConservation(nil, seq(S(100, true), S(101, true), R(101, true), R(100, true)), false); len(v) == 0 {
		errs = append(errs, "conservation: producer order not detected")
	}
	if v := checkConservation(nil, seq(S(100, true), S(101, true), R(100, true), R(101, true), C, R(0, false)), true); len(v) != 0 {
		errs = append(errs, fmt.Sprintf("conservation: false alarm %v", v))
	}
	if v := checkTryRecv(seq(S(100, true), T(0, false))); len(v) == 0 {
		errs = append(errs, "tryrecv: empty with available item not detected")
	}
	inflight := []opRec{
		{Kind: "Send", Item: 200, Ok: true, Call: 1, Ret: 8},
		{Kind: "Send", Item: 100, Ok: true, Call: 2, Ret: 3},
		{Kind: "TryRecv", Ok: false, Call: 4, Ret: 5},
	}
	if v := checkTryRecv(inflight); len(v) != 0 {
		errs = append(errs, fmt.Sprintf("tryrecv: false alarm with a send in flight %v", v))
	}
	later := []opRec{
		{Kind: "Send", Item: 100, Ok: true, Call: 1, Ret: 2},
		{Kind: "Send", Item: 200, Ok: true, Call: 3, Ret: 8},
		{Kind: "TryRecv", Ok: false, Call: 4, Ret: 5},
	}
	if v := checkTryRecv(later); len(v) == 0 {
		errs = append(errs, "tryrecv: empty although a fully linked item precedes the in-flight send not detected")
	}
	return errs
}
