package c22

import (
	"fmt"
	"time"

	"github.com/openfga/openfga/internal/containers/mpsc"
)

// runMPSC executes one accumulator scenario: producers Send concurrently, exactly one consumer
// goroutine runs a script of Recv / TryRecv / Seq, Close is called only after every producer has
// returned from its last Send (as the documentation requires) - either by the controller, concurrently
// with the consumer, or by the harness at the stable state. Afterwards the harness (sequentially,
// as the only consumer) drains and probes a Send after Close.
func runMPSC(sp *spec) *outcome {
	out := &outcome{sp: sp}
	sc := &scenario{sp: sp, start: time.Now()}
	sc.makeCtxs(sp.NCtx)
	acc := mpsc.NewAccumulator[int]()

	mainLG := sc.newLG("main", sp.Seed, false)
	mainLG.register()
	defer func() {
		for _, lg := range sc.lgs {
			if lg.goid.Load() != 0 {
				lg.unregister()
			}
		}
	}()
	inject := sp.ParkGatePct+sp.WinYieldPct+sp.WinSleepPct > 0
	var starts []func()
	prodAll := make(chan struct{})
	nProd := int32(len(sp.Producers))

	for pi := range sp.Producers {
		ps := sp.Producers[pi]
		pidx := pi
		lg := sc.newLG(fmt.Sprintf("P%d", pi), sp.Seed+int64(101*(pi+1)), inject)
		starts = append(starts, func() {
			sc.spawn(lg, out, func() {
				defer func() {
					if sc.prodDone.Add(1) == nProd {
						close(prodAll)
					}
				}()
				sc.startSequencing(lg, ps.StartGate, false, 0)
				for si := range ps.Sends {
					it := itemID(pidx, si)
					call := lg.begin(kSend, 0)
					ok := acc.Send(it)
					if ok {
						sc.sentOK.Add(1)
					}
					ret := lg.end()
					lg.record(opRec{Kind: "Send", Item: it, Ok: ok, Call: call, Ret: ret})
				}
			})
		})
	}

	cs := sp.Consumers[0]
	clg := sc.newLG("C0", sp.Seed+7001, inject)
	starts = append(starts, func() {
		sc.spawn(clg, out, func() {
			sc.startSequencing(clg, cs.StartGate, false, 0)
			for _, o := range cs.Script {
				switch o.Op {
				case "recv":
					call := clg.begin(kRecv, o.Ctx)
					v, ok := acc.Recv(sc.ctxFor(o.Ctx))
					if ok {
						sc.recvOK.Add(1)
					}
					ret := clg.end()
					clg.record(opRec{Kind: "Recv", Item: v, Ok: ok, Call: call, Ret: ret, Ctx: o.Ctx})
				case "try":
					call := clg.begin(kTryRecv, 0)
					v, ok := acc.TryRecv()
					if ok {
						sc.recvOK.Add(1)
					}
					ret := clg.end()
					clg.record(opRec{Kind: "TryRecv", Item: v, Ok: ok, Call: call, Ret: ret})
				case "seq":
					call := clg.begin(kRecv, o.Ctx)
					n := 0
					broke := false
					for v := range acc.Seq(sc.ctxFor(o.Ctx)) {
						sc.recvOK.Add(1)
						ret := clg.end()
						clg.record(opRec{Kind: "Recv", Item: v, Ok: true, Call: call, Ret: ret, Ctx: o.Ctx, Via: "Seq"})
						n++
						if o.N > 0 && n >= o.N {
							broke = true
							break
						}
						call = clg.begin(kRecv, o.Ctx)
					}
					if !broke {
						ret := clg.end()
						clg.record(opRec{Kind: "Recv", Ok: false, Call: call, Ret: ret, Ctx: o.Ctx, Via: "Seq"})
					}
				}
			}
		})
	})

	ctl := sc.newLG("ctl", sp.Seed+99991, inject)
	doClose := func(lg *lgor, post bool) {
		call := lg.begin(kClose, 0)
		acc.Close()
		sc.closed.Store(true)
		ret := lg.end()
		lg.record(opRec{Kind: "Close", Ok: true, Call: call, Ret: ret, PostRun: post})
	}
	starts = append(starts, func() {
		sc.spawn(ctl, out, func() {
			if sp.OffContract {
				// outside the documented contract: Close while producers may still be sending
				ctl.gate(1+ctl.rng.Intn(2*sp.totalSends()+1), 60)
				doClose(ctl, false)
			}
			sc.runCtl(ctl, sp.Ctl, func(st ctlStep) {
				if st.Act == "cancel" {
					sc.cancel(st.Arg)
				}
			})
			if sp.CloseBy == "ctl" && !sp.OffContract {
				<-prodAll // producers never block: Send is wait-free apart from its CAS loop
				if g := ctl.rng.Intn(4); g > 0 {
					ctl.gate(g, 30)
				}
				doClose(ctl, false)
			}
		})
	})
	for _, f := range starts {
		f()
	}

	facts, why := sc.awaitQuiescence(func() (int, int, bool) { return 0, 0, true })
	if why != "" {
		out.inconcl = append(out.inconcl, why)
	}
	out.judged = facts

	// resolution: Close (all producers are done at the stable state; if they are not, the state
	// was not reached and the scenario is inconclusive).
	if int(sc.prodDone.Load()) != len(sp.Producers) {
		out.inconcl = append(out.inconcl, "producers did not finish")
		out.abandoned = true
		return out
	}
	if !withTimeout(out, 3*time.Second, func() { doClose(mainLG, true) }) {
		out.inconcl = append(out.inconcl, "Close did not return")
		out.abandoned = true
		return out
	}
	if !sc.join(3 * time.Second) {
		f2, _ := sc.awaitQuiescence(func() (int, int, bool) { return 0, 0, true })
		if f2 != nil && !f2.AllDone && len(f2.Parked) > 0 {
			f2.Closed = true
			out.judged = f2
		} else {
			out.inconcl = append(out.inconcl, "consumer did not return after Close")
		}
		for i := range sc.cancels {
			sc.cancel(i + 1)
		}
		if !sc.join(2 * time.Second) {
			out.abandoned = true
			out.inconcl = append(out.inconcl, "goroutines abandoned")
			return out
		}
	}
	drainOK := withTimeout(out, 3*time.Second, func() {
		// a few non-blocking receives first (the pipeline drains its error accumulator this way after Close)
		useTry := sp.Seed&1 == 0
		for k := 0; k < sp.totalSends()+2; k++ {
			if useTry {
				call := mainLG.begin(kTryRecv, 0)
				v, ok := acc.TryRecv()
				ret := mainLG.end()
				mainLG.record(opRec{Kind: "TryRecv", Item: v, Ok: ok, Call: call, Ret: ret, PostRun: true})
				if !ok {
					useTry = false // confirm with a blocking Recv, which must report closed-and-drained
				}
				continue
			}
			call := mainLG.begin(kRecv, 0)
			v, ok := acc.Recv(sc.ctxFor(0))
			ret := mainLG.end()
			mainLG.record(opRec{Kind: "Recv", Item: v, Ok: ok, Call: call, Ret: ret, PostRun: true})
			if !ok {
				break
			}
		}
		it := itemID(9, 0)
		call := mainLG.begin(kSend, 0)
		ok := acc.Send(it)
		ret := mainLG.end()
		mainLG.record(opRec{Kind: "Send", Item: it, Ok: ok, Call: call, Ret: ret, PostRun: true})
	})
	if !drainOK {
		out.abandoned = true
		out.inconcl = append(out.inconcl, "post-close drain blocked")
		return out
	}
	sc.releaseAllCtx()
	sc.collect(out)
	return out
}
