// Package c20: queries terminate and release their resources (termination watchdog against
// deadline + slack confirmed in isolation; goroutine census and iterator balance at quiescence; -race).
package c20

import (
	"context"
	"fmt"
	"os"
	"regexp"
	"runtime"
	"sort"
	"strings"
	"time"

	openfgav1 "github.com/openfga/api/proto/openfga/v1"
	parser "github.com/openfga/language/pkg/go/transformer"

	"github.com/openfga/openfga/pkg/storage"
	"github.com/openfga/openfga/verifharness/drive"
	"github.com/openfga/openfga/verifharness/gen"
	"github.com/openfga/openfga/verifharness/ref"
	"github.com/openfga/openfga/verifharness/vk"
)

func init() { vk.Register("C20", "exploration", run) }

const slack = 5 * time.Second

type scenario struct {
	name   string
	dsl    string
	tuples func() []*openfgav1.TupleKey
	checks [][3]string // object, relation, user
	lists  [][3]string // type, relation, user
	users  [][2]string // object, relation (ListUsers filter user)
}

func tk(o, r, u string) *openfgav1.TupleKey {
	return &openfgav1.TupleKey{Object: o, Relation: r, User: u}
}

func scenarios(c *vk.Ctx) []scenario {
	n := 50 // 2 x the default resolution depth limit
	fan := c.Pick(300, 1000)
	return []scenario{
		{"long-userset-cycle", `model
  schema 1.1
type user
type group
  relations
    define member: [user, group#member]
type doc
  relations
    define viewer: [group#member]
    define blocked: [user]
    define reader: viewer but not blocked`, func() []*openfgav1.TupleKey {
			var t []*openfgav1.TupleKey
			for i := 0; i < n; i++ {
				t = append(t, tk(fmt.Sprintf("group:g%d", (i+1)%n), "member", fmt.Sprintf("group:g%d#member", i)))
			}
			t = append(t, tk("group:g7", "member", "user:a"), tk("doc:d1", "viewer", "group:g0#member"), tk("doc:d2", "viewer", "group:g30#member"), tk("doc:d1", "blocked", "user:b"))
			return t
		}, [][3]string{{"doc:d1", "viewer", "user:a"}, {"doc:d1", "viewer", "user:z"}, {"doc:d2", "reader", "user:a"}, {"group:g3", "member", "user:z"}},
			[][3]string{{"doc", "viewer", "user:a"}, {"doc", "reader", "user:z"}, {"group", "member", "user:a"}},
			[][2]string{{"doc:d1", "viewer"}, {"group:g9", "member"}}},
		{"long-ttu-cycle", `model
  schema 1.1
type user
type folder
  relations
    define parent: [folder]
    define owner: [user]
    define viewer: [user] or viewer from parent or owner
type doc
  relations
    define parent: [folder]
    define viewer: viewer from parent`, func() []*openfgav1.TupleKey {
			var t []*openfgav1.TupleKey
			for i := 0; i < n; i++ {
				t = append(t, tk(fmt.Sprintf("folder:f%d", (i+1)%n), "parent", fmt.Sprintf("folder:f%d", i)))
			}
			t = append(t, tk("folder:f11", "viewer", "user:a"), tk("doc:d1", "parent", "folder:f0"), tk("doc:d2", "parent", "folder:f40"))
			return t
		}, [][3]string{{"doc:d1", "viewer", "user:a"}, {"doc:d2", "viewer", "user:z"}, {"folder:f3", "viewer", "user:z"}},
			[][3]string{{"doc", "viewer", "user:a"}, {"folder", "viewer", "user:a"}, {"folder", "viewer", "user:z"}},
			[][2]string{{"doc:d1", "viewer"}, {"folder:f20", "viewer"}}},
		{"wide-fanout", `model
  schema 1.1
type user
type group
  relations
    define member: [user, user:*]
type folder
  relations
    define viewer: [group#member]
type doc
  relations
    define parent: [folder]
    define viewer: [user, group#member] or viewer from parent`, func() []*openfgav1.TupleKey {
			var t []*openfgav1.TupleKey
			for i := 0; i < fan; i++ {
				t = append(t, tk("doc:big", "viewer", fmt.Sprintf("group:g%d#member", i)))
				t = append(t, tk(fmt.Sprintf("doc:d%d", i), "viewer", "group:g0#member"))
				if i%10 == 0 {
					t = append(t, tk(fmt.Sprintf("group:g%d", i), "member", fmt.Sprintf("user:u%d", i)))
				}
			}
			t = append(t, tk("group:g0", "member", "user:a"))
			return t
		}, [][3]string{{"doc:big", "viewer", "user:zz"}, {"doc:big", "viewer", "user:u990"}, {"doc:d5", "viewer", "user:a"}},
			[][3]string{{"doc", "viewer", "user:a"}, {"doc", "viewer", "user:zz"}},
			[][2]string{{"doc:big", "viewer"}}},
		// Check only: decided by one of the first of many usersets, so the request is over while the producer of
		// the remaining dispatches is still busy (plain dispatch forced); every deadline class incl. none
		{"early-allow-fanout", `model
  schema 1.1
type user
type group
  relations
    define member: [user, group#member]
type doc
  relations
    define viewer: [group#member]`, func() []*openfgav1.TupleKey {
			var t []*openfgav1.TupleKey
			for i := 0; i < fan; i++ {
				t = append(t, tk("doc:big", "viewer", fmt.Sprintf("group:g%03d#member", i)))
			}
			return append(t, tk("group:g000", "member", "user:a"), tk("group:g001", "member", "user:a"))
		}, [][3]string{{"doc:big", "viewer", "user:a"}, {"doc:big", "viewer", "user:a"}, {"doc:big", "viewer", "user:a"}, {"doc:big", "viewer", "user:a"}, {"doc:big", "viewer", "user:a"}}, nil, nil},
		// ListUsers only: the subtracted operand of an exclusion leads into a chain of nested groups (below the
		// depth limit) read at 350 ms per datastore call, so that branch alone needs ~8 s: deadline and
		// cancellation have to reach the subtracted branch too, not just the base
		{"heavy-subtract", `model
  schema 1.1
type user
type group
  relations
    define member: [user, group#member]
type doc
  relations
    define viewer: [user]
    define blocked: [group#member]
    define reader: viewer but not blocked`, func() []*openfgav1.TupleKey {
			t := []*openfgav1.TupleKey{tk("doc:d1", "viewer", "user:a"), tk("doc:d1", "blocked", "group:g0#member")}
			for i := 0; i < 21; i++ {
				t = append(t, tk(fmt.Sprintf("group:g%d", i), "member", fmt.Sprintf("group:g%d#member", i+1)))
			}
			return append(t, tk("group:g21", "member", "user:b"))
		}, nil, nil, [][2]string{{"doc:d1", "reader"}, {"doc:d1", "reader"}, {"doc:d1", "reader"}}},
	}
}

var stackHead = regexp.MustCompile(`(?m)^(github\.com/openfga/openfga/[^\s(]+)`)

// census returns signature -> count of goroutines that have a frame in openfga (not the harness).
func census() map[string]int {
	buf := make([]byte, 1<<24)
	dump := string(buf[:runtime.Stack(buf, true)])
	out := map[string]int{}
	for _, g := range strings.Split(dump, "\n\n") {
		if !strings.Contains(g, "github.com/openfga/openfga/") {
			continue
		}
		var frames []string
		for _, m := range stackHead.FindAllStringSubmatch(g, -1) {
			f := m[1]
			if strings.Contains(f, "/verifharness/") {
				continue
			}
			frames = append(frames, f)
		}
		if len(frames) == 0 {
			continue
		}
		if len(frames) > 3 {
			frames = frames[:3]
		}
		out[strings.Join(frames, " < ")]++
	}
	return out
}

func diff(base, now map[string]int) []string {
	var out []string
	for k, n := range now {
		if n > base[k] {
			out = append(out, fmt.Sprintf("%s x%d", k, n-base[k]))
		}
	}
	sort.Strings(out)
	return out
}

type server struct {
	name string
	s    *drive.Srv
	ods  *drive.ObsDS
}

func run(c *vk.Ctx) {
	c.SetRule("Check, BatchCheck, ListObjects, StreamedListObjects, ListUsers and Expand run on tuple cycles of length 50 (2x the depth limit), on fan-out of 300/1000, and on seeded generated cases, with client deadlines of 5-200 ms, client cancellation after a seeded delay, and datastore latency injected by an observing datastore; engines: v1, weighted-graph, classic and pipeline ListObjects, with and without iterator caches; " +
		"termination: each call must return before its effective deadline + 5 s (an overrun must reproduce 3 times in isolation to count, else inconclusive); release: after each batch, at quiescence (polled up to 10 s), the census of goroutines with openfga frames must equal the census taken before the batch, and every tuple iterator the observing datastore opened must have been stopped; " +
		"distinct_nontrivial = distinct (scenario, API, server, deadline class, outcome class) in which the request was cut short (deadline / cancel / depth error) or worked on cyclic data")
	c.Assume("goroutine identity by the first three openfga frames of the stack; background goroutines that exist before a batch are in the baseline")
	c.Assume("wall-clock is used only for watchdogs: deadline + 5 s slack, confirmed 3x in isolation")
	c.RaceAnchors = []string{"/internal/graph/", "/internal/check/", "/pkg/server/commands/", "/internal/listobjects/", "/pkg/storage/storagewrappers/", "/internal/concurrency/"}
	var servers []server
	defs := []struct {
		name string
		cfg  drive.Cfg
	}{
		{"v1,classic", drive.Cfg{ReqTimeout: 2 * time.Second, LODeadline: 2 * time.Second, LUDeadline: 2 * time.Second}},
		{"v1,pipeline,itercaches", drive.Cfg{LOEngine: "pipeline", CheckIterCache: true, LOIterCache: true, SharedIter: true, ReqTimeout: 2 * time.Second, LODeadline: 2 * time.Second, LUDeadline: 2 * time.Second}},
		{"v2,optimized,querycache", drive.Cfg{V2: true, LOEngine: "optimized", QueryCache: true, ReqTimeout: 2 * time.Second, LODeadline: 2 * time.Second, LUDeadline: 2 * time.Second}},
	}
	for _, d := range defs {
		var ods *drive.ObsDS
		cfg := d.cfg
		cfg.CtxPropagate = true
		cfg.WrapDS = func(ds storage.OpenFGADatastore) storage.OpenFGADatastore {
			ods = drive.NewObsDS(ds)
			return ods
		}
		s, err := drive.New(cfg)
		if err != nil {
			c.HarnessError("server %s: %v", d.name, err)
			return
		}
		servers = append(servers, server{d.name, s, ods})
	}
	hung := false
	defer func() {
		if !hung {
			for _, s := range servers {
				s.s.Close()
			}
		}
	}()
	r := c.Rand("c20")
	type data struct {
		sc     scenario
		stores []string
	}
	var all []data
	scs := scenarios(c)
	// generated cases as scenarios too
	for i := 0; i < c.Pick(10, 80); i++ {
		var gc *gen.Case
		for try := 0; try < 30; try++ {
			cand := gen.NewCase(r, fmt.Sprintf("gen%d", i), gen.Options{})
			st, err := servers[0].s.CreateStore("c20-probe")
			if err != nil {
				continue
			}
			if _, err := servers[0].s.WriteModel(st, cand.Model); err == nil {
				gc = cand
				break
			}
		}
		if gc == nil {
			continue
		}
		rm := ref.NewModel(gc.Model, ref.TemplateCondEval)
		var valid []*openfgav1.TupleKey
		for _, t := range gc.Tuples {
			if rm.ValidForRead(t) {
				valid = append(valid, t)
			}
		}
		sc := scenario{name: "generated", tuples: func() []*openfgav1.TupleKey { return valid }}
		for _, t := range rm.TypeNames() {
			for _, rel := range rm.RelationNames(t) {
				if r.Intn(2) == 0 {
					sc.checks = append(sc.checks, [3]string{t + ":" + gen.IDs(t)[r.Intn(3)], rel, "user:" + gen.UserIDs[r.Intn(3)]})
					sc.lists = append(sc.lists, [3]string{t, rel, "user:" + gen.UserIDs[r.Intn(3)]})
					sc.users = append(sc.users, [2]string{t + ":" + gen.IDs(t)[r.Intn(3)], rel})
				}
			}
		}
		b, _ := protoToDSLFallback(gc.Model)
		_ = b
		scs = append(scs, withModel(sc, gc.Model))
	}
	scs = append(scs, scenario{name: "dup-recursive-ttu", dsl: `model
  schema 1.1
type user
type folder
  relations
    define blocked: [user]
type doc
  relations
    define parent: [folder, doc]
    define blocked: ([user] or blocked from parent) or blocked from parent`,
		tuples: func() []*openfgav1.TupleKey { return []*openfgav1.TupleKey{tk("doc:d1", "blocked", "user:a")} },
		checks: [][3]string{{"doc:d1", "blocked", "user:a"}}, lists: [][3]string{{"doc", "blocked", "user:c"}}, users: [][2]string{{"doc:d1", "blocked"}}})
	for _, sc := range scs {
		d := data{sc: sc}
		ok := true
		for _, sv := range servers {
			store, err := sv.s.CreateStore("c20-" + sc.name)
			if err != nil {
				c.HarnessError("CreateStore: %v", err)
				return
			}
			m := modelOf(sc)
			if m == nil {
				ok = false
				break
			}
			mid, err := sv.s.WriteModel(store, m)
			if err != nil {
				ok = false
				break
			}
			if err := sv.s.WriteTuples(store, mid, sc.tuples()); err != nil {
				ok = false
				break
			}
			d.stores = append(d.stores, store)
			if sc.name == "early-allow-fanout" {
				drive.ForceStore(store, "default")
			}
		}
		if ok {
			all = append(all, d)
		} else {
			c.Count("scenarios_rejected", 1)
		}
	}
	deadlines := []time.Duration{5 * time.Millisecond, 20 * time.Millisecond, 200 * time.Millisecond, 0}
	for di, d := range all {
		for si, sv := range servers {
			if hung {
				break
			}
			store := d.stores[si]
			for li, lat := range []time.Duration{0, 200 * time.Microsecond, 3 * time.Millisecond} {
				if hung {
					break
				}
				if d.sc.name == "wide-fanout" && lat > time.Millisecond {
					continue
				}
				if d.sc.name == "heavy-subtract" {
					if li != 0 {
						continue
					}
					lat = 350 * time.Millisecond
				}
				sv.ods.ReadLatency.Store(int64(lat))
				sv.ods.NextLatency.Store(int64(lat / 4))
				if d.sc.name == "heavy-subtract" {
					sv.ods.NextLatency.Store(0)
				}
				// settle, then baseline
				quiesce(sv, nil, 3*time.Second)
				base := census()
				opened0, stopped0 := sv.ods.Opened.Load(), sv.ods.Stopped.Load()
				var calls []call
				for qi, q := range d.sc.checks {
					dl := deadlines[(qi+li+di)%len(deadlines)]
					calls = append(calls, call{"Check", q, dl, qi%3 == 2})
					if qi == 0 {
						calls = append(calls, call{"BatchCheck", q, dl, false})
					}
				}
				for qi, q := range d.sc.lists {
					dl := deadlines[(qi+li+di+1)%len(deadlines)]
					calls = append(calls, call{"ListObjects", q, dl, qi%3 == 1}, call{"StreamedListObjects", q, dl, false})
					// the slow stream client leaves at each of the other deadlines as well: whether the producer
					// is still working, or already parked on a full result buffer, depends on when it leaves
					for _, odl := range deadlines[:3] {
						if odl != dl {
							calls = append(calls, call{"StreamedListObjects", q, odl, false})
						}
					}
				}
				for qi, q := range d.sc.users {
					calls = append(calls, call{"ListUsers", [3]string{q[0], q[1], ""}, deadlines[(qi+li)%len(deadlines)], false}, call{"Expand", [3]string{q[0], q[1], ""}, 0, false})
				}
				for _, cl := range calls {
					eff := cl.deadline
					if eff == 0 || eff > 2*time.Second {
						eff = 2 * time.Second
					}
					outcome, took, returned := exec(sv, store, cl, eff+slack)
					class := "none"
					if cl.deadline > 0 {
						class = cl.deadline.String()
					}
					if cl.cancel {
						class += "+cancel"
					}
					c.Case(fmt.Sprintf("%s|%s|%s|%s|lat=%s|%s", d.sc.name, cl.api, sv.name, class, lat, outcome), outcome != "ok" || d.sc.name != "generated")
					c.Count("calls_"+cl.api, 1)
					c.Seen("outcomes", cl.api+":"+outcome)
					if os.Getenv("VERIF_DEBUG") != "" && cl.api == "StreamedListObjects" {
						c.Logf("DEBUG %s %s %v dl=%s -> %s in %s", d.sc.name, sv.name, cl.q, cl.deadline, outcome, took)
					}
					if !returned {
						// confirm in isolation
						again := 0
						for k := 0; k < 2; k++ {
							if _, _, ret := exec(sv, store, cl, eff+slack); !ret {
								again++
							}
						}
						w := map[string]any{"scenario": d.sc.name, "server": sv.name, "api": cl.api, "request": cl.q, "deadline": cl.deadline.String(), "latency": lat.String(), "model": dslOf(d.sc)}
						if again == 2 {
							f := ""
							if strings.Contains(sv.name, "pipeline") && (cl.api == "ListObjects" || cl.api == "StreamedListObjects") {
								f = "C20-pipeline-teardown-deadlock"
							}
							c.Violation(f, "hang|"+cl.api+"|"+sv.name, fmt.Sprintf("%s on %s (%s) did not return within its deadline (%s) + %s, three times in a row", cl.api, sv.name, d.sc.name, eff, slack), w)
						} else {
							c.Inconclusive("overrun not reproduced in isolation")
						}
						hung = true
						break
					}
					_ = took
				}
				if hung {
					break
				}
				// release: goroutines and iterators at quiescence
				leftover := quiesce(sv, base, 10*time.Second)
				if os.Getenv("VERIF_DEBUG") != "" && d.sc.name == "wide-fanout" {
					buf := make([]byte, 1<<24)
					dump := string(buf[:runtime.Stack(buf, true)])
					c.Logf("DEBUG after batch %s %s lat=%s: leftover=%v trySendObject goroutines=%d census=%v", d.sc.name, sv.name, lat, leftover, strings.Count(dump, "commands.trySendObject"), census())
				}
				c.Count("census_checks", 1)
				if len(leftover) > 0 {
					c.Violation(classifyLeak(leftover), "goroutine-leak|"+sv.name+"|"+d.sc.name, fmt.Sprintf("after a batch of %d requests on %s (%s, latency %s) %d kinds of goroutines are still running 10 s later: %v", len(calls), sv.name, d.sc.name, lat, len(leftover), leftover),
						map[string]any{"scenario": d.sc.name, "server": sv.name, "leftover": leftover, "model": dslOf(d.sc)})
				}
				o, s := sv.ods.Opened.Load()-opened0, sv.ods.Stopped.Load()-stopped0
				c.Count("iterators_opened", int(o))
				c.Count("iterators_stopped", int(s))
				if o != s {
					c.Violation("", "iterator-leak|"+sv.name, fmt.Sprintf("after a batch on %s (%s): the datastore opened %d tuple iterators and %d were stopped; still open: %v", sv.name, d.sc.name, o, s, sv.ods.OpenIterators()),
						map[string]any{"scenario": d.sc.name, "server": sv.name})
				}
			}
			sv.ods.ReadLatency.Store(0)
			sv.ods.NextLatency.Store(0)
		}
		if di%4 == 0 {
			c.Sample(map[string]any{"scenario": d.sc.name, "tuples": len(d.sc.tuples()), "checks": d.sc.checks, "lists": d.sc.lists})
		}
	}
}

type call struct {
	api      string
	q        [3]string
	deadline time.Duration
	cancel   bool
}

// exec runs one call with its client deadline / cancellation and a watchdog; returns outcome class.
func exec(sv server, store string, cl call, watchdog time.Duration) (string, time.Duration, bool) {
	outcome := "ok"
	t0 := time.Now()
	returned := drive.Watch(watchdog, func() {
		ctx := context.Background()
		var cancel context.CancelFunc
		if cl.cancel {
			ctx, cancel = context.WithCancel(ctx)
			go func() { time.Sleep(cl.deadline / 2); cancel() }()
			defer cancel()
		}
		req := drive.Req{Store: store, Object: cl.q[0], Relation: cl.q[1], User: cl.q[2], Deadline: cl.deadline, Context: ctx}
		if cl.api == "StreamedListObjects" {
			// a slow client, so that deadlines and cancellations land while the stream is being sent
			req.StreamSendDelay = 500 * time.Microsecond
		}
		var err error
		var panicked string
		switch cl.api {
		case "Check":
			o := sv.s.Check(req)
			err, panicked = o.Err, o.Panic
		case "BatchCheck":
			_, err = sv.s.BatchCheck(store, "", []drive.BatchItem{{ID: "a", Object: cl.q[0], Relation: cl.q[1], User: cl.q[2]}, {ID: "b", Object: cl.q[0], Relation: cl.q[1], User: "user:zz"}}, false)
		case "ListObjects":
			o := sv.s.ListObjects(req)
			err, panicked = o.Err, o.Panic
		case "StreamedListObjects":
			o := sv.s.StreamedListObjects(req)
			err, panicked = o.Err, o.Panic
		case "ListUsers":
			o := sv.s.ListUsers(req, "user", "")
			err, panicked = o.Err, o.Panic
		case "Expand":
			_, err = sv.s.Expand(req)
		}
		switch {
		case panicked != "":
			outcome = "PANIC"
		case err != nil:
			outcome = drive.CodeOf(err)
		}
	})
	return outcome, time.Since(t0), returned
}

// quiesce polls until the census has nothing beyond base (and iterators are balanced) or the bound expires.
func quiesce(sv server, base map[string]int, bound time.Duration) []string {
	deadline := time.Now().Add(bound)
	for {
		runtime.Gosched()
		var left []string
		if base != nil {
			left = diff(base, census())
		}
		if len(left) == 0 && sv.ods.Opened.Load() == sv.ods.Stopped.Load() {
			return nil
		}
		if time.Now().After(deadline) {
			return left
		}
		time.Sleep(20 * time.Millisecond)
	}
}

func classifyLeak(leftover []string) string { return "" }

// ---- model plumbing ----

var genModels = map[string]*openfgav1.AuthorizationModel{}

func withModel(sc scenario, m *openfgav1.AuthorizationModel) scenario {
	sc.name = fmt.Sprintf("generated-%d", len(genModels))
	genModels[sc.name] = m
	return sc
}

func modelOf(sc scenario) *openfgav1.AuthorizationModel {
	if m, ok := genModels[sc.name]; ok {
		return m
	}
	m, err := parser.TransformDSLToProto(sc.dsl)
	if err != nil {
		return nil
	}
	return m
}

func dslOf(sc scenario) string {
	if m, ok := genModels[sc.name]; ok {
		return ref.NewModel(m, ref.TemplateCondEval).DSL()
	}
	return sc.dsl
}

func protoToDSLFallback(*openfgav1.AuthorizationModel) (string, error) { return "", nil }

var _ = os.Getenv
