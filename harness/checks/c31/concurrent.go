package c31

import (
	"crypto/sha256"
	"fmt"
	"math"
	"runtime"
	"sort"
	"strings"
	"sync"
	"sync/atomic"
	"time"

	"github.com/anishathalye/porcupine"
	openfgav1 "github.com/openfga/api/proto/openfga/v1"

	"github.com/openfga/openfga/verifharness/checks/srvkit"
	"github.com/openfga/openfga/verifharness/vk"
)

// regInput is the input of one register operation; the value of a list is its unique marker
// ("" = the empty list / never written).
type regInput struct {
	write  bool
	marker string
}

var registerModel = porcupine.Model{
	Init: func() interface{} { return "" },
	Step: func(state, input, output interface{}) (bool, interface{}) {
		in := input.(regInput)
		if in.write {
			return true, in.marker
		}
		return output.(string) == state.(string), state
	},
	DescribeOperation: func(input, output interface{}) string {
		in := input.(regInput)
		if in.write {
			return "write(" + in.marker + ")"
		}
		return "read -> " + output.(string)
	},
}

type histOp struct {
	Client int    `json:"client"`
	Kind   string `json:"kind"`
	Marker string `json:"marker"`
	Call   int64  `json:"call"`
	Return int64  `json:"return"`
	Err    string `json:"error,omitempty"`
}

type script struct {
	write bool
	p     pair
	list  []*openfgav1.Assertion
	yield int
}

func bucketN(n int) string {
	switch {
	case n == 0:
		return "0"
	case n <= 5:
		return "1-5"
	case n <= 20:
		return "6-20"
	case n <= 60:
		return "21-60"
	}
	return ">60"
}

func concurrent(c *vk.Ctx, cfg srvkit.Config) {
	rounds := c.Pick(10, 80)
	for round := 0; round < rounds; round++ {
		label := fmt.Sprintf("conc/%s/%d", cfg, round)
		r := c.Rand(label)
		e := setup(c, cfg)
		if e == nil {
			return
		}
		table := map[string][]*openfgav1.Assertion{"": nil}
		// hot pairs: neighbours on purpose (same store other model, same model index other store)
		hotSets := [][]pair{
			{{0, 0}, {0, 1}, {1, 0}, {1, 1}},
			{{0, 0}, {0, 1}},
			{{0, 2}, {1, 2}, {2, 2}},
			{{1, 1}},
			{{2, 0}, {2, 1}, {2, 2}, {0, 0}},
		}
		hot := hotSets[r.Intn(len(hotSets))]
		isHot := map[pair]bool{}
		for _, p := range hot {
			isHot[p] = true
		}
		// initial content: some pairs (hot and cold) are pre-written sequentially, the rest never written
		initial := map[pair]string{}
		for s := 0; s < nStores; s++ {
			for m := 0; m < nModels; m++ {
				p := pair{s, m}
				initial[p] = ""
				if r.Intn(2) == 0 {
					mk := fmt.Sprintf("r%d-init-%d-%d", round, s, m)
					list, _ := genList(r, 1+r.Intn(4), mk)
					if err, pan := e.write(p, list); err != nil || pan != "" {
						c.HarnessError("%s initial write failed: %v %s", cfg, err, pan)
						e.inst.Close()
						return
					}
					table[mk], initial[p] = list, mk
				}
			}
		}
		clients := 4 + r.Intn(5)
		opsPer := c.Pick(30, 80)
		scripts := make([][]script, clients)
		for cl := 0; cl < clients; cl++ {
			for i := 0; i < opsPer; i++ {
				sc := script{p: hot[r.Intn(len(hot))], yield: r.Intn(8)}
				if r.Intn(2) == 0 {
					sc.write = true
					mk := fmt.Sprintf("r%d-c%d-o%d", round, cl, i)
					sc.list, _ = genList(r, 1+r.Intn(5), mk)
					table[mk] = sc.list
				}
				scripts[cl] = append(scripts[cl], sc)
			}
		}

		var clock atomic.Int64
		hist := make([][]struct {
			histOp
			p pair
		}, clients)
		var torn sync.Map // marker -> description: content of a read is not the list written under its marker
		var wg sync.WaitGroup
		start := make(chan struct{})
		for cl := 0; cl < clients; cl++ {
			wg.Add(1)
			go func(cl int) {
				defer wg.Done()
				<-start
				for _, sc := range scripts[cl] {
					switch {
					case sc.yield == 0:
						time.Sleep(time.Duration(20+cl*7) * time.Microsecond)
					case sc.yield < 4:
						runtime.Gosched()
					}
					op := histOp{Client: cl}
					if sc.write {
						op.Kind, op.Marker = "write", markerOf(sc.list)
						op.Call = clock.Add(1)
						err, pan := e.write(sc.p, sc.list)
						op.Return = clock.Add(1)
						if pan != "" {
							op.Err = "panic: " + pan
						} else if err != nil {
							op.Err = err.Error()
						}
					} else {
						op.Kind = "read"
						op.Call = clock.Add(1)
						got, _, err, pan := e.read(sc.p)
						op.Return = clock.Add(1)
						if pan != "" {
							op.Err = "panic: " + pan
						} else if err != nil {
							op.Err = err.Error()
						} else {
							op.Marker = markerOf(got)
							want, known := table[op.Marker]
							if !known {
								torn.Store(fmt.Sprintf("%s@%d", op.Marker, op.Call), fmt.Sprintf("read of %s returned a list with marker %q that nobody wrote: %v", sc.p, op.Marker, render(got)))
							} else if d := diffLists(want, got); d != "" {
								torn.Store(fmt.Sprintf("%s@%d", op.Marker, op.Call), fmt.Sprintf("read of %s returned the list marked %q altered: %s", sc.p, op.Marker, d))
							}
						}
					}
					hist[cl] = append(hist[cl], struct {
						histOp
						p pair
					}{op, sc.p})
				}
			}(cl)
		}
		close(start)
		wg.Wait()

		// quiescent final reads: every pair, hot ones join the history, cold ones must be untouched
		perKey := map[pair][]histOp{}
		for cl := range hist {
			for _, h := range hist[cl] {
				perKey[h.p] = append(perKey[h.p], h.histOp)
			}
		}
		for s := 0; s < nStores; s++ {
			for m := 0; m < nModels; m++ {
				p := pair{s, m}
				call := clock.Add(1)
				got, _, err, pan := e.read(p)
				ret := clock.Add(1)
				if err != nil || pan != "" {
					c.Violation("", "conc-final-read/"+cfg.String(), fmt.Sprintf("%s final ReadAssertions(%s) failed: %v %s", cfg, p, err, strings.SplitN(pan, "\n", 2)[0]),
						map[string]any{"config": cfg.String(), "prng_label": label, "pair": p.String(), "panic": pan})
					continue
				}
				mk := markerOf(got)
				if want, known := table[mk]; !known || diffLists(want, got) != "" {
					torn.Store(fmt.Sprintf("%s@final", mk), fmt.Sprintf("final read of %s returned a list (marker %q) that is not any list written verbatim: %v", p, mk, render(got)))
				}
				if isHot[p] {
					perKey[p] = append(perKey[p], histOp{Client: clients, Kind: "read", Marker: mk, Call: call, Return: ret})
					continue
				}
				c.Case(strings.Join([]string{"conc-cold", cfg.String(), map[bool]string{true: "never-written", false: "pre-written"}[initial[p] == ""]}, "|"), true)
				if mk != initial[p] {
					c.Violation("", "conc-cold-pair-changed/"+cfg.String(),
						fmt.Sprintf("%s %s was never touched during the concurrent round but changed from list %q to list %q (%d assertions)", cfg, p, initial[p], mk, len(got)),
						map[string]any{"config": cfg.String(), "prng_label": label, "pair": p.String(), "initial_marker": initial[p], "got": render(got), "hot_pairs": fmt.Sprint(hot)})
				}
			}
		}
		torn.Range(func(k, v any) bool {
			c.Violation("", "conc-not-verbatim/"+cfg.String(), fmt.Sprintf("%s concurrent round %d: %s", cfg, round, v), map[string]any{"config": cfg.String(), "prng_label": label, "detail": v})
			return true
		})

		// porcupine, one partition per hot pair
		for _, p := range hot {
			ops := perKey[p]
			sort.Slice(ops, func(i, j int) bool { return ops[i].Call < ops[j].Call })
			var pops []porcupine.Operation
			// the pre-round content is a write that completed before everything else
			pops = append(pops, porcupine.Operation{ClientId: clients + 1, Input: regInput{write: true, marker: initial[p]}, Call: -2, Output: "", Return: -1})
			var nw, nr, nerr, overlap int
			var inter strings.Builder
			for _, o := range ops {
				fmt.Fprintf(&inter, "%d%c,", o.Client, o.Kind[0])
				if o.Err != "" {
					nerr++
					c.Count("conc_op_errors", 1)
					if strings.HasPrefix(o.Err, "panic") {
						c.Violation("", "conc-panic/"+cfg.String(), fmt.Sprintf("%s %s on %s panicked under concurrency: %s", cfg, o.Kind, p, strings.SplitN(o.Err, "\n", 2)[0]),
							map[string]any{"config": cfg.String(), "prng_label": label, "op": o})
					}
					if o.Kind == "read" {
						continue // told us nothing
					}
					// a failed write may or may not have been applied: pending for ever
					pops = append(pops, porcupine.Operation{ClientId: o.Client, Input: regInput{write: true, marker: o.Marker}, Call: o.Call, Output: "", Return: math.MaxInt64 - 1})
					continue
				}
				if o.Kind == "write" {
					nw++
					pops = append(pops, porcupine.Operation{ClientId: o.Client, Input: regInput{write: true, marker: o.Marker}, Call: o.Call, Output: "", Return: o.Return})
				} else {
					nr++
					pops = append(pops, porcupine.Operation{ClientId: o.Client, Input: regInput{}, Call: o.Call, Output: o.Marker, Return: o.Return})
				}
			}
			for i := range ops {
				for j := i + 1; j < len(ops) && ops[j].Call < ops[i].Return; j++ {
					overlap++
				}
			}
			c.Count("conc_ops", len(ops))
			c.Count("conc_overlapping_op_pairs_same_key", overlap)
			h := sha256.Sum256([]byte(inter.String()))
			c.Seen("conc_interleavings", fmt.Sprintf("%x", h[:8]))
			res := porcupine.CheckOperationsTimeout(registerModel, pops, 30*time.Second)
			c.Count("porcupine_"+string(res), 1)
			c.Case(strings.Join([]string{"conc", cfg.String(), fmt.Sprintf("clients=%d", clients), fmt.Sprintf("hot=%d", len(hot)),
				"w=" + bucketN(nw), "r=" + bucketN(nr), "overlap=" + bucketN(overlap), map[bool]string{true: "init-empty", false: "init-written"}[initial[p] == ""]}, "|"), overlap > 0 || nw > 0)
			switch res {
			case porcupine.Illegal:
				c.Violation("", "conc-not-linearizable/"+cfg.String(),
					fmt.Sprintf("%s concurrent round %d: the history of %s (%d writes, %d reads) is not linearizable as a last-writer register: some ReadAssertions returned a list that was not the last one written", cfg, round, p, nw, nr),
					map[string]any{"config": cfg.String(), "prng_label": label, "pair": p.String(), "initial_marker": initial[p], "clients": clients, "history": ops})
			case porcupine.Unknown:
				c.Inconclusive("porcupine timeout")
			}
		}
		if round == 0 {
			p := hot[0]
			ops := perKey[p]
			if len(ops) > 12 {
				ops = ops[:12]
			}
			c.Sample(map[string]any{"phase": "concurrent", "config": cfg.String(), "round": round, "pair": p.String(), "clients": clients, "first_ops": ops})
		}
		e.inst.Close()
	}
}
