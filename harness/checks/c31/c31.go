// Package c31 decides property C31 "Assertions are stored and returned verbatim per store and
// model": a real in-process server (memory and sqlite backends) is driven with interleaved
// WriteAssertions/ReadAssertions over 3 stores x 3 models; a last-writer register per (store, model)
// is the oracle - a sequential reference model in the single-client phase, porcupine's
// linearizability checker over the recorded call/return history in the concurrent phase.
package c31

import (
	"context"
	"fmt"
	"math"
	"math/rand"
	"runtime/debug"
	"sort"
	"strings"

	openfgav1 "github.com/openfga/api/proto/openfga/v1"
	parser "github.com/openfga/language/pkg/go/transformer"
	"google.golang.org/protobuf/proto"
	"google.golang.org/protobuf/types/known/structpb"

	"github.com/openfga/openfga/verifharness/checks/srvkit"
	"github.com/openfga/openfga/verifharness/vk"
)

func init() { vk.Register("C31", "exploration", run) }

const modelDSL = `model
  schema 1.1
type user
type group
  relations
    define member: [user]
type document
  relations
    define viewer: [user, user:*, group#member, user with in_region]
    define editor: [user]
    define can_view: viewer or editor
condition in_region(region: string, allowed: list<string>, level: int) {
  region in allowed && level > 0
}
`

const (
	nStores = 3
	nModels = 3
	// documented limits (proto validation and commands.DefaultMaxAssertionSizeInBytes)
	maxAssertions       = 100
	maxContextualTuples = 20
	maxBytes            = 64000
)

type pair struct{ s, m int }

func (p pair) String() string { return fmt.Sprintf("store%d/model%d", p.s, p.m) }

type env struct {
	c      *vk.Ctx
	cfg    srvkit.Config
	inst   *srvkit.Instance
	ctx    context.Context
	stores [nStores]string
	models [nStores][nModels]string
}

func run(c *vk.Ctx) {
	c.RaceAnchors = []string{"pkg/storage/memory", "pkg/storage/sqlite", "pkg/server/commands/write_assertions.go", "pkg/server/commands/read_assertions.go"}
	c.SetRule("Per backend (memory, sqlite): 3 stores x 3 models of identical content (distinct ids). Sequential phase: a seed-determined " +
		"interleaving of WriteAssertions (lists of 0-6 assertions valid for the model: expectation, 0-3 contextual tuples incl. typed wildcard, " +
		"userset and conditional tuples, context structs mixing every structpb kind), rejected writes (unknown relation, invalid contextual " +
		"tuple, 101 assertions, 21 contextual tuples, >64000 bytes, unknown model) and ReadAssertions; after EVERY write all 9 pairs are read " +
		"back. Concurrent phase (-race): 4-8 client goroutines write uniquely marked lists to and read from 4 hot pairs, call/return stamped " +
		"from one atomic counter, checked per pair with porcupine against a register model. One evaluation = one read-back comparison or one " +
		"porcupine partition. Signature = phase|backend|op|pair state before|list shape (length, contextual-tuple kinds, context value kinds) " +
		"or conc|backend|clients|writes/reads/overlap buckets. Non-trivial: the pair has been written, or the read is of a never-written pair next to written ones.")
	c.Assume("The client-side copy of each list (cloned before the call, so in-process aliasing with the memory backend cannot mask a change) is the ground truth.")
	c.Assume("Verbatim = proto.Equal per element in order AND equal deterministic wire encoding (distinguishes -0 from 0, unset from empty messages).")
	c.Assume("Concurrent phase: a WriteAssertions that returns an error may or may not have taken effect (modelled as pending forever); porcupine Unknown = inconclusive.")
	c.Assume("postgres/mysql not exercised. Hooks: none needed (observed at the API boundary).")

	for _, cfg := range []srvkit.Config{{Backend: srvkit.Memory}, {Backend: srvkit.Sqlite}} {
		e := setup(c, cfg)
		if e == nil {
			return
		}
		sequential(e)
		e.inst.Close()
		concurrent(c, cfg)
	}
}

func setup(c *vk.Ctx, cfg srvkit.Config) *env {
	inst, err := srvkit.Open(cfg)
	if err != nil {
		c.HarnessError("open %s: %v", cfg, err)
		return nil
	}
	e := &env{c: c, cfg: cfg, inst: inst, ctx: context.Background()}
	m := parser.MustTransformDSLToProto(modelDSL)
	for s := 0; s < nStores; s++ {
		resp, err := inst.Server.CreateStore(e.ctx, &openfgav1.CreateStoreRequest{Name: "assertions"})
		if err != nil {
			c.HarnessError("%s CreateStore: %v", cfg, err)
			inst.Close()
			return nil
		}
		e.stores[s] = resp.GetId()
		for k := 0; k < nModels; k++ {
			mr, err := inst.Server.WriteAuthorizationModel(e.ctx, &openfgav1.WriteAuthorizationModelRequest{
				StoreId: e.stores[s], SchemaVersion: m.GetSchemaVersion(), TypeDefinitions: m.GetTypeDefinitions(), Conditions: m.GetConditions(),
			})
			if err != nil {
				c.HarnessError("%s WriteAuthorizationModel: %v", cfg, err)
				inst.Close()
				return nil
			}
			e.models[s][k] = mr.GetAuthorizationModelId()
		}
	}
	return e
}

// ---------------------------------------------------------------------------------------------
// guarded calls

func (e *env) write(p pair, list []*openfgav1.Assertion) (err error, panicked string) {
	return e.writeRaw(e.stores[p.s], e.models[p.s][p.m], list)
}

func (e *env) writeRaw(storeID, modelID string, list []*openfgav1.Assertion) (err error, panicked string) {
	defer func() {
		if r := recover(); r != nil {
			panicked = fmt.Sprintf("%v\n%s", r, debug.Stack())
		}
	}()
	// the server gets its own copy: what we keep can then not be changed through aliasing
	sent := make([]*openfgav1.Assertion, len(list))
	for i, a := range list {
		sent[i] = proto.Clone(a).(*openfgav1.Assertion)
	}
	_, err = e.inst.Server.WriteAssertions(e.ctx, &openfgav1.WriteAssertionsRequest{
		StoreId: storeID, AuthorizationModelId: modelID, Assertions: sent,
	})
	return err, ""
}

func (e *env) read(p pair) (list []*openfgav1.Assertion, modelID string, err error, panicked string) {
	defer func() {
		if r := recover(); r != nil {
			panicked = fmt.Sprintf("%v\n%s", r, debug.Stack())
		}
	}()
	resp, err := e.inst.Server.ReadAssertions(e.ctx, &openfgav1.ReadAssertionsRequest{
		StoreId: e.stores[p.s], AuthorizationModelId: e.models[p.s][p.m],
	})
	if err != nil {
		return nil, "", err, ""
	}
	return resp.GetAssertions(), resp.GetAuthorizationModelId(), nil, ""
}

// ---------------------------------------------------------------------------------------------
// generation

var stringPool = []string{"", "x", "é", "日本語", "🙂", "a b", "line\nbreak", "tab\t", "nul\x00byte", "\"quoted\"", "\\back", strings.Repeat("long", 40), "ǅ", "é"}
var keyPool = []string{"k", "", "ключ", "a.b", "with space", "K", "k2", "0", "🙂", "marker2"}
var numberPool = []float64{0, math.Copysign(0, -1), 1, -1, 1.5, 1e21, -1e21, 1e-7, 9007199254740993, math.MaxFloat64, math.SmallestNonzeroFloat64, 0.1, 123456789.125}

func genValue(r *rand.Rand, depth int, kinds map[string]bool) *structpb.Value {
	k := r.Intn(6)
	if depth <= 0 && k >= 4 {
		k = r.Intn(4)
	}
	switch k {
	case 0:
		kinds["null"] = true
		return structpb.NewNullValue()
	case 1:
		kinds["bool"] = true
		return structpb.NewBoolValue(r.Intn(2) == 0)
	case 2:
		f := numberPool[r.Intn(len(numberPool))]
		switch {
		case f == 0 && math.Signbit(f):
			kinds["num-0"] = true
		case math.Abs(f) >= 1e21:
			kinds["num-big"] = true
		default:
			kinds["num"] = true
		}
		return structpb.NewNumberValue(f)
	case 3:
		s := stringPool[r.Intn(len(stringPool))]
		if s == "" {
			kinds["str-empty"] = true
		} else if s[0] < 0x80 {
			kinds["str"] = true
		} else {
			kinds["str-unicode"] = true
		}
		return structpb.NewStringValue(s)
	case 4:
		n := r.Intn(4)
		if n == 0 {
			kinds["list-empty"] = true
		} else {
			kinds["list"] = true
		}
		lv := &structpb.ListValue{}
		for i := 0; i < n; i++ {
			lv.Values = append(lv.Values, genValue(r, depth-1, kinds))
		}
		return structpb.NewListValue(lv)
	}
	st := genStruct(r, depth-1, kinds)
	if len(st.GetFields()) == 0 {
		kinds["struct-empty"] = true
	} else {
		kinds["struct"] = true
	}
	return structpb.NewStructValue(st)
}

func genStruct(r *rand.Rand, depth int, kinds map[string]bool) *structpb.Struct {
	n := r.Intn(4)
	st := &structpb.Struct{}
	if n > 0 {
		st.Fields = map[string]*structpb.Value{}
	}
	for i := 0; i < n; i++ {
		st.Fields[keyPool[r.Intn(len(keyPool))]] = genValue(r, depth, kinds)
	}
	return st
}

// shape summarises the semantic shape of a list for the evidence signature.
type shape struct {
	n      int
	ctKind map[string]bool
	kinds  map[string]bool
}

func (s shape) String() string {
	j := func(m map[string]bool) string {
		var k []string
		for x := range m {
			k = append(k, x)
		}
		sort.Strings(k)
		return strings.Join(k, ",")
	}
	return fmt.Sprintf("len=%d ct=[%s] ctx=[%s]", s.n, j(s.ctKind), j(s.kinds))
}

func genContextualTuple(r *rand.Rand, sh *shape) *openfgav1.TupleKey {
	doc := fmt.Sprintf("document:%d", r.Intn(4))
	switch r.Intn(6) {
	case 0:
		sh.ctKind["wildcard"] = true
		return &openfgav1.TupleKey{Object: doc, Relation: "viewer", User: "user:*"}
	case 1:
		sh.ctKind["userset"] = true
		return &openfgav1.TupleKey{Object: doc, Relation: "viewer", User: fmt.Sprintf("group:%d#member", r.Intn(3))}
	case 2:
		sh.ctKind["group"] = true
		return &openfgav1.TupleKey{Object: fmt.Sprintf("group:%d", r.Intn(3)), Relation: "member", User: fmt.Sprintf("user:%d", r.Intn(5))}
	case 3:
		sh.ctKind["cond"] = true
		ctx, _ := structpb.NewStruct(map[string]any{"region": []string{"eu", "us", "é"}[r.Intn(3)], "allowed": []any{"eu", "us"}, "level": float64(r.Intn(5))})
		if r.Intn(3) == 0 {
			sh.ctKind["cond-partial"] = true
			delete(ctx.Fields, "level")
		}
		return &openfgav1.TupleKey{Object: doc, Relation: "viewer", User: fmt.Sprintf("user:%d", r.Intn(5)),
			Condition: &openfgav1.RelationshipCondition{Name: "in_region", Context: ctx}}
	case 4:
		sh.ctKind["cond-noctx"] = true
		return &openfgav1.TupleKey{Object: doc, Relation: "viewer", User: fmt.Sprintf("user:%d", r.Intn(5)),
			Condition: &openfgav1.RelationshipCondition{Name: "in_region"}}
	}
	sh.ctKind["direct"] = true
	return &openfgav1.TupleKey{Object: doc, Relation: []string{"viewer", "editor"}[r.Intn(2)], User: fmt.Sprintf("user:%d", r.Intn(5))}
}

// genList builds a list of n assertions valid for the model. marker (if non-empty) is stored in
// the first assertion's context under "marker" and in its user, making the list unique.
func genList(r *rand.Rand, n int, marker string) ([]*openfgav1.Assertion, shape) {
	sh := shape{n: n, ctKind: map[string]bool{}, kinds: map[string]bool{}}
	var list []*openfgav1.Assertion
	for i := 0; i < n; i++ {
		a := &openfgav1.Assertion{
			TupleKey: &openfgav1.AssertionTupleKey{
				Object:   fmt.Sprintf("document:%d", r.Intn(4)),
				Relation: []string{"viewer", "editor", "can_view"}[r.Intn(3)],
				User:     []string{"user:0", "user:1", "user:anne", "group:1#member", "user:*"}[r.Intn(5)],
			},
			Expectation: r.Intn(2) == 0,
		}
		for k := r.Intn(4); k > 0; k-- {
			a.ContextualTuples = append(a.ContextualTuples, genContextualTuple(r, &sh))
		}
		switch r.Intn(5) {
		case 0: // no context
			sh.kinds["ctx-unset"] = true
		case 1:
			a.Context = &structpb.Struct{}
			sh.kinds["ctx-empty"] = true
		default:
			a.Context = genStruct(r, 3, sh.kinds)
			if len(a.Context.GetFields()) == 0 {
				sh.kinds["ctx-empty"] = true
			}
		}
		if i == 0 && marker != "" {
			if a.Context == nil {
				a.Context = &structpb.Struct{}
			}
			if a.Context.Fields == nil {
				a.Context.Fields = map[string]*structpb.Value{}
			}
			a.Context.Fields["marker"] = structpb.NewStringValue(marker)
		}
		list = append(list, a)
	}
	return list, sh
}

func markerOf(list []*openfgav1.Assertion) string {
	if len(list) == 0 {
		return ""
	}
	return list[0].GetContext().GetFields()["marker"].GetStringValue()
}

// rejected builds a request that the documentation says must be refused, with its reason.
func rejected(r *rand.Rand) ([]*openfgav1.Assertion, string) {
	list, _ := genList(r, 1+r.Intn(3), "")
	switch r.Intn(6) {
	case 0:
		list[len(list)-1].TupleKey.Relation = "no_such_relation"
		return list, "unknown-relation"
	case 1:
		list[len(list)-1].TupleKey.Object = "nosuchtype:1"
		return list, "unknown-type"
	case 2:
		// a contextual tuple that could not be written: editor does not allow groups
		list[0].ContextualTuples = append(list[0].ContextualTuples, &openfgav1.TupleKey{Object: "document:1", Relation: "editor", User: "group:1#member"})
		return list, "invalid-contextual-tuple"
	case 3:
		big, _ := genList(r, maxAssertions+1, "")
		for _, a := range big {
			a.ContextualTuples, a.Context = nil, nil
		}
		return big, "101-assertions"
	case 4:
		for i := 0; i <= maxContextualTuples; i++ {
			list[0].ContextualTuples = append(list[0].ContextualTuples, &openfgav1.TupleKey{Object: "document:1", Relation: "viewer", User: fmt.Sprintf("user:%d", i)})
		}
		return list, "21-contextual-tuples"
	}
	list[0].Context, _ = structpb.NewStruct(map[string]any{"blob": strings.Repeat("x", maxBytes+1)})
	return list, "over-64000-bytes"
}

// ---------------------------------------------------------------------------------------------
// verbatim comparison

var detMarshal = proto.MarshalOptions{Deterministic: true}

func diffLists(want, got []*openfgav1.Assertion) string {
	if len(want) != len(got) {
		return fmt.Sprintf("length %d, expected %d", len(got), len(want))
	}
	for i := range want {
		if got[i] == nil {
			return fmt.Sprintf("element %d is nil", i)
		}
		if !proto.Equal(want[i], got[i]) {
			return fmt.Sprintf("element %d differs (proto.Equal): got %s, expected %s", i, clipS(got[i].String()), clipS(want[i].String()))
		}
		a, err1 := detMarshal.Marshal(want[i])
		b, err2 := detMarshal.Marshal(got[i])
		if err1 != nil || err2 != nil || string(a) != string(b) {
			return fmt.Sprintf("element %d differs in wire encoding (e.g. -0 vs 0, unset vs empty): got %s, expected %s", i, clipS(got[i].String()), clipS(want[i].String()))
		}
	}
	return ""
}

func clipS(s string) string {
	if len(s) > 600 {
		return s[:600] + "…"
	}
	return s
}

func render(list []*openfgav1.Assertion) []string {
	out := []string{}
	for _, a := range list {
		out = append(out, clipS(a.String()))
	}
	return out
}

// ---------------------------------------------------------------------------------------------
// sequential phase

type opRec struct {
	Op     string   `json:"op"`
	Pair   string   `json:"pair"`
	Result string   `json:"result"`
	List   []string `json:"list,omitempty"`
}

func sequential(e *env) {
	c := e.c
	r := c.Rand("seq/" + e.cfg.String())
	reg := map[pair][]*openfgav1.Assertion{} // last acknowledged list per pair
	written := map[pair]bool{}
	var hist []opRec
	trace := func(o opRec) {
		hist = append(hist, o)
		if len(hist) > 60 {
			hist = hist[len(hist)-60:]
		}
	}
	allPairs := func() []pair {
		var ps []pair
		for s := 0; s < nStores; s++ {
			for m := 0; m < nModels; m++ {
				ps = append(ps, pair{s, m})
			}
		}
		return ps
	}
	// check reads one pair and compares with the register.
	check := func(p pair, why string, sig string) bool {
		got, modelID, err, pan := e.read(p)
		c.Count("seq_reads", 1)
		state := "never-written"
		if written[p] {
			state = "written-empty"
			if len(reg[p]) > 0 {
				state = "written"
			}
		}
		nontrivial := written[p] || len(written) > 0
		c.Case(strings.Join([]string{"seq", e.cfg.String(), why, state, sig}, "|"), nontrivial)
		fail := func(cat, what string) bool {
			c.Violation("", cat+"/"+e.cfg.String(), fmt.Sprintf("%s ReadAssertions(%s) %s: %s", e.cfg, p, why, what), map[string]any{
				"config": e.cfg.String(), "pair": p.String(), "prng_label": "seq/" + e.cfg.String(), "expected": render(reg[p]), "got": render(got),
				"recent_ops": hist, "panic": pan,
			})
			return false
		}
		if pan != "" {
			return fail("panic", "panicked: "+strings.SplitN(pan, "\n", 2)[0])
		}
		if err != nil {
			return fail("read-error", "failed: "+err.Error())
		}
		if modelID != e.models[p.s][p.m] {
			return fail("model-id", fmt.Sprintf("response names model %s, asked for %s", modelID, e.models[p.s][p.m]))
		}
		if d := diffLists(reg[p], got); d != "" {
			cat := "not-verbatim"
			if !written[p] {
				cat = "never-written-not-empty"
			}
			return fail(cat, d)
		}
		return true
	}

	// before anything is written every pair is empty
	for _, p := range allPairs() {
		check(p, "initial", "-")
	}
	ops := c.Pick(160, 1500)
	for i := 0; i < ops; i++ {
		p := pair{r.Intn(nStores), r.Intn(nModels)}
		// keep one pair unwritten for the first half: it must stay empty while its neighbours change
		if i < ops/2 && p == (pair{nStores - 1, nModels - 1}) {
			p = pair{0, 0}
		}
		switch k := r.Intn(10); {
		case k < 6: // accepted write
			n := r.Intn(7)
			if k == 0 {
				n = 0 // writing the empty list
			}
			list, sh := genList(r, n, fmt.Sprintf("seq-%d", i))
			err, pan := e.write(p, list)
			c.Count("seq_writes", 1)
			trace(opRec{Op: "write", Pair: p.String(), Result: fmt.Sprint(err) + pan, List: render(list)})
			if pan != "" || err != nil {
				c.Violation("", "write-refused/"+e.cfg.String(), fmt.Sprintf("%s WriteAssertions(%s) of a valid list failed: %v %s", e.cfg, p, err, strings.SplitN(pan, "\n", 2)[0]),
					map[string]any{"config": e.cfg.String(), "pair": p.String(), "list": render(list), "panic": pan, "recent_ops": hist})
				continue
			}
			prev := "over-never-written"
			if written[p] {
				prev = "over-nonempty"
				if len(reg[p]) == 0 {
					prev = "over-empty"
				}
			}
			reg[p], written[p] = list, true
			c.SampleEvery(i, 53, func() any {
				return map[string]any{"phase": "sequential", "config": e.cfg.String(), "op": i, "pair": p.String(), "written": render(list)}
			})
			for _, q := range allPairs() {
				why := "other-pair-after-write"
				if q == p {
					why = "after-write-" + prev
				}
				s := "-"
				if q == p {
					s = sh.String()
				}
				check(q, why, s)
			}
		case k < 8: // rejected write: must change nothing anywhere
			list, reason := rejected(r)
			var err error
			var pan string
			if r.Intn(7) == 0 {
				// a model id that exists only in ANOTHER store
				reason = "model-of-another-store"
				list, _ = genList(r, 2, "foreign")
				err, pan = e.writeRaw(e.stores[p.s], e.models[(p.s+1)%nStores][p.m], list)
			} else {
				err, pan = e.write(p, list)
			}
			c.Count("seq_rejected_writes_attempted", 1)
			trace(opRec{Op: "write-" + reason, Pair: p.String(), Result: fmt.Sprint(err) + pan})
			if pan != "" {
				c.Violation("", "panic-on-invalid/"+e.cfg.String(), fmt.Sprintf("%s WriteAssertions(%s, %s) panicked: %s", e.cfg, p, reason, strings.SplitN(pan, "\n", 2)[0]),
					map[string]any{"config": e.cfg.String(), "reason": reason, "panic": pan})
				continue
			}
			if err == nil {
				// not judged: the property is about what is returned, not about which lists are refused; the
				// register then simply holds this list
				c.Count("documented_limit_not_enforced(not_judged)/"+reason, 1)
				reg[p], written[p] = list, true
			} else {
				c.Seen("rejection_reasons", reason)
			}
			for _, q := range allPairs() {
				check(q, "after-rejected-"+reason, "-")
			}
		default:
			check(p, "read", "-")
		}
	}
	// the largest lists the documentation allows are returned verbatim as well
	{
		p := pair{1, 1}
		list, _ := genList(r, maxAssertions, "max")
		for _, a := range list {
			a.Context, _ = structpb.NewStruct(map[string]any{"i": "v"})
			a.ContextualTuples = a.ContextualTuples[:0]
		}
		list[0].Context.Fields["marker"] = structpb.NewStringValue("max")
		for i := 0; i < maxContextualTuples; i++ {
			list[0].ContextualTuples = append(list[0].ContextualTuples, &openfgav1.TupleKey{Object: "document:1", Relation: "viewer", User: fmt.Sprintf("user:%d", i)})
		}
		err, pan := e.write(p, list)
		if err != nil || pan != "" {
			c.Count("max_size_list_refused(not_judged)", 1)
		} else {
			reg[p], written[p] = list, true
			for _, q := range allPairs() {
				check(q, "after-max-size-write", "-")
			}
		}
	}
}
