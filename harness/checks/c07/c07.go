// Package c07: BatchCheck is equivalent to individual Checks (differential monitor per correlation id,
// with near-duplicate items that differ only in context or contextual tuples; -race).
package c07

import (
	"fmt"
	"math/rand"

	openfgav1 "github.com/openfga/api/proto/openfga/v1"
	"google.golang.org/protobuf/types/known/structpb"

	"github.com/openfga/openfga/verifharness/checks/sem"
	"github.com/openfga/openfga/verifharness/drive"
	"github.com/openfga/openfga/verifharness/gen"
	"github.com/openfga/openfga/verifharness/ref"
	"github.com/openfga/openfga/verifharness/vk"
)

func init() { vk.Register("C07", "exploration", run) }

type namedSrv struct {
	name string
	s    *drive.Srv
	v2   bool
}

func run(c *vk.Ctx) {
	c.SetRule("batches of 1..50 items are drawn from each seeded case's request space and padded with near-duplicates that differ from another item only in a context value, in context key order, in contextual tuple order, in one contextual tuple or in a contextual tuple's condition context; " +
		"every item must receive exactly one outcome under its correlation id and that outcome must equal a standalone Check with the same inputs (same decision, or both fail); the reference names the wrong side; servers with batch concurrency 1 and 50, query cache on, and the weighted-graph engine; " +
		"distinct_nontrivial = distinct (rewrite skeleton, subject kind, reference value, item kind [plain / near-duplicate class], feature set)")
	c.Assume("standalone Check on the same server is the comparison; the reference semantics arbitrates and classifies")
	c.RaceAnchors = []string{"/pkg/server/commands/batch_check", "/pkg/server/batch_check.go", "/internal/graph/", "/pkg/storage/storagewrappers/"}
	if !sem.Calibrate(c) {
		return
	}
	base, err := drive.New(drive.Cfg{BatchConc: 1})
	if err != nil {
		c.HarnessError("server: %v", err)
		return
	}
	defer base.Close()
	servers := []namedSrv{{"conc1", base, false}}
	for _, x := range []struct {
		n   string
		cfg drive.Cfg
	}{
		{"conc50", drive.Cfg{BatchConc: 50}},
		{"conc50+querycache", drive.Cfg{BatchConc: 50, QueryCache: true}},
		{"v2+conc8", drive.Cfg{BatchConc: 8, V2: true}},
	} {
		s, err := drive.NewShared(x.cfg, base)
		if err != nil {
			c.HarnessError("server %s: %v", x.n, err)
			return
		}
		defer s.Close()
		servers = append(servers, namedSrv{x.n, s, x.cfg.V2})
	}
	sem.RunCases(c, base, "mem", c.Pick(40, 500), gen.Options{}, 0, 8, func(i int, r *rand.Rand, p *sem.Prepared, _ []*openfgav1.TupleKey) {
		oneCase(c, i, r, p, servers)
	})
}

type item struct {
	drive.BatchItem
	kind string
}

func permuteCtx(r *rand.Rand, s *structpb.Struct) *structpb.Struct {
	if s == nil {
		return nil
	}
	// same fields inserted in another order (proto maps are unordered; this exercises key canonicalisation)
	keys := make([]string, 0, len(s.GetFields()))
	for k := range s.GetFields() {
		keys = append(keys, k)
	}
	r.Shuffle(len(keys), func(i, j int) { keys[i], keys[j] = keys[j], keys[i] })
	out := &structpb.Struct{Fields: map[string]*structpb.Value{}}
	for _, k := range keys {
		out.Fields[k] = s.GetFields()[k]
	}
	return out
}

func oneCase(c *vk.Ctx, i int, r *rand.Rand, p *sem.Prepared, servers []namedSrv) {
	subjects, ctxs, nodes := sem.RequestSpace(r, p, 5, 4)
	// contextual tuple pool: model-valid tuples not stored
	var pool []*openfgav1.TupleKey
	stored := map[string]bool{}
	for _, tk := range p.Stored {
		stored[tk.GetObject()+"#"+tk.GetRelation()+"@"+tk.GetUser()] = true
	}
	extra := gen.NewCase(c.Rand(fmt.Sprintf("extra-%d", i)), "x", gen.Options{})
	_ = extra
	for _, tk := range p.Case.Tuples {
		if p.Ref.ValidForRead(tk) {
			pool = append(pool, tk)
		}
	}
	rc0 := ref.NewCase(p.Ref, p.Stored, nil, sem.ExtraObjects(nodes, subjects)...)
	reqs := sem.SampleRequests(r, rc0, nodes, subjects, 30)
	var items []item
	add := func(kind string, rq sem.Request, ctx *structpb.Struct, ctxl []*openfgav1.TupleKey) {
		if len(items) >= 50 {
			return
		}
		items = append(items, item{drive.BatchItem{ID: fmt.Sprintf("i%d", len(items)), Object: rq.Object, Relation: rq.Relation, User: rq.User, Ctx: ctx, Contextual: ctxl}, kind})
	}
	// the stored tuples themselves cannot be contextual (duplicates); derive contextual candidates by deleting nothing:
	// use tuples of the case that were NOT stored in this store: none — so build contextual sets from stored tuples of
	// OTHER objects rewritten to unused object ids
	var ctxl []*openfgav1.TupleKey
	for _, tk := range pool {
		if len(ctxl) >= 4 {
			break
		}
		ot, _ := ref.SplitObject(tk.GetObject())
		alt := &openfgav1.TupleKey{Object: ot + ":zz", Relation: tk.GetRelation(), User: tk.GetUser(), Condition: tk.GetCondition()}
		if !stored[alt.GetObject()+"#"+alt.GetRelation()+"@"+alt.GetUser()] && p.Ref.ValidForRead(alt) {
			dup := false
			for _, e := range ctxl {
				if e.GetObject() == alt.GetObject() && e.GetRelation() == alt.GetRelation() && e.GetUser() == alt.GetUser() {
					dup = true
				}
			}
			if !dup {
				ctxl = append(ctxl, alt)
			}
		}
	}
	for qi, rq := range reqs {
		ctx := ctxs[qi%len(ctxs)]
		add("plain", rq, ctx, nil)
		switch qi % 6 {
		case 0:
			if len(ctxs) > 1 {
				add("other-context-value", rq, ctxs[(qi+1)%len(ctxs)], nil)
			}
		case 1:
			add("context-key-order", rq, permuteCtx(r, ctx), nil)
		case 2:
			if len(ctxl) > 1 {
				rq2 := rq
				ot, _ := ref.SplitObject(rq.Object)
				rq2.Object = ot + ":zz"
				add("with-contextual", rq2, ctx, ctxl)
				rev := append([]*openfgav1.TupleKey{}, ctxl...)
				for a, b := 0, len(rev)-1; a < b; a, b = a+1, b-1 {
					rev[a], rev[b] = rev[b], rev[a]
				}
				add("contextual-order", rq2, ctx, rev)
				add("contextual-one-less", rq2, ctx, ctxl[1:])
				add("no-contextual", rq2, ctx, nil)
			}
		case 3:
			add("exact-duplicate", rq, ctx, nil)
		case 4:
			// same tuple, contextual tuple whose condition context differs
			for _, t := range ctxl {
				if t.GetCondition() != nil {
					rq2 := rq
					rq2.Object = t.GetObject()
					rq2.Relation = t.GetRelation()
					a := &openfgav1.TupleKey{Object: t.GetObject(), Relation: t.GetRelation(), User: t.GetUser(), Condition: &openfgav1.RelationshipCondition{Name: t.GetCondition().GetName(), Context: mustStruct(map[string]any{"x": 3, "s": "ok", "b": true}, p, t.GetCondition().GetName())}}
					b := &openfgav1.TupleKey{Object: t.GetObject(), Relation: t.GetRelation(), User: t.GetUser(), Condition: &openfgav1.RelationshipCondition{Name: t.GetCondition().GetName(), Context: mustStruct(map[string]any{"x": 500, "s": "no", "b": false}, p, t.GetCondition().GetName())}}
					rq2.User = t.GetUser()
					add("contextual-condition-context-A", rq2, nil, []*openfgav1.TupleKey{a})
					add("contextual-condition-context-B", rq2, nil, []*openfgav1.TupleKey{b})
					break
				}
			}
		}
	}
	if len(items) == 0 {
		return
	}
	for _, ns := range servers {
		// vary batch sizes: full batch, and a prefix of seeded size
		for _, n := range []int{len(items), 1 + r.Intn(len(items))} {
			batch := make([]drive.BatchItem, n)
			for k := 0; k < n; k++ {
				batch[k] = items[k].BatchItem
			}
			res, err := ns.s.BatchCheck(p.Store, "", batch, false)
			c.Count("batches", 1)
			if err != nil {
				if drive.CodeOf(err) == "PANIC" {
					c.Violation("", "panic", "BatchCheck panicked: "+err.Error(), map[string]any{"model": p.Ref.DSL()})
				} else {
					c.Violation("", "batch-error|"+drive.CodeOf(err), fmt.Sprintf("BatchCheck with %d well-formed items fails as a whole on %s: %s", n, ns.name, drive.ErrDetail(err)), map[string]any{"model": p.Ref.DSL(), "items": n})
				}
				continue
			}
			if len(res) != n {
				c.Violation("", "count", fmt.Sprintf("BatchCheck with %d items returned %d outcomes on %s", n, len(res), ns.name), map[string]any{"model": p.Ref.DSL()})
			}
			for k := 0; k < n; k++ {
				it := items[k]
				o, ok := res[it.ID]
				all := append(append([]*openfgav1.TupleKey{}, p.Stored...), it.Contextual...)
				rc := ref.NewCase(p.Ref, all, it.Ctx, it.Object, it.User)
				kv := rc.Eval(it.User).K(it.Object, it.Relation)
				rq := sem.Request{Object: it.Object, Relation: it.Relation, User: it.User, Ctx: it.Ctx}
				c.Case(fmt.Sprintf("%s|%s|%s", sem.ShapeOf(p, rq, kv), it.kind, ns.name), kv != ref.F || it.kind != "plain")
				if !ok {
					c.Violation("", "missing|"+it.kind, fmt.Sprintf("BatchCheck on %s returned no outcome for correlation id %s (%s)", ns.name, it.ID, it.kind), wit(p, ns.name, rq, it.Contextual, kv.String(), "missing"))
					continue
				}
				single := ns.s.Check(drive.Req{Store: p.Store, Object: it.Object, Relation: it.Relation, User: it.User, Ctx: it.Ctx, Contextual: it.Contextual})
				c.Count("items_compared", 1)
				same := (o.Err != nil) == (single.Err != nil) && (o.Err != nil || o.Allowed == single.Allowed)
				if same {
					continue
				}
				if (o.Err != nil || single.Err != nil) && (kv == ref.E || rc.AnyUnevaluable()) {
					continue // error-vs-decision under an unevaluable condition (C01 acceptance relation)
				}
				wrong := o
				if sem.JudgeCheck(kv, rc.AnyUnevaluable(), o) == sem.Agree {
					wrong = single
				}
				f := sem.ClassifyCheck("C07", rc, rq, kv, wrong, "")
				if f == "" && ns.v2 {
					f = sem.ClassifyV2("C07", p, rc, rq, kv, wrong)
				}
				c.Violation(f, fmt.Sprintf("diff|%s|%s|%s", it.kind, ref.Shape(p.Ref.Rewrite(typeOf(it.Object), it.Relation)), kv),
					fmt.Sprintf("on %s, BatchCheck item %s (%s) Check(%s#%s@%s, ctx=%s, %d contextual) = %s but the standalone Check = %s (reference %s)", ns.name, it.ID, it.kind, it.Object, it.Relation, it.User, gen.CtxString(it.Ctx), len(it.Contextual), o, single, kv),
					wit(p, ns.name, rq, it.Contextual, single.String(), o.String()))
			}
		}
	}
	c.SampleEvery(i, 10, func() any {
		var kinds []string
		for _, it := range items {
			kinds = append(kinds, it.kind)
		}
		return map[string]any{"case": p.Case.Name, "model": p.Ref.DSL(), "stored": gen.TupleStrings(p.Stored), "batch_item_kinds": kinds}
	})
}

func mustStruct(m map[string]any, p *sem.Prepared, cond string) *structpb.Struct {
	out := map[string]any{}
	for k, v := range m {
		if _, ok := p.Ref.Conds[cond].GetParameters()[k]; ok {
			out[k] = v
		}
	}
	s, _ := structpb.NewStruct(out)
	return s
}

func typeOf(o string) string { t, _ := ref.SplitObject(o); return t }

func wit(p *sem.Prepared, cfg string, rq sem.Request, contextual []*openfgav1.TupleKey, want, got string) map[string]any {
	w := sem.Witness(p, cfg, "", rq, contextual, want, got)
	sem.AddWire(w, p, contextual, rq.Ctx)
	return w
}
