package c08

import (
	"fmt"

	openfgav1 "github.com/openfga/api/proto/openfga/v1"
	parser "github.com/openfga/language/pkg/go/transformer"

	"github.com/openfga/openfga/verifharness/checks/sem"
	"github.com/openfga/openfga/verifharness/drive"
	"github.com/openfga/openfga/verifharness/gen"
	"github.com/openfga/openfga/verifharness/ref"
	"github.com/openfga/openfga/verifharness/vk"
)

// directedPairs: a folder hierarchy in which several folders reach the same ancestor along different
// paths (a DAG, no cycle). One request warms the cache through a traversal that visits the shared
// ancestors once; a second request for a folder inside that traversal must not be answered from what
// the first one left behind as "nothing new found here". Every ordered pair of folders, fresh store per
// pair (cache entries are per store), every cached server; the oracle is the reference semantics.
func directedPairs(c *vk.Ctx, base *drive.Srv, servers []cachedSrv) {
	m, err := parser.TransformDSLToProto(`model
  schema 1.1
type user
type group
  relations
    define member: [user, group#member]
type folder
  relations
    define parent: [folder]
    define viewer: [user, group#member, user:*] or viewer from parent
type doc
  relations
    define parent: [folder]
    define blocked: [user]
    define viewer: viewer from parent but not blocked`)
	if err != nil {
		c.HarnessError("dsl: %v", err)
		return
	}
	tk := func(o, r, u string) *openfgav1.TupleKey { return &openfgav1.TupleKey{Object: o, Relation: r, User: u} }
	tuples := []*openfgav1.TupleKey{
		tk("folder:f5", "parent", "folder:f4"), tk("folder:f5", "parent", "folder:f2"), tk("folder:f4", "parent", "folder:f2"),
		tk("folder:f2", "parent", "folder:f1"), tk("folder:f3", "parent", "folder:f1"), tk("folder:f5", "parent", "folder:f3"),
		tk("folder:f2", "viewer", "user:*"), tk("folder:f1", "viewer", "user:d"), tk("folder:f3", "viewer", "group:g1#member"),
		tk("group:g1", "member", "group:g2#member"), tk("group:g2", "member", "user:b"),
		tk("doc:d1", "parent", "folder:f5"), tk("doc:d1", "parent", "folder:f4"), tk("doc:d1", "blocked", "user:e"),
	}
	rm := ref.NewModel(m, ref.TemplateCondEval)
	objs := []string{"folder:f5", "folder:f4", "folder:f3", "folder:f2", "doc:d1"}
	users := []string{"user:*", "user:d", "user:b", "user:e"}
	rc := ref.NewCase(rm, tuples, nil, append(append([]string{}, objs...), users...)...)
	for ai, a := range objs {
		for bi, b := range objs {
			if a == b {
				continue
			}
			store, err := base.CreateStore("c08-pairs")
			if err != nil {
				c.HarnessError("store: %v", err)
				return
			}
			mid, err := base.WriteModel(store, m)
			if err != nil {
				c.HarnessError("model: %v", err)
				return
			}
			if err := base.WriteTuples(store, mid, tuples); err != nil {
				c.HarnessError("tuples: %v", err)
				return
			}
			p := &sem.Prepared{Case: &gen.Case{Name: "pairs", Model: m}, Store: store, ModelID: mid, Ref: rm, Stored: tuples}
			for _, cs := range servers {
				u := users[(ai+bi)%len(users)]
				for step, o := range []string{a, b, a} {
					rq := sem.Request{Object: o, Relation: "viewer", User: u}
					k := rc.Eval(u).K(o, "viewer")
					out := cs.s.Check(drive.Req{Store: store, Model: mid, Object: o, Relation: "viewer", User: u})
					c.Case(fmt.Sprintf("pairs|%s|%s|step%d|%s", cs.name, sem.ShapeOf(p, rq, k), step, k), true)
					c.Count("directed_pair_requests", 1)
					if v := sem.JudgeCheck(k, false, out); v != sem.Agree && v != sem.NotJudged {
						twin := out
						if tv := twinOf(cs, base); tv != nil {
							twin = tv.Check(drive.Req{Store: store, Model: mid, Object: o, Relation: "viewer", User: u})
						}
						if (twin.Err != nil) == (out.Err != nil) && (out.Err != nil || twin.Allowed == out.Allowed) {
							c.Count("engine_deviations_also_without_cache(not_judged_here)", 1)
							continue
						}
						w := sem.Witness(p, cs.name, "", rq, nil, k.String(), out.String())
						w["history"] = fmt.Sprintf("Check(%s#viewer@%s), Check(%s#viewer@%s), Check(%s#viewer@%s); this is request %d", a, u, b, u, a, u, step+1)
						c.Violation("", fmt.Sprintf("%s|pairs|%s", cs.name, k), fmt.Sprintf("CACHE-DEPENDENT ANSWER: on %s, after Check(%s#viewer@%s), Check(%s#viewer@%s) answered %s; reference %s; uncached twin of the same configuration %s", cs.name, a, u, o, u, out, k, twin), w)
					}
				}
			}
		}
	}
}
