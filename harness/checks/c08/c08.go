// Package c08: the Check query cache never changes answers (request histories against an unchanged
// store on servers with the sub-problem cache enabled, compared with the reference and with an
// uncached twin; the observing cache proves that entries were actually served).
package c08

import (
	"fmt"
	"math/rand"
	"os"
	"sort"
	"strings"
	"sync"

	openfgav1 "github.com/openfga/api/proto/openfga/v1"

	"github.com/openfga/openfga/verifharness/checks/sem"
	"github.com/openfga/openfga/verifharness/drive"
	"github.com/openfga/openfga/verifharness/gen"
	"github.com/openfga/openfga/verifharness/ref"
	"github.com/openfga/openfga/verifharness/vk"
)

func init() { vk.Register("C08", "exploration", run) }

type cachedSrv struct {
	name  string
	s     *drive.Srv
	cache *drive.ObsCache
	v2    bool
	cfg   drive.Cfg // the server's configuration without the cache: what its uncached twin runs
}

func run(c *vk.Ctx) {
	c.SetRule("for each seeded case a request history (each sampled request repeated 3 times, shuffled differently per server, mixing Check, BatchCheck and ListObjects, contexts, contextual tuples, explicit and implicit model ids, forced strategy modes) runs against an unchanged store on servers with the Check query cache on (v1; v1 with breadth 1; weighted-graph engine); every answer must equal the uncached twin's and satisfy the C01 acceptance relation; the observing cache must report check_response hits, else the run is inconclusive; " +
		"distinct_nontrivial = distinct (API, rewrite skeleton, subject kind, reference value, server) with reference T/E or data on the object")
	c.Assume("reference semantics harness/ref; the injected cache is the real theine cache behind a counting wrapper")
	c.RaceAnchors = []string{"/internal/graph/cached_resolver.go", "/internal/check/", "/pkg/storage/cache.go"}
	if !sem.Calibrate(c) {
		return
	}
	base, err := drive.New(drive.Cfg{})
	if err != nil {
		c.HarnessError("server: %v", err)
		return
	}
	defer base.Close()
	var servers []cachedSrv
	for _, x := range []struct {
		n   string
		cfg drive.Cfg
	}{
		{"v1+qcache", drive.Cfg{QueryCache: true}},
		{"v1+qcache+breadth1", drive.Cfg{QueryCache: true, Breadth: 1, ReadsCheck: 1}},
		{"v2+qcache", drive.Cfg{QueryCache: true, V2: true}},
		{"v1+qcache+pipeline", drive.Cfg{QueryCache: true, LOEngine: "pipeline"}},
		{"v2+qcache+breadth1", drive.Cfg{QueryCache: true, V2: true, Breadth: 1, ReadsCheck: 1}},
		{"v1+qcache+optimized", drive.Cfg{QueryCache: true, LOEngine: "optimized"}},
	} {
		oc, err := drive.NewObsCache()
		if err != nil {
			c.HarnessError("cache: %v", err)
			return
		}
		cfg := x.cfg
		cfg.Cache = oc
		plain := x.cfg
		plain.QueryCache = false
		s, err := drive.NewShared(cfg, base)
		if err != nil {
			c.HarnessError("server %s: %v", x.n, err)
			return
		}
		defer s.Close()
		servers = append(servers, cachedSrv{x.n, s, oc, cfg.V2, plain})
	}
	directedPairs(c, base, servers)
	sem.RunCases(c, base, "mem", c.Pick(200, 1500), gen.Options{HierarchyEvery: 3, AlgebraEvery: 5, MutualEvery: 4}, 3, 8, func(i int, r *rand.Rand, p *sem.Prepared, contextual []*openfgav1.TupleKey) {
		oneCase(c, i, r, p, contextual, base, servers)
	})
	hits := int64(0)
	for _, cs := range servers {
		for k, v := range cs.cache.Stats() {
			c.Count("cache_"+cs.name+"_"+k, int(v))
			if k == "hit:check_response" {
				hits += v
			}
		}
	}
	if hits == 0 {
		c.Inconclusive("no check_response cache hit was observed")
		c.HarnessError("the query cache never served an entry: nothing was decided")
	}
}

type histItem struct {
	api   string
	rq    sem.Request
	ctxl  []*openfgav1.TupleKey
	model bool
	// higher: sent with HIGHER_CONSISTENCY (such requests do not read the query cache but their
	// sub-problems' results are written to it, where later default-consistency requests find them)
	higher bool
}

func oneCase(c *vk.Ctx, i int, r *rand.Rand, p *sem.Prepared, contextual []*openfgav1.TupleKey, base *drive.Srv, servers []cachedSrv) {
	subjects, ctxs, nodes := sem.RequestSpace(r, p, 5, 2)
	var items []histItem
	rcs := map[string]*ref.Case{}
	rcFor := func(it histItem) *ref.Case {
		key := gen.CtxString(it.rq.Ctx) + fmt.Sprint(len(it.ctxl))
		if rc, ok := rcs[key]; ok {
			return rc
		}
		rc := ref.NewCase(p.Ref, p.AllTuples(it.ctxl), it.rq.Ctx, sem.ExtraObjects(nodes, subjects)...)
		rcs[key] = rc
		return rc
	}
	for ci, rctx := range ctxs {
		rc := ref.NewCase(p.Ref, p.AllTuples(contextual), rctx, sem.ExtraObjects(nodes, subjects)...)
		sample := sem.SampleRequests(r, rc, nodes, subjects, c.Pick(24, 50))
		if p.Case.Features["mutual-recursion"] || p.Case.Features["hierarchy"] {
			// chains and cycles: a sub-problem met below a cycle cut or deep in a chain by one request is the
			// top-level question of another; take EVERY node for two subjects that hold something
			n := 0
			for _, u := range subjects {
				ev := rc.Eval(u)
				holds := false
				for _, nd := range nodes {
					if ev.K(nd[0], nd[1]) == ref.T {
						holds = true
						break
					}
				}
				if !holds || ref.IsWildcard(u) {
					continue
				}
				for _, nd := range nodes {
					if !strings.HasSuffix(nd[0], ":zz") {
						sample = append(sample, sem.Request{Object: nd[0], Relation: nd[1], User: u, Ctx: rctx})
					}
				}
				if n++; n >= 2 {
					break
				}
			}
		}
		for qi, rq := range sample {
			it := histItem{api: "check", rq: rq, ctxl: contextual, model: qi%4 == 0, higher: qi%6 == 1}
			if qi%5 == 0 && len(contextual) > 0 {
				it.ctxl = nil // same request without the contextual tuples: must not be answered from the other's entries
			}
			if qi%7 == 3 {
				it.api = "batch"
			}
			items = append(items, it)
		}
		if ci == 0 {
			for li := 0; li < 6; li++ {
				t := p.Ref.TypeNames()[r.Intn(len(p.Ref.TypeNames()))]
				rels := p.Ref.RelationNames(t)
				if len(rels) == 0 {
					continue
				}
				lrq := sem.Request{Object: t, Relation: rels[r.Intn(len(rels))], User: subjects[r.Intn(len(subjects))], Ctx: rctx}
				items = append(items, histItem{api: "listobjects", rq: lrq, ctxl: contextual})
				// the same list request under every other context and without the contextual tuples: the
				// entries written for one must not answer the other
				for _, other := range ctxs[1:] {
					o := lrq
					o.Ctx = other
					items = append(items, histItem{api: "listobjects", rq: o, ctxl: contextual})
				}
				if len(contextual) > 0 && li%2 == 0 {
					items = append(items, histItem{api: "listobjects", rq: lrq})
				}
			}
		}
	}
	if len(items) == 0 {
		return
	}
	modes := []drive.Mode{"default", "fast", "mixed:1", ""}
	for si, cs := range servers {
		// history: 3 repeats, order specific to this server
		var hist []histItem
		for rep := 0; rep < 3; rep++ {
			hist = append(hist, items...)
		}
		rr := rand.New(rand.NewSource(c.SubSeed(fmt.Sprintf("order-%d-%d", i, si))))
		rr.Shuffle(len(hist), func(a, b int) { hist[a], hist[b] = hist[b], hist[a] })
		drive.ForceStore(p.Store, modes[(i+si)%len(modes)])
		for _, it := range hist {
			rc := rcFor(it)
			model := ""
			if it.model {
				model = p.ModelID
			}
			switch it.api {
			case "check", "batch":
				k := rc.Eval(it.rq.User).K(it.rq.Object, it.rq.Relation)
				req := drive.Req{Store: p.Store, Model: model, Object: it.rq.Object, Relation: it.rq.Relation, User: it.rq.User, Ctx: it.rq.Ctx, Contextual: it.ctxl, HigherConsistency: it.higher}
				var o drive.Outcome
				if it.api == "check" {
					o = cs.s.Check(req)
				} else {
					res, err := cs.s.BatchCheck(p.Store, model, []drive.BatchItem{{ID: "a", Object: it.rq.Object, Relation: it.rq.Relation, User: it.rq.User, Ctx: it.rq.Ctx, Contextual: it.ctxl}}, it.higher)
					if err != nil {
						o = drive.Outcome{Err: err, Code: drive.CodeOf(err)}
					} else {
						o = res["a"]
					}
				}
				c.Case(fmt.Sprintf("%s|%s|%s", it.api, sem.ShapeOf(p, it.rq, k), cs.name), k != ref.F)
				if os.Getenv("VERIF_DEBUG") != "" {
					c.Logf("DEBUG %s %s %s#%s@%s ctx=%s ctxl=%d higher=%v model=%v -> %s (ref %s)", cs.name, it.api, it.rq.Object, it.rq.Relation, it.rq.User, gen.CtxString(it.rq.Ctx), len(it.ctxl), it.higher, it.model, o, k)
				}
				c.Count("history_requests_"+it.api, 1)
				v := sem.JudgeCheck(k, rc.AnyUnevaluable(), o)
				if v == sem.Agree || v == sem.NotJudged {
					continue
				}
				// is the uncached twin wrong in the same way? then it is not the cache (C01/C03's subject)
				// (same engine, breadth and read limits, same datastore, no cache)
				twin := o
				if tv := twinOf(cs, base); tv != nil {
					twin = tv.Check(req)
				}
				sameAsTwin := (twin.Err != nil) == (o.Err != nil) && (o.Err != nil || twin.Allowed == o.Allowed)
				f := sem.ClassifyCheck("C08", rc, it.rq, k, o, "fast")
				if f == "" && cs.v2 {
					f = sem.ClassifyV2("C08", p, rc, it.rq, k, o)
				}
				what := fmt.Sprintf("on %s (query cache on), %s(%s#%s@%s, ctx=%s, %d contextual) answered %s; reference %s; uncached twin of the same engine %s [%s]", cs.name, it.api, it.rq.Object, it.rq.Relation, it.rq.User, gen.CtxString(it.rq.Ctx), len(it.ctxl), o, k, twin, v)
				if !sameAsTwin {
					what = "CACHE-DEPENDENT ANSWER: " + what
				} else if f == "" {
					// the same engine gives the same answer without a cache: an engine deviation (C01 / C03's
					// subject), not something the query cache changed
					c.Count("engine_deviations_also_without_cache(not_judged_here)", 1)
					continue
				}
				w := sem.Witness(p, cs.name, "", it.rq, it.ctxl, k.String(), o.String())
				sem.AddWire(w, p, it.ctxl, it.rq.Ctx)
				c.Violation(f, fmt.Sprintf("%s|%s|%s|%s|%v", cs.name, v, ref.Shape(p.Ref.Rewrite(typeOf(it.rq.Object), it.rq.Relation)), k, sameAsTwin), what, w)
			case "listobjects":
				want, anyE := sem.RefListObjects(rc, it.rq.Object, it.rq.Relation, it.rq.User)
				lo := cs.s.ListObjects(drive.Req{Store: p.Store, Model: model, Object: it.rq.Object, Relation: it.rq.Relation, User: it.rq.User, Ctx: it.rq.Ctx, Contextual: it.ctxl})
				c.Count("history_requests_listobjects", 1)
				c.Case(fmt.Sprintf("lo|%s|n=%d|%s", ref.Shape(p.Ref.Rewrite(it.rq.Object, it.rq.Relation)), len(want), cs.name), len(want) > 0)
				if sem.Hung(c, cs.name, lo) || lo.Err != nil || anyE {
					continue
				}
				got := append([]string{}, lo.Items...)
				sort.Strings(got)
				if strings.Join(got, ",") != strings.Join(want, ",") {
					// the uncached twin of the same ListObjects engine decides whether the cache is involved:
					// the same wrong answer without a cache is the engine's deviation (C05's subject)
					if tw := twinOf(cs, base); tw != nil {
						tl := tw.ListObjects(drive.Req{Store: p.Store, Model: model, Object: it.rq.Object, Relation: it.rq.Relation, User: it.rq.User, Ctx: it.rq.Ctx, Contextual: it.ctxl})
						tg := append([]string{}, tl.Items...)
						sort.Strings(tg)
						if tl.Err == nil && strings.Join(tg, ",") == strings.Join(got, ",") {
							c.Count("listobjects_deviation_also_without_cache(engine, not judged here)", 1)
							continue
						}
					}
					if strings.Contains(cs.name, "optimized") {
						// the weighted reverse expansion omits permitted objects nondeterministically (listed
						// under C05): a sound answer that differs from its own uncached twin by omissions only
						sound := true
						for _, o := range got {
							if !contains(want, o) {
								sound = false
							}
						}
						if sound {
							c.Violation("C08-"+sem.FindingOptimizedOmits, "lo-omits|"+cs.name, fmt.Sprintf("on %s, ListObjects(%s, %s, %s) = %v; reference %v (omissions only)", cs.name, it.rq.Object, it.rq.Relation, it.rq.User, got, want), nil)
							continue
						}
					}
					f := "?"
					for _, o := range symdiff(got, want) {
						kk := ref.F
						if contains(want, o) {
							kk = ref.T
						}
						ff := sem.ClassifyCheck("C08", rc, sem.Request{Object: o, Relation: it.rq.Relation, User: it.rq.User, Ctx: it.rq.Ctx}, kk, drive.Outcome{Allowed: contains(got, o)}, "fast")
						if f == "?" {
							f = ff
						} else if f != ff {
							f = ""
						}
					}
					if f == "?" {
						f = ""
					}
					w := sem.Witness(p, cs.name, "", it.rq, it.ctxl, strings.Join(want, ","), strings.Join(got, ","))
					sem.AddWire(w, p, it.ctxl, it.rq.Ctx)
					c.Violation(f, "lo|"+cs.name+"|"+ref.Shape(p.Ref.Rewrite(it.rq.Object, it.rq.Relation)), fmt.Sprintf("on %s (query cache on), ListObjects(%s, %s, %s) = %v; reference %v", cs.name, it.rq.Object, it.rq.Relation, it.rq.User, got, want), w)
				}
			}
		}
	}
	c.SampleEvery(i, 15, func() any {
		return map[string]any{"case": p.Case.Name, "model": p.Ref.DSL(), "stored": gen.TupleStrings(p.Stored), "contextual": gen.TupleStrings(contextual), "history_length_per_server": 3 * len(items)}
	})
}

func contains(xs []string, x string) bool {
	for _, y := range xs {
		if y == x {
			return true
		}
	}
	return false
}

func symdiff(a, b []string) []string {
	var out []string
	for _, x := range a {
		if !contains(b, x) {
			out = append(out, x)
		}
	}
	for _, x := range b {
		if !contains(a, x) {
			out = append(out, x)
		}
	}
	return out
}

func typeOf(o string) string { t, _ := ref.SplitObject(o); return t }

var (
	loTwinMu sync.Mutex
	loTwins  = map[string]*drive.Srv{}
)

// twinOf returns the uncached twin of a cached server: the same configuration (engine, ListObjects engine,
// breadth and read limits) on the same datastore, with the query cache off.
func twinOf(cs cachedSrv, base *drive.Srv) *drive.Srv {
	loTwinMu.Lock()
	defer loTwinMu.Unlock()
	if s, ok := loTwins[cs.name]; ok {
		return s
	}
	s, err := drive.NewShared(cs.cfg, base)
	if err != nil {
		return nil
	}
	loTwins[cs.name] = s
	return s
}
