// Package c30: Expand mirrors the rewrite and the directly assigned users (reference-tree monitor).
package c30

import (
	"fmt"
	"google.golang.org/protobuf/proto"
	"math/rand"
	"sort"
	"strings"

	openfgav1 "github.com/openfga/api/proto/openfga/v1"

	"github.com/openfga/openfga/verifharness/checks/sem"
	"github.com/openfga/openfga/verifharness/drive"
	"github.com/openfga/openfga/verifharness/gen"
	"github.com/openfga/openfga/verifharness/ref"
	"github.com/openfga/openfga/verifharness/vk"
)

func init() { vk.Register("C30", "exploration", run) }

func run(c *vk.Ctx) {
	c.SetRule("for every object#relation of every seeded case (with a seeded part of the tuples passed as contextual tuples, and left-over invalid tuples in the store) Server.Expand is compared with a tree built independently from the model's rewrite: same operator skeleton in the same operand order, every node named object#relation, computed leaves naming object#computed, tuple-to-userset leaves naming the tupleset and exactly the parent#computed usersets of the valid tupleset tuples, direct-assignment leaves listing exactly the users of the valid stored and contextual tuples, sorted and duplicate-free; " +
		"distinct_nontrivial = distinct (rewrite skeleton, number of direct users class, number of ttu parents class, feature set) with at least one tuple on the node")
	c.Assume("tuple validity by harness/ref's validator (conditions are not evaluated by Expand: a conditional tuple's user is listed)")
	base, err := drive.New(drive.Cfg{})
	if err != nil {
		c.HarnessError("server: %v", err)
		return
	}
	defer base.Close()
	sql := []*drive.Srv{}
	if !c.Quick() {
		s, err := drive.New(drive.Cfg{Backend: "sqlite"})
		if err == nil {
			defer s.Close()
			sql = append(sql, s)
		}
	}
	sem.RunCases(c, base, "mem", c.Pick(400, 3000), gen.Options{WideEvery: 4, AlgebraEvery: 5, HierarchyEvery: 6}, 3, 12, func(i int, r *rand.Rand, p *sem.Prepared, contextual []*openfgav1.TupleKey) {
		oneCase(c, i, p, contextual, base)
	})
	for _, s := range sql {
		sem.RunCases(c, s, "sqlite", 200, gen.Options{}, 3, 8, func(i int, r *rand.Rand, p *sem.Prepared, contextual []*openfgav1.TupleKey) {
			oneCase(c, i, p, contextual, s)
		})
	}
}

func sizeClass(n int) string {
	switch {
	case n == 0:
		return "0"
	case n == 1:
		return "1"
	case n <= 3:
		return "2-3"
	}
	return "4+"
}

func oneCase(c *vk.Ctx, i int, p *sem.Prepared, contextual []*openfgav1.TupleKey, srv *drive.Srv) {
	if i%4 == 1 {
		// contextual tuples that REPEAT stored ones (second and later stored tuples of a node, so that the
		// repeated user is not adjacent to its stored twin in read order): a user is listed once
		seen := map[string]int{}
		n := 0
		for _, tk := range p.Stored {
			k := tk.GetObject() + "#" + tk.GetRelation()
			seen[k]++
			if seen[k] >= 2 && n < 3 && p.Ref.ValidForRead(tk) {
				dup := proto.Clone(tk).(*openfgav1.TupleKey)
				contextual = append(append([]*openfgav1.TupleKey{}, contextual...), dup)
				n++
			}
		}
		c.Count("contextual_tuples_repeating_stored_ones", n)
	}
	all := p.AllTuples(contextual)
	rc := ref.NewCase(p.Ref, all, nil)
	byNode := map[string][]*openfgav1.TupleKey{}
	for _, tk := range rc.ValidTuples() {
		k := tk.GetObject() + "#" + tk.GetRelation()
		byNode[k] = append(byNode[k], tk)
	}
	for _, t := range p.Ref.TypeNames() {
		for _, rel := range p.Ref.RelationNames(t) {
			for _, o := range p.Case.ObjectsOf(t) {
				tree, err := srv.Expand(drive.Req{Store: p.Store, Object: o, Relation: rel, Contextual: contextual})
				nUsers, nParents := 0, 0
				want := expected(p.Ref, byNode, o, rel, p.Ref.Rewrite(t, rel), &nUsers, &nParents)
				c.Case(fmt.Sprintf("%s|u=%s|p=%s|%s", ref.Shape(p.Ref.Rewrite(t, rel)), sizeClass(nUsers), sizeClass(nParents), p.Features), nUsers+nParents > 0)
				wit := func(got string) map[string]any {
					w := sem.Witness(p, srv.Cfg.Name(), "", sem.Request{Object: o, Relation: rel}, contextual, want, got)
					sem.AddWire(w, p, contextual, nil)
					return w
				}
				if err != nil {
					code := drive.CodeOf(err)
					c.Violation("", "error|"+code, fmt.Sprintf("Expand(%s#%s) fails: %s", o, rel, drive.ErrDetail(err)), wit("error"))
					continue
				}
				got := sem.CanonTree(tree.GetRoot())
				if got != want {
					c.Violation("", "tree|"+ref.Shape(p.Ref.Rewrite(t, rel)), fmt.Sprintf("Expand(%s#%s) = %s ; expected from the rewrite and the valid tuples: %s", o, rel, got, want), wit(got))
				}
				if msg := leavesSortedDistinct(tree.GetRoot()); msg != "" {
					c.Violation("", "leaf-order", fmt.Sprintf("Expand(%s#%s): %s", o, rel, msg), wit(got))
				}
			}
		}
	}
	c.SampleEvery(i, 25, func() any {
		return map[string]any{"case": p.Case.Name, "model": p.Ref.DSL(), "stored": gen.TupleStrings(p.Stored), "contextual": gen.TupleStrings(contextual)}
	})
}

// expected renders the reference tree in sem.CanonTree's format.
func expected(m *ref.Model, byNode map[string][]*openfgav1.TupleKey, object, relation string, us *openfgav1.Userset, nUsers, nParents *int) string {
	name := object + "#" + relation
	switch u := us.GetUserset().(type) {
	case *openfgav1.Userset_This:
		set := map[string]bool{}
		for _, tk := range byNode[name] {
			set[tk.GetUser()] = true
		}
		var users []string
		for x := range set {
			users = append(users, x)
		}
		sort.Strings(users)
		*nUsers += len(users)
		return name + "{users:" + strings.Join(users, ",") + "}"
	case *openfgav1.Userset_ComputedUserset:
		return name + "{computed:" + object + "#" + u.ComputedUserset.GetRelation() + "}"
	case *openfgav1.Userset_TupleToUserset:
		ts := u.TupleToUserset.GetTupleset().GetRelation()
		cr := u.TupleToUserset.GetComputedUserset().GetRelation()
		set := map[string]bool{}
		for _, tk := range byNode[object+"#"+ts] {
			set[tk.GetUser()+"#"+cr] = true
		}
		var cs []string
		for x := range set {
			cs = append(cs, x)
		}
		sort.Strings(cs)
		*nParents += len(cs)
		return name + "{ttu:" + object + "#" + ts + "->" + strings.Join(cs, ",") + "}"
	case *openfgav1.Userset_Union:
		return name + "{union:" + children(m, byNode, object, relation, u.Union.GetChild(), nUsers, nParents) + "}"
	case *openfgav1.Userset_Intersection:
		return name + "{intersection:" + children(m, byNode, object, relation, u.Intersection.GetChild(), nUsers, nParents) + "}"
	case *openfgav1.Userset_Difference:
		return name + "{difference:" + expected(m, byNode, object, relation, u.Difference.GetBase(), nUsers, nParents) + " - " + expected(m, byNode, object, relation, u.Difference.GetSubtract(), nUsers, nParents) + "}"
	}
	return name + "{?}"
}

func children(m *ref.Model, byNode map[string][]*openfgav1.TupleKey, object, relation string, ch []*openfgav1.Userset, nUsers, nParents *int) string {
	var parts []string
	for _, c := range ch {
		parts = append(parts, expected(m, byNode, object, relation, c, nUsers, nParents))
	}
	return "[" + strings.Join(parts, " ; ") + "]"
}

// leavesSortedDistinct checks the raw (un-canonicalised) leaves.
func leavesSortedDistinct(n *openfgav1.UsersetTree_Node) string {
	if n == nil {
		return ""
	}
	switch v := n.GetValue().(type) {
	case *openfgav1.UsersetTree_Node_Leaf:
		if us := v.Leaf.GetUsers(); us != nil {
			u := us.GetUsers()
			for i := 1; i < len(u); i++ {
				if u[i-1] == u[i] {
					return fmt.Sprintf("leaf of %s lists %s twice", n.GetName(), u[i])
				}
				if u[i-1] > u[i] {
					return fmt.Sprintf("leaf of %s is not sorted: %v", n.GetName(), u)
				}
			}
		}
	case *openfgav1.UsersetTree_Node_Union:
		for _, c := range v.Union.GetNodes() {
			if m := leavesSortedDistinct(c); m != "" {
				return m
			}
		}
	case *openfgav1.UsersetTree_Node_Intersection:
		for _, c := range v.Intersection.GetNodes() {
			if m := leavesSortedDistinct(c); m != "" {
				return m
			}
		}
	case *openfgav1.UsersetTree_Node_Difference:
		if m := leavesSortedDistinct(v.Difference.GetBase()); m != "" {
			return m
		}
		return leavesSortedDistinct(v.Difference.GetSubtract())
	}
	return ""
}
