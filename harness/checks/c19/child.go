package c19

import (
	"context"
	"crypto/sha256"
	"encoding/json"
	"errors"
	"fmt"
	"math/rand"
	"os"
	"runtime"
	"runtime/debug"
	"runtime/metrics"
	"strings"
	"sync/atomic"
	"syscall"
	"time"

	authzenv1 "github.com/openfga/api/proto/authzen/v1"
	openfgav1 "github.com/openfga/api/proto/openfga/v1"
	"google.golang.org/grpc/metadata"
	"google.golang.org/protobuf/encoding/protojson"
	"google.golang.org/protobuf/proto"
	"google.golang.org/protobuf/types/known/structpb"

	"github.com/openfga/openfga/pkg/server"
	"github.com/openfga/openfga/verifharness/drive"
	"github.com/openfga/openfga/verifharness/gen"
)

const childEnv = "VERIF_C19_CHILD"

// exit codes of a child
const (
	exitOK      = 0
	exitHarness = 3 // the harness itself failed (CHILD-ERROR line on stdout)
	exitHang    = 7 // a request did not return within the watchdog: its goroutine is lost, the child stops
	exitMemory  = 8 // live heap above the abort ceiling
)

// maxWireBytes is the default gRPC receive limit of the server (serverconfig.DefaultMaxRPCMessageSizeInBytes).
const maxWireBytes = 512 * 1204

// spec tells a child what to do.
type spec struct {
	Seed     int64  `json:"seed"`
	Batch    int    `json:"batch"`
	N        int    `json:"n"`
	V2       bool   `json:"v2"`
	LO       string `json:"list_objects_engine"`
	Journal  string `json:"journal"`
	Mode     string `json:"mode"`      // "batch" or "replay"
	Only     int    `json:"only"`      // replay: the request under suspicion
	Prefix   string `json:"prefix"`    // replay: "state" (only state-building requests before Only) or "all"
	Generous bool   `json:"generous"`  // replay: 60 s deadlines, to tell deadline-induced internal errors apart
	Dump     string `json:"dump_path"` // replay: where to write the full request
	WatchSec int    `json:"watch_s"`
	// resuming a batch after a request killed or stalled the previous child: requests before Start are
	// only replayed when state-building (never the ones in Skip, which are the requests that did it)
	Start int   `json:"start,omitempty"`
	Skip  []int `json:"skip,omitempty"`
	// "RPC|class root" pairs listed as known hang findings: not executed by this child
	SkipKeys []string `json:"skip_keys,omitempty"`
	// retention probes (mode "retain"): the probe targets are spread over ProbeChildren children; K repetitions per half
	ProbeChildren int `json:"probe_children,omitempty"`
	ProbeChild    int `json:"probe_child,omitempty"`
	ProbeStride   int `json:"probe_stride,omitempty"` // short-string probes: every ProbeStride-th target
	ProbeK        int `json:"probe_k,omitempty"`
	// memory ceilings in bytes
	HeapAbort uint64 `json:"heap_abort"`
}

// jline is one journal line: "q" (request about to be sent), "r" (its result), "m" (memory sample),
// "s" (set-up summary), "e" (end of batch).
type jline struct {
	K      string `json:"k"`
	I      int    `json:"i"`
	RPC    string `json:"rpc,omitempty"`
	Class  string `json:"class,omitempty"`
	NoWire string `json:"nowire,omitempty"` // why this request could never arrive over gRPC ("" = it could)
	Size   int    `json:"size,omitempty"`
	Req    string `json:"req,omitempty"`
	Code   string `json:"code,omitempty"`
	Detail string `json:"detail,omitempty"`
	Ms     int64  `json:"ms,omitempty"`
	Heap   uint64 `json:"heap,omitempty"` // HeapInuse after a forced GC
	Peak   uint64 `json:"peak,omitempty"` // highest live-heap sample since the previous "m" line
	Sys    uint64 `json:"sys,omitempty"`
	Note   string `json:"note,omitempty"`
	Re     bool   `json:"re,omitempty"` // a state-building request re-executed by a resumed or replaying child
	Probe  *probeRes `json:"probe,omitempty"`
}

type journal struct{ f *os.File }

func (j *journal) put(l jline) {
	b, err := json.Marshal(l)
	if err != nil {
		b, _ = json.Marshal(jline{K: l.K, I: l.I, RPC: l.RPC, Class: l.Class, Code: l.Code, Note: "unrenderable: " + err.Error()})
	}
	b = append(b, '\n')
	// a plain write(2): the line is in the page cache before the request is sent, which survives the
	// death of this process (no fsync needed: the machine is not what is expected to crash)
	if _, err := j.f.Write(b); err != nil {
		childFail("journal write: %v", err)
	}
}

func childFail(format string, a ...any) {
	fmt.Printf("CHILD-ERROR "+format+"\n", a...)
	os.Exit(exitHarness)
}

// render gives a bounded, printable rendering of a request for the journal.
func render(m proto.Message, limit int) string {
	if m == nil {
		return ""
	}
	b, err := protojson.MarshalOptions{}.Marshal(m)
	s := string(b)
	if err != nil {
		// invalid UTF-8, NaN, ...: fall back to the Go-syntax rendering of the text format
		s = fmt.Sprintf("%+q", fmt.Sprint(m))
	}
	if len(s) > limit {
		h := sha256.Sum256([]byte(s))
		s = fmt.Sprintf("%s …[%d bytes, sha256 %x]… %s", s[:limit*3/4], len(s), h[:8], s[len(s)-limit/4:])
	}
	return s
}

// wireCopy sends m through the protobuf binary codec as gRPC would. It returns the decoded copy, or
// nil and the reason why the request could never reach a handler over the wire.
func wireCopy(m proto.Message) (proto.Message, string, int) {
	b, err := proto.Marshal(m)
	if err != nil {
		return nil, "marshal: " + firstLine(err.Error()), 0
	}
	if len(b) > maxWireBytes {
		return nil, fmt.Sprintf("size %d > default max receive size %d", len(b), maxWireBytes), len(b)
	}
	out := m.ProtoReflect().New().Interface()
	if err := proto.Unmarshal(b, out); err != nil {
		return nil, "unmarshal: " + firstLine(err.Error()), len(b)
	}
	return out, "", len(b)
}

func firstLine(s string) string {
	if i := strings.IndexByte(s, '\n'); i >= 0 {
		s = s[:i]
	}
	if len(s) > 160 {
		s = s[:160]
	}
	return s
}

// ---- set-up ----

// typedModel is the hand-written model of the "typed" store: one condition per CEL parameter type.
func typedModel() (*openfgav1.AuthorizationModel, map[string]string) {
	T := func(n openfgav1.ConditionParamTypeRef_TypeName, g ...*openfgav1.ConditionParamTypeRef) *openfgav1.ConditionParamTypeRef {
		return pt(n, g...)
	}
	str, i64 := T(openfgav1.ConditionParamTypeRef_TYPE_NAME_STRING), T(openfgav1.ConditionParamTypeRef_TYPE_NAME_INT)
	conds := map[string]*openfgav1.Condition{
		"c_ip":   {Name: "c_ip", Expression: `ip.in_cidr("10.0.0.0/8")`, Parameters: map[string]*openfgav1.ConditionParamTypeRef{"ip": T(openfgav1.ConditionParamTypeRef_TYPE_NAME_IPADDRESS)}},
		"c_time": {Name: "c_time", Expression: `t + d < timestamp("2030-01-01T00:00:00Z")`, Parameters: map[string]*openfgav1.ConditionParamTypeRef{"t": T(openfgav1.ConditionParamTypeRef_TYPE_NAME_TIMESTAMP), "d": T(openfgav1.ConditionParamTypeRef_TYPE_NAME_DURATION)}},
		"c_coll": {Name: "c_coll", Expression: `"a" in l || m["k"] > 3`, Parameters: map[string]*openfgav1.ConditionParamTypeRef{"l": T(openfgav1.ConditionParamTypeRef_TYPE_NAME_LIST, str), "m": T(openfgav1.ConditionParamTypeRef_TYPE_NAME_MAP, i64)}},
		"c_any":  {Name: "c_any", Expression: `a == 1`, Parameters: map[string]*openfgav1.ConditionParamTypeRef{"a": T(openfgav1.ConditionParamTypeRef_TYPE_NAME_ANY)}},
		"c_num":  {Name: "c_num", Expression: `u > 1u && f < 2.0 && i / (i - 5) > 0`, Parameters: map[string]*openfgav1.ConditionParamTypeRef{"u": T(openfgav1.ConditionParamTypeRef_TYPE_NAME_UINT), "f": T(openfgav1.ConditionParamTypeRef_TYPE_NAME_DOUBLE), "i": i64}},
		"c_str":  {Name: "c_str", Expression: `s.matches("^(a+)+$") && s.size() < 100000 && b`, Parameters: map[string]*openfgav1.ConditionParamTypeRef{"s": str, "b": T(openfgav1.ConditionParamTypeRef_TYPE_NAME_BOOL)}},
	}
	ptypes := map[string]string{"ip": "ipaddress", "t": "timestamp", "d": "duration", "l": "list", "m": "map", "a": "any", "u": "uint", "f": "double", "i": "int", "s": "string", "b": "bool"}
	var restr []*openfgav1.RelationReference
	for _, cn := range []string{"c_any", "c_coll", "c_ip", "c_num", "c_str", "c_time"} {
		restr = append(restr, refCond("user", cn), &openfgav1.RelationReference{Type: "user", Condition: cn, RelationOrWildcard: &openfgav1.RelationReference_Wildcard{Wildcard: &openfgav1.Wildcard{}}},
			&openfgav1.RelationReference{Type: "group", Condition: cn, RelationOrWildcard: &openfgav1.RelationReference_Relation{Relation: "member"}})
	}
	req := modelReq("", conds, newT("user"),
		newT("group").rel("member", uThis(), append([]*openfgav1.RelationReference{ref("user")}, restr[:3]...)...),
		newT("folder").rel("viewer", uThis(), restr...),
		newT("doc").rel("parent", uThis(), ref("folder"), refCond("folder", "c_ip")).rel("editor", uThis(), restr...).
			rel("viewer", uUnion(uThis(), uComputed("editor"), uTTU("parent", "viewer")), restr...).
			rel("blocked", uThis(), restr...).
			rel("can", uDiff(uInter(uComputed("viewer"), uComputed("editor")), uComputed("blocked"))))
	return &openfgav1.AuthorizationModel{SchemaVersion: "1.1", TypeDefinitions: req.GetTypeDefinitions(), Conditions: conds}, ptypes
}

func typedTuples() []*openfgav1.TupleKey {
	var out []*openfgav1.TupleKey
	conds := []string{"c_any", "c_coll", "c_ip", "c_num", "c_str", "c_time"}
	for i, cn := range conds {
		id := fmt.Sprintf("d%d", i%3+1)
		out = append(out, tkc("doc:"+id, "viewer", "user:a", cn, nil), tkc("doc:"+id, "editor", "user:*", cn, nil),
			tkc("group:g1", "member", "user:b", cn, nil), tkc("doc:"+id, "blocked", "group:g1#member", cn, nil),
			tkc("folder:f1", "viewer", "user:c", cn, nil))
	}
	out = append(out, tkc("doc:d1", "parent", "folder:f1", "c_ip", nil), tk("doc:d2", "parent", "folder:f1"), tk("group:g1", "member", "user:a"))
	// dedupe by (object, relation, user)
	seen := map[string]bool{}
	var ded []*openfgav1.TupleKey
	for _, t := range out {
		k := t.GetObject() + "#" + t.GetRelation() + "@" + t.GetUser()
		if !seen[k] {
			seen[k] = true
			ded = append(ded, t)
		}
	}
	return ded
}

// setup builds the stores every batch starts from: 4 valid generated cases, 2 of them additionally
// poisoned with hostile tuples written behind the server's back, 1 typed-condition store.
func setup(sp *spec, srv *drive.Srv) (*state, error) {
	st := &state{}
	r := rand.New(rand.NewSource(sp.Seed*7919 + 17))
	for k := 0; k < 4; k++ {
		var s *storeSt
		for try := 0; try < 300 && s == nil; try++ {
			gc := gen.NewCase(r, fmt.Sprintf("C19-b%d-s%d", sp.Batch, k), gen.Options{})
			if len(gc.Tuples) == 0 {
				continue
			}
			id, err := srv.CreateStore(gc.Name)
			if err != nil {
				return nil, fmt.Errorf("CreateStore: %w", err)
			}
			permID, err := srv.WriteModel(id, gc.Permissive)
			if err != nil {
				return nil, fmt.Errorf("permissive model rejected: %w", err)
			}
			mid, err := srv.WriteModel(id, gc.Model)
			if err != nil {
				continue // generator produced a model the server rejects: draw another one
			}
			if err := srv.WriteTuples(id, permID, gc.Tuples); err != nil {
				return nil, fmt.Errorf("writing tuples: %w", err)
			}
			s = &storeSt{ID: id, Kind: "valid", ModelID: mid, PermID: permID, Model: gc.Model, ctxs: gc.Contexts, tuples: gc.Tuples}
			s.index()
		}
		if s == nil {
			return nil, errors.New("no acceptable generated case in 300 tries")
		}
		if k >= 2 {
			s.Kind = "poisoned"
			n := 0
			for _, kind := range storedKinds {
				n += dsWriteChunked(context.Background(), srv.DS, s.ID, hostileStored(r, kind, s))
			}
			if n == 0 {
				return nil, errors.New("no hostile tuple could be stored")
			}
		}
		st.stores = append(st.stores, s)
	}
	// typed store
	tm, ptypes := typedModel()
	id, err := srv.CreateStore("C19-typed")
	if err != nil {
		return nil, err
	}
	mid, err := srv.WriteModel(id, tm)
	if err != nil {
		return nil, fmt.Errorf("typed model rejected: %w", err)
	}
	tt := typedTuples()
	if err := srv.WriteTuples(id, mid, tt); err != nil {
		return nil, fmt.Errorf("typed tuples rejected: %w", err)
	}
	ts := &storeSt{ID: id, Kind: "typed", ModelID: mid, PermID: mid, Model: tm, tuples: tt, ptypes: ptypes}
	ts.index()
	st.stores = append(st.stores, ts)
	return st, nil
}

// ---- execution ----

type result struct {
	code   string
	detail string
	resp   proto.Message
}

// internalCodes are the answers that are neither a normal answer nor a validation error.
func isInternalCode(code string) bool {
	switch code {
	case "openfga_4000", "Internal", "Unknown", "DataLoss":
		return true
	}
	return false
}

// classify names the outcome of a call.
func classify(resp proto.Message, err error) result {
	if err == nil {
		res := result{code: "ok", resp: resp}
		// per-item internal errors hidden inside a successful answer
		switch v := resp.(type) {
		case *openfgav1.BatchCheckResponse:
			for id, r := range v.GetResult() {
				if e := r.GetError(); e != nil {
					if _, internal := e.GetCode().(*openfgav1.CheckError_InternalError); internal && e.GetInternalError() == openfgav1.InternalErrorCode_internal_error {
						res.code, res.detail = "ok+item_internal", fmt.Sprintf("item %q: %s", trunc(id, 40), e.GetMessage())
					}
				}
			}
		case *authzenv1.EvaluationsResponse:
			for k, e := range v.GetEvaluations() {
				if f := e.GetContext().GetFields()["error"].GetStructValue().GetFields(); f != nil && f["status"].GetNumberValue() == 500 {
					res.code, res.detail = "ok+item_internal", fmt.Sprintf("evaluation %d: %s", k, f["message"].GetStringValue())
				}
			}
		}
		return res
	}
	return result{code: drive.CodeOf(err), detail: trunc(drive.ErrDetail(err), 1500)}
}

func trunc(s string, n int) string {
	if len(s) > n {
		return s[:n] + "…"
	}
	return s
}

type runner struct {
	sp   *spec
	srv  *drive.Srv
	st   *state
	gen  *hgen
	j    *journal
	cur  atomic.Int64 // index of the request in flight
	peak atomic.Uint64

	slow, slowMax float64
	slowAt        time.Time
}

// exec sends one request (already journaled) and returns its result. ok=false: it did not return.
func (rn *runner) exec(h *hreq, send proto.Message) (res result, returned bool) {
	timeout := time.Second
	if rn.sp.Generous {
		timeout = 60 * time.Second
	}
	watch := time.Duration(float64(rn.sp.WatchSec)*rn.slowdown()) * time.Second
	if rn.sp.Generous {
		watch += 4 * timeout
	}
	var out result
	returned = drive.Watch(watch, func() {
		// what the gRPC timeout middleware does in production
		ctx, cancel := context.WithTimeout(context.Background(), timeout)
		defer cancel()
		if h.md != nil {
			ctx = metadata.NewIncomingContext(ctx, metadata.New(h.md))
		}
		var resp proto.Message
		err := drive.Guard(func() error {
			if h.rpc == rpcDSWrite {
				n := dsWriteChunked(ctx, rn.srv.DS, h.store.ID, h.ds)
				resp = &openfgav1.WriteResponse{}
				_ = n
				return nil
			}
			var err error
			resp, err = rpcByName(h.rpc).call(ctx, rn.srv.S, send)
			return err
		})
		var pe *drive.PanicError
		if errors.As(err, &pe) {
			out = result{code: "PANIC", detail: trunc(fmt.Sprintf("%v\n%s", pe.Value, pe.Stack), 6000)}
			return
		}
		out = classify(resp, err)
	})
	return out, returned
}

// learn updates the response-derived part of the generator state.
func (rn *runner) learn(h *hreq, res result) {
	if res.code != "ok" || res.resp == nil {
		return
	}
	addTok := func(t string) {
		if t != "" && len(rn.st.tokens) < 64 {
			rn.st.tokens = append(rn.st.tokens, t)
		}
	}
	switch v := res.resp.(type) {
	case *openfgav1.CreateStoreResponse:
		rn.st.lastCreated = v.GetId()
	case *openfgav1.WriteAuthorizationModelResponse:
		if h.store != nil {
			if req, ok := h.msg.(*openfgav1.WriteAuthorizationModelRequest); ok && strings.HasPrefix(h.class, "model-") {
				h.store.hostModelID, h.store.hostModelReq, h.store.hostModelClass = v.GetAuthorizationModelId(), req, h.class
			}
		}
	case *openfgav1.ReadResponse:
		addTok(v.GetContinuationToken())
	case *openfgav1.ReadChangesResponse:
		addTok(v.GetContinuationToken())
	case *openfgav1.ListStoresResponse:
		addTok(v.GetContinuationToken())
	case *openfgav1.ReadAuthorizationModelsResponse:
		addTok(v.GetContinuationToken())
	}
}

func heapLive() uint64 {
	s := []metrics.Sample{{Name: "/memory/classes/heap/objects:bytes"}}
	metrics.Read(s)
	if s[0].Value.Kind() == metrics.KindUint64 {
		return s[0].Value.Uint64()
	}
	return 0
}

func (rn *runner) memSample(i int) {
	runtime.GC()
	var ms runtime.MemStats
	runtime.ReadMemStats(&ms)
	rn.j.put(jline{K: "m", I: i, Heap: ms.HeapInuse, Sys: ms.Sys, Peak: rn.peak.Swap(0)})
}

func childMain(specPath string) {
	b, err := os.ReadFile(specPath)
	if err != nil {
		childFail("%v", err)
	}
	sp := &spec{}
	if err := json.Unmarshal(b, sp); err != nil {
		childFail("%v", err)
	}
	f, err := os.OpenFile(sp.Journal, os.O_CREATE|os.O_WRONLY|os.O_APPEND, 0o644)
	if err != nil {
		childFail("%v", err)
	}
	j := &journal{f: f}
	debug.SetTraceback("all")

	timeout := time.Second
	if sp.Generous {
		timeout = 60 * time.Second
	}
	cfg := drive.Cfg{V2: sp.V2, LOEngine: sp.LO, AuthZen: true,
		QueryCache: true, CheckIterCache: true, LOIterCache: true, SharedIter: true, Controller: true,
		ReqTimeout: timeout, LODeadline: timeout, LUDeadline: timeout,
		Extra: []server.OpenFGAServiceV1Option{server.WithAuthzenBaseURL("https://pdp.example.test")}}
	srv, err := drive.New(cfg)
	if err != nil {
		childFail("server: %v", err)
	}
	st, err := setup(sp, srv)
	if err != nil {
		childFail("setup: %v", err)
	}
	rn := &runner{sp: sp, srv: srv, st: st, gen: &hgen{seed: sp.Seed, st: st}, j: j}
	j.put(jline{K: "s", I: -1, Note: fmt.Sprintf("server %s; %d stores", cfg.Name(), len(st.stores))})

	// live-heap sampler: protects the machine and records transient peaks
	go func() {
		for {
			time.Sleep(20 * time.Millisecond)
			h := heapLive()
			for {
				p := rn.peak.Load()
				if h <= p || rn.peak.CompareAndSwap(p, h) {
					break
				}
			}
			if sp.HeapAbort > 0 && h > sp.HeapAbort {
				j.put(jline{K: "r", I: int(rn.cur.Load()), Code: "MEMORY", Detail: fmt.Sprintf("live heap %d bytes above the abort ceiling %d", h, sp.HeapAbort)})
				os.Exit(exitMemory)
			}
		}
	}()

	if sp.Mode == "retain" {
		rn.retainMain()
		j.put(jline{K: "e", I: 0})
		f.Close()
		os.Exit(exitOK)
	}
	rn.memSample(-1)
	lo, hi := 0, sp.N
	if sp.Mode == "replay" {
		hi = sp.Only + 1
	}
	skip := map[int]bool{}
	for _, i := range sp.Skip {
		skip[i] = true
	}
	skipKeys := map[string]bool{}
	for _, k := range sp.SkipKeys {
		skipKeys[k] = true
	}
	for i := lo; i < hi; i++ {
		h := safeNext(rn.gen, i)
		re := false
		switch {
		case sp.Mode == "replay" && i != sp.Only:
			if skip[i] || (sp.Prefix != "all" && !rpcByName(h.rpc).mutating) {
				continue
			}
			re = true
		case sp.Mode == "batch" && i < sp.Start:
			if skip[i] || !rpcByName(h.rpc).mutating {
				continue
			}
			re = true
		}
		if skipKeys[h.rpc+"|"+classRoot(h.class)] {
			if !re {
				j.put(jline{K: "q", I: i, RPC: h.rpc, Class: h.class})
				j.put(jline{K: "r", I: i, Code: "SKIPPED-known-hang"})
			}
			continue
		}
		send, nowire, size := proto.Message(nil), "", 0
		if h.rpc != rpcDSWrite {
			send, nowire, size = wireCopy(h.msg)
			if send == nil {
				send = h.msg // cannot arrive over the wire: sent as built, and tagged
			}
		}
		limit := 1500
		if sp.Mode == "replay" && i == sp.Only {
			limit = 200_000
		}
		rn.cur.Store(int64(i))
		j.put(jline{K: "q", I: i, RPC: h.rpc, Class: h.class, NoWire: nowire, Size: size, Req: render(h.msg, limit), Re: re})
		if sp.Mode == "replay" && i == sp.Only && sp.Dump != "" {
			_ = os.WriteFile(sp.Dump, []byte(render(h.msg, 4<<20)), 0o644)
			if h.store != nil {
				// the store the request was built for: its valid model and the tuples written at set-up
				doc := map[string]any{"kind": h.store.Kind, "store_id": h.store.ID, "model_id": h.store.ModelID, "model": render(h.store.Model, 64<<10), "tuples_written_at_setup": gen.TupleStrings(h.store.tuples)}
				if h.store.hostModelReq != nil {
					doc["last_accepted_hostile_model_class"], doc["last_accepted_hostile_model_id"] = h.store.hostModelClass, h.store.hostModelID
				}
				if b, err := json.Marshal(doc); err == nil {
					_ = os.WriteFile(sp.Dump+".store", b, 0o644)
				}
			}
		}
		start := time.Now()
		res, returned := rn.exec(h, send)
		ms := time.Since(start).Milliseconds()
		if !returned {
			j.put(jline{K: "r", I: i, Code: "HANG", Ms: ms, Re: re, Detail: fmt.Sprintf("no return %d ms after a request with a %v deadline (watchdog = %d s x machine slowdown %.1f)", ms, timeout, sp.WatchSec, rn.slow)})
			buf := make([]byte, 4<<20)
			os.Stderr.Write(buf[:runtime.Stack(buf, true)])
			os.Exit(exitHang)
		}
		rn.learn(h, res)
		j.put(jline{K: "r", I: i, Code: res.code, Detail: res.detail, Ms: ms, Re: re})
		if sp.Mode == "batch" && !re && (i+1)%250 == 0 {
			rn.memSample(i)
		}
	}
	if sp.Mode == "batch" {
		rn.memSample(hi - 1)
	}
	j.put(jline{K: "e", I: hi, Note: fmt.Sprintf("max machine slowdown %.1f", rn.slowMax)})
	f.Close()
	os.Exit(exitOK)
}

var _ = structpb.NewNullValue

// slowdown estimates how much slower than its own CPU time this process currently runs because the
// machine is shared (wall time / thread CPU time of a short spin, >= 1, capped at 20). The request
// watchdog is stretched by it, so that an overloaded machine does not turn slow requests into hangs.
// It is re-measured at most once per 5 s.
func (rn *runner) slowdown() float64 {
	if time.Since(rn.slowAt) < 5*time.Second && rn.slow >= 1 {
		return rn.slow
	}
	runtime.LockOSThread()
	defer runtime.UnlockOSThread()
	cpu := func() time.Duration {
		var ru syscall.Rusage
		if syscall.Getrusage(1 /* RUSAGE_THREAD */, &ru) != nil {
			return 0
		}
		return time.Duration(ru.Utime.Nano() + ru.Stime.Nano())
	}
	w0, c0 := time.Now(), cpu()
	x := uint64(1)
	for cpu()-c0 < 20*time.Millisecond && time.Since(w0) < 2*time.Second {
		for i := 0; i < 200_000; i++ {
			x = x*6364136223846793005 + 1442695040888963407
		}
	}
	_ = x
	wall, used := time.Since(w0), cpu()-c0
	f := 1.0
	if used > 0 {
		f = float64(wall) / float64(used)
	}
	f = min(max(f, 1), 20)
	rn.slow, rn.slowAt = f, time.Now()
	if f > rn.slowMax {
		rn.slowMax = f
	}
	return f
}

// safeNext generates request i; a panic of the generator is a harness failure, never a finding.
func safeNext(g *hgen, i int) (h *hreq) {
	defer func() {
		if r := recover(); r != nil {
			childFail("generator panicked on request %d: %v\n%s", i, r, debug.Stack())
		}
	}()
	return g.next(i)
}
