// Package c19 decides property C19 "Malformed or hostile input never crashes the server".
//
// Supervisor / child structure: the check re-executes its own binary as child processes. A child
// builds a real in-process server (memory backend, caches on, 1 s deadlines), installs valid stores
// (two of them poisoned with hostile tuples written behind the server's back) and executes a seeded
// batch of hostile requests against EVERY RPC method, appending each request to a journal before
// sending it and its outcome after it returned. The supervisor reads the journals:
//
//	escaped panic   a panic that propagates out of the Server method (recorded by the child), or the
//	                death of the child with `panic:` / `fatal error:` on stderr; witness = the request
//	                journaled last without a result;
//	hang            no return within 15x the request deadline, reproduced by a fresh child;
//	internal error  an answer that is neither a normal answer nor a validation error (openfga
//	                internal_error 4000, gRPC Internal / Unknown / DataLoss), reproduced by a fresh
//	                child whose deadlines are 60 s (so that it cannot be a deadline artefact);
//	memory          live heap above 1.5 GiB, or heap in use after GC growing by more than the bound per
//	                1000 requests over a whole batch.
package c19

import (
	"bufio"
	"bytes"
	"context"
	"encoding/json"
	"errors"
	"fmt"
	"io"
	"os"
	"os/exec"
	"path/filepath"
	"regexp"
	"sort"
	"strings"
	"sync"
	"syscall"
	"time"

	"github.com/openfga/openfga/verifharness/vk"
)

func init() {
	if sp := os.Getenv(childEnv); sp != "" {
		childMain(sp) // never returns
	}
	vk.Register("C19", "exploration", run)
}

const (
	heapCeiling      = 1536 << 20 // live heap above this is a memory violation (after reproduction)
	heapAbort        = 4 << 30    // the child stops itself here to protect the machine
	growthPer1000MiB = 400        // post-GC HeapInuse growth per 1000 requests over a whole batch (stored models and tuples grow legitimately: ~80 MiB/1000 observed)
	growthFloorMiB   = 500        // ... and the batch must end at least this much above its start
	retainFloor      = 2 << 10    // retention probe: bytes kept per request with a never-seen string ...
	retainFraction   = 0.5        // ... or this fraction of the hostile string, in BOTH halves of the probe
	watchSec         = 15         // request watchdog: 15x the 1 s deadline
	parallel         = 6
)

type childRun struct {
	sp       *spec
	specPath string
	exit     int
	signaled bool
	watchdog bool // killed by the supervisor's own watchdog
	stderr   string
	lines    []jline
	wall     time.Duration
}

func (cr *childRun) died() bool { return cr.exit != exitOK && cr.exit != exitHang && cr.exit != exitMemory }

// pending returns the journaled request that has no result (the witness of a death), if any.
func (cr *childRun) pending() *jline {
	var q *jline
	for k := range cr.lines {
		l := &cr.lines[k]
		switch l.K {
		case "q":
			q = l
		case "r":
			if q != nil && q.I == l.I {
				q = nil
			}
		}
	}
	return q
}

// pendingOrHung returns the request that stopped the child: the one without a result, or the one
// whose result is HANG / MEMORY.
func (cr *childRun) pendingOrHung() *jline {
	if q := cr.pending(); q != nil {
		return q
	}
	qs := map[int]*jline{}
	for k := range cr.lines {
		l := &cr.lines[k]
		if l.K == "q" {
			qs[l.I] = l
		}
		if l.K == "r" && (l.Code == "HANG" || l.Code == "MEMORY") {
			return qs[l.I]
		}
	}
	return nil
}

// hangProneRoots are the class roots that may be listed as known hang findings.
func hangProneRoots() []string {
	var out []string
	for _, k := range modelKinds {
		out = append(out, "model-"+k, "follow-model-"+k)
	}
	return out
}

// hungGoroutine extracts from a goroutine dump the goroutine that was executing the Server method.
func hungGoroutine(dump string) string {
	for _, g := range strings.Split(dump, "\n\n") {
		if strings.Contains(g, "c19.(*runner).exec.func1") && strings.Contains(g, "github.com/openfga/openfga/pkg/server.(*Server)") {
			return headTail(g, 8000)
		}
	}
	return ""
}

func readJournal(path string) []jline {
	f, err := os.Open(path)
	if err != nil {
		return nil
	}
	defer f.Close()
	var out []jline
	rd := bufio.NewReaderSize(f, 1<<20)
	for {
		b, err := rd.ReadBytes('\n')
		if len(bytes.TrimSpace(b)) > 0 {
			var l jline
			if json.Unmarshal(b, &l) == nil { // a torn last line (child killed mid-write) is dropped
				out = append(out, l)
			}
		}
		if err != nil {
			return out
		}
	}
}

func runChild(c *vk.Ctx, dir string, sp *spec, name string, limit time.Duration) *childRun {
	sp.Journal = filepath.Join(dir, name+".journal")
	_ = os.Remove(sp.Journal)
	specPath := filepath.Join(dir, name+".spec.json")
	b, _ := json.Marshal(sp)
	if err := os.WriteFile(specPath, b, 0o644); err != nil {
		c.HarnessError("spec: %v", err)
		return nil
	}
	cr := &childRun{sp: sp, specPath: specPath}
	ctx, cancel := context.WithTimeout(context.Background(), limit)
	defer cancel()
	cmd := exec.Command(os.Args[0], "C19")
	cmd.Env = append(os.Environ(), childEnv+"="+specPath, "GOTRACEBACK=all")
	var stdout, stderr bytes.Buffer
	cmd.Stdout, cmd.Stderr = &stdout, &limitWriter{w: &stderr, n: 4 << 20}
	start := time.Now()
	if err := cmd.Start(); err != nil {
		c.HarnessError("cannot start child: %v", err)
		return nil
	}
	done := make(chan error, 1)
	go func() { done <- cmd.Wait() }()
	var err error
	select {
	case err = <-done:
	case <-ctx.Done():
		cr.watchdog = true
		_ = cmd.Process.Signal(syscall.SIGQUIT) // goroutine dump on stderr
		select {
		case err = <-done:
		case <-time.After(10 * time.Second):
			_ = cmd.Process.Kill()
			err = <-done
		}
	}
	cr.wall = time.Since(start)
	var ee *exec.ExitError
	if errors.As(err, &ee) {
		cr.exit = ee.ExitCode()
		if ws, ok := ee.Sys().(syscall.WaitStatus); ok && ws.Signaled() {
			cr.signaled = true
			cr.exit = 128 + int(ws.Signal())
		}
	} else if err != nil {
		cr.exit = -1
	}
	cr.stderr = stderr.String()
	if s := stdout.String(); strings.Contains(s, "CHILD-ERROR") {
		cr.stderr = s + cr.stderr
	}
	cr.lines = readJournal(sp.Journal)
	return cr
}

type limitWriter struct {
	w io.Writer
	n int
}

func (l *limitWriter) Write(p []byte) (int, error) {
	if l.n > 0 {
		q := p
		if len(q) > l.n {
			q = q[:l.n]
		}
		l.w.Write(q)
		l.n -= len(q)
	}
	return len(p), nil
}

// ---- finding ids ----

var (
	reDigits = regexp.MustCompile(`[0-9]+`)
	reQuoted = regexp.MustCompile(`'[^']*'|"[^"]*"|\[[^\]]*\]|\([^)]*\)|0x[0-9a-f]+`)
	reWord   = regexp.MustCompile(`[a-z_]+`)
	reSingleQuoted = regexp.MustCompile(`'[^']{0,80}'`)
	reQuotedEsc = regexp.MustCompile(`"(?:[^"\\]|\\.)*"`)
	reFrame  = regexp.MustCompile(`github\.com/openfga/openfga/((?:internal|pkg|cmd)/[^\s(]+(?:\([^)]*\))?[^\s(]*)\(`)
)

// causeClass reduces an error text to a stable short label: the first four significant words of the
// internal cause, with quoted / bracketed / numeric / non-ASCII material removed.
func causeClass(s string) string {
	if i := strings.Index(s, "[internal: "); i >= 0 {
		s = s[i+len("[internal: "):]
	}
	s = firstLine(s)
	s = reQuotedEsc.ReplaceAllString(s, " ")
	s = reSingleQuoted.ReplaceAllString(s, " ")
	if i := strings.IndexAny(s, "\"'"); i >= 0 { // an unbalanced quote: the rest is payload
		s = s[:i]
	}
	s = strings.ToLower(s)
	s = reQuoted.ReplaceAllString(s, " ")
	s = reDigits.ReplaceAllString(s, "")
	w := reWord.FindAllString(s, -1)
	var keep []string
	for _, x := range w {
		switch x {
		case "rpc", "error", "code", "desc", "item", "evaluation", "the", "a", "an", "of":
			continue
		}
		if len(x) > 1 {
			keep = append(keep, x)
		}
		if len(keep) == 4 {
			break
		}
	}
	if len(keep) == 0 {
		return "unnamed"
	}
	return strings.Join(keep, "-")
}

// rpcFamily maps the RPCs that are thin wrappers of another one to it (AuthZEN and streamed variants),
// so that one defect gets one finding id.
func rpcFamily(rpc string) string {
	switch rpc {
	case "StreamedListObjects", "ResourceSearch":
		return "ListObjects"
	case "Evaluation":
		return "Check"
	case "Evaluations", "ActionSearch":
		return "BatchCheck"
	case "SubjectSearch":
		return "ListUsers"
	}
	return rpc
}

// panicFrame names the first frame of the code under test in a stack (below the panic machinery).
func panicFrame(stack string) string {
	s := stack
	if i := strings.Index(s, "runtime/panic.go"); i >= 0 {
		s = s[i:]
	} else if i := strings.Index(s, "panic("); i >= 0 {
		s = s[i:]
	}
	for _, m := range reFrame.FindAllStringSubmatch(s, -1) {
		f := m[1]
		if strings.Contains(f, "verifharness") || strings.Contains(f, "RecoverFromPanic") {
			continue
		}
		return strings.NewReplacer("/", ".", "(", "", ")", "", "*", "").Replace(f)
	}
	return "unknown-frame"
}

func classRoot(class string) string {
	if strings.HasPrefix(class, "follow[") {
		// a follow-up query is named after the hostile model it runs against
		if i := strings.Index(class, "]"); i > 0 {
			return "follow-" + class[len("follow["):i]
		}
	}
	if i := strings.Index(class, "@"); i >= 0 {
		class = class[:i]
	}
	if i := strings.Index(class, "+"); i >= 0 {
		class = class[:i]
	}
	return strings.Trim(reDigits.ReplaceAllString(class, ""), "-/")
}

// ---- the check ----

type candidate struct {
	kind string // "internal", "hang", "memory"
	cr   *childRun
	q    jline
	r    jline
}

func run(c *vk.Ctx) {
	c.SetRule("one case per request executed by a child process against a real in-process server (memory backend; engines v1 and weighted_graph_check alternate per batch; ListObjects pipeline, classic every third batch; query / iterator / shared-iterator caches and cache controller on; request, ListObjects and ListUsers deadlines 1 s). " +
		"Requests: every RPC method of pkg/server (18 OpenFGA + 6 AuthZEN) plus direct datastore writes of hostile tuples; each starts from a VALID request over a generated store (gen.NewCase), a store poisoned with hostile stored tuples, or a typed-condition store, and is (a) left valid, (b) mutated at byte level in 1-2 random string fields (separators : # @ | * , whitespace, NUL, invalid UTF-8, 10^4-10^5 chars, empty, unicode confusables, special tokens, truncation, duplication, control bytes), (c) mutated structurally (contexts nested 10-10^4 deep / 10^4 wide / NaN / huge numbers / typed hostile values; 0-1000 contextual tuples incl. cyclic and invalid ones; batch sizes around the limits; hostile continuation tokens and page sizes; malformed ids; hostile authorization models: rewrites nested 50-5000 deep, 10^3 types / relations / restrictions / conditions, self- and mutually recursive relations, negation cycles, TTU on missing relations, hostile CEL, exponential rewrite chains, nil pieces; follow-up queries on every accepted hostile model), or (d) both. " +
		"signature = RPC | mutation class | outcome code; non-trivial = not class 'valid'. Every request is sent through the protobuf binary codec first: requests the codec refuses (invalid UTF-8, nesting > 10 000) or larger than the default receive limit are sent as built but tagged nowire and never raise an alarm.")
	c.Assume("the memory datastore has no I/O failures, so an internal error can only come from the input, a deadline (excluded by the 60 s replay) or a defect")
	c.Assume("in production the gRPC timeout interceptor puts the request deadline on the context and grpc_recovery turns a handler panic into Internal; the child applies the same deadline itself and treats a panic that reaches the caller of the Server method as escaped, as the property demands")
	c.Assume("requests that cannot be decoded by the protobuf codec or exceed the default 616 448-byte receive limit cannot reach a handler; failures on such requests are reported as inconclusive (counted), not as violations")
	c.Assume("a panic in a goroutine spawned by a request kills the child; it is attributed to the request journaled last, which may be a later one than the request that spawned the goroutine (the stderr stack is part of the witness)")

	dir := os.Getenv("VERIF_SCRATCH")
	if dir == "" {
		dir = filepath.Join(os.TempDir(), "verif-c19")
	}
	dir = filepath.Join(dir, "c19")
	if err := os.MkdirAll(dir, 0o755); err != nil {
		c.HarnessError("%v", err)
		return
	}
	if c.Replay != "" {
		replayWitness(c, dir)
		return
	}

	batches := c.Pick(16, 140)
	perBatch := c.Pick(1250, 2000)
	if v := os.Getenv("VERIF_C19_BATCHES"); v != "" {
		fmt.Sscanf(v, "%d", &batches)
	}
	if v := os.Getenv("VERIF_C19_N"); v != "" {
		fmt.Sscanf(v, "%d", &perBatch)
	}
	limit := time.Duration(c.Pick(900, 1800)) * time.Second

	// classes listed as known hang findings are executed in batches 0 and 1 only (one per engine): each
	// execution costs a 15 s stall and a restart of the child
	var skipKeys []string
	for _, d := range rpcTable {
		for _, root := range hangProneRoots() {
			if c.FindingStatus("C19-hang-"+rpcFamily(d.name)+"-"+root) == "finding" {
				skipKeys = append(skipKeys, d.name+"|"+root)
			}
		}
	}
	if len(skipKeys) > 0 {
		c.Extra("known_hang_classes_executed_only_in_batches_0_and_1", skipKeys)
	}

	runsByBatch := make([][]*childRun, batches)
	var wg sync.WaitGroup
	slots := make(chan struct{}, parallel)
	for b := 0; b < batches; b++ {
		wg.Add(1)
		slots <- struct{}{}
		go func(b int) {
			defer wg.Done()
			defer func() { <-slots }()
			sp := batchSpec(c, b, perBatch)
			if b >= 2 {
				sp.SkipKeys = skipKeys
			}
			// a child that stops early (hang, crash, memory abort) is succeeded by a fresh one that
			// rebuilds the state and carries on after the offending request
			for attempt := 0; attempt < 12; attempt++ {
				cr := runChild(c, dir, sp, fmt.Sprintf("batch-%d-%d", b, attempt), limit)
				if cr == nil {
					return
				}
				runsByBatch[b] = append(runsByBatch[b], cr)
				c.Logf("batch %d.%d (%s): exit=%d lines=%d wall=%.1fs", b, attempt, engineName(sp), cr.exit, len(cr.lines), cr.wall.Seconds())
				q := cr.pendingOrHung()
				if cr.exit == exitOK || cr.exit == exitHarness || cr.watchdog || q == nil || q.I+1 >= sp.N {
					return
				}
				next := *sp
				next.Start, next.Skip = q.I+1, append(append([]int{}, sp.Skip...), q.I)
				sp = &next
				noteStop(b, q.I)
				c.Count("children_restarted_after_a_stop", 1)
			}
			c.Inconclusive("batch abandoned after 12 restarts")
		}(b)
	}
	// retention probes run in their own children, alongside the batches
	nRetain := c.Pick(3, 6)
	stride := c.Pick(5, 1) // quick: short-string probes on every 5th target only
	retainRuns := make([]*childRun, nRetain)
	for k := 0; k < nRetain; k++ {
		wg.Add(1)
		slots <- struct{}{}
		go func(k int) {
			defer wg.Done()
			defer func() { <-slots }()
			sp := &spec{Seed: c.SubSeed("retain"), Batch: 1000 + k, V2: k%2 == 1, LO: "pipeline", Mode: "retain", WatchSec: watchSec, HeapAbort: heapAbort,
				ProbeChildren: nRetain, ProbeChild: k, ProbeStride: stride, ProbeK: c.Pick(200, 1000)}
			retainRuns[k] = runChild(c, dir, sp, fmt.Sprintf("retain-%d", k), limit)
			if cr := retainRuns[k]; cr != nil {
				c.Logf("retention probes %d (%s): exit=%d lines=%d wall=%.1fs", k, engineName(sp), cr.exit, len(cr.lines), cr.wall.Seconds())
			}
		}(k)
	}
	wg.Wait()
	for _, cr := range retainRuns {
		if cr != nil {
			judgeRetention(c, cr)
		}
	}

	var cands []candidate
	var maxHeap, maxPeak uint64
	var maxSlope float64
	var runs []*childRun
	for _, rs := range runsByBatch {
		runs = append(runs, rs...)
	}
	for _, cr := range runs {
		c.Count("children_run", 1)
		c.Count("journal_lines", len(cr.lines))
		cands = append(cands, digest(c, dir, cr)...)
		h, p, slope := memoryVerdict(c, cr)
		maxHeap, maxPeak = max(maxHeap, h), max(maxPeak, p)
		if slope > maxSlope {
			maxSlope = slope
		}
	}
	c.Extra("max_heap_inuse_after_gc_bytes", maxHeap)
	c.Extra("max_live_heap_sample_bytes", maxPeak)
	c.Extra("max_heap_growth_MiB_per_1000_requests", fmt.Sprintf("%.2f", maxSlope))
	c.Extra("memory_bounds", fmt.Sprintf("live heap ceiling %d MiB; growth bound %d MiB/1000 requests with at least %d MiB net growth over the batch", heapCeiling>>20, growthPer1000MiB, growthFloorMiB))
	confirm(c, dir, cands)
}

func engineName(sp *spec) string {
	e := "v1"
	if sp.V2 {
		e = "v2"
	}
	return e + "/" + sp.LO
}

func batchSpec(c *vk.Ctx, b, n int) *spec {
	lo := "pipeline"
	if b%3 == 2 {
		lo = "classic"
	}
	return &spec{Seed: c.SubSeed(fmt.Sprintf("batch-%d", b)), Batch: b, N: n, V2: b%2 == 1, LO: lo, Mode: "batch", WatchSec: watchSec, HeapAbort: heapAbort}
}

// digest turns one child's journal into evidence, immediate violations (escaped panic, crash) and
// candidates that need a second, isolated attempt (hang, internal error, memory peak).
func digest(c *vk.Ctx, dir string, cr *childRun) []candidate {
	var cands []candidate
	qs := map[int]jline{}
	for _, l := range cr.lines {
		switch l.K {
		case "q":
			qs[l.I] = l
		case "r":
			q, ok := qs[l.I]
			if !ok || l.Re || q.Re {
				continue // re-executed state-building request: judged when it ran first
			}
			if l.Code == "SKIPPED-known-hang" {
				c.Count("requests_skipped_known_hang_class", 1)
				continue
			}
			wire := "wire"
			if q.NoWire != "" {
				wire = "nowire"
				c.Count("requests_nowire", 1)
			}
			c.Case(q.RPC+"|"+q.Class+"|"+l.Code, q.Class != "valid")
			c.Count("requests_total", 1)
			c.Count("rpc_"+q.RPC, 1)
			c.Count("outcome_"+l.Code, 1)
			c.Count("class_"+classRoot(q.Class), 1)
			c.Seen("mutation_classes", q.Class)
			c.Seen("rpc_x_class_root", q.RPC+"|"+classRoot(q.Class))
			c.Seen("rpc_x_outcome", q.RPC+"|"+l.Code)
			if l.Ms >= 1000 {
				c.Count("requests_reaching_the_1s_deadline", 1)
			}
			if l.I%997 == 0 {
				c.Sample(map[string]any{"rpc": q.RPC, "class": q.Class, "transport": wire, "outcome": l.Code, "detail": trunc(l.Detail, 200), "request": trunc(q.Req, 400), "ms": l.Ms})
			}
			switch {
			case l.Code == "PANIC":
				if q.NoWire != "" {
					noWireFailure(c, "escaped panic", q, l)
					break
				}
				frame := panicFrame(l.Detail)
				w := witness(cr, q, l)
				w["isolated_replay"] = isolate(c, dir, cr.sp, q.I, false, "state")
				violate(c, "C19-panic-"+frame, "panic|"+frame,
					fmt.Sprintf("escaped panic: Server.%s (%s) panicked out to its caller on a request of class %q: %s", q.RPC, engineName(cr.sp), q.Class, firstLine(l.Detail)), w)
			case l.Code == "HANG":
				c.Count("request_watchdog_firings", 1)
				cands = append(cands, candidate{kind: "hang", cr: cr, q: q, r: l})
			case l.Code == "MEMORY":
				cands = append(cands, candidate{kind: "memory", cr: cr, q: q, r: l})
			case (isInternalCode(l.Code) || l.Code == "ok+item_internal") && deadlineCaused(l.Detail):
				c.Count("internal_answers_naming_the_deadline_not_judged", 1)
			case isInternalCode(l.Code) || l.Code == "ok+item_internal":
				c.Count("internal_answers", 1)
				cands = append(cands, candidate{kind: "internal", cr: cr, q: q, r: l})
			}
		case "m":
			if l.Peak > heapCeiling && l.I >= 0 {
				c.Count("live_heap_ceiling_crossings", 1)
			}
		}
	}
	switch {
	case cr.watchdog:
		c.Count("child_watchdog_firings", 1)
		c.Inconclusive("child killed by the supervisor watchdog")
		saveLog(c, cr, "watchdog")
	case cr.exit == exitHarness:
		c.HarnessError("child of batch %d failed: %s", cr.sp.Batch, trunc(cr.stderr, 600))
	case cr.died():
		q := cr.pending()
		crashText := strings.Contains(cr.stderr, "panic:") || strings.Contains(cr.stderr, "fatal error:")
		if q == nil {
			c.HarnessError("child of batch %d died (exit %d) outside any request: %s", cr.sp.Batch, cr.exit, trunc(cr.stderr, 800))
			break
		}
		c.Case(q.RPC+"|"+q.Class+"|CRASH", true)
		if crashText && !crashInCodeUnderTest(cr.stderr) {
			// the panicking goroutine never entered openfga code: a defect of this harness, not of the server
			c.HarnessError("child of batch %d died in harness code: %s", cr.sp.Batch, trunc(cr.stderr, 1500))
			break
		}
		if q.NoWire != "" {
			noWireFailure(c, "process death", *q, jline{Code: "CRASH", Detail: trunc(cr.stderr, 400)})
			break
		}
		log := saveLog(c, cr, "crash")
		if !crashText {
			// killed from outside (OOM killer?) : only a reproduction makes it a finding
			rep := isolate(c, dir, cr.sp, q.I, false, "all")
			if rep["died"] != true {
				c.Inconclusive("child died without panic text and the death did not reproduce")
				break
			}
		}
		frame := panicFrame(cr.stderr)
		w := witness(cr, *q, jline{Code: "CRASH", Detail: headTail(cr.stderr, 6000)})
		w["stderr_log"] = log
		violate(c, "C19-crash-"+frame, "crash|"+frame,
			fmt.Sprintf("process death: the server process (%s) died (exit %d) while request %d (%s, class %q) was in flight: %s", engineName(cr.sp), cr.exit, q.I, q.RPC, q.Class, crashLine(cr.stderr)), w)
	}
	return cands
}

// crashInCodeUnderTest reports whether the goroutine that brought the process down (the first one in
// the dump) was executing openfga code, or a runtime fatal error (stack overflow, concurrent map
// access, out of memory) occurred, which has no single guilty goroutine.
func crashInCodeUnderTest(stderr string) bool {
	i := strings.Index(stderr, "panic:")
	if j := strings.Index(stderr, "fatal error:"); j >= 0 && (i < 0 || j < i) {
		return true
	}
	if i < 0 {
		return false
	}
	s := stderr[i:]
	if k := strings.Index(s, "\ngoroutine "); k >= 0 {
		s = s[k+1:]
	}
	if k := strings.Index(s, "\n\n"); k >= 0 {
		s = s[:k]
	}
	for _, m := range reFrame.FindAllStringSubmatch(s, -1) {
		if !strings.Contains(m[1], "verifharness") {
			return true
		}
	}
	return strings.Contains(s, "github.com/openfga/language") || strings.Contains(s, "cel-go")
}

func crashLine(stderr string) string {
	for _, l := range strings.Split(stderr, "\n") {
		if strings.HasPrefix(l, "panic:") || strings.HasPrefix(l, "fatal error:") {
			return trunc(l, 300)
		}
	}
	return "no panic text on stderr"
}

func headTail(s string, n int) string {
	if len(s) <= n {
		return s
	}
	return s[:n*3/4] + "\n…\n" + s[len(s)-n/4:]
}

func saveLog(c *vk.Ctx, cr *childRun, what string) string {
	p := filepath.Join(vk.Root(), "replay", fmt.Sprintf("C19-%s-seed%d-batch%d.stderr.log", what, c.Seed, cr.sp.Batch))
	_ = os.MkdirAll(filepath.Dir(p), 0o755)
	_ = os.WriteFile(p, []byte(headTail(cr.stderr, 1<<20)), 0o644)
	return p
}

var (
	stopMu sync.Mutex
	stops  = map[int][]int{} // batch -> indices of the requests that stopped one of its children
)

func noteStop(batch, idx int) {
	stopMu.Lock()
	stops[batch] = append(stops[batch], idx)
	stopMu.Unlock()
}

func stopsOf(batch int) []int {
	stopMu.Lock()
	defer stopMu.Unlock()
	return append([]int{}, stops[batch]...)
}

func containsInt(xs []int, x int) bool {
	for _, y := range xs {
		if y == x {
			return true
		}
	}
	return false
}

var internalKinds = map[string]int{}

var nowireMu sync.Mutex
var nowireList []map[string]any

func noWireFailure(c *vk.Ctx, what string, q, r jline) {
	c.Inconclusive("failure on a request that cannot arrive over the wire: " + what)
	nowireMu.Lock()
	defer nowireMu.Unlock()
	if len(nowireList) < 20 {
		nowireList = append(nowireList, map[string]any{"what": what, "rpc": q.RPC, "class": q.Class, "nowire": q.NoWire, "outcome": r.Code, "detail": trunc(r.Detail, 600), "request": trunc(q.Req, 600)})
		c.Extra("failures_on_unreachable_requests", nowireList)
	}
}

func witness(cr *childRun, q, r jline) map[string]any {
	wsp := *cr.sp
	wsp.Skip = append(stopsOf(cr.sp.Batch), cr.sp.Skip...)
	return map[string]any{
		"spec": &wsp, "index": q.I, "rpc": q.RPC, "class": q.Class, "engine": engineName(cr.sp), "request_bytes_on_wire": q.Size,
		"request": q.Req, "outcome": r.Code, "detail": r.Detail, "ms": r.Ms,
		"how_to_replay": "run.sh C19 quick --replay <this file>: a fresh child rebuilds the stores from spec.seed, replays the state-building requests before index and sends request index again",
	}
}

// isolate runs a fresh child that replays only request idx (after the state-building requests, or
// after the whole prefix) and reports what happened to it.
func isolate(c *vk.Ctx, dir string, base *spec, idx int, generous bool, prefix string) map[string]any {
	sp := *base
	sp.Mode, sp.Only, sp.Prefix, sp.Generous = "replay", idx, prefix, generous
	sp.Start = 0
	// requests that stopped a child of this batch are never replayed as part of a prefix
	sp.Skip = nil
	for _, i := range append(stopsOf(base.Batch), base.Skip...) {
		if i != idx && !containsInt(sp.Skip, i) {
			sp.Skip = append(sp.Skip, i)
		}
	}
	name := fmt.Sprintf("replay-b%d-i%d-%s-%v", base.Batch, idx, prefix, generous)
	sp.Dump = filepath.Join(dir, name+".request")
	c.Count("isolated_replays", 1)
	cr := runChild(c, dir, &sp, name, 15*time.Minute)
	out := map[string]any{"prefix": prefix, "generous_deadlines": generous}
	if cr == nil {
		out["error"] = "child could not be started"
		return out
	}
	if b, err := os.ReadFile(sp.Dump); err == nil {
		out["full_request"] = trunc(string(b), 300_000)
	}
	if b, err := os.ReadFile(sp.Dump + ".store"); err == nil {
		var st map[string]any
		if json.Unmarshal(b, &st) == nil {
			out["store"] = st
		}
	}
	out["exit"] = cr.exit
	out["died"] = cr.died()
	for _, l := range cr.lines {
		if l.K == "r" && l.I == idx {
			out["outcome"], out["detail"], out["ms"] = l.Code, l.Detail, l.Ms
		}
	}
	if cr.died() {
		out["stderr"] = headTail(cr.stderr, 4000)
	}
	if cr.exit == exitHang {
		out["hung_goroutine"] = hungGoroutine(cr.stderr)
	}
	return out
}

// confirm gives every candidate a second, isolated attempt and reports the ones that reproduce.
func confirm(c *vk.Ctx, dir string, cands []candidate) {
	perKey := map[string]int{}
	sort.SliceStable(cands, func(i, j int) bool {
		if cands[i].cr.sp.Batch != cands[j].cr.sp.Batch {
			return cands[i].cr.sp.Batch < cands[j].cr.sp.Batch
		}
		return cands[i].q.I < cands[j].q.I
	})
	for _, cd := range cands {
		q, r := cd.q, cd.r
		var id, key, what string
		switch cd.kind {
		case "internal":
			cause := causeClass(r.Detail)
			id = "C19-internal-" + rpcFamily(q.RPC) + "-" + cause
			key = "internal|" + rpcFamily(q.RPC) + "|" + cause
			c.Seen("internal_answer_kinds", q.RPC+"|"+cause)
			internalKinds[q.RPC+" | "+cause+" | e.g. class "+classRoot(q.Class)+" | reachable over the wire: "+fmt.Sprint(q.NoWire == "")]++
			c.Extra("internal_answers_by_kind", internalKinds)
		case "hang":
			id = "C19-hang-" + rpcFamily(q.RPC) + "-" + classRoot(q.Class)
			key = "hang|" + rpcFamily(q.RPC) + "|" + classRoot(q.Class)
		case "memory":
			id = "C19-memory-" + q.RPC + "-" + classRoot(q.Class)
			key = "memory|" + q.RPC + "|" + classRoot(q.Class)
		}
		if q.NoWire != "" {
			noWireFailure(c, cd.kind, q, r)
			continue
		}
		perKey[key]++
		if perKey[key] > 2 {
			c.Count("candidates_not_replayed_same_kind_already_decided", 1)
			continue
		}
		generous := cd.kind == "internal"
		reproduced := false
		var rep map[string]any
		for _, prefix := range []string{"state", "all"} {
			rep = isolate(c, dir, cd.cr.sp, q.I, generous, prefix)
			oc, _ := rep["outcome"].(string)
			switch cd.kind {
			case "internal":
				reproduced = (isInternalCode(oc) || oc == "ok+item_internal") && !deadlineCaused(fmt.Sprint(rep["detail"]))
			case "hang":
				reproduced = oc == "HANG"
			case "memory":
				reproduced = oc == "MEMORY"
			}
			if reproduced || rep["died"] == true {
				break
			}
		}
		if !reproduced {
			c.Inconclusive(cd.kind + " candidate did not reproduce in isolation")
			c.Logf("%s candidate not reproduced: batch %d request %d %s %q -> %v", cd.kind, cd.cr.sp.Batch, q.I, q.RPC, q.Class, rep["outcome"])
			continue
		}
		w := witness(cd.cr, q, r)
		w["isolated_replay"] = rep
		if cd.kind == "hang" {
			w["hung_goroutine"] = hungGoroutine(cd.cr.stderr)
		}
		switch cd.kind {
		case "internal":
			what = fmt.Sprintf("internal error: Server.%s (%s) answered %s to a hostile request of class %q (neither a normal answer nor a validation error), also with 60 s deadlines in a fresh process: %s",
				q.RPC, engineName(cd.cr.sp), r.Code, q.Class, trunc(firstLine(r.Detail), 400))
		case "hang":
			what = fmt.Sprintf("hang: Server.%s (%s), request class %q: %s; twice, the second time in a fresh process (%v)", q.RPC, engineName(cd.cr.sp), q.Class, r.Detail, rep["detail"])
		case "memory":
			what = fmt.Sprintf("memory: live heap exceeded %d MiB while Server.%s (%s) handled a %d-byte request of class %q, twice", heapAbort>>20, q.RPC, engineName(cd.cr.sp), q.Size, q.Class)
		}
		violate(c, id, key, what, w)
	}
}

// judgeRetention applies the retention oracle to the probes of one child.
func judgeRetention(c *vk.Ctx, cr *childRun) {
	c.Count("children_run", 1)
	if cr.exit != exitOK {
		q := cr.pending()
		if cr.exit == exitHarness || q == nil {
			c.HarnessError("retention child failed (exit %d): %s", cr.exit, trunc(cr.stderr, 600))
			return
		}
		frame := panicFrame(cr.stderr)
		violate(c, "C19-crash-"+frame, "crash|"+frame, fmt.Sprintf("process death during retention probe %s %s: %s", q.RPC, q.Class, crashLine(cr.stderr)),
			map[string]any{"spec": cr.sp, "probe": q, "stderr": headTail(cr.stderr, 6000)})
		return
	}
	for _, l := range cr.lines {
		p := l.Probe
		if l.K != "r" || p == nil {
			continue
		}
		if p.Skipped != "" {
			c.Count("retention_probes_skipped", 1)
			c.Seen("retention_skip_reasons", firstWord(p.Skipped))
			continue
		}
		c.Count("retention_probes", 1)
		c.Count("requests_in_retention_probes", 2*p.K+10)
		d1, d2 := float64(int64(p.H1)-int64(p.H0))/float64(p.K), float64(int64(p.H2)-int64(p.H1))/float64(p.K)
		var codes []string
		allErr := true
		for code := range p.Codes {
			codes = append(codes, code)
			if code == "ok" {
				allErr = false
			}
		}
		sort.Strings(codes)
		kept := "none"
		bound := max(float64(retainFloor), retainFraction*float64(p.Size))
		leak := d1 > bound && d2 > bound
		if leak {
			kept = "linear"
		} else if d1 > bound || d2 > bound {
			kept = "one-half-only"
		}
		sizeClass := "short"
		if p.Size > 1000 {
			sizeClass = "50KB"
		}
		c.Case(fmt.Sprintf("retain|%s|%s|%s|%s|%s", p.RPC, p.Path, sizeClass, strings.Join(codes, ","), kept), true)
		c.Seen("retention_probe_targets", p.RPC+"|"+p.Path)
		if v := int64(max(d1, d2)); v > c.Counter("max_bytes_kept_per_request_in_a_probe_half") {
			c.Count("max_bytes_kept_per_request_in_a_probe_half", int(v-c.Counter("max_bytes_kept_per_request_in_a_probe_half")))
		}
		if !leak {
			continue
		}
		mutating := rpcByName(p.RPC).mutating
		if mutating && !allErr {
			// an accepted write legitimately stores what it was given
			c.Count("retention_by_accepted_writes_not_judged", 1)
			continue
		}
		path := strings.NewReplacer("[]", "", ".<value>", "", ".<key>", "-key", ".", "-").Replace(p.Path)
		violate(c, "C19-retention-"+p.RPC+"-"+path, "retain|"+p.RPC+"|"+p.Path,
			fmt.Sprintf("unbounded memory growth: Server.%s (%s) keeps %.0f and %.0f bytes per request (two consecutive halves of %d requests, live heap after forced GC) when a never-seen %d-byte string is appended to %s; answers: %v",
				p.RPC, engineName(cr.sp), d1, d2, p.K, p.Size, p.Path, p.Codes),
			map[string]any{"spec": cr.sp, "probe": p, "how_to_replay": "re-run the check: the probe list is a pure function of the seed"})
	}
}

func firstWord(s string) string {
	if i := strings.IndexAny(s, " :"); i > 0 {
		return s[:i]
	}
	return s
}

// violate reports a violation and names its finding id in the text, so that it can be listed.
func violate(c *vk.Ctx, id, key, what string, w any) {
	if id != "" {
		what += " [finding id: " + id + "]"
	}
	c.Violation(id, key, what, w)
}

func deadlineCaused(detail string) bool {
	return strings.Contains(detail, "context deadline exceeded") || strings.Contains(detail, "context canceled") ||
		strings.Contains(detail, "Request Deadline Exceeded") || strings.Contains(detail, "Request Cancelled")
}

// memoryVerdict applies the two memory oracles to one batch.
func memoryVerdict(c *vk.Ctx, cr *childRun) (maxHeap, maxPeak uint64, slope float64) {
	var ms []jline
	for _, l := range cr.lines {
		if l.K == "m" {
			ms = append(ms, l)
			maxHeap, maxPeak = max(maxHeap, l.Heap), max(maxPeak, l.Peak)
		}
	}
	c.Count("memory_samples", len(ms))
	if cr.sp.Mode != "batch" || len(ms) < 4 {
		return
	}
	med := func(v []jline) float64 {
		h := make([]float64, len(v))
		for i := range v {
			h[i] = float64(v[i].Heap)
		}
		sort.Float64s(h)
		return h[len(h)/2]
	}
	k := min(3, len(ms)/2)
	first, last := med(ms[:k]), med(ms[len(ms)-k:])
	span := float64(ms[len(ms)-1].I-ms[0].I) / 1000
	if span <= 0 {
		return
	}
	slope = (last - first) / (1 << 20) / span
	if slope > growthPer1000MiB && (last-first) > growthFloorMiB<<20 {
		var series []string
		for _, l := range ms {
			series = append(series, fmt.Sprintf("%d:%dMiB", l.I, l.Heap>>20))
		}
		violate(c, "C19-memory-growth", "memgrowth", fmt.Sprintf("unbounded memory growth: heap in use after GC grew by %.0f MiB per 1000 requests over batch %d (%s), from %.0f MiB to %.0f MiB",
			slope, cr.sp.Batch, engineName(cr.sp), first/(1<<20), last/(1<<20)), map[string]any{"spec": cr.sp, "heap_after_gc_by_request_index": series})
	}
	// transient peaks above the ceiling: attributed to the 250-request window; the window is replayed
	for _, l := range ms {
		if l.Peak > heapCeiling && l.I >= 0 {
			violate(c, "C19-memory-peak", "mempeak", fmt.Sprintf("live heap reached %d MiB (ceiling %d MiB) in the 250 requests before request %d of batch %d (%s)", l.Peak>>20, heapCeiling>>20, l.I, cr.sp.Batch, engineName(cr.sp)),
				map[string]any{"spec": cr.sp, "window_end": l.I, "peak_bytes": l.Peak})
		}
	}
	return
}

// replayWitness re-executes the request of a witness file in a fresh child.
func replayWitness(c *vk.Ctx, dir string) {
	b, err := os.ReadFile(c.Replay)
	if err != nil {
		c.HarnessError("%v", err)
		return
	}
	var doc struct {
		Witness struct {
			Spec  *spec  `json:"spec"`
			Index int    `json:"index"`
			RPC   string `json:"rpc"`
			Class string `json:"class"`
			Out   string `json:"outcome"`
		} `json:"witness"`
	}
	if err := json.Unmarshal(b, &doc); err != nil || doc.Witness.Spec == nil {
		c.HarnessError("witness file has no spec: %v", err)
		return
	}
	w := doc.Witness
	for _, prefix := range []string{"state", "all"} {
		rep := isolate(c, dir, w.Spec, w.Index, isInternalCode(w.Out), prefix)
		oc, _ := rep["outcome"].(string)
		c.Logf("replay (%s prefix): request %d %s %q -> outcome %q exit %v: %s", prefix, w.Index, w.RPC, w.Class, oc, rep["exit"], trunc(fmt.Sprint(rep["detail"]), 1500))
		c.Case("replay|"+oc, true)
		if oc == "PANIC" || oc == "HANG" || oc == "MEMORY" || isInternalCode(oc) || oc == "ok+item_internal" || rep["died"] == true {
			violate(c, "", "replay", fmt.Sprintf("replayed request %d (%s, %q): %s %s", w.Index, w.RPC, w.Class, oc, trunc(fmt.Sprint(rep["detail"]), 600)), rep)
			return
		}
	}
}
