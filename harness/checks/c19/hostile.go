package c19

import (
	"encoding/base64"
	"fmt"
	"math"
	"math/rand"
	"sort"
	"strings"

	authzenv1 "github.com/openfga/api/proto/authzen/v1"
	openfgav1 "github.com/openfga/api/proto/openfga/v1"
	"google.golang.org/protobuf/proto"
	"google.golang.org/protobuf/types/known/structpb"
	"google.golang.org/protobuf/types/known/timestamppb"
	"google.golang.org/protobuf/types/known/wrapperspb"

	"github.com/openfga/openfga/verifharness/gen"
)

// storeSt is what the generator knows about one store of the child's server.
type storeSt struct {
	ID      string
	Kind    string // "valid", "poisoned", "typed", "playground"
	ModelID string // the valid model under which the requests are meant
	PermID  string // the permissive model (valid stores)
	Model   *openfgav1.AuthorizationModel

	types  []string            // sorted
	nodes  [][2]string         // (type, relation), sorted
	ids    map[string][]string // type -> ids
	users  []string
	conds  []string
	params []string          // condition parameter names
	ptypes map[string]string // parameter name -> declared type (typed store)
	ctxs   []*structpb.Struct
	tuples []*openfgav1.TupleKey

	// updated from RESPONSES by the child (values differ run to run, the generator never branches on them)
	hostModelID  string                                     // last accepted hostile model
	hostModelReq *openfgav1.WriteAuthorizationModelRequest // its request
	hostModelClass string // its mutation class
}

func (st *storeSt) hasRel(t, rel string) bool {
	for _, n := range st.nodes {
		if n[0] == t && n[1] == rel {
			return true
		}
	}
	return false
}

func (st *storeSt) index() {
	st.ids = map[string][]string{}
	st.types = nil
	st.nodes = nil
	for _, td := range st.Model.GetTypeDefinitions() {
		t := td.GetType()
		st.types = append(st.types, t)
		ids := gen.IDs(t)
		if len(ids) == 0 {
			ids = []string{"1", "2", "3"}
		}
		st.ids[t] = ids
		for rn := range td.GetRelations() {
			st.nodes = append(st.nodes, [2]string{t, rn})
		}
	}
	sort.Strings(st.types)
	sort.Slice(st.nodes, func(i, j int) bool { return st.nodes[i][0]+"#"+st.nodes[i][1] < st.nodes[j][0]+"#"+st.nodes[j][1] })
	st.conds = nil
	pset := map[string]bool{}
	for cn, c := range st.Model.GetConditions() {
		st.conds = append(st.conds, cn)
		for p := range c.GetParameters() {
			pset[p] = true
		}
	}
	sort.Strings(st.conds)
	st.params = nil
	for p := range pset {
		st.params = append(st.params, p)
	}
	sort.Strings(st.params)
	st.users = nil
	for _, t := range st.types {
		for _, id := range st.ids[t] {
			st.users = append(st.users, t+":"+id)
		}
	}
	for _, n := range st.nodes {
		st.users = append(st.users, n[0]+":"+st.ids[n[0]][0]+"#"+n[1])
	}
	st.users = append(st.users, "user:*")
}

// state is the generator's view of the server.
type state struct {
	stores      []*storeSt
	lastCreated string   // id returned by the last successful CreateStore (response-derived)
	tokens      []string // continuation tokens seen in responses (response-derived)
}

// hreq is one generated request.
type hreq struct {
	rpc   string
	class string
	msg   proto.Message
	md    map[string]string // incoming gRPC metadata (AuthZEN model id header)
	store *storeSt          // the store the request was built for (nil for store-less ones)
	ds    []*openfgav1.TupleKey
}

type hgen struct {
	seed int64
	st   *state
}

func (g *hgen) rng(i int) *rand.Rand {
	return rand.New(rand.NewSource(g.seed ^ (int64(i)+1)*0x5851F42D4C957F2D))
}

// ---- id / token / page-size pools ----

var badIDs = []string{
	"", "01ARZ3NDEKTSV4RRFFQ69G5FAV", "01arz3ndektsv4rrffq69g5fav", "01ARZ3NDEKTSV4RRFFQ69G5FA", "01ARZ3NDEKTSV4RRFFQ69G5FAVX", "../../etc/passwd",
	"IIIIIIIIIIIIIIIIIIIIIIIIII", "7ZZZZZZZZZZZZZZZZZZZZZZZZZ", "80000000000000000000000000", "00000000000000000000000000", "01ARZ3NDEKTSV4RRFFQ69G5FA\x00",
	"01ARZ3NDEKTSV4RRFFQ69G5FA\xff", " 01ARZ3NDEKTSV4RRFFQ69G5FAV", "01ARZ3NDEKTSV4RRFFQ69G5FAV\n", "*", "%", "01ARZ3NDEKTSV4RRFFQ69G5FAV|x", "０１ARZ3NDEKTSV4RRFFQ69G5FAV",
}

func (g *hgen) badID(r *rand.Rand) string {
	if r.Intn(12) == 0 {
		return strings.Repeat("0", hugeLen(r))
	}
	return badIDs[r.Intn(len(badIDs))]
}

func b64(s string) string { return base64.URLEncoding.EncodeToString([]byte(s)) }

func (g *hgen) hostileToken(r *rand.Rand) (string, string) {
	switch r.Intn(16) {
	case 0:
		return b64("-5|"), "tok-negative"
	case 1:
		return b64("-5"), "tok-negative-nopipe"
	case 2:
		return b64("99999999999999999999|"), "tok-overflow"
	case 3:
		return b64("9223372036854775807|"), "tok-maxint"
	case 4:
		return b64("abc|"), "tok-nonnumeric"
	case 5:
		return b64("|"), "tok-empty-parts"
	case 6:
		return b64("5|doc"), "tok-offset-type"
	case 7:
		b := make([]byte, 1+r.Intn(64))
		r.Read(b)
		return base64.URLEncoding.EncodeToString(b), "tok-random-bytes"
	case 8:
		b := make([]byte, 1+r.Intn(64))
		r.Read(b)
		return string(b), "tok-not-base64"
	case 9:
		return b64("01ARZ3NDEKTSV4RRFFQ69G5FAV|doc"), "tok-ulid"
	case 10:
		return b64(`{"ulid":"01ARZ3NDEKTSV4RRFFQ69G5FAV","ObjectType":"doc"}`), "tok-sql-json"
	case 11:
		return b64(strings.Repeat("9", hugeLen(r)) + "|"), "tok-huge"
	case 12:
		return b64("-9223372036854775808|"), "tok-minint"
	case 13:
		return b64("0x10|"), "tok-hex"
	case 14:
		return b64(" 5|"), "tok-space"
	}
	// a valid token of some API (possibly another one) taken from an earlier response
	tok := ""
	if n := len(g.st.tokens); n > 0 {
		tok = g.st.tokens[r.Intn(n)]
	}
	return tok, "tok-other-api"
}

func (g *hgen) hostilePage(r *rand.Rand) (*wrapperspb.Int32Value, string) {
	vals := []int32{0, -1, 1, 2, 50, 100, 101, math.MaxInt32, math.MinInt32}
	v := vals[r.Intn(len(vals))]
	return wrapperspb.Int32(v), fmt.Sprintf("page-%d", v)
}

// ---- base (valid) request parts ----

func (g *hgen) pickStore(r *rand.Rand) *storeSt { return g.st.stores[r.Intn(len(g.st.stores))] }

func (g *hgen) modelChoice(r *rand.Rand, st *storeSt) string {
	switch k := r.Intn(20); {
	case k < 13:
		return st.ModelID
	case k < 16:
		return ""
	case k < 18:
		return st.hostModelID
	case k < 19:
		return st.PermID
	}
	return g.pickStore(r).ModelID
}

func node(r *rand.Rand, st *storeSt) (typ, id, rel string) {
	n := st.nodes[r.Intn(len(st.nodes))]
	ids := st.ids[n[0]]
	id = ids[r.Intn(len(ids))]
	if r.Intn(8) == 0 {
		id = "zz"
	}
	return n[0], id, n[1]
}

func pickUser(r *rand.Rand, st *storeSt) string { return st.users[r.Intn(len(st.users))] }

func pickCtx(r *rand.Rand, st *storeSt) *structpb.Struct {
	if len(st.ctxs) == 0 {
		return nil
	}
	c := st.ctxs[r.Intn(len(st.ctxs))]
	if c == nil {
		return nil
	}
	return proto.Clone(c).(*structpb.Struct)
}

// contextual returns n contextual tuples derived from the store's tuples (ids varied to reach n).
func contextual(r *rand.Rand, st *storeSt, n int) []*openfgav1.TupleKey {
	var out []*openfgav1.TupleKey
	for i := 0; i < n; i++ {
		var t *openfgav1.TupleKey
		if len(st.tuples) > 0 {
			t = proto.Clone(st.tuples[r.Intn(len(st.tuples))]).(*openfgav1.TupleKey)
		} else {
			ty, id, rel := node(r, st)
			t = tk(ty+":"+id, rel, pickUser(r, st))
		}
		if i >= 6 {
			t.Object = fmt.Sprintf("%s_%d", t.GetObject(), i)
		}
		out = append(out, t)
	}
	return out
}

// typedCtx builds a context for the typed store: every declared parameter gets a plausible value, one
// or two get a hostile value aimed at their declared type.
func typedCtx(r *rand.Rand, st *storeSt, hostile bool) *structpb.Struct {
	f := map[string]*structpb.Value{}
	plain := map[string]*structpb.Value{
		"ipaddress": sv("10.1.2.3"), "timestamp": sv("2024-01-01T00:00:00Z"), "duration": sv("1h"), "int": nv(7), "uint": nv(7), "double": nv(1.5),
		"string": sv("aaa"), "bool": structpb.NewBoolValue(true), "any": nv(1),
		"list": wideList(2, func(int) *structpb.Value { return sv("a") }),
		"map":  structpb.NewStructValue(&structpb.Struct{Fields: map[string]*structpb.Value{"k": nv(5)}}),
	}
	for _, p := range st.params {
		if r.Intn(5) != 0 {
			f[p] = plain[st.ptypes[p]]
		}
	}
	for k := 0; hostile && k < 1+r.Intn(2); k++ {
		p := st.params[r.Intn(len(st.params))]
		f[p] = typedHostile(r, st.ptypes[p])
	}
	return &structpb.Struct{Fields: f}
}

// queryParts gives the shared hostile mutations access to the common fields of the query requests.
type queryParts struct {
	setStore      func(string)
	setModel      func(string)
	setCtx        func(*structpb.Struct)
	setContextual func([]*openfgav1.TupleKey)
	setConsist    func(openfgav1.ConsistencyPreference)
}

// hostileQuery applies one structural mutation shared by all query RPCs; returns its class.
func (g *hgen) hostileQuery(r *rand.Rand, st *storeSt, qp queryParts) string {
	k := r.Intn(100)
	switch {
	case k < 40 && qp.setCtx != nil:
		if st.Kind == "typed" && r.Intn(2) == 0 {
			qp.setCtx(typedCtx(r, st, true))
			return "ctx-typed-hostile"
		}
		kind := ctxKinds[r.Intn(len(ctxKinds))]
		qp.setCtx(hostileCtx(r, kind, st.params))
		return kind
	case k < 70 && qp.setContextual != nil:
		switch r.Intn(9) {
		case 0:
			qp.setContextual([]*openfgav1.TupleKey{})
			return "ctxt-count-0"
		case 1:
			qp.setContextual(contextual(r, st, 1))
			return "ctxt-count-1"
		case 2:
			qp.setContextual(contextual(r, st, 100))
			return "ctxt-count-100"
		case 3:
			qp.setContextual(contextual(r, st, 101))
			return "ctxt-count-101"
		case 4:
			qp.setContextual(contextual(r, st, 1000))
			return "ctxt-count-1000"
		case 5:
			c := contextual(r, st, 3)
			qp.setContextual(append(c, c...))
			return "ctxt-duplicates"
		case 6:
			kind := storedKinds[r.Intn(len(storedKinds))]
			ts := hostileStored(r, kind, st)
			if len(ts) > 90 {
				ts = ts[:90]
			}
			qp.setContextual(ts)
			return "ctxt-hostile-" + kind
		case 7:
			qp.setContextual([]*openfgav1.TupleKey{nil, {}, tk("", "", "")})
			return "ctxt-nil-elements"
		default:
			c := contextual(r, st, 2)
			cond := "c_int"
			if len(st.conds) > 0 {
				cond = st.conds[r.Intn(len(st.conds))]
			}
			for _, t := range c {
				t.Condition = &openfgav1.RelationshipCondition{Name: cond, Context: hostileCtx(r, ctxKinds[r.Intn(len(ctxKinds))], st.params)}
			}
			qp.setContextual(c)
			return "ctxt-condition-hostile-ctx"
		}
	case k < 80:
		qp.setStore(g.badID(r))
		return "id-store-malformed"
	case k < 90:
		if r.Intn(3) == 0 {
			qp.setModel(g.pickStore(r).ModelID)
			return "id-model-other-store"
		}
		qp.setModel(g.badID(r))
		return "id-model-malformed"
	case k < 95 && qp.setConsist != nil:
		qp.setConsist(openfgav1.ConsistencyPreference([]int32{1, 100, 2, 99, -1, math.MaxInt32}[r.Intn(6)]))
		return "consistency-enum"
	}
	if qp.setCtx != nil {
		qp.setCtx(hostileCtx(r, "ctx-tree-2000", st.params))
		return "ctx-tree-2000"
	}
	qp.setStore(g.badID(r))
	return "id-store-malformed"
}

// hostileTupleTriple returns (object, relation, user) shapes that are structurally odd for queries.
func hostileTriple(r *rand.Rand, st *storeSt) (o, rel, u, class string) {
	t, id, rl := node(r, st)
	o, rel, u = t+":"+id, rl, pickUser(r, st)
	switch r.Intn(12) {
	case 0:
		return o, rel, o + "#" + rel, "tk-self-reference"
	case 1:
		return t + ":*", rel, u, "tk-object-wildcard"
	case 2:
		return o, rel, t + ":*", "tk-user-typed-wildcard"
	case 3:
		return o, "ghostrel", u, "tk-unknown-relation"
	case 4:
		return "ghost:1", rel, u, "tk-unknown-object-type"
	case 5:
		return o, rel, "ghost:1", "tk-unknown-user-type"
	case 6:
		return o, rel, "*", "tk-user-star"
	case 7:
		return t + ":", rel, u, "tk-object-no-id"
	case 8:
		return o, rel, u + "#" + rel, "tk-userset-of-userset"
	case 9:
		return t, rel, u, "tk-object-no-colon"
	case 10:
		return o, rel, t + ":" + id + "#ghostrel", "tk-userset-unknown-relation"
	}
	return "", "", "", "tk-all-empty"
}

// next generates request number i.
func (g *hgen) next(i int) *hreq {
	r := g.rng(i)
	total := 0
	for _, d := range rpcTable {
		total += d.weight
	}
	x := r.Intn(total)
	var def *rpcDef
	for k := range rpcTable {
		if x < rpcTable[k].weight {
			def = &rpcTable[k]
			break
		}
		x -= rpcTable[k].weight
	}
	st := g.pickStore(r)
	h := &hreq{rpc: def.name, store: st}
	// mode: 0 valid, 1 byte-level string mutation of a valid request, 2 structural, 3 structural + string
	mode := []int{0, 1, 1, 1, 1, 2, 2, 2, 2, 2, 3}[r.Intn(11)]
	structural := mode >= 2
	g.build(r, h, st, structural)
	switch {
	case mode == 0:
		if !strings.HasPrefix(h.class, "follow") {
			h.class = "valid"
		}
	case mode == 1 || mode == 3:
		if h.msg != nil {
			sc := mutateStrings(r, h.msg, 1+r.Intn(2))
			if mode == 1 {
				if i := strings.Index(h.class, "]:"); strings.HasPrefix(h.class, "follow[") && i > 0 {
					// still a follow-up on the accepted hostile model: the finding classes are named after it
					h.class = h.class[:i+2] + sc
				} else {
					h.class = sc
				}
			} else {
				h.class += "+" + strings.SplitN(sc, "@", 2)[0]
			}
		}
	}
	if h.class == "" {
		h.class = "valid"
	}
	return h
}

// build fills h.msg (and h.class when structural).
func (g *hgen) build(r *rand.Rand, h *hreq, st *storeSt, structural bool) {
	t, id, rel := node(r, st)
	obj := t + ":" + id
	user := pickUser(r, st)
	ctx := pickCtx(r, st)
	if st.Kind == "typed" && r.Intn(3) != 0 {
		ctx = typedCtx(r, st, structural)
	}
	model := st.ModelID
	if r.Intn(4) == 0 {
		model = g.modelChoice(r, st)
	}
	// follow-up on an accepted hostile model: relation names come from that model
	follow := false
	if st.hostModelReq != nil && r.Intn(3) == 0 {
		if nodes := modelNodes(st.hostModelReq); len(nodes) > 0 {
			n := nodes[r.Intn(len(nodes))]
			t, rel, obj, model, follow = n[0], n[1], n[0]+":1", st.hostModelID, true
			user = []string{"user:a", "user:*", n[0] + ":1#" + n[1], n[0] + ":2"}[r.Intn(4)]
		}
	}
	var ctxt *openfgav1.ContextualTupleKeys
	if r.Intn(4) == 0 {
		ctxt = &openfgav1.ContextualTupleKeys{TupleKeys: contextual(r, st, 1+r.Intn(4))}
	}
	cls := func(c string) {
		if follow {
			c = st.followTag() + c
		}
		h.class = c
	}
	if follow {
		h.class = st.followTag() + "plain"
	}

	switch h.rpc {
	case "Check":
		q := &openfgav1.CheckRequest{StoreId: st.ID, AuthorizationModelId: model, TupleKey: &openfgav1.CheckRequestTupleKey{Object: obj, Relation: rel, User: user}, Context: ctx, ContextualTuples: ctxt}
		h.msg = q
		if structural {
			if r.Intn(4) == 0 {
				o, rl, u, c := hostileTriple(r, st)
				q.TupleKey = &openfgav1.CheckRequestTupleKey{Object: o, Relation: rl, User: u}
				if r.Intn(10) == 0 {
					q.TupleKey = nil
					c = "tk-nil"
				}
				cls(c)
			} else {
				cls(g.hostileQuery(r, st, queryParts{
					setStore: func(s string) { q.StoreId = s }, setModel: func(s string) { q.AuthorizationModelId = s },
					setCtx:        func(s *structpb.Struct) { q.Context = s },
					setContextual: func(ts []*openfgav1.TupleKey) { q.ContextualTuples = &openfgav1.ContextualTupleKeys{TupleKeys: ts} },
					setConsist:    func(c openfgav1.ConsistencyPreference) { q.Consistency = c }}))
			}
		}
	case "BatchCheck":
		q := &openfgav1.BatchCheckRequest{StoreId: st.ID, AuthorizationModelId: model}
		h.msg = q
		item := func(k int) *openfgav1.BatchCheckItem {
			t2, id2, rel2 := node(r, st)
			o2 := t2 + ":" + id2
			if follow {
				o2, rel2 = obj, rel
			}
			return &openfgav1.BatchCheckItem{CorrelationId: fmt.Sprintf("id-%d", k), TupleKey: &openfgav1.CheckRequestTupleKey{Object: o2, Relation: rel2, User: pickUser(r, st)}, Context: pickCtx(r, st)}
		}
		n := 1 + r.Intn(6)
		c := ""
		if structural {
			switch r.Intn(12) {
			case 0:
				n, c = 0, "batch-items-0"
			case 1:
				n, c = 50, "batch-items-50"
			case 2:
				n, c = 51, "batch-items-51"
			case 3:
				n, c = 1000, "batch-items-1000"
			}
		}
		for k := 0; k < n; k++ {
			q.Checks = append(q.Checks, item(k))
		}
		if structural && c == "" && len(q.Checks) > 0 {
			it := q.Checks[r.Intn(len(q.Checks))]
			switch r.Intn(10) {
			case 0:
				for _, x := range q.Checks {
					x.CorrelationId = "same"
				}
				c = "batch-duplicate-ids"
			case 1:
				it.CorrelationId = ""
				c = "batch-empty-id"
			case 2:
				it.CorrelationId = strings.Repeat("c", hugeLen(r))
				c = "batch-huge-id"
			case 3:
				q.Checks[r.Intn(len(q.Checks))] = nil
				c = "batch-nil-item"
			case 4:
				it.TupleKey = nil
				c = "batch-item-nil-tuple"
			case 5:
				it.CorrelationId = specials[r.Intn(len(specials))]
				c = "batch-special-id"
			case 6:
				o, rl, u, cc := hostileTriple(r, st)
				it.TupleKey = &openfgav1.CheckRequestTupleKey{Object: o, Relation: rl, User: u}
				c = "batch-" + cc
			default:
				c = "batch-" + g.hostileQuery(r, st, queryParts{
					setStore: func(s string) { q.StoreId = s }, setModel: func(s string) { q.AuthorizationModelId = s },
					setCtx:        func(s *structpb.Struct) { it.Context = s },
					setContextual: func(ts []*openfgav1.TupleKey) { it.ContextualTuples = &openfgav1.ContextualTupleKeys{TupleKeys: ts} },
					setConsist:    func(c openfgav1.ConsistencyPreference) { q.Consistency = c }})
			}
		}
		if structural {
			cls(c)
		}
	case "ListObjects", "StreamedListObjects":
		lo := &openfgav1.ListObjectsRequest{StoreId: st.ID, AuthorizationModelId: model, Type: t, Relation: rel, User: user, Context: ctx, ContextualTuples: ctxt}
		if structural {
			if r.Intn(4) == 0 {
				o, rl, u, c := hostileTriple(r, st)
				lo.Type, lo.Relation, lo.User = strings.SplitN(o, ":", 2)[0], rl, u
				if r.Intn(3) == 0 {
					lo.Type = o // "type:id" where a bare type is expected
					c += "-full-object-as-type"
				}
				cls(c)
			} else {
				cls(g.hostileQuery(r, st, queryParts{
					setStore: func(s string) { lo.StoreId = s }, setModel: func(s string) { lo.AuthorizationModelId = s },
					setCtx:        func(s *structpb.Struct) { lo.Context = s },
					setContextual: func(ts []*openfgav1.TupleKey) { lo.ContextualTuples = &openfgav1.ContextualTupleKeys{TupleKeys: ts} },
					setConsist:    func(c openfgav1.ConsistencyPreference) { lo.Consistency = c }}))
			}
		}
		if h.rpc == "ListObjects" {
			h.msg = lo
		} else {
			h.msg = &openfgav1.StreamedListObjectsRequest{StoreId: lo.StoreId, AuthorizationModelId: lo.AuthorizationModelId, Type: lo.Type, Relation: lo.Relation, User: lo.User,
				Context: lo.Context, ContextualTuples: lo.ContextualTuples, Consistency: lo.Consistency}
		}
	case "ListUsers":
		ft := st.types[r.Intn(len(st.types))]
		q := &openfgav1.ListUsersRequest{StoreId: st.ID, AuthorizationModelId: model, Object: &openfgav1.Object{Type: t, Id: id}, Relation: rel,
			UserFilters: []*openfgav1.UserTypeFilter{{Type: ft}}, Context: ctx}
		if follow {
			q.Object = &openfgav1.Object{Type: t, Id: "1"}
			q.UserFilters = []*openfgav1.UserTypeFilter{{Type: []string{"user", t}[r.Intn(2)]}}
		}
		if ctxt != nil {
			q.ContextualTuples = ctxt.GetTupleKeys()
		}
		h.msg = q
		if structural {
			switch r.Intn(12) {
			case 0:
				q.UserFilters = nil
				cls("lu-filters-0")
			case 1:
				q.UserFilters = append(q.UserFilters, &openfgav1.UserTypeFilter{Type: "user"})
				cls("lu-filters-2")
			case 2:
				for k := 0; k < 100; k++ {
					q.UserFilters = append(q.UserFilters, &openfgav1.UserTypeFilter{Type: st.types[k%len(st.types)]})
				}
				cls("lu-filters-100")
			case 3:
				n := st.nodes[r.Intn(len(st.nodes))]
				q.UserFilters = []*openfgav1.UserTypeFilter{{Type: n[0], Relation: n[1]}}
				cls("lu-filter-userset")
			case 4:
				q.UserFilters = []*openfgav1.UserTypeFilter{{Type: "ghost"}}
				cls("lu-filter-unknown-type")
			case 5:
				q.UserFilters = []*openfgav1.UserTypeFilter{{Type: ft, Relation: "ghostrel"}}
				cls("lu-filter-unknown-relation")
			case 6:
				q.Object = nil
				cls("lu-object-nil")
			case 7:
				q.Object = &openfgav1.Object{Type: t, Id: []string{"", "*", "a#b", "a:b", id + "#" + rel}[r.Intn(5)]}
				cls("lu-object-odd-id")
			case 8:
				q.UserFilters = []*openfgav1.UserTypeFilter{nil}
				cls("lu-filter-nil")
			case 9:
				q.Relation = "ghostrel"
				cls("lu-unknown-relation")
			default:
				cls(g.hostileQuery(r, st, queryParts{
					setStore: func(s string) { q.StoreId = s }, setModel: func(s string) { q.AuthorizationModelId = s },
					setCtx:        func(s *structpb.Struct) { q.Context = s },
					setContextual: func(ts []*openfgav1.TupleKey) { q.ContextualTuples = ts },
					setConsist:    func(c openfgav1.ConsistencyPreference) { q.Consistency = c }}))
			}
		}
	case "Expand":
		q := &openfgav1.ExpandRequest{StoreId: st.ID, AuthorizationModelId: model, TupleKey: &openfgav1.ExpandRequestTupleKey{Object: obj, Relation: rel}, ContextualTuples: ctxt}
		h.msg = q
		if structural {
			if r.Intn(2) == 0 {
				o, rl, _, c := hostileTriple(r, st)
				q.TupleKey = &openfgav1.ExpandRequestTupleKey{Object: o, Relation: rl}
				if r.Intn(8) == 0 {
					q.TupleKey, c = nil, "tk-nil"
				}
				cls(c)
			} else {
				cls(g.hostileQuery(r, st, queryParts{
					setStore: func(s string) { q.StoreId = s }, setModel: func(s string) { q.AuthorizationModelId = s },
					setContextual: func(ts []*openfgav1.TupleKey) { q.ContextualTuples = &openfgav1.ContextualTupleKeys{TupleKeys: ts} },
					setConsist:    func(c openfgav1.ConsistencyPreference) { q.Consistency = c }}))
			}
		}
	case "Read":
		q := &openfgav1.ReadRequest{StoreId: st.ID}
		switch r.Intn(5) {
		case 0:
			q.TupleKey = &openfgav1.ReadRequestTupleKey{Object: obj, Relation: rel, User: user}
		case 1:
			q.TupleKey = &openfgav1.ReadRequestTupleKey{Object: t + ":", User: user}
		case 2:
			q.TupleKey = &openfgav1.ReadRequestTupleKey{Object: obj, Relation: rel}
		}
		h.msg = q
		if structural {
			switch r.Intn(8) {
			case 0, 1:
				var c string
				q.PageSize, c = g.hostilePage(r)
				cls(c)
			case 2, 3, 4:
				var c string
				q.ContinuationToken, c = g.hostileToken(r)
				if r.Intn(2) == 0 {
					q.TupleKey = nil
				}
				cls(c)
			case 5:
				q.TupleKey = []*openfgav1.ReadRequestTupleKey{{}, {Relation: rel}, {User: user}, {Object: t}, {Object: ":" + id}, {Object: t + ":", Relation: rel}, {Object: obj, User: "user:*"}}[r.Intn(7)]
				cls("read-partial-filter")
			case 6:
				q.StoreId = g.badID(r)
				cls("id-store-malformed")
			default:
				q.Consistency = openfgav1.ConsistencyPreference(99)
				cls("consistency-enum")
			}
		}
	case "ReadChanges":
		q := &openfgav1.ReadChangesRequest{StoreId: st.ID}
		if r.Intn(2) == 0 {
			q.Type = t
		}
		h.msg = q
		if structural {
			switch r.Intn(9) {
			case 0, 1:
				var c string
				q.PageSize, c = g.hostilePage(r)
				cls(c)
			case 2, 3, 4:
				var c string
				q.ContinuationToken, c = g.hostileToken(r)
				cls(c)
			case 5:
				q.StartTime = []*timestamppb.Timestamp{{Seconds: -1 << 62}, {Seconds: 1 << 62}, {Seconds: 253402300800}, {Nanos: -1}, {Nanos: 2_000_000_000}, {Seconds: -62135596801}, {}}[r.Intn(7)]
				cls("rc-start-time-out-of-range")
			case 6:
				q.StartTime = timestamppb.Now()
				q.ContinuationToken, _ = g.hostileToken(r)
				cls("rc-start-time-and-token")
			case 7:
				q.Type = "ghost"
				cls("rc-unknown-type")
			default:
				q.StoreId = g.badID(r)
				cls("id-store-malformed")
			}
		}
	case "Write":
		q := &openfgav1.WriteRequest{StoreId: st.ID, AuthorizationModelId: model}
		if st.Kind == "valid" && r.Intn(2) == 0 {
			q.AuthorizationModelId = st.PermID
		}
		nw := 1 + r.Intn(3)
		ws := contextual(r, st, nw)
		for k, w := range ws { // fresh objects so that writes usually succeed
			w.Object = fmt.Sprintf("%s_w%d", w.GetObject(), r.Intn(50)+k)
		}
		if follow {
			ws = []*openfgav1.TupleKey{tk(obj, rel, user), tk(t+":2", rel, "user:a")}
		}
		q.Writes = &openfgav1.WriteRequestWrites{TupleKeys: ws}
		if r.Intn(3) == 0 {
			q.Writes.OnDuplicate = "ignore"
		}
		if r.Intn(3) == 0 {
			d := contextual(r, st, 1)[0]
			q.Deletes = &openfgav1.WriteRequestDeletes{TupleKeys: []*openfgav1.TupleKeyWithoutCondition{{Object: d.GetObject(), Relation: d.GetRelation(), User: d.GetUser()}}, OnMissing: "ignore"}
		}
		h.msg = q
		if structural {
			big := func(n int) []*openfgav1.TupleKey {
				ty, _, rl := node(r, st)
				out := make([]*openfgav1.TupleKey, n)
				for k := range out {
					out[k] = tk(fmt.Sprintf("%s:b%d_%d", ty, r.Intn(1000), k), rl, "user:a")
				}
				return out
			}
			switch r.Intn(16) {
			case 0:
				q.Writes, q.Deletes = nil, nil
				cls("write-empty-nil")
			case 1:
				q.Writes, q.Deletes = &openfgav1.WriteRequestWrites{}, &openfgav1.WriteRequestDeletes{}
				cls("write-empty-lists")
			case 2:
				w := ws[0]
				q.Deletes = &openfgav1.WriteRequestDeletes{TupleKeys: []*openfgav1.TupleKeyWithoutCondition{{Object: w.GetObject(), Relation: w.GetRelation(), User: w.GetUser()}}}
				cls("write-same-in-writes-and-deletes")
			case 3:
				q.Writes.TupleKeys = append(q.Writes.TupleKeys, proto.Clone(ws[0]).(*openfgav1.TupleKey))
				cls("write-duplicate-in-writes")
			case 4:
				q.Writes.TupleKeys = big(100)
				cls("write-count-100")
			case 5:
				q.Writes.TupleKeys = big(101)
				cls("write-count-101")
			case 6:
				q.Writes.TupleKeys = big(1000)
				cls("write-count-1000")
			case 7:
				q.Writes.OnDuplicate = []string{"IGNORE", "error", "", "bogus", strings.Repeat("i", 10000), "ignore\x00"}[r.Intn(6)]
				q.Deletes = &openfgav1.WriteRequestDeletes{TupleKeys: []*openfgav1.TupleKeyWithoutCondition{{Object: "doc:none", Relation: rel, User: "user:a"}}, OnMissing: []string{"IGNORE", "error", "bogus", "\xff"}[r.Intn(4)]}
				cls("write-on-duplicate-missing-strings")
			case 8:
				kind := []string{"ctx-wide-10000", "ctx-bigstr", "ctx-list-depth-1000", "ctx-struct-depth-1000", "ctx-nan", "ctx-tree-2000", "ctx-hugenum", "ctx-mistyped", "ctx-hostile-keys"}[r.Intn(9)]
				cond := "c_int"
				if len(st.conds) > 0 {
					cond = st.conds[r.Intn(len(st.conds))]
				}
				ws[0].Condition = &openfgav1.RelationshipCondition{Name: cond, Context: hostileCtx(r, kind, st.params)}
				cls("write-condition-" + kind)
			case 9:
				ws[0].Condition = &openfgav1.RelationshipCondition{Name: []string{"ghost", "", strings.Repeat("c", 10000)}[r.Intn(3)]}
				cls("write-unknown-condition")
			case 10:
				kind := storedKinds[r.Intn(len(storedKinds))]
				ts := hostileStored(r, kind, st)
				if len(ts) > 60 {
					ts = ts[:60]
				}
				if len(ts) > 0 {
					q.Writes.TupleKeys = ts
				}
				cls("write-hostile-" + kind)
			case 11:
				q.Writes.TupleKeys = []*openfgav1.TupleKey{nil, {}}
				q.Deletes = &openfgav1.WriteRequestDeletes{TupleKeys: []*openfgav1.TupleKeyWithoutCondition{nil, {}}}
				cls("write-nil-elements")
			case 12:
				q.Deletes = &openfgav1.WriteRequestDeletes{}
				for _, w := range big(101) {
					q.Deletes.TupleKeys = append(q.Deletes.TupleKeys, &openfgav1.TupleKeyWithoutCondition{Object: w.GetObject(), Relation: w.GetRelation(), User: w.GetUser()})
				}
				q.Deletes.OnMissing = "ignore"
				cls("write-deletes-101")
			case 13:
				q.StoreId = g.badID(r)
				cls("id-store-malformed")
			case 14:
				q.AuthorizationModelId = g.badID(r)
				cls("id-model-malformed")
			default:
				o, rl, u, c := hostileTriple(r, st)
				q.Writes.TupleKeys = []*openfgav1.TupleKey{tk(o, rl, u)}
				cls("write-" + c)
			}
		}
	case "WriteAuthorizationModel":
		if structural {
			kind := modelKinds[r.Intn(len(modelKinds))]
			req, c := hostileModel(r, kind, st.ID, st.Model)
			h.msg = req
			h.class = "model-" + c
			if kind == "valid-mutated" {
				h.class = "model-" + mutateStrings(r, req, 1+r.Intn(3))
			}
		} else {
			req, _ := hostileModel(r, "valid-mutated", st.ID, st.Model)
			h.msg = req
		}
	case "ReadAuthorizationModel":
		q := &openfgav1.ReadAuthorizationModelRequest{StoreId: st.ID, Id: g.modelChoice(r, st)}
		h.msg = q
		if structural {
			if r.Intn(2) == 0 {
				q.Id = g.badID(r)
				cls("id-model-malformed")
			} else {
				q.StoreId = g.badID(r)
				cls("id-store-malformed")
			}
		}
	case "ReadAuthorizationModels":
		q := &openfgav1.ReadAuthorizationModelsRequest{StoreId: st.ID}
		h.msg = q
		if structural {
			switch r.Intn(4) {
			case 0:
				var c string
				q.PageSize, c = g.hostilePage(r)
				cls(c)
			case 1, 2:
				var c string
				q.ContinuationToken, c = g.hostileToken(r)
				cls(c)
			default:
				q.StoreId = g.badID(r)
				cls("id-store-malformed")
			}
		}
	case "WriteAssertions":
		q := &openfgav1.WriteAssertionsRequest{StoreId: st.ID, AuthorizationModelId: st.ModelID}
		mk := func() *openfgav1.Assertion {
			t2, id2, rel2 := node(r, st)
			return &openfgav1.Assertion{TupleKey: &openfgav1.AssertionTupleKey{Object: t2 + ":" + id2, Relation: rel2, User: pickUser(r, st)}, Expectation: r.Intn(2) == 0, Context: pickCtx(r, st)}
		}
		for k := 0; k < 1+r.Intn(4); k++ {
			q.Assertions = append(q.Assertions, mk())
		}
		h.msg = q
		if structural {
			a := q.Assertions[0]
			switch r.Intn(11) {
			case 0:
				q.Assertions = nil
				cls("assert-count-0")
			case 1, 2:
				n := []int{100, 101, 1000}[r.Intn(3)]
				q.Assertions = nil
				for k := 0; k < n; k++ {
					q.Assertions = append(q.Assertions, mk())
				}
				cls(fmt.Sprintf("assert-count-%d", n))
			case 3:
				o, rl, u, c := hostileTriple(r, st)
				a.TupleKey = &openfgav1.AssertionTupleKey{Object: o, Relation: rl, User: u}
				cls("assert-" + c)
			case 4:
				kind := ctxKinds[r.Intn(len(ctxKinds))]
				a.Context = hostileCtx(r, kind, st.params)
				cls("assert-" + kind)
			case 5:
				n := []int{20, 21, 100, 1000}[r.Intn(4)]
				a.ContextualTuples = contextual(r, st, n)
				cls(fmt.Sprintf("assert-contextual-%d", n))
			case 6:
				kind := storedKinds[r.Intn(len(storedKinds))]
				ts := hostileStored(r, kind, st)
				if len(ts) > 20 {
					ts = ts[:20]
				}
				a.ContextualTuples = ts
				cls("assert-contextual-hostile-" + kind)
			case 7:
				a.TupleKey = nil
				q.Assertions = append(q.Assertions, nil)
				cls("assert-nil-pieces")
			case 8:
				q.AuthorizationModelId = g.badID(r)
				cls("id-model-malformed")
			case 9:
				q.AuthorizationModelId = st.hostModelID
				cls("assert-on-hostile-model")
			default:
				q.StoreId = g.badID(r)
				cls("id-store-malformed")
			}
		}
	case "ReadAssertions":
		q := &openfgav1.ReadAssertionsRequest{StoreId: st.ID, AuthorizationModelId: g.modelChoice(r, st)}
		h.msg = q
		if structural {
			if r.Intn(2) == 0 {
				q.AuthorizationModelId = g.badID(r)
				cls("id-model-malformed")
			} else {
				q.StoreId = g.badID(r)
				cls("id-store-malformed")
			}
		}
	case "CreateStore":
		q := &openfgav1.CreateStoreRequest{Name: fmt.Sprintf("hostile-%d", r.Intn(1000))}
		h.msg, h.store = q, nil
		if structural {
			q.Name = []string{"", "ab", strings.Repeat("n", 64), strings.Repeat("n", 65), strings.Repeat("n", hugeLen(r)), "na\x00me", "na\xffme", "名前名前", "a b", "--", "..", "name\n"}[r.Intn(12)]
			cls("store-name")
		}
	case "DeleteStore":
		// never a set-up store: only stores created by hostile CreateStore requests, or ids that do not exist
		q := &openfgav1.DeleteStoreRequest{StoreId: g.st.lastCreated}
		h.msg, h.store = q, nil
		if structural || q.StoreId == "" {
			q.StoreId = g.badID(r)
			cls("id-store-malformed")
		}
	case "GetStore":
		q := &openfgav1.GetStoreRequest{StoreId: st.ID}
		h.msg = q
		if structural {
			if r.Intn(3) == 0 {
				q.StoreId = g.st.lastCreated
				cls("store-maybe-deleted")
			} else {
				q.StoreId = g.badID(r)
				cls("id-store-malformed")
			}
		}
	case "ListStores":
		q := &openfgav1.ListStoresRequest{}
		h.msg, h.store = q, nil
		if structural {
			switch r.Intn(4) {
			case 0:
				var c string
				q.PageSize, c = g.hostilePage(r)
				cls(c)
			case 1, 2:
				var c string
				q.ContinuationToken, c = g.hostileToken(r)
				cls(c)
			default:
				q.Name = []string{"", "C19", "%", "*", strings.Repeat("n", hugeLen(r)), "\x00", "hostile-1"}[r.Intn(7)]
				cls("stores-name-filter")
			}
		}
	case "Evaluation", "Evaluations", "SubjectSearch", "ResourceSearch", "ActionSearch", "GetConfiguration":
		g.buildAuthzen(r, h, st, structural, t, id, rel, user, ctx, follow)
	case rpcDSWrite:
		kind := storedKinds[r.Intn(len(storedKinds))]
		h.ds = hostileStored(r, kind, st)
		h.class = "stored:" + kind
		// rendered as a Write request in the journal
		h.msg = &openfgav1.WriteRequest{StoreId: st.ID, Writes: &openfgav1.WriteRequestWrites{TupleKeys: h.ds}}
	}
}

func splitUser(u string) (string, string) {
	if i := strings.Index(u, ":"); i >= 0 {
		return u[:i], u[i+1:]
	}
	return u, ""
}

func (g *hgen) buildAuthzen(r *rand.Rand, h *hreq, st *storeSt, structural bool, t, id, rel, user string, ctx *structpb.Struct, follow bool) {
	cls := func(c string) {
		if follow {
			c = st.followTag() + c
		}
		h.class = c
	}
	ut, uid := splitUser(user)
	subj := &authzenv1.Subject{Type: ut, Id: uid}
	res := &authzenv1.Resource{Type: t, Id: id}
	act := &authzenv1.Action{Name: rel}
	if r.Intn(3) == 0 {
		h.md = map[string]string{"openfga-authorization-model-id": st.ModelID}
	}
	props := func() *structpb.Struct {
		kind := ctxKinds[r.Intn(len(ctxKinds))]
		return hostileCtx(r, kind, st.params)
	}
	// shared structural mutations for the AuthZEN family
	shared := func(setStore func(string), setCtx func(*structpb.Struct)) string {
		switch r.Intn(10) {
		case 0:
			subj.Properties = props()
			return "az-subject-properties-hostile"
		case 1:
			res.Properties = props()
			return "az-resource-properties-hostile"
		case 2:
			act.Properties = props()
			return "az-action-properties-hostile"
		case 3:
			if setCtx != nil {
				kind := ctxKinds[r.Intn(len(ctxKinds))]
				setCtx(hostileCtx(r, kind, st.params))
				return "az-" + kind
			}
			fallthrough
		case 4:
			h.md = map[string]string{"openfga-authorization-model-id": []string{g.badID(r), g.pickStore(r).ModelID, st.hostModelID, " " + st.ModelID + " "}[r.Intn(4)]}
			return "az-model-header-hostile"
		case 5:
			setStore(g.badID(r))
			return "id-store-malformed"
		case 6:
			subj.Id = []string{"*", "", "a#member", "a:b", strings.Repeat("u", hugeLen(r))}[r.Intn(5)]
			return "az-subject-odd-id"
		case 7:
			res.Id = []string{"*", "", "a#member", "a:b", strings.Repeat("u", hugeLen(r))}[r.Intn(5)]
			return "az-resource-odd-id"
		case 8:
			act.Name = []string{"", "ghostrel", "a#b", strings.Repeat("r", hugeLen(r))}[r.Intn(4)]
			return "az-action-odd-name"
		}
		subj.Type, res.Type = "ghost", "ghost2"
		return "az-unknown-types"
	}
	page := func() (*authzenv1.PageRequest, string) {
		tok, c := g.hostileToken(r)
		lim := []uint32{0, 1, 100, math.MaxUint32}[r.Intn(4)]
		return &authzenv1.PageRequest{Token: &tok, Limit: &lim}, "az-page-" + c
	}
	switch h.rpc {
	case "Evaluation":
		q := &authzenv1.EvaluationRequest{StoreId: st.ID, Subject: subj, Resource: res, Action: act, Context: ctx}
		h.msg = q
		if structural {
			switch r.Intn(8) {
			case 0:
				q.Subject = nil
				cls("az-nil-subject")
			case 1:
				q.Resource, q.Action = nil, nil
				cls("az-nil-resource-action")
			default:
				cls(shared(func(s string) { q.StoreId = s }, func(s *structpb.Struct) { q.Context = s }))
			}
		}
	case "Evaluations":
		q := &authzenv1.EvaluationsRequest{StoreId: st.ID, Subject: subj, Resource: res, Action: act, Context: ctx}
		item := func() *authzenv1.EvaluationsItemRequest {
			t2, id2, rel2 := node(r, st)
			it := &authzenv1.EvaluationsItemRequest{Resource: &authzenv1.Resource{Type: t2, Id: id2}, Action: &authzenv1.Action{Name: rel2}}
			if r.Intn(2) == 0 {
				a, b := splitUser(pickUser(r, st))
				it.Subject = &authzenv1.Subject{Type: a, Id: b}
			}
			return it
		}
		n := r.Intn(5)
		sem := authzenv1.EvaluationsSemantic(r.Intn(3))
		q.Options = &authzenv1.EvaluationsOptions{EvaluationsSemantic: sem}
		c := ""
		if structural {
			switch r.Intn(10) {
			case 0:
				n, c = 0, "az-evals-0"
			case 1:
				n, c = 50, "az-evals-50"
			case 2:
				n, c = 51, "az-evals-51"
			case 3:
				n, c = 1000, "az-evals-1000"
			case 4:
				q.Options.EvaluationsSemantic = authzenv1.EvaluationsSemantic([]int32{3, 99, -1}[r.Intn(3)])
				c = "az-semantic-enum"
			case 5:
				q.Subject, q.Resource, q.Action = nil, nil, nil
				c = "az-nil-defaults"
			}
		}
		for k := 0; k < n; k++ {
			q.Evaluations = append(q.Evaluations, item())
		}
		h.msg = q
		if structural {
			if c == "" {
				if len(q.Evaluations) > 0 && r.Intn(3) == 0 {
					it := q.Evaluations[r.Intn(len(q.Evaluations))]
					it.Context = props()
					it.Subject = &authzenv1.Subject{Type: "user", Id: "a", Properties: props()}
					c = "az-item-hostile-context"
				} else if len(q.Evaluations) > 0 && r.Intn(4) == 0 {
					q.Evaluations[0] = nil
					c = "az-item-nil"
				} else {
					c = shared(func(s string) { q.StoreId = s }, func(s *structpb.Struct) { q.Context = s })
				}
			}
			cls(fmt.Sprintf("%s/sem%d", c, int(q.Options.GetEvaluationsSemantic())))
		}
	case "SubjectSearch":
		q := &authzenv1.SubjectSearchRequest{StoreId: st.ID, Resource: res, Action: act, Subject: &authzenv1.SubjectFilter{Type: st.types[r.Intn(len(st.types))]}, Context: ctx}
		h.msg = q
		if structural {
			switch r.Intn(8) {
			case 0:
				var c string
				q.Page, c = page()
				cls(c)
			case 1:
				q.Subject = nil
				cls("az-nil-subject-filter")
			case 2:
				s := "a"
				q.Subject.Id = &s
				q.Subject.Properties = props()
				cls("az-subject-filter-id-properties")
			case 3:
				q.Resource, q.Action = nil, nil
				cls("az-nil-resource-action")
			default:
				cls(shared(func(s string) { q.StoreId = s }, func(s *structpb.Struct) { q.Context = s }))
			}
		}
	case "ResourceSearch":
		q := &authzenv1.ResourceSearchRequest{StoreId: st.ID, Subject: subj, Action: act, Resource: &authzenv1.ResourceFilter{Type: t}, Context: ctx}
		h.msg = q
		if structural {
			switch r.Intn(8) {
			case 0:
				var c string
				q.Page, c = page()
				cls(c)
			case 1:
				q.Resource = nil
				cls("az-nil-resource-filter")
			case 2:
				s := "1"
				q.Resource.Id = &s
				q.Resource.Properties = props()
				cls("az-resource-filter-id-properties")
			case 3:
				q.Subject, q.Action = nil, nil
				cls("az-nil-subject-action")
			default:
				cls(shared(func(s string) { q.StoreId = s }, func(s *structpb.Struct) { q.Context = s }))
			}
		}
	case "ActionSearch":
		q := &authzenv1.ActionSearchRequest{StoreId: st.ID, Subject: subj, Resource: res, Context: ctx}
		h.msg = q
		if structural {
			switch r.Intn(8) {
			case 0:
				var c string
				q.Page, c = page()
				cls(c)
			case 1:
				q.Subject, q.Resource = nil, nil
				cls("az-nil-subject-resource")
			default:
				cls(shared(func(s string) { q.StoreId = s }, func(s *structpb.Struct) { q.Context = s }))
			}
		}
	case "GetConfiguration":
		q := &authzenv1.GetConfigurationRequest{StoreId: st.ID}
		h.msg = q
		if structural {
			q.StoreId = g.badID(r)
			cls("id-store-malformed")
		}
	}
}

// followTag prefixes the class of a follow-up request with the class of the hostile model it queries.
func (st *storeSt) followTag() string {
	return "follow[" + classRoot(st.hostModelClass) + "]:"
}
