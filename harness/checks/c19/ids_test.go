package c19

import "testing"

func TestCauseClass(t *testing.T) {
	for in, want := range map[string]string{
		`rpc error: code = Code(4000) desc = Internal Server Error [internal: strconv.Atoi: parsing "\xd1d\xb4\"x": invalid syntax]`:                 "strconv-atoi-parsing-invalid",
		`rpc error: code = Code(4000) desc = Internal Server Error [internal: strconv.Atoi: parsing "\xd1d\xb4 and a very long unterminated`:          "strconv-atoi-parsing",
		`item "id-3": rpc error: code = Code(2000) desc = request tuple_key contains forbidden characters`:                                              "request-tuple_key-contains-forbidden",
		`rpc error: code = Code(4000) desc = Internal Server Error [internal: invalid context: context key "x\b" contains forbidden characters]`:       "invalid-context-context-key",
		`rpc error: code = Code(4000) desc = Internal Server Error [internal: invalid relation: the 'object' field cannot reference a typed wildcard]`: "invalid-relation-field-cannot",
	} {
		if got := causeClass(in); got != want {
			t.Errorf("causeClass(%q) = %q, want %q", in, got, want)
		}
	}
	if got := classRoot("follow[model-deep-mixed]:ctx-wide-10000+str:nul"); got != "follow-model-deep-mixed" {
		t.Errorf("classRoot follow = %q", got)
	}
	if got := classRoot("model-expo-chain-24"); got != "model-expo-chain" {
		t.Errorf("classRoot = %q", got)
	}
}
