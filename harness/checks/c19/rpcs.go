package c19

import (
	"context"
	"fmt"
	"sync"

	authzenv1 "github.com/openfga/api/proto/authzen/v1"
	openfgav1 "github.com/openfga/api/proto/openfga/v1"
	"google.golang.org/grpc/metadata"
	"google.golang.org/protobuf/proto"

	"github.com/openfga/openfga/pkg/server"
	"github.com/openfga/openfga/pkg/storage"
)

// rpcDef is one entry of the table of every RPC method of pkg/server.
type rpcDef struct {
	name     string
	mutating bool // state-building: replayed before an isolated re-run of a later request
	weight   int
	call     func(ctx context.Context, s *server.Server, m proto.Message) (proto.Message, error)
}

// dsWrite is the pseudo request "write these tuples straight into the datastore" (no validation):
// it is how hostile *stored* tuples get into a store. It is rendered in the journal like a request.
const rpcDSWrite = "DS.Write"

// collecting stream for StreamedListObjects
type sloStream struct {
	ctx context.Context
	mu  sync.Mutex
	n   int
}

func (s *sloStream) Send(*openfgav1.StreamedListObjectsResponse) error {
	s.mu.Lock()
	s.n++
	s.mu.Unlock()
	return nil
}
func (s *sloStream) SetHeader(metadata.MD) error  { return nil }
func (s *sloStream) SendHeader(metadata.MD) error { return nil }
func (s *sloStream) SetTrailer(metadata.MD)       {}
func (s *sloStream) Context() context.Context     { return s.ctx }
func (s *sloStream) SendMsg(any) error            { return nil }
func (s *sloStream) RecvMsg(any) error            { return nil }

func wrap[Q proto.Message, R proto.Message](f func(context.Context, Q) (R, error)) func(context.Context, proto.Message) (proto.Message, error) {
	return func(ctx context.Context, m proto.Message) (proto.Message, error) {
		q, ok := m.(Q)
		if !ok {
			return nil, fmt.Errorf("harness: request of type %T given to the wrong RPC", m)
		}
		r, err := f(ctx, q)
		if err != nil {
			return nil, err
		}
		return r, nil
	}
}

func bind[Q proto.Message, R proto.Message](name string, mutating bool, weight int, pick func(*server.Server) func(context.Context, Q) (R, error)) rpcDef {
	return rpcDef{name: name, mutating: mutating, weight: weight, call: func(ctx context.Context, s *server.Server, m proto.Message) (proto.Message, error) {
		return wrap(pick(s))(ctx, m)
	}}
}

// rpcTable lists every exported RPC method of *server.Server (grep `^func (s \*Server) [A-Z]`
// in pkg/server/*.go, minus Close / IsReady / Is*Enabled which are not RPCs).
var rpcTable = []rpcDef{
	bind("Check", false, 14, func(s *server.Server) func(context.Context, *openfgav1.CheckRequest) (*openfgav1.CheckResponse, error) {
		return s.Check
	}),
	bind("BatchCheck", false, 7, func(s *server.Server) func(context.Context, *openfgav1.BatchCheckRequest) (*openfgav1.BatchCheckResponse, error) {
		return s.BatchCheck
	}),
	bind("ListObjects", false, 8, func(s *server.Server) func(context.Context, *openfgav1.ListObjectsRequest) (*openfgav1.ListObjectsResponse, error) {
		return s.ListObjects
	}),
	{name: "StreamedListObjects", weight: 4, call: func(ctx context.Context, s *server.Server, m proto.Message) (proto.Message, error) {
		q, ok := m.(*openfgav1.StreamedListObjectsRequest)
		if !ok {
			return nil, fmt.Errorf("harness: wrong request type %T", m)
		}
		st := &sloStream{ctx: ctx}
		if err := s.StreamedListObjects(q, st); err != nil {
			return nil, err
		}
		return &openfgav1.StreamedListObjectsResponse{}, nil
	}},
	bind("ListUsers", false, 8, func(s *server.Server) func(context.Context, *openfgav1.ListUsersRequest) (*openfgav1.ListUsersResponse, error) {
		return s.ListUsers
	}),
	bind("Expand", false, 5, func(s *server.Server) func(context.Context, *openfgav1.ExpandRequest) (*openfgav1.ExpandResponse, error) {
		return s.Expand
	}),
	bind("Read", false, 5, func(s *server.Server) func(context.Context, *openfgav1.ReadRequest) (*openfgav1.ReadResponse, error) {
		return s.Read
	}),
	bind("ReadChanges", false, 4, func(s *server.Server) func(context.Context, *openfgav1.ReadChangesRequest) (*openfgav1.ReadChangesResponse, error) {
		return s.ReadChanges
	}),
	bind("Write", true, 8, func(s *server.Server) func(context.Context, *openfgav1.WriteRequest) (*openfgav1.WriteResponse, error) {
		return s.Write
	}),
	bind("WriteAuthorizationModel", true, 9, func(s *server.Server) func(context.Context, *openfgav1.WriteAuthorizationModelRequest) (*openfgav1.WriteAuthorizationModelResponse, error) {
		return s.WriteAuthorizationModel
	}),
	bind("ReadAuthorizationModel", false, 2, func(s *server.Server) func(context.Context, *openfgav1.ReadAuthorizationModelRequest) (*openfgav1.ReadAuthorizationModelResponse, error) {
		return s.ReadAuthorizationModel
	}),
	bind("ReadAuthorizationModels", false, 2, func(s *server.Server) func(context.Context, *openfgav1.ReadAuthorizationModelsRequest) (*openfgav1.ReadAuthorizationModelsResponse, error) {
		return s.ReadAuthorizationModels
	}),
	bind("WriteAssertions", true, 3, func(s *server.Server) func(context.Context, *openfgav1.WriteAssertionsRequest) (*openfgav1.WriteAssertionsResponse, error) {
		return s.WriteAssertions
	}),
	bind("ReadAssertions", false, 2, func(s *server.Server) func(context.Context, *openfgav1.ReadAssertionsRequest) (*openfgav1.ReadAssertionsResponse, error) {
		return s.ReadAssertions
	}),
	bind("CreateStore", true, 2, func(s *server.Server) func(context.Context, *openfgav1.CreateStoreRequest) (*openfgav1.CreateStoreResponse, error) {
		return s.CreateStore
	}),
	bind("DeleteStore", true, 1, func(s *server.Server) func(context.Context, *openfgav1.DeleteStoreRequest) (*openfgav1.DeleteStoreResponse, error) {
		return s.DeleteStore
	}),
	bind("GetStore", false, 2, func(s *server.Server) func(context.Context, *openfgav1.GetStoreRequest) (*openfgav1.GetStoreResponse, error) {
		return s.GetStore
	}),
	bind("ListStores", false, 2, func(s *server.Server) func(context.Context, *openfgav1.ListStoresRequest) (*openfgav1.ListStoresResponse, error) {
		return s.ListStores
	}),
	bind("Evaluation", false, 3, func(s *server.Server) func(context.Context, *authzenv1.EvaluationRequest) (*authzenv1.EvaluationResponse, error) {
		return s.Evaluation
	}),
	bind("Evaluations", false, 3, func(s *server.Server) func(context.Context, *authzenv1.EvaluationsRequest) (*authzenv1.EvaluationsResponse, error) {
		return s.Evaluations
	}),
	bind("SubjectSearch", false, 2, func(s *server.Server) func(context.Context, *authzenv1.SubjectSearchRequest) (*authzenv1.SubjectSearchResponse, error) {
		return s.SubjectSearch
	}),
	bind("ResourceSearch", false, 2, func(s *server.Server) func(context.Context, *authzenv1.ResourceSearchRequest) (*authzenv1.ResourceSearchResponse, error) {
		return s.ResourceSearch
	}),
	bind("ActionSearch", false, 2, func(s *server.Server) func(context.Context, *authzenv1.ActionSearchRequest) (*authzenv1.ActionSearchResponse, error) {
		return s.ActionSearch
	}),
	bind("GetConfiguration", false, 1, func(s *server.Server) func(context.Context, *authzenv1.GetConfigurationRequest) (*authzenv1.GetConfigurationResponse, error) {
		return s.GetConfiguration
	}),
	// pseudo RPC: hostile tuples stored behind the server's back (handled by the child, not by call)
	{name: rpcDSWrite, mutating: true, weight: 2},
}

func rpcByName(name string) *rpcDef {
	for i := range rpcTable {
		if rpcTable[i].name == name {
			return &rpcTable[i]
		}
	}
	return nil
}

// dsWriteChunked writes tuples directly through the datastore, in chunks of at most max tuples.
// Duplicates inside one call and tuples that already exist make the backend refuse a chunk: such
// chunks are retried tuple by tuple. Panics of the datastore on tuples it was never meant to see
// are contained (they are not the property's subject: the server never lets such tuples through).
func dsWriteChunked(ctx context.Context, ds storage.OpenFGADatastore, store string, tks []*openfgav1.TupleKey) (written int) {
	one := func(chunk []*openfgav1.TupleKey) (err error) {
		defer func() {
			if r := recover(); r != nil {
				err = fmt.Errorf("datastore panicked: %v", r)
			}
		}()
		return ds.Write(ctx, store, nil, chunk)
	}
	const max = 40
	for i := 0; i < len(tks); i += max {
		j := min(i+max, len(tks))
		if err := one(tks[i:j]); err == nil {
			written += j - i
			continue
		}
		for _, tk := range tks[i:j] {
			if one([]*openfgav1.TupleKey{tk}) == nil {
				written++
			}
		}
	}
	return written
}
