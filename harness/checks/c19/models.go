package c19

import (
	"fmt"
	"math/rand"
	"sort"
	"strings"

	openfgav1 "github.com/openfga/api/proto/openfga/v1"
	"google.golang.org/protobuf/proto"
)

// ---- rewrite builders ----

func uThis() *openfgav1.Userset {
	return &openfgav1.Userset{Userset: &openfgav1.Userset_This{This: &openfgav1.DirectUserset{}}}
}
func uComputed(rel string) *openfgav1.Userset {
	return &openfgav1.Userset{Userset: &openfgav1.Userset_ComputedUserset{ComputedUserset: &openfgav1.ObjectRelation{Relation: rel}}}
}
func uTTU(tupleset, rel string) *openfgav1.Userset {
	return &openfgav1.Userset{Userset: &openfgav1.Userset_TupleToUserset{TupleToUserset: &openfgav1.TupleToUserset{
		Tupleset: &openfgav1.ObjectRelation{Relation: tupleset}, ComputedUserset: &openfgav1.ObjectRelation{Relation: rel}}}}
}
func uUnion(ch ...*openfgav1.Userset) *openfgav1.Userset {
	return &openfgav1.Userset{Userset: &openfgav1.Userset_Union{Union: &openfgav1.Usersets{Child: ch}}}
}
func uInter(ch ...*openfgav1.Userset) *openfgav1.Userset {
	return &openfgav1.Userset{Userset: &openfgav1.Userset_Intersection{Intersection: &openfgav1.Usersets{Child: ch}}}
}
func uDiff(base, sub *openfgav1.Userset) *openfgav1.Userset {
	return &openfgav1.Userset{Userset: &openfgav1.Userset_Difference{Difference: &openfgav1.Difference{Base: base, Subtract: sub}}}
}

func ref(typ string) *openfgav1.RelationReference { return &openfgav1.RelationReference{Type: typ} }
func refRel(typ, rel string) *openfgav1.RelationReference {
	return &openfgav1.RelationReference{Type: typ, RelationOrWildcard: &openfgav1.RelationReference_Relation{Relation: rel}}
}
func refWild(typ string) *openfgav1.RelationReference {
	return &openfgav1.RelationReference{Type: typ, RelationOrWildcard: &openfgav1.RelationReference_Wildcard{Wildcard: &openfgav1.Wildcard{}}}
}
func refCond(typ, cond string) *openfgav1.RelationReference {
	return &openfgav1.RelationReference{Type: typ, Condition: cond}
}

type tdef struct {
	name  string
	rels  []string
	rw    map[string]*openfgav1.Userset
	restr map[string][]*openfgav1.RelationReference
}

func newT(name string) *tdef {
	return &tdef{name: name, rw: map[string]*openfgav1.Userset{}, restr: map[string][]*openfgav1.RelationReference{}}
}
func (t *tdef) rel(name string, rw *openfgav1.Userset, restr ...*openfgav1.RelationReference) *tdef {
	t.rels = append(t.rels, name)
	t.rw[name] = rw
	if len(restr) > 0 {
		t.restr[name] = restr
	}
	return t
}
func (t *tdef) proto() *openfgav1.TypeDefinition {
	td := &openfgav1.TypeDefinition{Type: t.name}
	if len(t.rels) > 0 {
		td.Relations = map[string]*openfgav1.Userset{}
		td.Metadata = &openfgav1.Metadata{Relations: map[string]*openfgav1.RelationMetadata{}}
		for _, r := range t.rels {
			td.Relations[r] = t.rw[r]
			td.Metadata.Relations[r] = &openfgav1.RelationMetadata{DirectlyRelatedUserTypes: t.restr[r]}
		}
	}
	return td
}

func modelReq(store string, conds map[string]*openfgav1.Condition, ts ...*tdef) *openfgav1.WriteAuthorizationModelRequest {
	req := &openfgav1.WriteAuthorizationModelRequest{StoreId: store, SchemaVersion: "1.1", Conditions: conds}
	for _, t := range ts {
		req.TypeDefinitions = append(req.TypeDefinitions, t.proto())
	}
	return req
}

// nest builds an operator tree of the given depth iteratively. op: "union", "intersection",
// "difference-base", "difference-sub", "mixed". The spine grows downwards; every level has a leaf sibling.
func nest(r *rand.Rand, op string, depth int, leaf func(i int) *openfgav1.Userset) *openfgav1.Userset {
	cur := leaf(0)
	for i := 1; i <= depth; i++ {
		o := op
		if op == "mixed" {
			o = []string{"union", "intersection", "difference-base", "difference-sub"}[r.Intn(4)]
		}
		switch o {
		case "union":
			cur = uUnion(leaf(i), cur)
		case "intersection":
			cur = uInter(cur, leaf(i))
		case "difference-base":
			cur = uDiff(cur, leaf(i))
		default:
			cur = uDiff(leaf(i), cur)
		}
	}
	return cur
}

var hostileCEL = []string{
	"1/0 == 1", "x / (x - x) > 0", "x % 0 == 0", "true", "1", "\"a\"", "", " ", "x", "unknown_fn(x)", "x.unknown()", "y > 1", "x > 1 &&", "((((x > 1", "x > 1))))",
	"s.matches(\"^(a+)+$\")", "s.matches(\"(\")", "s.matches(\"(a*)*b\")", "s.matches(s)", "s.matches(\"" + strings.Repeat("(a|aa)+", 300) + "\")",
	"x < 9223372036854775807 + 1", "x < 99999999999999999999", "-9223372036854775808 - x > 0", "x * 9223372036854775807 > 0", "uint(x) > 0u", "int(1e100) > x",
	"[1,2,3].all(i, [1,2,3].all(j, [1,2,3].all(k, [1,2,3].all(l, i+j+k+l < x))))", "[1,2,3].map(i, i * x).exists(i, i > 100)",
	"timestamp(\"0000-00-00\") < timestamp(s)", "duration(s) > duration(\"1h\")", "timestamp(s) + duration(\"999999999h\") > timestamp(s)",
	"s.size() > 100000000", "s + s + s + s == s", "string(x) == s", "bytes(s).size() > 0", "dyn(x) == dyn(s)", "type(x) == int", "x in [1,2,3]", "s in {\"a\":1}", "{\"a\":1}[s] == x",
	"has(x.y)", "x.y.z == 1", "x[0] == 1", "b ? x > 1 : s == \"a\"", "!b || !!b", "b == (x > 5)", "ipaddress(s).in_cidr(\"10.0.0.0/8\")", "ipaddress(s).in_cidr(s)",
	"x > 1 /* comment */", "x > 1 // comment", "x > 1;", "x = 1", "x == 1 ? true : 1/0 > 0", "[x][1] == 1", "\"\\xff\" == s", "'" + strings.Repeat("a", 100000) + "' == s",
	"\u202ex > 1", "x > 1\x00", "x\t>\n1", "ｘ > 1", "`x` > 1", "in > 1", "null == x", "x == null", "optional.of(x).hasValue()", "math.greatest(x, 1) > 0", "s.lowerAscii() == s", "s.format([x]) == s",
	"cel.bind(v, x, v > 1)", "x.exists(i, i > 1)", "s.startsWith(\"" + strings.Repeat("\\\\", 2000) + "\")",
}

func nestedParen(depth int, core string) string {
	return strings.Repeat("(", depth) + core + strings.Repeat(")", depth)
}

func longCEL(n int) string {
	var sb strings.Builder
	sb.WriteString("x > 0")
	for i := 0; i < n; i++ {
		fmt.Fprintf(&sb, " && x != %d", i)
	}
	return sb.String()
}

func pt(n openfgav1.ConditionParamTypeRef_TypeName, g ...*openfgav1.ConditionParamTypeRef) *openfgav1.ConditionParamTypeRef {
	return &openfgav1.ConditionParamTypeRef{TypeName: n, GenericTypes: g}
}

func deepGeneric(depth int, outer openfgav1.ConditionParamTypeRef_TypeName) *openfgav1.ConditionParamTypeRef {
	cur := pt(openfgav1.ConditionParamTypeRef_TYPE_NAME_STRING)
	for i := 0; i < depth; i++ {
		cur = pt(outer, cur)
	}
	return cur
}

func stdParams() map[string]*openfgav1.ConditionParamTypeRef {
	return map[string]*openfgav1.ConditionParamTypeRef{
		"x": pt(openfgav1.ConditionParamTypeRef_TYPE_NAME_INT), "s": pt(openfgav1.ConditionParamTypeRef_TYPE_NAME_STRING), "b": pt(openfgav1.ConditionParamTypeRef_TYPE_NAME_BOOL),
	}
}

// condModel wraps one condition into a small model using it.
func condModel(store string, c *openfgav1.Condition, key string) *openfgav1.WriteAuthorizationModelRequest {
	return modelReq(store, map[string]*openfgav1.Condition{key: c},
		newT("user"),
		newT("doc").rel("viewer", uThis(), refCond("user", c.GetName()), ref("user")))
}

// modelKinds are the structural classes of hostile authorization models.
var modelKinds = []string{
	"deep-union", "deep-intersection", "deep-difference-base", "deep-difference-sub", "deep-mixed", "wide-union", "wide-intersection",
	"many-types", "many-relations", "many-restrictions", "many-conditions", "self-computed", "mutual-computed", "cycle-in-operators", "negation-cycle",
	"ttu-missing-tupleset", "ttu-missing-computed", "ttu-tupleset-not-direct", "ttu-tupleset-userset", "ttu-self", "cel-hostile", "cel-deep-paren", "cel-long",
	"cel-params", "cel-generic-depth", "name-huge", "name-separators", "schema-version", "nil-pieces", "dup-types", "metadata-mismatch", "expo-chain", "near-size-limit",
	"empty-model", "restr-unknown", "valid-mutated",
}

// hostileModel builds a model request of the given class for store; base is a valid generated model.
func hostileModel(r *rand.Rand, kind, store string, base *openfgav1.AuthorizationModel) (*openfgav1.WriteAuthorizationModelRequest, string) {
	depths := []int{50, 200, 1000, 4900, 5000}
	leafThisOnce := func() func(i int) *openfgav1.Userset {
		return func(i int) *openfgav1.Userset {
			if i == 0 {
				return uThis()
			}
			return uComputed([]string{"a", "b", "c"}[i%3])
		}
	}
	user := newT("user")
	switch kind {
	case "deep-union", "deep-intersection", "deep-difference-base", "deep-difference-sub", "deep-mixed":
		d := depths[r.Intn(len(depths))]
		op := strings.TrimPrefix(kind, "deep-")
		doc := newT("doc").rel("a", uThis(), ref("user")).rel("b", uThis(), ref("user"), refWild("user")).rel("c", uComputed("a")).
			rel("viewer", nest(r, op, d, leafThisOnce()), ref("user"), refRel("doc", "viewer"))
		return modelReq(store, nil, user, doc), fmt.Sprintf("%s-%d", kind, d)
	case "wide-union", "wide-intersection":
		n := []int{100, 1000, 10000}[r.Intn(3)]
		ch := make([]*openfgav1.Userset, n)
		for i := range ch {
			ch[i] = uComputed([]string{"a", "b"}[i%2])
		}
		ch[0] = uThis()
		rw := uUnion(ch...)
		if kind == "wide-intersection" {
			rw = uInter(ch...)
		}
		doc := newT("doc").rel("a", uThis(), ref("user")).rel("b", uThis(), ref("user")).rel("viewer", rw, ref("user"))
		return modelReq(store, nil, user, doc), fmt.Sprintf("%s-%d", kind, n)
	case "many-types":
		n := []int{99, 100, 101, 1000}[r.Intn(4)]
		ts := []*tdef{user}
		for i := 0; i < n-1; i++ {
			t := newT(fmt.Sprintf("t%d", i)).rel("member", uThis(), ref("user"))
			if i > 0 {
				t.rel("parent", uThis(), ref(fmt.Sprintf("t%d", i-1))).rel("viewer", uUnion(uComputed("member"), uTTU("parent", "viewer")))
			} else {
				t.rel("viewer", uComputed("member"))
			}
			ts = append(ts, t)
		}
		return modelReq(store, nil, ts...), fmt.Sprintf("many-types-%d", n)
	case "many-relations":
		n := []int{50, 150, 3000}[r.Intn(3)]
		doc := newT("doc").rel("r0", uThis(), ref("user"), refRel("doc", "r0"))
		for i := 1; i < n; i++ {
			doc.rel(fmt.Sprintf("r%d", i), uUnion(uThis(), uComputed(fmt.Sprintf("r%d", i-1))), ref("user"))
		}
		return modelReq(store, nil, user, doc), fmt.Sprintf("many-relations-%d", n)
	case "many-restrictions":
		n := []int{100, 1000, 5000}[r.Intn(3)]
		var rs []*openfgav1.RelationReference
		for i := 0; i < n; i++ {
			switch i % 4 {
			case 0:
				rs = append(rs, ref("user"))
			case 1:
				rs = append(rs, refWild("user"))
			case 2:
				rs = append(rs, refRel("doc", "viewer"))
			default:
				rs = append(rs, refCond("user", "c"))
			}
		}
		c := &openfgav1.Condition{Name: "c", Expression: "x < 10", Parameters: stdParams()}
		return modelReq(store, map[string]*openfgav1.Condition{"c": c}, user, newT("doc").rel("viewer", uThis(), rs...)), fmt.Sprintf("many-restrictions-%d", n)
	case "many-conditions":
		n := []int{100, 1000}[r.Intn(2)]
		conds := map[string]*openfgav1.Condition{}
		var rs []*openfgav1.RelationReference
		for i := 0; i < n; i++ {
			name := fmt.Sprintf("c%d", i)
			conds[name] = &openfgav1.Condition{Name: name, Expression: fmt.Sprintf("x < %d", i), Parameters: stdParams()}
			rs = append(rs, refCond("user", name))
		}
		return modelReq(store, conds, user, newT("doc").rel("viewer", uThis(), rs...)), fmt.Sprintf("many-conditions-%d", n)
	case "self-computed":
		doc := newT("doc").rel("viewer", uComputed("viewer"))
		if r.Intn(2) == 0 {
			doc = newT("doc").rel("viewer", uUnion(uThis(), uComputed("viewer")), ref("user"))
		}
		return modelReq(store, nil, user, doc), kind
	case "mutual-computed":
		doc := newT("doc").rel("a", uComputed("b")).rel("b", uComputed("c")).rel("c", uComputed("a"))
		if r.Intn(2) == 0 {
			doc.rel("d", uUnion(uThis(), uComputed("a")), ref("user"))
		}
		return modelReq(store, nil, user, doc), kind
	case "cycle-in-operators":
		doc := newT("doc").rel("a", uUnion(uThis(), uComputed("b")), ref("user"), refRel("doc", "b")).
			rel("b", uInter(uComputed("a"), uComputed("c"))).rel("c", uUnion(uThis(), uComputed("b"), uComputed("a")), ref("user"), refRel("doc", "a"), refRel("doc", "c"))
		return modelReq(store, nil, user, doc), kind
	case "negation-cycle":
		doc := newT("doc").rel("a", uDiff(uThis(), uComputed("b")), ref("user"), refRel("doc", "b"), refRel("doc", "a")).
			rel("b", uDiff(uThis(), uComputed("a")), ref("user"), refRel("doc", "a"), refRel("doc", "b")).
			rel("parent", uThis(), ref("doc")).
			rel("c", uDiff(uThis(), uTTU("parent", "c")), ref("user"))
		return modelReq(store, nil, user, doc), kind
	case "ttu-missing-tupleset":
		return modelReq(store, nil, user, newT("doc").rel("viewer", uUnion(uThis(), uTTU("parent", "viewer")), ref("user"))), kind
	case "ttu-missing-computed":
		return modelReq(store, nil, user, newT("folder").rel("owner", uThis(), ref("user")),
			newT("doc").rel("parent", uThis(), ref("folder")).rel("viewer", uTTU("parent", "ghost"))), kind
	case "ttu-tupleset-not-direct":
		return modelReq(store, nil, user, newT("folder").rel("viewer", uThis(), ref("user")),
			newT("doc").rel("p0", uThis(), ref("folder")).rel("parent", uComputed("p0")).rel("viewer", uTTU("parent", "viewer"))), kind
	case "ttu-tupleset-userset":
		return modelReq(store, nil, user, newT("folder").rel("viewer", uThis(), ref("user")),
			newT("doc").rel("parent", uThis(), ref("folder"), refRel("folder", "viewer"), refWild("folder")).rel("viewer", uTTU("parent", "viewer"))), kind
	case "ttu-self":
		return modelReq(store, nil, user,
			newT("doc").rel("parent", uThis(), ref("doc")).rel("viewer", uUnion(uThis(), uTTU("parent", "viewer"), uTTU("viewer", "viewer"), uTTU("parent", "parent")), ref("user"))), kind
	case "cel-hostile":
		i := r.Intn(len(hostileCEL))
		c := &openfgav1.Condition{Name: "c", Expression: hostileCEL[i], Parameters: stdParams()}
		return condModel(store, c, "c"), fmt.Sprintf("cel-hostile-%d", i)
	case "cel-deep-paren":
		d := []int{10, 100, 1000, 20000}[r.Intn(4)]
		core := []string{"x > 1", "!b", "[x]"}[r.Intn(3)]
		expr := nestedParen(d, core)
		if core == "[x]" {
			expr = strings.Repeat("[", d) + "x" + strings.Repeat("]", d) + " == x"
		} else if core == "!b" {
			expr = strings.Repeat("!", d) + "b"
		}
		c := &openfgav1.Condition{Name: "c", Expression: expr, Parameters: stdParams()}
		return condModel(store, c, "c"), fmt.Sprintf("cel-deep-paren-%d", d)
	case "cel-long":
		n := []int{100, 2000, 15000}[r.Intn(3)]
		c := &openfgav1.Condition{Name: "c", Expression: longCEL(n), Parameters: stdParams()}
		return condModel(store, c, "c"), fmt.Sprintf("cel-long-%d", n)
	case "cel-params":
		c := &openfgav1.Condition{Name: "c", Expression: "x > 1"}
		sub := r.Intn(7)
		switch sub {
		case 0: // no parameters at all
		case 1:
			c.Parameters = map[string]*openfgav1.ConditionParamTypeRef{}
			for i := 0; i < 1000; i++ {
				c.Parameters[fmt.Sprintf("p%d", i)] = pt(openfgav1.ConditionParamTypeRef_TYPE_NAME_INT)
			}
			c.Parameters["x"] = pt(openfgav1.ConditionParamTypeRef_TYPE_NAME_INT)
		case 2:
			c.Parameters = map[string]*openfgav1.ConditionParamTypeRef{"x": pt(openfgav1.ConditionParamTypeRef_TYPE_NAME_UNSPECIFIED)}
		case 3:
			c.Parameters = map[string]*openfgav1.ConditionParamTypeRef{"x": pt(openfgav1.ConditionParamTypeRef_TypeName(99))}
		case 4:
			c.Parameters = map[string]*openfgav1.ConditionParamTypeRef{"x": pt(openfgav1.ConditionParamTypeRef_TYPE_NAME_MAP), "y": pt(openfgav1.ConditionParamTypeRef_TYPE_NAME_LIST,
				pt(openfgav1.ConditionParamTypeRef_TYPE_NAME_INT), pt(openfgav1.ConditionParamTypeRef_TYPE_NAME_INT))}
		case 5:
			c.Parameters = map[string]*openfgav1.ConditionParamTypeRef{"x": nil, "": pt(openfgav1.ConditionParamTypeRef_TYPE_NAME_INT), "a.b": pt(openfgav1.ConditionParamTypeRef_TYPE_NAME_INT)}
		default:
			c.Parameters = map[string]*openfgav1.ConditionParamTypeRef{"x": pt(openfgav1.ConditionParamTypeRef_TYPE_NAME_INT, pt(openfgav1.ConditionParamTypeRef_TYPE_NAME_INT))}
		}
		return condModel(store, c, "c"), fmt.Sprintf("cel-params-%d", sub)
	case "cel-generic-depth":
		d := []int{5, 100, 500, 4000}[r.Intn(4)]
		outer := []openfgav1.ConditionParamTypeRef_TypeName{openfgav1.ConditionParamTypeRef_TYPE_NAME_LIST, openfgav1.ConditionParamTypeRef_TYPE_NAME_MAP}[r.Intn(2)]
		c := &openfgav1.Condition{Name: "c", Expression: "l.size() > 0", Parameters: map[string]*openfgav1.ConditionParamTypeRef{"l": deepGeneric(d, outer)}}
		return condModel(store, c, "c"), fmt.Sprintf("cel-generic-depth-%d", d)
	case "name-huge":
		n := hugeLen(r)
		big := strings.Repeat("n", n)
		sub := r.Intn(4)
		switch sub {
		case 0:
			return modelReq(store, nil, user, newT(big).rel("viewer", uThis(), ref("user"))), "name-huge-type"
		case 1:
			return modelReq(store, nil, user, newT("doc").rel(big, uThis(), ref("user")).rel("viewer", uComputed(big))), "name-huge-relation"
		case 2:
			c := &openfgav1.Condition{Name: big, Expression: "x < 10", Parameters: stdParams()}
			return condModel(store, c, big), "name-huge-condition"
		default:
			c := &openfgav1.Condition{Name: "c", Expression: big + " < 10", Parameters: map[string]*openfgav1.ConditionParamTypeRef{big: pt(openfgav1.ConditionParamTypeRef_TYPE_NAME_INT)}}
			return condModel(store, c, "c"), "name-huge-param"
		}
	case "name-separators":
		bad := specials[r.Intn(len(specials))]
		sub := r.Intn(3)
		switch sub {
		case 0:
			return modelReq(store, nil, user, newT(bad).rel("viewer", uThis(), ref("user"))), "name-separators-type"
		case 1:
			return modelReq(store, nil, user, newT("doc").rel(bad, uThis(), ref("user"))), "name-separators-relation"
		default:
			c := &openfgav1.Condition{Name: bad, Expression: "x < 10", Parameters: stdParams()}
			return condModel(store, c, bad), "name-separators-condition"
		}
	case "schema-version":
		req := modelReq(store, nil, user, newT("doc").rel("viewer", uThis(), ref("user")))
		req.SchemaVersion = []string{"", "1.0", "1.2", "2.0", "9.9", "1.1.1", "v1.1", " 1.1", strings.Repeat("1", 10000), "1.1\x00"}[r.Intn(10)]
		if r.Intn(2) == 0 { // 1.0-style model: no metadata
			req.TypeDefinitions[1].Metadata = nil
		}
		return req, kind
	case "nil-pieces":
		sub := r.Intn(14)
		doc := newT("doc")
		switch sub {
		case 0:
			doc.rel("viewer", &openfgav1.Userset{})
		case 1:
			doc.rel("viewer", uUnion())
		case 2:
			doc.rel("viewer", uUnion(uThis()), ref("user"))
		case 3:
			doc.rel("viewer", uUnion(uThis(), nil), ref("user"))
		case 4:
			doc.rel("viewer", uDiff(nil, uThis()), ref("user"))
		case 5:
			doc.rel("viewer", uDiff(uThis(), nil), ref("user"))
		case 6:
			doc.rel("viewer", &openfgav1.Userset{Userset: &openfgav1.Userset_TupleToUserset{TupleToUserset: &openfgav1.TupleToUserset{}}})
		case 7:
			doc.rel("viewer", &openfgav1.Userset{Userset: &openfgav1.Userset_ComputedUserset{ComputedUserset: &openfgav1.ObjectRelation{Object: "doc:1", Relation: "viewer"}}})
		case 8:
			doc.rel("viewer", uThis(), &openfgav1.RelationReference{})
		case 9:
			doc.rel("viewer", uThis(), &openfgav1.RelationReference{Type: "user", Condition: "ghost"})
		case 10:
			doc.rel("viewer", nil)
		case 11:
			doc.rel("viewer", &openfgav1.Userset{Userset: &openfgav1.Userset_Union{}})
		case 12:
			doc.rel("viewer", &openfgav1.Userset{Userset: &openfgav1.Userset_Difference{}})
		default:
			doc.rel("viewer", uThis(), nil, ref("user"))
		}
		req := modelReq(store, nil, user, doc)
		if sub == 13 {
			req.TypeDefinitions = append(req.TypeDefinitions, nil)
		}
		return req, fmt.Sprintf("nil-pieces-%d", sub)
	case "dup-types":
		return modelReq(store, nil, user, newT("doc").rel("viewer", uThis(), ref("user")), newT("doc").rel("editor", uThis(), ref("user")), newT("user")), kind
	case "metadata-mismatch":
		req := modelReq(store, nil, user, newT("doc").rel("viewer", uThis(), ref("user")).rel("editor", uComputed("viewer")))
		td := req.TypeDefinitions[1]
		switch r.Intn(4) {
		case 0:
			td.Metadata.Relations["ghost"] = &openfgav1.RelationMetadata{DirectlyRelatedUserTypes: []*openfgav1.RelationReference{ref("user")}}
		case 1:
			delete(td.Metadata.Relations, "viewer")
		case 2:
			td.Metadata.Relations["editor"] = &openfgav1.RelationMetadata{DirectlyRelatedUserTypes: []*openfgav1.RelationReference{ref("user")}}
		default:
			td.Metadata.Relations["viewer"] = nil
		}
		return req, kind
	case "expo-chain":
		// r_i and q_i each mention both r_{i-1} and q_{i-1}: 2^depth sub-problems unless memoised
		n := []int{10, 14, 24, 40}[r.Intn(4)]
		op := []func(...*openfgav1.Userset) *openfgav1.Userset{uInter, uUnion}[r.Intn(2)]
		doc := newT("doc").rel("r0", uThis(), ref("user"), refWild("user")).rel("q0", uThis(), ref("user"), refWild("user"))
		for i := 1; i <= n; i++ {
			doc.rel(fmt.Sprintf("r%d", i), op(uComputed(fmt.Sprintf("r%d", i-1)), uComputed(fmt.Sprintf("q%d", i-1))))
			doc.rel(fmt.Sprintf("q%d", i), op(uComputed(fmt.Sprintf("q%d", i-1)), uComputed(fmt.Sprintf("r%d", i-1))))
		}
		return modelReq(store, nil, user, doc), fmt.Sprintf("expo-chain-%d", n)
	case "near-size-limit":
		// a valid model just under / over the 256 KiB limit
		target := []int{250_000, 262_000, 270_000}[r.Intn(3)]
		doc := newT("doc")
		name := func(i int) string { return fmt.Sprintf("relation_%s_%d", strings.Repeat("x", 200), i) }
		i := 0
		for size := 0; size < target; i++ {
			doc.rel(name(i), uThis(), ref("user"))
			size += 2*len(name(i)) + 24
		}
		return modelReq(store, nil, user, doc), fmt.Sprintf("near-size-limit-%d", target)
	case "empty-model":
		req := &openfgav1.WriteAuthorizationModelRequest{StoreId: store, SchemaVersion: "1.1"}
		if r.Intn(2) == 0 {
			req.TypeDefinitions = []*openfgav1.TypeDefinition{{}}
		}
		return req, kind
	case "restr-unknown":
		doc := newT("doc").rel("viewer", uThis(), ref("ghost"), refRel("user", "ghostrel"), refRel("ghost", "member"), refWild("ghost"), refRel("doc", "viewer"))
		return modelReq(store, nil, user, doc), kind
	}
	// "valid-mutated": the valid generated model; the caller applies byte-level string mutations
	req := &openfgav1.WriteAuthorizationModelRequest{StoreId: store, SchemaVersion: "1.1"}
	if base != nil {
		b := proto.Clone(base).(*openfgav1.AuthorizationModel)
		req.TypeDefinitions, req.Conditions = b.GetTypeDefinitions(), b.GetConditions()
	}
	return req, "valid-mutated"
}

// modelNodes lists (type, relation) pairs of a model request in a deterministic order (bounded).
func modelNodes(req *openfgav1.WriteAuthorizationModelRequest) [][2]string {
	var out [][2]string
	for _, td := range req.GetTypeDefinitions() {
		var rels []string
		for rn := range td.GetRelations() {
			rels = append(rels, rn)
		}
		sort.Strings(rels)
		if len(rels) > 60 {
			// keep the extremes: first, last and a spread in between
			keep := append([]string{}, rels[:20]...)
			for i := 20; i < len(rels)-20; i += (len(rels) - 40) / 20 {
				keep = append(keep, rels[i])
			}
			rels = append(keep, rels[len(rels)-20:]...)
		}
		for _, rn := range rels {
			out = append(out, [2]string{td.GetType(), rn})
		}
		if len(out) > 400 {
			break
		}
	}
	return out
}
