package c19

import (
	"context"
	"fmt"
	"math/rand"
	"runtime"
	"strings"
	"time"

	"google.golang.org/grpc/metadata"
	"google.golang.org/protobuf/proto"

	"github.com/openfga/openfga/verifharness/drive"
)

// Retention probes: the fine-grained half of the memory oracle. A probe repeats ONE request shape K
// times, each time with a fresh, never-seen-before string appended to one string field (a short one
// that passes length validation, or a 50 KB one), and measures the live heap after a forced GC
// before, half-way and after. A server that keeps something per distinct hostile string (a map keyed
// by it, a metric label, an unbounded cache) shows the same growth in both halves.

type probeRes struct {
	RPC     string         `json:"rpc"`
	Path    string         `json:"path"`
	Size    int            `json:"junk_bytes"`
	K       int            `json:"k"`
	H0      uint64         `json:"live0"`
	H1      uint64         `json:"live1"`
	H2      uint64         `json:"live2"`
	Codes   map[string]int `json:"codes"`
	Sample  string         `json:"sample_request"`
	Skipped string         `json:"skipped,omitempty"`
}

type probeDef struct {
	rpc  string
	slot int
	path string
	size int
}

// probeRPCs: every RPC except the ones whose success legitimately creates a new object per call
// regardless of the hostile string (CreateStore) and the pseudo RPC.
func probeRPCs() []string {
	var out []string
	for _, d := range rpcTable {
		if d.name == rpcDSWrite || d.name == "CreateStore" || d.name == "DeleteStore" {
			continue
		}
		out = append(out, d.name)
	}
	return out
}

func (rn *runner) probeBase(rpc string, seed int64) *hreq {
	r := rand.New(rand.NewSource(seed))
	st := rn.st.stores[0]
	if r.Intn(4) == 0 {
		st = rn.st.stores[len(rn.st.stores)-1] // the typed store
	}
	h := &hreq{rpc: rpc, store: st}
	rn.gen.build(r, h, st, false)
	return h
}

// probeList enumerates (rpc, string slot, size) deterministically.
func (rn *runner) probeList() []probeDef {
	var out []probeDef
	for k, rpc := range probeRPCs() {
		h := rn.probeBase(rpc, rn.sp.Seed+int64(k))
		if h.msg == nil {
			continue
		}
		var slots []strSlot
		collectStrings(h.msg.ProtoReflect(), "", 0, true, &slots)
		seen := map[string]bool{}
		for i, sl := range slots {
			if seen[sl.path] || strings.Contains(sl.path, "source_info") || strings.HasSuffix(sl.path, ".module") {
				continue
			}
			seen[sl.path] = true
			for _, size := range []int{24, 50_000} {
				out = append(out, probeDef{rpc: rpc, slot: i, path: sl.path, size: size})
			}
		}
	}
	return out
}

func liveHeap() uint64 {
	runtime.GC()
	runtime.GC()
	var ms runtime.MemStats
	runtime.ReadMemStats(&ms)
	return ms.HeapAlloc
}

var probeCounter int

func (rn *runner) runProbe(pd probeDef, k int, rpcIndex int) probeRes {
	res := probeRes{RPC: pd.rpc, Path: pd.path, Size: pd.size, K: k, Codes: map[string]int{}}
	seed := rn.sp.Seed + int64(rpcIndex)
	one := func() bool {
		probeCounter++
		h := rn.probeBase(pd.rpc, seed)
		var slots []strSlot
		collectStrings(h.msg.ProtoReflect(), "", 0, true, &slots)
		if pd.slot >= len(slots) {
			res.Skipped = "slot vanished"
			return false
		}
		sl := slots[pd.slot]
		uniq := fmt.Sprintf("u%08x", probeCounter*2654435761)
		junk := uniq + strings.Repeat("j", max(0, pd.size-len(uniq)))
		sl.set(sl.get() + junk)
		send, nowire, _ := wireCopy(h.msg)
		if send == nil {
			res.Skipped = "nowire: " + nowire
			return false
		}
		if res.Sample == "" {
			res.Sample = render(h.msg, 700)
		}
		ok := drive.Watch(time.Duration(float64(rn.sp.WatchSec)*rn.slowdown())*time.Second, func() {
			ctx, cancel := context.WithTimeout(context.Background(), time.Second)
			defer cancel()
			if h.md != nil {
				ctx = metadata.NewIncomingContext(ctx, metadata.New(h.md))
			}
			var resp proto.Message
			err := drive.Guard(func() error {
				var err error
				resp, err = rpcByName(h.rpc).call(ctx, rn.srv.S, send)
				return err
			})
			res.Codes[classify(resp, err).code]++
		})
		if !ok {
			res.Skipped = "request hung"
			return false
		}
		return true
	}
	for i := 0; i < 10; i++ { // warm-up: lazy initialisation is not retention
		if !one() {
			return res
		}
	}
	res.H0 = liveHeap()
	for i := 0; i < k; i++ {
		if !one() {
			return res
		}
	}
	res.H1 = liveHeap()
	for i := 0; i < k; i++ {
		if !one() {
			return res
		}
	}
	res.H2 = liveHeap()
	return res
}

// retainMain executes the probes selected by the spec and journals one "p" line per probe.
func (rn *runner) retainMain() {
	rpcIdx := map[string]int{}
	for k, n := range probeRPCs() {
		rpcIdx[n] = k
	}
	list := rn.probeList()
	for i, pd := range list {
		// 50 KB probes are cheap (40 repetitions per half show a kept string): all of them run, spread over
		// the children; short-string probes need many repetitions and are sampled with the stride
		k := 25
		if pd.size > 1000 {
			if (i/2)%rn.sp.ProbeChildren != rn.sp.ProbeChild {
				continue
			}
		} else {
			k = rn.sp.ProbeK
			j := i / 2
			if j%rn.sp.ProbeStride != 0 || (j/rn.sp.ProbeStride)%rn.sp.ProbeChildren != rn.sp.ProbeChild {
				continue
			}
		}
		rn.cur.Store(int64(i))
		rn.j.put(jline{K: "q", I: i, RPC: pd.rpc, Class: fmt.Sprintf("retain:%s+%dB", pd.path, pd.size)})
		start := time.Now()
		res := rn.runProbe(pd, k, rpcIdx[pd.rpc])
		rn.j.put(jline{K: "r", I: i, Code: "probe", Probe: &res, Ms: time.Since(start).Milliseconds()})
	}
}
